/-
Changing the fields of a tunnel that is not in the main hostmap (pending, new, or dead), and the pending side.
-/
import Nebula.Lemmas.HostMapInv

namespace Nebula.HostMap
open FMap

theorem obj_set_ne (s : State) (h x : Nat) (o : Obj) (hx : x ≠ h) (t : State)
    (ho : ∀ y, t.objs.get y = if h = y then some o else s.objs.get y) : t.obj x = s.obj x := by
  simp [State.obj, ho, Ne.symm hx]

theorem obj_set_eq (s : State) (h : Nat) (o : Obj) (t : State)
    (ho : ∀ y, t.objs.get y = if h = y then some o else s.objs.get y) : t.obj h = o := by
  simp [State.obj, ho]

theorem hostList_congr {s t : State} (h1 : t.hosts = s.hosts) (h2 : t.more = s.more) (a : Nat) :
    hostList t a = hostList s a := by simp [hostList, h1, h2]

/-- a tunnel that is not live is referenced nowhere in the main hostmap -/
theorem not_live_unref {ex : Option Nat} {s : State} (c : Core ex s) {h : Nat} (hn : ¬ Live s h) (hex : some h ≠ ex) :
    (∀ a, h ∉ hostList s a) ∧ (∀ i, s.indexes.get i ≠ some h) ∧ (∀ i, s.rindexes.get i ≠ some h) ∧
    (∀ i, s.relays.get i ≠ some h) := by
  refine ⟨fun a hm => ?_, fun i hi => ?_, fun i hi => ?_, fun i hi => ?_⟩
  · rcases (c.listOk a h hm).1 with e | l
    · exact hex e
    · exact hn l
  · have := (c.idx i h hi).1; subst this; exact hn hi
  · exact hn (c.ridx i h hi).1
  · exact hn (c.rel i h hi).1

/-- General update lemma: tunnel `h` is not live in `s`; `t` differs from `s` in `h`'s fields, in the pending maps and
in `next` only.  The pending entries of `t` either come from `s` (for other tunnels) or point to `h` with fields that
fit. -/
theorem core_update {ex : Option Nat} {s t : State} (c : Core ex s) (h : Nat) (o : Obj)
    (hn : ¬ Live s h) (hex : some h ≠ ex)
    (ho : ∀ y, t.objs.get y = if h = y then some o else s.objs.get y) (e1 : t.hosts = s.hosts) (e2 : t.more = s.more) (e3 : t.indexes = s.indexes)
    (e4 : t.rindexes = s.rindexes) (e5 : t.relays = s.relays) (e6 : t.rs = s.rs)
    (hnr : ∀ i, ((s.rstate h).byIdx.get i).isSome = false)
    (hv : ∀ a x, t.vpnIps.get a = some x →
      if x = h then (o.addrs = [a] ∧ s.indexes.get o.lidx ≠ some h) else s.vpnIps.get a = some x)
    (hp : ∀ i x, t.pidx.get i = some x →
      if x = h then (o.lidx = i ∧ i ≠ 0 ∧ s.indexes.get i = none ∧ o.ready = true) else s.pidx.get i = some x)
    (hnx : ∀ x, t.next ≤ x → s.next ≤ x ∧ x ≠ h)
    (hvr : ∀ a, t.vpnIps.get a = some h → o.ready = true → t.pidx.get o.lidx = some h)
    (hpk : ∀ i x, x ≠ h → s.pidx.get i = some x → t.pidx.get i = some x) : Core ex t := by
  obtain ⟨u1, u2, u3, u4⟩ := not_live_unref c hn hex
  have hl : ∀ a, hostList t a = hostList s a := hostList_congr e1 e2
  have objne : ∀ x, x ≠ h → t.obj x = s.obj x := fun x hx => obj_set_ne s h x o hx t ho
  have liveKeep : ∀ x, x ≠ h → (Live t x ↔ Live s x) := by
    intro x hx; simp only [Live, objne x hx, e3]
  have rst : ∀ x, t.rstate x = s.rstate x := fun x => by simp [State.rstate, e6]
  have notLiveH : ¬ Live t h := by
    intro l
    simp only [Live, obj_set_eq s h o t ho, e3] at l
    exact u2 _ l
  refine ⟨?_, ?_, ?_, ?_, ?_, ?_, ?_, ?_, ?_, ?_, ?_, ?_, ?_, ?_⟩
  · intro a l hm; rw [e2] at hm; rw [e1]; exact c.rep a l hm
  · intro a x hx
    rw [hl] at hx
    have hxh : x ≠ h := fun e => u1 a (e ▸ hx)
    rw [objne x hxh]
    obtain ⟨p1, p2⟩ := c.listOk a x hx
    exact ⟨p1.imp id (liveKeep x hxh).mpr, p2⟩
  · intro a; rw [hl]; exact c.nodup a
  · intro i x hx
    rw [e3] at hx
    have hxh : x ≠ h := fun e => u2 i (e ▸ hx)
    rw [objne x hxh]; exact c.idx i x hx
  · intro i x hx a ha
    rw [e3] at hx
    have hxh : x ≠ h := fun e => u2 i (e ▸ hx)
    rw [objne x hxh] at ha; rw [hl]; exact c.reach i x hx a ha
  · intro r x hx
    rw [e4] at hx
    have hxh : x ≠ h := fun e => u3 r (e ▸ hx)
    rw [objne x hxh]
    obtain ⟨p1, p2⟩ := c.ridx r x hx
    exact ⟨(liveKeep x hxh).mpr p1, p2⟩
  · intro i x hx
    rw [e5] at hx
    have hxh : x ≠ h := fun e => u4 i (e ▸ hx)
    rw [rst]
    obtain ⟨p1, p2⟩ := c.rel i x hx
    exact ⟨(liveKeep x hxh).mpr p1, p2⟩
  · intro x i hl hk
    have hxh : x ≠ h := by rintro rfl; exact notLiveH hl
    rw [rst] at hk; rw [e5]
    exact c.relOwn x i ((liveKeep x hxh).mp hl) hk
  · intro x; rw [rst]; exact c.rok x
  · intro x i hk
    rw [rst] at hk
    have hxh : x ≠ h := by
      rintro rfl
      rw [hnr i] at hk; cases hk
    obtain ⟨p1, p2, p3, p4⟩ := c.rsPend x i hk
    refine ⟨?_, ?_, ?_, p4⟩
    · apply Nat.lt_of_not_le; intro hle
      have := (hnx x hle).1; omega
    · intro j hj
      have := hp j x hj
      simp only [hxh, ↓reduceIte] at this
      exact p2 j this
    · intro a ha
      have := hv a x ha
      simp only [hxh, ↓reduceIte] at this
      exact p3 a this
  · intro i x hx
    have := hp i x hx
    by_cases hxh : x = h
    · subst hxh
      simp only [↓reduceIte] at this
      rw [obj_set_eq s x o t ho, e3]; exact this
    · simp only [hxh, ↓reduceIte] at this
      rw [objne x hxh, e3]; exact c.pidx i x this
  · intro a x hx
    have := hv a x hx
    by_cases hxh : x = h
    · subst hxh
      simp only [↓reduceIte] at this
      refine ⟨by rw [obj_set_eq s x o t ho]; exact this.1, ?_, hex⟩
      simp only [Live, obj_set_eq s x o t ho, e3]; exact this.2
    · simp only [hxh, ↓reduceIte] at this
      obtain ⟨p1, p2, p3⟩ := c.vpn a x this
      rw [objne x hxh]
      exact ⟨p1, fun l => p2 ((liveKeep x hxh).mp l), p3⟩
  · intro x hx
    obtain ⟨p1, p2⟩ := hnx x hx
    rw [ho]; simp [Ne.symm p2, c.fresh x p1]
  · intro a x hx hr
    by_cases hxh : x = h
    · subst hxh
      rw [obj_set_eq s x o t ho] at hr ⊢; exact hvr a hx hr
    · have := hv a x hx
      simp only [hxh, ↓reduceIte] at this
      rw [objne x hxh] at hr ⊢
      exact hpk _ x hxh (c.vpnReady a x this hr)

/-! ### `HandshakeManager.unlockedDeleteHostInfo` -/

theorem pendingLoop_spec (h : Nat) (l : List Nat) : ∀ s : State,
    let r := l.foldl (fun s a => if s.vpnIps.get a = some h then { s with vpnIps := s.vpnIps.del a } else s) s
    (∀ a, r.vpnIps.get a = if a ∈ l ∧ s.vpnIps.get a = some h then none else s.vpnIps.get a) ∧
    r.hosts = s.hosts ∧ r.more = s.more ∧ r.indexes = s.indexes ∧ r.rindexes = s.rindexes ∧ r.relays = s.relays ∧
    r.objs = s.objs ∧ r.pidx = s.pidx ∧ r.next = s.next ∧ r.rs = s.rs := by
  induction l with
  | nil => intro s; simp
  | cons x t ih =>
    intro s
    simp only [List.foldl_cons]
    generalize hs' : (if s.vpnIps.get x = some h then { s with vpnIps := s.vpnIps.del x } else s) = s'
    have fr : s'.hosts = s.hosts ∧ s'.more = s.more ∧ s'.indexes = s.indexes ∧ s'.rindexes = s.rindexes ∧
        s'.relays = s.relays ∧ s'.objs = s.objs ∧ s'.pidx = s.pidx ∧ s'.next = s.next ∧ s'.rs = s.rs := by
      rw [← hs']; split <;> simp
    have fv : ∀ a, s'.vpnIps.get a = if a = x ∧ s.vpnIps.get a = some h then none else s.vpnIps.get a := by
      intro a; rw [← hs']
      by_cases c : s.vpnIps.get x = some h
      · simp only [c, ↓reduceIte, get_del]
        by_cases e : x = a
        · subst e; simp [c]
        · simp [e, Ne.symm e]
      · simp only [c, ↓reduceIte]
        by_cases e : a = x
        · subst e; simp [c]
        · simp [e]
    obtain ⟨g1, g2, g3, g4, g5, g6, g7, g8, g9, g10⟩ := ih s'
    refine ⟨fun a => ?_, g2.trans fr.1, g3.trans fr.2.1, g4.trans fr.2.2.1, g5.trans fr.2.2.2.1,
      g6.trans fr.2.2.2.2.1, g7.trans fr.2.2.2.2.2.1, g8.trans fr.2.2.2.2.2.2.1, g9.trans fr.2.2.2.2.2.2.2.1,
      g10.trans fr.2.2.2.2.2.2.2.2⟩
    rw [g1 a, fv a]
    by_cases e : a = x
    · subst e
      by_cases c : s.vpnIps.get a = some h <;> simp [c]
    · simp [e]

structure PendingDeleteSpec (s : State) (h : Nat) (t : State) : Prop where
  vpnIps : ∀ a, t.vpnIps.get a = if a ∈ (s.obj h).addrs ∧ s.vpnIps.get a = some h then none else s.vpnIps.get a
  pidx : ∀ i, t.pidx.get i = if i = (s.obj h).lidx ∧ s.pidx.get i = some h then none else s.pidx.get i
  hosts : t.hosts = s.hosts
  more : t.more = s.more
  indexes : t.indexes = s.indexes
  rindexes : t.rindexes = s.rindexes
  relays : t.relays = s.relays
  objs : t.objs = s.objs
  next : t.next = s.next
  rs : t.rs = s.rs

theorem pendingDelete_spec (s : State) (h : Nat) : PendingDeleteSpec s h (pendingDelete s h) := by
  obtain ⟨g1, g2, g3, g4, g5, g6, g7, g8, g9, g10⟩ := pendingLoop_spec h (s.obj h).addrs s
  simp only [pendingDelete]
  generalize (s.obj h).addrs.foldl _ s = s1 at *
  by_cases c : s1.pidx.get (s.obj h).lidx = some h
  · simp only [c, ↓reduceIte]
    refine ⟨g1, fun i => ?_, g2, g3, g4, g5, g6, g7, g9, g10⟩
    simp only [get_del]
    rw [g8] at c ⊢
    by_cases e : (s.obj h).lidx = i
    · subst e; simp [c]
    · simp [e, Ne.symm e]
  · simp only [c, ↓reduceIte]
    refine ⟨g1, fun i => ?_, g2, g3, g4, g5, g6, g7, g9, g10⟩
    rw [g8] at c ⊢
    by_cases e : i = (s.obj h).lidx
    · subst e; simp [c]
    · simp [e]

/-- the pending-side delete keeps the invariant (any tunnel, also a stale or an established one) -/
theorem pendingDelete_core {s : State} (c : Core none s) (h : Nat) : Core none (pendingDelete s h) := by
  have d := pendingDelete_spec s h
  generalize pendingDelete s h = t at d
  have obj : ∀ x, t.obj x = s.obj x := fun x => by simp [State.obj, d.objs]
  have hl : ∀ a, hostList t a = hostList s a := hostList_congr d.hosts d.more
  have lv : ∀ x, Live t x ↔ Live s x := fun x => by simp [Live, obj, d.indexes]
  have rst : ∀ x, t.rstate x = s.rstate x := fun x => by simp [State.rstate, d.rs]
  refine ⟨?_, ?_, ?_, ?_, ?_, ?_, ?_, ?_, ?_, ?_, ?_, ?_, ?_, ?_⟩
  · intro a l hm; rw [d.more] at hm; rw [d.hosts]; exact c.rep a l hm
  · intro a x hx; rw [hl] at hx; rw [obj, lv]; exact c.listOk a x hx
  · intro a; rw [hl]; exact c.nodup a
  · intro i x hx; rw [d.indexes] at hx; rw [obj]; exact c.idx i x hx
  · intro i x hx a ha; rw [d.indexes] at hx; rw [obj] at ha; rw [hl]; exact c.reach i x hx a ha
  · intro r x hx; rw [d.rindexes] at hx; rw [obj, lv]; exact c.ridx r x hx
  · intro i x hx; rw [d.relays] at hx; rw [rst, lv]; exact c.rel i x hx
  · intro x i hl hk; rw [lv] at hl; rw [rst] at hk; rw [d.relays]; exact c.relOwn x i hl hk
  · intro x; rw [rst]; exact c.rok x
  · intro x i hk
    rw [rst] at hk
    obtain ⟨p1, p2, p3, p4⟩ := c.rsPend x i hk
    refine ⟨by rw [d.next]; exact p1, fun j hj => ?_, fun a ha => ?_, p4⟩
    · rw [d.pidx] at hj; split at hj
      · cases hj
      · exact p2 j hj
    · rw [d.vpnIps] at ha; split at ha
      · cases ha
      · exact p3 a ha
  · intro i x hx
    rw [d.pidx] at hx
    split at hx
    · cases hx
    · rw [obj, d.indexes]; exact c.pidx i x hx
  · intro a x hx
    rw [d.vpnIps] at hx
    split at hx
    · cases hx
    · rw [obj, lv]; exact c.vpn a x hx
  · intro x hx; rw [d.next] at hx; rw [d.objs]; exact c.fresh x hx
  · intro a x hx hr
    rw [d.vpnIps] at hx
    split at hx
    · cases hx
    · rename_i hn
      rw [obj] at hr ⊢
      have hp := c.vpnReady a x hx hr
      rw [d.pidx, if_neg]; exact hp
      rintro ⟨_, h2⟩
      rw [hp] at h2
      have : x = h := Option.some.inj h2
      subst this
      exact hn ⟨by rw [(c.vpn a x hx).1]; simp, hx⟩

end Nebula.HostMap
