/-
Inversion lemmas for the success paths of `Model/Machine`: exactly what a successful
`ProcessPacket` / `Initiate` did, in terms of `processPayload`, `buildResponse`, `marshalOutgoing`.
-/
import Nebula.Lemmas.MachineStep

namespace Nebula.Machine
open Nebula.Wire Nebula.Spec.Handshake

/-- A successful `ProcessPacket`, taken apart. -/
theorem pp_ok_inv (b : Bool) (c : Cfg) (s s' : St) (len st : Nat) (rd : ReadOut) (co : CertOut) (now : Nat)
    (wr : WriteOut) (sent : Option Sent) (res : Option Result)
    (h : processPacketG b c s len st rd co now wr = (s', .ok sent res)) :
    reachesNoise c s len st = true ∧ s.failed = false ∧
    ∃ msg k1 k2 ps s1, rd = .ok msg k1 k2 ps ∧
      processPayload c { s with msgIdx := s.msgIdx + 1 } msg (peerMsgFlags c { s with msgIdx := s.msgIdx + 1 }) ps co = (s1, none) ∧
      ((k1 = true ∧ k2 = true ∧ sent = none ∧ s' = s1 ∧ res = some (completed c s1 .cs1 .cs2) ∧
          s1.payloadSet = true ∧ s1.remoteCertSet = true) ∨
       (k1 = false ∧ k2 = false ∧ ∃ x dk ek, buildResponse c s1 now wr = .ok (s', x, dk, ek) ∧ sent = some x ∧
          ((dk = true ∧ ek = true ∧ res = some (completed c s' .cs2 .cs1)) ∨
           (dk = false ∧ ek = false ∧ res = none)))) := by
  unfold processPacketG at h
  split at h
  · simp at h
  · rename_i hfail
    split at h
    · simp at h
    · rename_i hlen
      split at h
      · simp at h
      · rename_i hsub
        split at h
        · simp at h
        · rename_i hinit
          have h1 : s.failed = false := by simpa using hfail
          have hreach : reachesNoise c s len st = true := by
            have h2 : Gen.header_Len ≤ len := by omega
            have h3 : st = c.subtype := by simpa using hsub
            have h4 : (c.initiator && decide (s.msgIdx = 0)) = false := by
              cases hi : c.initiator <;> simp [hi] at hinit ⊢
              exact hinit
            simp [reachesNoise, h1, h2, h3, h4]
          refine ⟨hreach, h1, ?_⟩
          split at h
          · simp at h
          · rename_i msg k1 k2 ps
            simp only at h
            split at h
            · simp at h
            · rename_i s1 hpp
              refine ⟨msg, k1, k2, ps, s1, rfl, hpp, ?_⟩
              split at h
              · rename_i hk
                split at h
                · simp at h
                · rename_i hk2
                  split at h
                  · simp at h
                  · rename_i s2 hrc
                    obtain ⟨rfl, hp, hc⟩ := requireComplete_ok hrc
                    simp at h
                    obtain ⟨rfl, rfl, rfl⟩ := h
                    simp at hk2
                    exact Or.inl ⟨hk2.1, hk2.2, rfl, rfl, rfl, hp, hc⟩
              · rename_i hk
                simp at hk
                split at h
                · simp at h
                · rename_i s2 x dk ek hbr
                  refine Or.inr ⟨hk.1, hk.2, x, dk, ek, ?_⟩
                  split at h
                  · rename_i hk3
                    split at h
                    · simp at h
                    · rename_i hk2
                      split at h
                      · simp at h
                      · rename_i s3 hrc
                        obtain ⟨rfl, hp, hc⟩ := requireComplete_ok hrc
                        simp at h
                        obtain ⟨rfl, rfl, rfl⟩ := h
                        simp at hk2
                        exact ⟨hbr, rfl, Or.inl ⟨hk2.2, hk2.1, rfl⟩⟩
                  · rename_i hk3
                    simp at hk3
                    simp at h
                    obtain ⟨rfl, rfl, rfl⟩ := h
                    exact ⟨hbr, rfl, Or.inr ⟨hk3.2, hk3.1, rfl⟩⟩

/-- A failed `ProcessPacket` either left the Machine untouched or marked it failed. -/
theorem pp_err_inv (c : Cfg) (s s' : St) (len st : Nat) (rd : ReadOut) (co : CertOut) (now : Nat)
    (wr : WriteOut) (e : Err) (h : processPacket c s len st rd co now wr = (s', .err e)) :
    s' = s ∨ s'.failed = true := by
  cases hf : s'.failed with
  | true => exact Or.inr rfl
  | false => exact Or.inl (pp_reject c s s' len st rd co now wr e h hf).1

end Nebula.Machine

namespace Nebula.Machine
open Nebula.Wire Nebula.Spec.Handshake

/-- A successful `processPayload` of a payload-carrying message: the remote index is the one the
peer's payload names (non-zero), nothing else of interest moves. -/
theorem processPayload_ok_fields {c : Cfg} {s s' : St} {msg : Bytes} {fc : Bool} {ps : Bytes} {co : CertOut}
    (h : processPayload c s msg ⟨true, fc⟩ ps co = (s', none)) :
    ∃ p, Payload.unmarshalPayload msg = .ok p ∧
      s'.remoteIndex = (if c.initiator then p.responderIndex else p.initiatorIndex) ∧ s'.remoteIndex ≠ 0 ∧
      s'.localIndex = s.localIndex ∧ s'.msgIdx = s.msgIdx ∧ s'.indexAllocated = s.indexAllocated ∧
      s'.failed = s.failed := by
  unfold processPayload at h
  split at h
  · simp at h
  · split at h
    · rename_i p hp
      simp only at h
      split at h
      · simp at h
      · split at h
        · simp at h
        · split at h
          · simp at h
          · rename_i s1 heq
            have hidx : s1.remoteIndex = (if c.initiator then p.responderIndex else p.initiatorIndex) ∧
                s1.remoteIndex ≠ 0 ∧ s1.localIndex = s.localIndex ∧ s1.msgIdx = s.msgIdx ∧
                s1.indexAllocated = s.indexAllocated ∧ s1.failed = s.failed := by
              unfold processIndex at heq
              simp only [if_true] at heq
              by_cases hz : (if c.initiator then p.responderIndex else p.initiatorIndex) = 0
              · simp [hz, fail] at heq
              · simp only [hz, if_false, Prod.mk.injEq, and_true] at heq
                subst heq
                exact ⟨rfl, hz, rfl, rfl, rfl, rfl⟩
            refine ⟨p, hp, ?_⟩
            split at h
            · obtain ⟨_, _, _, _, _, _, _, _, hf, _, hri, hmi, hli, hia, _⟩ := validateCert_ok h
              rw [hri, hli, hmi, hia, hf]
              exact hidx
            · simp at h; rw [← h]; exact hidx
    · simp at h

/-- A successful `buildResponse` for a message that carries payload and certificate (IX: both). -/
theorem buildResponse_ix {c : Cfg} {s s' : St} {now : Nat} {wr : WriteOut} {x : Sent} {dk ek : Bool}
    (hfl : myMsgFlags c s = ⟨true, true⟩) (h : buildResponse c s now wr = .ok (s', x, dk, ek)) :
    wr = .ok dk ek ∧ s'.msgIdx = s.msgIdx + 1 ∧ s'.failed = s.failed ∧ s'.remoteIndex = s.remoteIndex ∧
    s'.indexAllocated = true ∧
    (if s.indexAllocated then s'.localIndex = s.localIndex else c.alloc = some s'.localIndex) ∧
    x.initiatorIndex = (if c.initiator then s'.localIndex else s'.remoteIndex) ∧
    x.responderIndex = (if c.initiator then 0 else s'.localIndex) ∧
    x.time = now ∧ x.hasCert = true ∧ x.certVersion = c.credVersion s.myVersion := by
  unfold buildResponse marshalOutgoing at h
  rw [hfl] at h
  simp only [Bool.not_true, Bool.and_self, Bool.false_eq_true, if_false, if_true] at h
  by_cases hc : c.haveCred s.myVersion = true
  · cases wr with
    | err =>
      cases ha : s.indexAllocated <;> cases hal : c.alloc <;> simp [ha, hal, hc] at h
    | ok k1 k2 =>
      cases ha : s.indexAllocated <;> cases hal : c.alloc <;> simp [ha, hal, hc] at h
      all_goals (obtain ⟨rfl, rfl, rfl, rfl⟩ := h; simp)
  · cases ha : s.indexAllocated <;> cases hal : c.alloc <;> simp [ha, hal, hc] at h

end Nebula.Machine
