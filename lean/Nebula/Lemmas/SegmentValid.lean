/-
Checksum validity of whole segments (C24), from the normal form `IP part ++ (L4 part ++ payload)`:
IPv4 header checksum, TCP checksum, UDP checksum (with the RFC 768 zero rule).
-/
import Nebula.Lemmas.SegmentInv
import Nebula.Lemmas.SegmentCsum

namespace Nebula.Lemmas.SegmentValid
open Nebula.Csum Nebula.Segment Nebula.Gen Nebula.Lemmas.Segment Nebula.Lemmas.SegmentList
open Nebula.Lemmas.SegmentRun Nebula.Lemmas.SegmentNF Nebula.Lemmas.SegmentInv Nebula.Lemmas.SegmentCsum

/-! ### IPv4 header checksum of a whole segment -/

theorem patchIP_take (X : List UInt8) (isV4 : Bool) (hdrLen spl origID baseIP i n : Nat)
    (h12 : 12 ≤ n) (hn : n ≤ X.length) :
    (patchIP X isV4 hdrLen spl origID baseIP i).take n = patchIP (X.take n) isV4 hdrLen spl origID baseIP i := by
  have hA : (X.take n).length = n := by simp; omega
  conv => lhs; rw [← List.take_append_drop n X]
  rw [patchIP_left _ _ _ _ _ _ _ _ (by omega)]
  have := patchIP_length (X.take n) isV4 hdrLen spl origID baseIP i (by omega)
  rw [List.take_append_of_le_length (by omega), List.take_of_length_le (by omega)]

/-- The first `ihl` bytes of a segment in normal form verify as an IPv4 header. -/
theorem seg_ipv4_verifies (pkt rest : List UInt8) (hdrLen cs spl origID i ihl : Nat)
    (h20 : 20 ≤ ihl) (hle : ihl ≤ cs) (hcs : cs ≤ hdrLen) (hl : hdrLen ≤ pkt.length)
    (hfit : hdrLen + spl ≤ 65535) :
    verifies ((patchIP ((pkt.take hdrLen).take cs) true hdrLen spl origID (ipBaseSum (pkt.take ihl)) i
      ++ rest).take ihl) 0 := by
  have hX : ((pkt.take hdrLen).take cs).length = cs := by simp; omega
  have lx := patchIP_length ((pkt.take hdrLen).take cs) true hdrLen spl origID (ipBaseSum (pkt.take ihl)) i
    (by omega)
  rw [List.take_append_of_le_length (by omega), patchIP_take _ _ _ _ _ _ _ _ (by omega) (by omega)]
  have e : ((pkt.take hdrLen).take cs).take ihl = pkt.take ihl := by
    rw [List.take_take, List.take_take]
    congr 1; omega
  rw [e]
  unfold ipBaseSum
  exact ipv4_patch_verifies (pkt.take ihl) hdrLen spl origID i (by simp; omega) hfit (by omega)

/-! ### TCP checksum -/

theorem tcp_arith (WT WTd WP WA h4 h6 x12 fl0 ck0 hi lo fl f c1 c2 c3 s b L wide : Nat)
    (hh4 : h4 < 65536) (hh6 : h6 < 65536) (hfl0 : fl0 < 256) (hck0 : ck0 < 65536) (hf : f < 65536)
    (eqT : WTd + h4 + h6 + (x12 * 256 + fl0) + ck0 = WT + hi + lo + (x12 * 256 + fl) + (65535 - f))
    (hc1 : c1 % 65535 = WT % 65535)
    (hs : s = c1 + (65535 - h4) + (65535 - h6) + (65535 - fl0) + (65535 - ck0))
    (hb : b % 65535 = s % 65535) (hc2 : c2 % 65535 = WP % 65535) (hc3 : c3 % 65535 = WA % 65535)
    (hw : wide = b + c2 + (c3 + 6) + (hi * 65536 + lo) + fl + L)
    (hfw : f % 65535 = wide % 65535) :
    (WTd + WP + (WA + 6 + L)) % 65535 = 0 := by
  omega

/-- The L4 bytes of a TCP segment verify against the pseudo-header built from the original addresses. -/
theorem tcp_l4_verifies (T P addrs : List UInt8) (seq fl baseProto : Nat)
    (hT : 18 ≤ T.length) (hTe : T.length % 2 = 0) (hseq : seq < 4294967296) (hfl : fl < 256)
    (hfit : T.length + P.length ≤ 65535) (hbp : baseProto = checksum addrs 0 + 6) :
    let wide := tcpBaseSum T + checksum P 0 + baseProto + seq + fl + (T.length + P.length)
    let wide1 := wide % 4294967296 + wide / 4294967296
    let wide2 := wide1 % 4294967296 + wide1 / 4294967296
    verifies (tcpL4 T seq fl (foldComplement (wide2 % 4294967296)) ++ P)
      (pseudoSum addrs 6 (T.length + P.length)) := by
  intro wide wide1 wide2
  -- bounds on the accumulator
  have hc1lt := checksum_lt T 0
  have hc2lt := checksum_lt P 0
  have hc3lt := checksum_lt addrs 0
  have h4 := be16_lt T 4
  have h6 := be16_lt T 6
  have h16 := be16_lt T 16
  have h13 := byteAt_lt T 13
  have hs32 : (checksum T 0 + compl16 (be16 T 4) + compl16 (be16 T 6) + compl16 (byteAt T 13)
      + compl16 (be16 T 16)) % 4294967296
      = checksum T 0 + compl16 (be16 T 4) + compl16 (be16 T 6) + compl16 (byteAt T 13) + compl16 (be16 T 16) := by
    unfold compl16; omega
  have hbase : tcpBaseSum T = fold16 (checksum T 0 + compl16 (be16 T 4) + compl16 (be16 T 6)
      + compl16 (byteAt T 13) + compl16 (be16 T 16)) := by
    unfold tcpBaseSum; rw [hs32, fold2_eq _ (by unfold compl16; omega)]
  have hb := fold16_rep (checksum T 0 + compl16 (be16 T 4) + compl16 (be16 T 6)
      + compl16 (byteAt T 13) + compl16 (be16 T 16))
  rw [← hbase] at hb
  have hwlt : wide < 4294967296 + 400000 := by
    show tcpBaseSum T + checksum P 0 + baseProto + seq + fl + (T.length + P.length) < _
    omega
  have r1 := wide_fold_rep wide
  have r2 := wide_fold_rep wide1
  have hw1 : wide1 < 4294967296 := by
    show wide % 4294967296 + wide / 4294967296 < _
    omega
  have hw2 : wide2 = wide1 := by
    show wide1 % 4294967296 + wide1 / 4294967296 = wide1
    omega
  have hmod : wide2 % 4294967296 = wide1 := by rw [hw2]; omega
  rw [hmod, foldComplement_eq _ hw1]
  have hf := fold16_rep wide1
  generalize hfdef : fold16 wide1 = f at hf
  -- the four writes
  unfold tcpL4 set32
  simp only [Nat.reduceAdd]
  have hhi : seq / 65536 % 65536 = seq / 65536 := by omega
  rw [hhi]
  have l1 := set16_length T 4 (seq / 65536) (by omega)
  have e1 := wsum_set16 T 4 (seq / 65536) (by decide) (by omega) (by omega)
  have g1a := be16_set16_other T 4 (seq / 65536) 6 (by omega) (by omega)
  have g1b := be16_set16_other T 4 (seq / 65536) 12 (by omega) (by omega)
  have g1c := be16_set16_other T 4 (seq / 65536) 16 (by omega) (by omega)
  have d1 : (set16 T 4 (seq / 65536)).getD 12 0 = T.getD 12 0 := by
    rw [getD_set16 _ _ _ _ (by omega)]; simp
  generalize set16 T 4 (seq / 65536) = T1 at *
  have l2 := set16_length T1 6 (seq % 65536) (by omega)
  have e2 := wsum_set16 T1 6 (seq % 65536) (by decide) (by omega) (by omega)
  have g2b := be16_set16_other T1 6 (seq % 65536) 12 (by omega) (by omega)
  have g2c := be16_set16_other T1 6 (seq % 65536) 16 (by omega) (by omega)
  have d2 : (set16 T1 6 (seq % 65536)).getD 12 0 = T1.getD 12 0 := by
    rw [getD_set16 _ _ _ _ (by omega)]; simp
  generalize set16 T1 6 (seq % 65536) = T2 at *
  rw [show (13 : Nat) = 12 + 1 from rfl, set8_as_set16 T2 12 fl (by omega) hfl]
  have hx12 : (T2.getD 12 0).toNat = byteAt T 12 := by rw [d2, d1]; rfl
  rw [hx12]
  have hb12 : be16 T 12 = byteAt T 12 * 256 + byteAt T 13 := rfl
  have hx := byteAt_lt T 12
  have l3 := set16_length T2 12 (byteAt T 12 * 256 + fl) (by omega)
  have e3 := wsum_set16 T2 12 (byteAt T 12 * 256 + fl) (by decide) (by omega) (by omega)
  have g3c := be16_set16_other T2 12 (byteAt T 12 * 256 + fl) 16 (by omega) (by omega)
  generalize set16 T2 12 (byteAt T 12 * 256 + fl) = T3 at *
  have l4 := set16_length T3 16 (65535 - f) (by omega)
  have e4 := wsum_set16 T3 16 (65535 - f) (by decide) (by omega) (by omega)
  generalize set16 T3 16 (65535 - f) = T4 at *
  unfold verifies pseudoSum
  rw [wsum_append T4 P (by omega)]
  have eqT : wsum T4 + be16 T 4 + be16 T 6 + (byteAt T 12 * 256 + byteAt T 13) + be16 T 16
      = wsum T + seq / 65536 + seq % 65536 + (byteAt T 12 * 256 + fl) + (65535 - f) := by omega
  have hc1 := (checksum_rep T 0).1
  have hc2 := (checksum_rep P 0).1
  have hc3 := (checksum_rep addrs 0).1
  simp only [Nat.add_zero] at hc1 hc2 hc3
  have hsdef : checksum T 0 + compl16 (be16 T 4) + compl16 (be16 T 6) + compl16 (byteAt T 13)
      + compl16 (be16 T 16) = checksum T 0 + (65535 - be16 T 4) + (65535 - be16 T 6) + (65535 - byteAt T 13)
        + (65535 - be16 T 16) := by unfold compl16; omega
  have hwide : wide = tcpBaseSum T + checksum P 0 + (checksum addrs 0 + 6)
      + (seq / 65536 * 65536 + seq % 65536) + fl + (T.length + P.length) := by
    show tcpBaseSum T + checksum P 0 + baseProto + seq + fl + (T.length + P.length) = _
    rw [hbp]; omega
  have hfw : f % 65535 = wide % 65535 := by
    have := hf.1.1; have := r1.1
    omega
  apply fold16_ffff
  · omega
  · have := tcp_arith (wsum T) (wsum T4) (wsum P) (wsum addrs) (be16 T 4) (be16 T 6) (byteAt T 12) (byteAt T 13)
      (be16 T 16) (seq / 65536) (seq % 65536) fl f (checksum T 0) (checksum P 0) (checksum addrs 0) _
      (tcpBaseSum T) (T.length + P.length) wide h4 h6 h13 h16 hf.2 eqT hc1 hsdef
      hb.1.1 hc2 hc3 hwide hfw
    omega

/-! ### UDP checksum -/

theorem udp_arith (D WA f c3 pf csum L b : Nat) (hf : f < 65536)
    (hfr : f % 65535 = (D + pf) % 65535) (hpf : pf % 65535 = b % 65535)
    (hb : b = c3 + 17 + L) (hc3 : c3 % 65535 = WA % 65535)
    (hcs : (65535 - f ≠ 0 ∧ csum = 65535 - f) ∨ (65535 - f = 0 ∧ csum = 65535)) :
    (D + csum + (WA + 17 + L)) % 65535 = 0 := by
  omega

/-- The L4 bytes of a UDP segment verify against the pseudo-header built from the original addresses,
and the transmitted checksum is never zero. -/
theorem udp_l4_verifies (U P addrs : List UInt8) (baseProto : Nat) (hU : U.length = 8)
    (hfit : 8 + P.length ≤ 65535) (hbp : baseProto = checksum addrs 0 + 17) :
    let U2 := udpL4pre U ((8 + P.length) % 65536)
    let csum := udpCsum baseProto (8 + P.length) (U2 ++ P)
    verifies (set16 U2 6 csum ++ P) (pseudoSum addrs 17 (8 + P.length)) ∧
      be16 (set16 U2 6 csum ++ P) 6 = csum ∧ csum ≠ 0 ∧ csum < 65536 ∧
      be16 (set16 U2 6 csum ++ P) 4 = 8 + P.length := by
  intro U2 csum
  have hc3lt := checksum_lt addrs 0
  have l1 := set16_length U 4 ((8 + P.length) % 65536) (by omega)
  have lU2 : U2.length = 8 := by
    show (set16 (set16 U 4 _) 6 0).length = 8
    rw [set16_length _ _ _ (by omega), l1, hU]
  have z6 : be16 U2 6 = 0 := be16_set16_same _ 6 0 (by omega) (by omega)
  have z4 : be16 U2 4 = 8 + P.length := by
    show be16 (set16 (set16 U 4 _) 6 0) 4 = _
    rw [be16_set16_other _ 6 0 4 (by omega) (by omega), be16_set16_same _ 4 _ (by omega) (by omega)]
    omega
  -- the checksum value
  have hpf32 : (baseProto + (8 + P.length) % 4294967296) % 4294967296 = baseProto + (8 + P.length) := by omega
  have hpfr := fold16_rep (baseProto + (8 + P.length))
  have hcs : csum = (if compl16 (checksum (U2 ++ P) (fold16 (baseProto + (8 + P.length)) % 65536)) = 0
      then 65535 else compl16 (checksum (U2 ++ P) (fold16 (baseProto + (8 + P.length)) % 65536))) := by
    show udpCsum baseProto (8 + P.length) (U2 ++ P) = _
    unfold udpCsum
    simp only [hpf32, fold2_eq _ (show baseProto + (8 + P.length) < 4294967296 by omega)]
  have hpfm : fold16 (baseProto + (8 + P.length)) % 65536 = fold16 (baseProto + (8 + P.length)) := by omega
  rw [hpfm] at hcs
  generalize hpfdef : fold16 (baseProto + (8 + P.length)) = pf at *
  have hfr := checksum_rep (U2 ++ P) pf
  have hflt := checksum_lt (U2 ++ P) pf
  generalize hfdef : checksum (U2 ++ P) pf = f at *
  have hcf : compl16 f = 65535 - f := by unfold compl16; omega
  have hcs' : (65535 - f ≠ 0 ∧ csum = 65535 - f) ∨ (65535 - f = 0 ∧ csum = 65535) := by
    rw [hcs, hcf]
    by_cases h0 : 65535 - f = 0
    · right; simp [h0]
    · left; simp [h0]
  have hcslt : csum < 65536 := by omega
  have hcsnz : csum ≠ 0 := by omega
  have l3 := set16_length U2 6 csum (by omega)
  have e3 := wsum_set16 U2 6 csum (by decide) (by omega) hcslt
  have k6 := be16_set16_same U2 6 csum (by omega) hcslt
  have k4 := be16_set16_other U2 6 csum 4 (by omega) (by omega)
  generalize set16 U2 6 csum = U3 at *
  refine ⟨?_, ?_, hcsnz, hcslt, ?_⟩
  · unfold verifies pseudoSum
    rw [wsum_append U3 P (by omega)]
    have eD : wsum (U2 ++ P) = wsum U2 + wsum P := wsum_append U2 P (by omega)
    have hc3 := (checksum_rep addrs 0).1
    simp only [Nat.add_zero] at hc3
    apply fold16_ffff
    · omega
    · have := udp_arith (wsum (U2 ++ P)) (wsum addrs) f (checksum addrs 0) pf csum (8 + P.length)
        (baseProto + (8 + P.length)) hflt hfr.1 hpfr.1.1 (by rw [hbp]) hc3 hcs'
      omega
  · rw [be16_append_left _ _ _ (by omega), k6]
  · rw [be16_append_left _ _ _ (by omega), k4, z4]

end Nebula.Lemmas.SegmentValid
