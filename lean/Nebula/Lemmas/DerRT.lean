/-
Round-trip lemmas for the DER subset of `Base/Der.lean`: every element the writer produces
(`encTLV`, all five length forms; `encInt64`) is read back by the corresponding reader, whatever follows.
-/
import Nebula.Base.Der
import Nebula.Lemmas.Der

namespace Nebula.Lemmas.DerRT
open Nebula.Der Nebula.Lemmas.Der

/-! ### big-endian digits -/

theorem beBytes_length (n x : Nat) : (beBytes n x).length = n := by
  induction n with
  | zero => rfl
  | succ k ih => simp [beBytes, ih]

theorem foldl_beBytes (k : Nat) : ∀ (x acc : Nat),
    (beBytes k x).foldl (fun a (b : UInt8) => a * 256 + b.toNat) acc = acc * 256 ^ k + x % 256 ^ k := by
  induction k with
  | zero => intro x acc; simp [beBytes, Nat.mod_one]
  | succ k ih =>
    intro x acc
    simp only [beBytes, List.foldl_cons]
    rw [ih]
    have hb : (UInt8.ofNat (x / 256 ^ k % 256)).toNat = x / 256 ^ k % 256 := by
      simp only [UInt8.toNat_ofNat']
      exact Nat.mod_eq_of_lt (Nat.mod_lt _ (by decide))
    rw [hb, Nat.mod_pow_succ, Nat.pow_succ, Nat.add_mul, Nat.mul_assoc, Nat.mul_comm 256 (256 ^ k),
      Nat.mul_comm (x / 256 ^ k % 256) (256 ^ k)]
    omega

theorem beNat_beBytes (k x : Nat) (h : x < 256 ^ k) : beNat (beBytes k x) = x := by
  unfold beNat
  rw [foldl_beBytes, Nat.mod_eq_of_lt h]; simp

/-! ### headers -/

theorem take_left_len {α : Type} (a b : List α) (n : Nat) (h : a.length = n) : (a ++ b).take n = a := by
  subst h; simp

theorem drop_left_len {α : Type} (a b : List α) (n : Nat) (h : a.length = n) : (a ++ b).drop n = b := by
  subst h; simp

/-- the long form with `k` length octets. -/
theorem longLen_beBytes (k n : Nat) (tail : Bytes) (hk : 1 ≤ k ∧ k ≤ 4) (h128 : 128 ≤ n) (hlo : 256 ^ (k - 1) ≤ n)
    (hhi : n < 256 ^ k) (h32 : 2 + k + n < 2 ^ 32) : longLen k (beBytes k n ++ tail) = some n := by
  unfold longLen
  have hl : (beBytes k n ++ tail).length ≥ k := by simp [beBytes_length]
  have c1 : ¬ (k = 0 ∨ k > 4 ∨ (beBytes k n ++ tail).length < k) := by omega
  rw [take_left_len _ _ _ (beBytes_length k n), beNat_beBytes k n hhi]
  have c2 : ¬ n < 128 := by omega
  have c3 : ¬ n >>> ((k - 1) * 8) = 0 := by
    rw [Nat.shiftRight_eq_div_pow]
    have : 2 ^ ((k - 1) * 8) = 256 ^ (k - 1) := by
      rw [Nat.mul_comm, Nat.pow_mul]
    rw [this]
    have hp : 0 < 256 ^ (k - 1) := Nat.pow_pos (by decide)
    have := Nat.div_pos hlo hp
    omega
  have c4 : ¬ 2 + k + n ≥ 2 ^ 32 := by omega
  simp only [c1, c2, c3, c4, if_false]

set_option maxRecDepth 8000 in
theorem short_byte : ∀ n : Fin 128, (UInt8.ofNat n.val) &&& 0x80 = 0 ∧ (UInt8.ofNat n.val).toNat = n.val := by decide

theorem header_short (tag : UInt8) (n : Nat) (tail : Bytes) (ht : ¬ tag &&& 0x1f = 0x1f) (hn : n < 128) :
    headerOf (tag :: UInt8.ofNat n :: tail) = some (tag, 2, n + 2) := by
  obtain ⟨h1, h2⟩ := short_byte ⟨n, hn⟩
  simp only at h1 h2
  simp only [headerOf, ht, h1, if_false, if_true, h2]

theorem header_long (tag : UInt8) (k n : Nat) (tail : Bytes) (ht : ¬ tag &&& 0x1f = 0x1f) (hk : 1 ≤ k ∧ k ≤ 4)
    (h128 : 128 ≤ n) (hlo : 256 ^ (k - 1) ≤ n) (hhi : n < 256 ^ k) (h32 : 2 + k + n < 2 ^ 32) :
    headerOf (tag :: UInt8.ofNat (0x80 + k) :: (beBytes k n ++ tail)) = some (tag, 2 + k, 2 + k + n) := by
  have hb : ¬ (UInt8.ofNat (0x80 + k) &&& 0x80 = 0) ∧ (UInt8.ofNat (0x80 + k) &&& 0x7f).toNat = k := by
    obtain ⟨h1, h4⟩ := hk
    have : k = 1 ∨ k = 2 ∨ k = 3 ∨ k = 4 := by omega
    rcases this with rfl | rfl | rfl | rfl <;> decide
  simp only [headerOf, ht, hb.1, if_false, hb.2, longLen_beBytes k n tail hk h128 hlo hhi h32]

/-- the header the writer emits for `n` content octets is read back as (tag, header length, total length). -/
theorem header_encLen (tag : UInt8) (n : Nat) (tail : Bytes) (ht : ¬ tag &&& 0x1f = 0x1f) (hn : n + 6 < 2 ^ 32) :
    headerOf (tag :: (encLen n ++ tail)) = some (tag, 1 + (encLen n).length, 1 + (encLen n).length + n) := by
  unfold encLen
  by_cases c1 : n < 128
  · simp only [c1, if_true, List.singleton_append, List.length_singleton]
    rw [header_short tag n tail ht c1]
    simp only [Option.some.injEq, Prod.mk.injEq, true_and]
    omega
  · by_cases c2 : n < 256
    · simp only [c1, c2, if_false, if_true, List.cons_append, List.nil_append, List.length_cons, List.length_nil]
      have := header_long tag 1 n tail ht (by omega) (by omega) (by simp; omega) (by simpa using c2) (by omega)
      simp only [beBytes, Nat.pow_zero, Nat.div_one, List.cons_append, List.nil_append] at this
      have e : UInt8.ofNat (n % 256) = UInt8.ofNat n := by
        apply UInt8.toNat_inj.mp; simp
      rw [e] at this
      have e2 : (UInt8.ofNat (0x80 + 1)) = (129 : UInt8) := rfl
      rw [e2] at this
      rw [this]
    · by_cases c3 : n < 65536
      · simp only [c1, c2, c3, if_false, if_true, List.cons_append, List.length_cons, beBytes_length]
        have := header_long tag 2 n tail ht (by omega) (by omega) (by simp; omega) (by simpa using c3) (by omega)
        have e2 : (UInt8.ofNat (0x80 + 2)) = (130 : UInt8) := rfl
        rw [e2] at this
        rw [this]
      · by_cases c4 : n < 16777216
        · simp only [c1, c2, c3, c4, if_false, if_true, List.cons_append, List.length_cons, beBytes_length]
          have := header_long tag 3 n tail ht (by omega) (by omega) (by simp; omega) (by simpa using c4) (by omega)
          have e2 : (UInt8.ofNat (0x80 + 3)) = (131 : UInt8) := rfl
          rw [e2] at this
          rw [this]
        · simp only [c1, c2, c3, c4, if_false, List.cons_append, List.length_cons, beBytes_length]
          have := header_long tag 4 n tail ht (by omega) (by omega) (by simp; omega) (by simp; omega) (by omega)
          have e2 : (UInt8.ofNat (0x80 + 4)) = (132 : UInt8) := rfl
          rw [e2] at this
          rw [this]

/-- **TLV round trip**: an element written by `AddASN1` is read back whole, whatever follows. -/
theorem readAny_encTLV (tag : UInt8) (content rest : Bytes) (ht : ¬ tag &&& 0x1f = 0x1f)
    (hn : content.length + 6 < 2 ^ 32) :
    readAny (encTLV tag content ++ rest) =
      some { tag := tag, hdr := 1 + (encLen content.length).length, elem := encTLV tag content, rest := rest } := by
  unfold readAny encTLV
  have hh := header_encLen tag content.length (content ++ rest) ht hn
  simp only [List.cons_append, List.append_assoc]
  rw [hh]
  have hlen : (tag :: (encLen content.length ++ content)).length = 1 + (encLen content.length).length + content.length := by
    simp only [List.length_cons, List.length_append]; omega
  have hnl : ¬ (tag :: (encLen content.length ++ (content ++ rest))).length <
      1 + (encLen content.length).length + content.length := by
    simp only [List.length_cons, List.length_append]; omega
  simp only [hnl, if_false, Option.some.injEq, TLV.mk.injEq, true_and]
  have e : tag :: (encLen content.length ++ (content ++ rest)) = (tag :: (encLen content.length ++ content)) ++ rest := by
    simp
  rw [e]
  exact ⟨take_left_len _ _ _ hlen, drop_left_len _ _ _ hlen⟩

theorem encTLV_content (tag : UInt8) (content : Bytes) :
    (encTLV tag content).drop (1 + (encLen content.length).length) = content := by
  unfold encTLV
  have : (tag :: encLen content.length).length = 1 + (encLen content.length).length := by
    simp only [List.length_cons]; omega
  have e : tag :: (encLen content.length ++ content) = (tag :: encLen content.length) ++ content := by simp
  rw [e]
  exact drop_left_len _ _ _ this

/-- `ReadASN1` of what `AddASN1` wrote. -/
theorem readASN1_encTLV (tag : UInt8) (content rest : Bytes) (ht : ¬ tag &&& 0x1f = 0x1f)
    (hn : content.length + 6 < 2 ^ 32) : readASN1 tag (encTLV tag content ++ rest) = some (content, rest) := by
  unfold readASN1
  rw [readAny_encTLV tag content rest ht hn]
  simp [TLV.content, encTLV_content]

theorem readASN1Element_encTLV (tag : UInt8) (content rest : Bytes) (ht : ¬ tag &&& 0x1f = 0x1f)
    (hn : content.length + 6 < 2 ^ 32) :
    readASN1Element tag (encTLV tag content ++ rest) = some (encTLV tag content, rest) := by
  unfold readASN1Element
  rw [readAny_encTLV tag content rest ht hn]
  simp

theorem peekTag_encTLV (t tag : UInt8) (content rest : Bytes) : peekTag t (encTLV tag content ++ rest) = (tag == t) := by
  simp [peekTag, encTLV]

theorem readOptional_present (tag : UInt8) (content rest : Bytes) (ht : ¬ tag &&& 0x1f = 0x1f)
    (hn : content.length + 6 < 2 ^ 32) :
    readOptionalASN1 tag (encTLV tag content ++ rest) = some (some content, rest) := by
  unfold readOptionalASN1
  rw [peekTag_encTLV, readASN1_encTLV tag content rest ht hn]
  simp

theorem readOptional_absent (tag : UInt8) (s : Bytes) (h : peekTag tag s = false) :
    readOptionalASN1 tag s = some (none, s) := by
  unfold readOptionalASN1; simp [h]

end Nebula.Lemmas.DerRT
