/-
Ties of the receive-side split (`deliverSegments`, C27) and of the send-side run planner (`batchWriter.planRun`, C26)
to udp/udp_linux.go and udp/udp_linux_writebatch.go regenerated from source: every `int` comparison and update.
-/
import Nebula.Model.Udprecv
import Nebula.Model.Writebatch
import Nebula.Gen.tie_ties1_udp

namespace Nebula.Lemmas.Ties1UdpTie
open Nebula.Gen

theorem toIntN (a : Nat) (ha : a < 2 ^ 62) : (BitVec.ofNat 64 a).toInt = a := by
  rw [BitVec.toInt_eq_toNat_cond]; simp only [BitVec.toNat_ofNat]; omega

theorem toNatN (a : Nat) (ha : a < 2 ^ 62) : (BitVec.ofNat 64 a).toNat = a := by
  simp only [BitVec.toNat_ofNat]; omega

theorem toIntZ (z : Int) (h1 : -(2 ^ 62) < z) (h2 : z < 2 ^ 62) : (BitVec.ofInt 64 z).toInt = z := by
  rw [BitVec.toInt_ofInt]
  simp only [Int.bmod]
  omega

theorem toInt_add (a b : Nat) (ha : a < 2 ^ 62) (hb : b < 2 ^ 62) :
    (BitVec.ofNat 64 a + BitVec.ofNat 64 b).toInt = (a + b : Nat) := by
  rw [BitVec.toInt_eq_toNat_cond]; simp only [BitVec.toNat_add, BitVec.toNat_ofNat]; omega

theorem toNat_add (a b : Nat) (ha : a < 2 ^ 62) (hb : b < 2 ^ 62) :
    (BitVec.ofNat 64 a + BitVec.ofNat 64 b).toNat = a + b := by
  simp only [BitVec.toNat_add, BitVec.toNat_ofNat]; omega

/-! ### deliverSegments -/
section Deliver
open Nebula.Udprecv

theorem deliver_whole_formula (seg : Int) (n : Nat) (h1 : -(2 ^ 62) < seg) (h2 : seg < 2 ^ 62) (hn : n < 2 ^ 62) :
    tie_ties1_udp_deliver_whole (BitVec.ofInt 64 seg) (BitVec.ofNat 64 n) = decide (seg ≤ 0 ∨ seg ≥ (n : Int)) := by
  rw [Bool.eq_iff_iff]
  simp [tie_ties1_udp_deliver_whole, BitVec.sle, toIntZ seg h1 h2, toIntN n hn]

theorem deliver_more_formula (off n : Nat) (ho : off < 2 ^ 62) (hn : n < 2 ^ 62) :
    tie_ties1_udp_deliver_more (BitVec.ofNat 64 off) (BitVec.ofNat 64 n) = decide (off < n) := by
  simp only [tie_ties1_udp_deliver_more, BitVec.slt, toIntN off ho, toIntN n hn]
  rw [decide_eq_decide]; omega

theorem deliver_end_formula (off seg n : Nat) (ho : off < 2 ^ 62) (hs : seg < 2 ^ 62) (hn : n < 2 ^ 62) :
    (tie_ties1_udp_deliver_end (BitVec.ofNat 64 off) (BitVec.ofNat 64 seg) (BitVec.ofNat 64 n)).toNat
      = (if off + seg > n then n else off + seg) := by
  simp only [tie_ties1_udp_deliver_end, BitVec.slt, toIntN n hn, toInt_add off seg ho hs]
  by_cases h : off + seg > n
  · have h' : ((n : Int) < (off : Int) + (seg : Int)) := by omega
    simp only [Int.natCast_add, h', decide_true, if_true]
    simpa [h] using toNatN n hn
  · have h' : ¬ ((n : Int) < (off : Int) + (seg : Int)) := by omega
    simp only [Int.natCast_add, h', decide_false, if_false, Bool.false_eq_true]
    simpa [h] using toNat_add off seg ho hs

theorem deliver_eq (p : List UInt8) (seg : Int) (h1 : -(2 ^ 62) < seg) (h2 : seg < 2 ^ 62) (hn : p.length < 2 ^ 62) :
    deliver p seg =
      if tie_ties1_udp_deliver_whole (BitVec.ofInt 64 seg) (BitVec.ofNat 64 p.length) then [p]
      else segLoop p seg.toNat 0 := by
  simp only [deliver, deliver_whole_formula seg p.length h1 h2 hn, decide_eq_true_eq]

theorem segLoop_eq (p : List UInt8) (seg off : Nat) (hs : seg < 2 ^ 62) (ho : off < 2 ^ 62) (hn : p.length < 2 ^ 62) :
    segLoop p seg off =
      if tie_ties1_udp_deliver_more (BitVec.ofNat 64 off) (BitVec.ofNat 64 p.length) = true ∧ 0 < seg then
        ((p.drop off).take ((tie_ties1_udp_deliver_end (BitVec.ofNat 64 off) (BitVec.ofNat 64 seg)
            (BitVec.ofNat 64 p.length)).toNat - off)) :: segLoop p seg (off + seg)
      else [] := by
  rw [segLoop]
  simp only [deliver_more_formula off p.length ho hn, deliver_end_formula off seg p.length ho hs hn, decide_eq_true_eq]

end Deliver

/-! ### batchWriter.planRun -/
section Plan
open Nebula.Writebatch
variable {δ : Type} [DecidableEq δ]

theorem plan_none_formula (start n : Nat) (iov : Int) (hs : start < 2 ^ 62) (hn : n < 2 ^ 62)
    (h1 : -(2 ^ 62) < iov) (h2 : iov < 2 ^ 62) :
    tie_ties1_udp_plan_none (BitVec.ofNat 64 start) (BitVec.ofNat 64 n) (BitVec.ofInt 64 iov)
      = decide (start ≥ n ∨ iov < 1) := by
  rw [Bool.eq_iff_iff]
  have e1 : (1#64 : BitVec 64).toInt = 1 := by decide
  simp [tie_ties1_udp_plan_none, BitVec.sle, BitVec.slt, toIntN start hs, toIntN n hn, toIntZ iov h1 h2, e1]

theorem plan_single_formula (gso : Bool) (seg : Nat) (hs : seg < 2 ^ 62) :
    tie_ties1_udp_plan_single gso (BitVec.ofNat 64 seg) = decide (gso = false ∨ seg = 0 ∨ seg > maxGSOBytes) := by
  rw [Bool.eq_iff_iff]
  have e1 : (65000#64 : BitVec 64).toInt = 65000 := by decide
  have e2 : (BitVec.ofNat 64 seg = 0#64) ↔ seg = 0 := by
    constructor
    · intro h; have := congrArg BitVec.toNat h; simp only [BitVec.toNat_ofNat] at this; omega
    · intro h; subst h; rfl
  simp [tie_ties1_udp_plan_single, BitVec.slt, toIntN seg hs, e1, e2, maxGSOBytes, Gen.wb_maxGSOBytes]
  cases gso <;> simp <;> omega

theorem plan_maxLen_formula (seg0 : BitVec 64) (iov maxSeg : Int) (h1 : -(2 ^ 62) < iov) (h2 : iov < 2 ^ 62)
    (h3 : -(2 ^ 62) < maxSeg) (h4 : maxSeg < 2 ^ 62) :
    (tie_ties1_udp_plan_maxLen seg0 (BitVec.ofInt 64 iov) (BitVec.ofInt 64 maxSeg)).toInt
      = (if iov < maxSeg then iov else maxSeg) := by
  simp only [tie_ties1_udp_plan_maxLen, BitVec.slt, toIntZ iov h1 h2, toIntZ maxSeg h3 h4]
  by_cases h : iov < maxSeg
  · simp [h, toIntZ iov h1 h2]
  · simp [h, toIntZ maxSeg h3 h4]

theorem plan_loop_formula (runLen start n : Nat) (maxLen : Int) (hr : runLen < 2 ^ 61) (hs : start < 2 ^ 61)
    (hn : n < 2 ^ 62) (h1 : -(2 ^ 62) < maxLen) (h2 : maxLen < 2 ^ 62) :
    tie_ties1_udp_plan_loop (BitVec.ofNat 64 runLen) (BitVec.ofInt 64 maxLen) (BitVec.ofNat 64 start)
      (BitVec.ofNat 64 n) = decide ((runLen : Int) < maxLen ∧ start + runLen < n) := by
  rw [Bool.eq_iff_iff]
  simp [tie_ties1_udp_plan_loop, BitVec.slt, toIntN runLen (by omega), toIntZ maxLen h1 h2, toIntN n hn,
    toInt_add start runLen (by omega) (by omega)]
  omega

theorem plan_next_bad_formula (next seg : Nat) (hx : next < 2 ^ 62) (hs : seg < 2 ^ 62) :
    tie_ties1_udp_plan_next_bad (BitVec.ofNat 64 next) (BitVec.ofNat 64 seg) = decide (next = 0 ∨ next > seg) := by
  rw [Bool.eq_iff_iff]
  have e2 : (BitVec.ofNat 64 next = 0#64) ↔ next = 0 := by
    constructor
    · intro h; have := congrArg BitVec.toNat h; simp only [BitVec.toNat_ofNat] at this; omega
    · intro h; subst h; rfl
  simp [tie_ties1_udp_plan_next_bad, BitVec.slt, toIntN next hx, toIntN seg hs, e2]

theorem plan_over_formula (total next : Nat) (ht : total < 2 ^ 62) (hx : next < 2 ^ 62) :
    tie_ties1_udp_plan_over (BitVec.ofNat 64 total) (BitVec.ofNat 64 next) = decide (total + next > maxGSOBytes) := by
  rw [Bool.eq_iff_iff]
  have e1 : (65000#64 : BitVec 64).toInt = 65000 := by decide
  simp [tie_ties1_udp_plan_over, BitVec.slt, toInt_add total next ht hx, e1, maxGSOBytes, Gen.wb_maxGSOBytes]
  omega

theorem plan_short_formula (next seg : Nat) (hx : next < 2 ^ 62) (hs : seg < 2 ^ 62) :
    tie_ties1_udp_plan_short (BitVec.ofNat 64 next) (BitVec.ofNat 64 seg) = decide (next < seg) := by
  simp only [tie_ties1_udp_plan_short, BitVec.slt, toIntN next hx, toIntN seg hs]
  rw [decide_eq_decide]; omega

theorem plan_total_formula (total next : Nat) (ht : total < 2 ^ 62) (hx : next < 2 ^ 62) :
    (tie_ties1_udp_plan_total (BitVec.ofNat 64 total) (BitVec.ofNat 64 next)).toNat = total + next :=
  toNat_add total next ht hx

theorem plan_runLen_formula (total next : BitVec 64) (runLen : Nat) (hr : runLen < 2 ^ 62) :
    (tie_ties1_udp_plan_runLen total next (BitVec.ofNat 64 runLen)).toNat = runLen + 1 := by
  simp only [tie_ties1_udp_plan_runLen, BitVec.toNat_add, BitVec.toNat_ofNat]; omega

theorem planLoop_cons_eq (segSize : Nat) (dst : δ) (maxLen : Int) (p : Pkt δ) (rest : List (Pkt δ))
    (runLen total : Nat) (hs : segSize < 2 ^ 62) (hp : p.len < 2 ^ 62) (hr : runLen < 2 ^ 62)
    (ht : total < 2 ^ 62) :
    planLoop segSize dst maxLen (p :: rest) runLen total =
      if (runLen : Int) < maxLen then
        if tie_ties1_udp_plan_next_bad (BitVec.ofNat 64 p.len) (BitVec.ofNat 64 segSize) then runLen
        else if p.dst ≠ dst then runLen
        else if tie_ties1_udp_plan_over (BitVec.ofNat 64 total) (BitVec.ofNat 64 p.len) then runLen
        else if tie_ties1_udp_plan_short (BitVec.ofNat 64 p.len) (BitVec.ofNat 64 segSize) then
          (tie_ties1_udp_plan_runLen (BitVec.ofNat 64 total) (BitVec.ofNat 64 p.len) (BitVec.ofNat 64 runLen)).toNat
        else planLoop segSize dst maxLen rest
          (tie_ties1_udp_plan_runLen (BitVec.ofNat 64 total) (BitVec.ofNat 64 p.len) (BitVec.ofNat 64 runLen)).toNat
          (tie_ties1_udp_plan_total (BitVec.ofNat 64 total) (BitVec.ofNat 64 p.len)).toNat
      else runLen := by
  rw [planLoop]
  simp only [plan_next_bad_formula p.len segSize hp hs, plan_over_formula total p.len ht hp,
    plan_short_formula p.len segSize hp hs, plan_runLen_formula _ _ runLen hr,
    plan_total_formula total p.len ht hp, decide_eq_true_eq]

end Plan

end Nebula.Lemmas.Ties1UdpTie
