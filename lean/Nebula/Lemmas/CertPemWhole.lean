/-
Every certificate `UnmarshalCertificateFromPEM` returns has whole-second validity bounds (both wire formats store
Unix seconds) — the side condition `ca.notBefore % 10^9 = 0` of the C04 containment theorems holds for every CA
certificate that was read from a file.
-/
import Nebula.Model.CertPem
import Nebula.Props.C03

namespace Nebula.Lemmas.CertPemWhole
open Nebula.Net Nebula.Cert Nebula.CertPem

theorem v2_decoded_whole_seconds (b pk : List UInt8) (cv : Nat) (c : Cert) (rd : List UInt8)
    (h : V2.unmarshal b pk cv = .ok (c, rd)) : c.notBefore % 1000000000 = 0 ∧ c.notAfter % 1000000000 = 0 := by
  obtain ⟨-, -, d, hd, hv⟩ := Nebula.Lemmas.CertV2.unmarshal_ok b pk cv c rd h
  obtain ⟨-, -, -, -, -, hb, ha⟩ := Nebula.Props.C03.rules_v2 _ _ hv
  rw [hb, ha]
  unfold V2.unmarshalDetails at hd
  repeat' split at hd
  all_goals try (cases hd; done)
  all_goals
    simp only [Option.some.injEq] at hd
    subst hd
    simp only [V2.nsPerSec]
    omega

theorem v1_decoded_whole_seconds (b pk : List UInt8) (c : Cert) (h : V1.unmarshal b pk = .ok c) :
    c.notBefore % 1000000000 = 0 ∧ c.notAfter % 1000000000 = 0 := by
  unfold V1.unmarshal at h
  repeat' split at h
  all_goals try (cases h; done)
  all_goals
    dsimp only at h
    split at h
    · cases h
    · simp only [Except.ok.injEq] at h
      subst h
      simp only [V1.certOfRaw, V1.nsPerSec]
      omega

/-- what `UnmarshalCertificateFromPEM` returns has whole-second bounds. -/
theorem pem_decoded_whole_seconds (data : Bytes) (c : Cert) (h : (unmarshalCertificateFromPEM data).1 = .ok c) :
    c.notBefore % 1000000000 = 0 ∧ c.notAfter % 1000000000 = 0 := by
  unfold unmarshalCertificateFromPEM at h
  split at h
  · cases h
  · cases h
  · rename_i blk r _
    simp only at h
    unfold unmarshalCertificateBlock at h
    split at h
    · split at h
      · rename_i c' hc
        cases h
        exact v1_decoded_whole_seconds _ _ _ hc
      · cases h
    · split at h
      · split at h
        · rename_i c' rd hc
          cases h
          exact v2_decoded_whole_seconds _ _ _ _ _ hc
        · cases h
      · cases h

end Nebula.Lemmas.CertPemWhole
