/-
Lookup lemmas for the association-list maps of `Model/HostMap.lean`.
-/
import Nebula.Model.HostMap

namespace Nebula.HostMap.FMap
variable {β : Type}

@[simp] theorem get_nil (k : Nat) : get ([] : FMap β) k = none := rfl

theorem get_cons (k' : Nat) (v : β) (r : FMap β) (k : Nat) :
    get ((k', v) :: r) k = if k' = k then some v else get r k := rfl

theorem get_del (m : FMap β) (k k' : Nat) :
    get (del m k) k' = if k = k' then none else get m k' := by
  induction m with
  | nil => simp [del]
  | cons p r ih =>
    obtain ⟨a, v⟩ := p
    simp only [del, List.filter_cons] at ih ⊢
    by_cases ha : a = k
    · subst ha
      simp only [bne_self_eq_false, Bool.false_eq_true, ↓reduceIte, get_cons]
      rw [ih]
      by_cases h : a = k' <;> simp [h]
    · have : (a != k) = true := by simp [ha]
      simp only [this, ↓reduceIte, get_cons]
      rw [ih]
      by_cases h : a = k'
      · subst h; simp [Ne.symm ha]
      · simp [h]

theorem get_set (m : FMap β) (k : Nat) (v : β) (k' : Nat) :
    get (set m k v) k' = if k = k' then some v else get m k' := by
  simp only [set, get_cons, get_del]
  by_cases h : k = k' <;> simp [h]

theorem mem_of_get {m : FMap β} {k : Nat} {v : β} (h : get m k = some v) : (k, v) ∈ m := by
  induction m with
  | nil => simp at h
  | cons p r ih =>
    obtain ⟨a, w⟩ := p
    rw [get_cons] at h
    by_cases ha : a = k
    · simp [ha] at h; subst ha; subst h; simp
    · simp [ha] at h; exact List.mem_cons_of_mem _ (ih h)

theorem mem_keys_iff (m : FMap β) (k : Nat) : k ∈ m.keys ↔ (m.get k).isSome = true := by
  induction m with
  | nil => simp [keys]
  | cons p r ih =>
    obtain ⟨a, w⟩ := p
    simp only [keys, List.map_cons, List.mem_cons, get_cons] at ih ⊢
    by_cases ha : a = k
    · simp [ha]
    · simp only [ha, ↓reduceIte]
      rw [← ih]
      constructor
      · rintro (e | e)
        · exact absurd e.symm ha
        · exact e
      · exact Or.inr

theorem mem_keys_of_get {m : FMap β} {k : Nat} {v : β} (h : get m k = some v) : k ∈ m.keys :=
  (mem_keys_iff m k).mpr (by simp [h])

end Nebula.HostMap.FMap
