/-
Tie of the anti-replay window model (C11) to bits.go regenerated from source: every index, mask, comparison and
stored word of `get`, `set`, `Check`, `Update`, `updateSlow`, `clearRange` and `NewBits` is regenerated as a `BitVec 64`
definition (module `Gen.tie_ties1_bits`), and each model function is proved to be the composition of those
regenerated pieces (the array reads/writes, the loop recursion and the control skeleton stay hand-written).
-/
import Nebula.Model.Bits
import Nebula.Gen.tie_ties1_bits

namespace Nebula.Lemmas.Ties1BitsTie
open Nebula.Gen Nebula.Bits

theorem ult_iff (a b : BitVec 64) : BitVec.ult a b = decide (a < b) := by
  simp [BitVec.ult, BitVec.lt_def]

theorem ule_iff (a b : BitVec 64) : BitVec.ule a b = decide (a ≤ b) := by
  simp [BitVec.ule, BitVec.le_def]

theorem get_eq (b : Bits) (i : U64) :
    get b i = tie_ties1_bits_get i b.lengthMask (wordAt b.bits ((i &&& b.lengthMask) >>> 6)) := rfl

theorem set_eq (b : Bits) (i : U64) :
    set b i =
      (let word := (i &&& b.lengthMask) >>> 6
       let new := tie_ties1_bits_set i b.lengthMask (wordAt b.bits word)
       { b with bits := b.bits.setIfInBounds word.toNat new }) := rfl

theorem check_eq (b : Bits) (i : U64) :
    check b i = if tie_ties1_bits_check_next i b.current then true
      else if strictlyWithinWindow b i then !get b i else false := by
  simp only [check, tie_ties1_bits_check_next, ult_iff, decide_eq_true_eq]

theorem update_eq (b : Bits) (i : U64) :
    update b i =
      if tie_ties1_bits_update_fast i b.current then
        let word := tie_ties1_bits_update_word i b.lengthMask
        let new := tie_ties1_bits_update_store i b.lengthMask b.length (wordAt b.bits word)
        ({ b with bits := b.bits.setIfInBounds word.toNat new, current := i }, true)
      else updateSlow b i := by
  simp only [update, tie_ties1_bits_update_fast, tie_ties1_bits_update_word, tie_ties1_bits_update_store, ult_iff,
    Bool.and_eq_true, decide_eq_true_eq, beq_iff_eq]

theorem updateSlow_eq (b : Bits) (i : U64) :
    updateSlow b i =
      if tie_ties1_bits_slow_jump i b.current then
        let b' := clearRange b (tie_ties1_bits_slow_startPos i b.current b.length b.lengthMask)
          (tie_ties1_bits_slow_count i b.current b.length)
        let b' := set b' i
        ({ b' with current := i }, true)
      else if strictlyWithinWindow b i then
        let word := tie_ties1_bits_slow_word i b.lengthMask
        let w := wordAt b.bits word
        if tie_ties1_bits_slow_dup i b.current w (tie_ties1_bits_slow_mask i b.lengthMask) then (b, false)
        else ({ b with bits := b.bits.setIfInBounds word.toNat (tie_ties1_bits_slow_store i b.lengthMask w) }, true)
      else (b, false) := by
  simp only [updateSlow, tie_ties1_bits_slow_jump, tie_ties1_bits_slow_startPos, tie_ties1_bits_slow_count,
    tie_ties1_bits_slow_word, tie_ties1_bits_slow_dup, tie_ties1_bits_slow_mask, tie_ties1_bits_slow_store, ult_iff,
    decide_eq_true_eq]
  rfl

theorem firstTake_firstMask_eq (length lengthMask startPos count w : U64) :
    tie_ties1_bits_clear_first startPos count length lengthMask w
      = (w &&& ~~~(firstMask (firstTake length startPos count) (startPos &&& 63#64))) := by
  simp only [tie_ties1_bits_clear_first, firstMask, firstTake, ult_iff, decide_eq_true_eq, beq_iff_eq]
  rfl

theorem clear_remaining_eq (length lengthMask startPos count w : U64) :
    tie_ties1_bits_clear_remaining startPos count length lengthMask w = count - firstTake length startPos count := by
  simp only [tie_ties1_bits_clear_remaining, firstTake, ult_iff, decide_eq_true_eq]

theorem clear_pos_eq (length lengthMask startPos count w : U64) :
    tie_ties1_bits_clear_pos startPos count length lengthMask w
      = ((startPos + firstTake length startPos count) &&& lengthMask) := by
  simp only [tie_ties1_bits_clear_pos, firstTake, ult_iff, decide_eq_true_eq]

theorem clearRange_eq (b : Bits) (startPos count : U64) :
    clearRange b startPos count =
      if tie_ties1_bits_clear_all count b.length then { b with bits := Array.replicate b.bits.size 0#64 }
      else
        let word := tie_ties1_bits_clear_word startPos count b.length b.lengthMask 0#64
        let bits := b.bits.setIfInBounds word.toNat
          (tie_ties1_bits_clear_first startPos count b.length b.lengthMask (wordAt b.bits word))
        let r := clearWords bits b.lengthMask
          (tie_ties1_bits_clear_pos startPos count b.length b.lengthMask 0#64)
          (tie_ties1_bits_clear_remaining startPos count b.length b.lengthMask 0#64)
        { b with bits := lastPartial r.1 r.2.1 r.2.2 } := by
  simp only [clearRange, firstTake_firstMask_eq, clear_remaining_eq, clear_pos_eq, tie_ties1_bits_clear_all,
    tie_ties1_bits_clear_word, ule_iff, decide_eq_true_eq]

theorem clearWords_eq (bits : Array U64) (lengthMask pos remaining : U64) :
    clearWords bits lengthMask pos remaining =
      if tie_ties1_bits_clear_loop_cond remaining then
        clearWords (bits.setIfInBounds (tie_ties1_bits_clear_loop_word pos remaining lengthMask).toNat
            (tie_ties1_bits_clear_loop_store pos remaining lengthMask)) lengthMask
          (tie_ties1_bits_clear_loop_pos pos remaining lengthMask)
          (tie_ties1_bits_clear_loop_remaining pos remaining lengthMask)
      else (bits, pos, remaining) := by
  rw [clearWords]
  simp only [tie_ties1_bits_clear_loop_cond, tie_ties1_bits_clear_loop_word, tie_ties1_bits_clear_loop_store,
    tie_ties1_bits_clear_loop_pos, tie_ties1_bits_clear_loop_remaining, ule_iff, decide_eq_true_eq]
  rfl

theorem lastPartial_eq (bits : Array U64) (pos remaining : U64) :
    lastPartial bits pos remaining =
      if tie_ties1_bits_clear_last_cond remaining then
        let word := tie_ties1_bits_clear_last_word pos remaining
        bits.setIfInBounds word.toNat (tie_ties1_bits_clear_last_store pos remaining (wordAt bits word))
      else bits := by
  simp only [lastPartial, tie_ties1_bits_clear_last_cond, tie_ties1_bits_clear_last_word,
    tie_ties1_bits_clear_last_store, ult_iff, decide_eq_true_eq]

theorem newBits_eq (length : U64) :
    newBits length =
      if tie_ties1_bits_new_bad length then none
      else
        let nWords := tie_ties1_bits_new_nWords length
        let nWords := if nWords == 0#64 then 1#64 else nWords
        some { length := length, lengthMask := length - 1#64, current := 0#64,
               bits := (Array.replicate nWords.toNat 0#64).setIfInBounds 0 1#64 } := by
  simp only [newBits, tie_ties1_bits_new_bad, tie_ties1_bits_new_nWords, Gen.nebula_bitsPerWord]
  rfl

end Nebula.Lemmas.Ties1BitsTie
