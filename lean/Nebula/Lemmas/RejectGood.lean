/-
Lemmas for C21, part 5: each reply the builders produce is what `Spec/Reject.lean` demands.
-/
import Nebula.Lemmas.RejectForms

namespace Nebula.Lemmas.Reject
open Nebula.Pkt Nebula.Reject Nebula.Spec.IP Nebula.Spec.PktCsum Nebula.Spec.Reject
open Nebula.Lemmas.PktParse Nebula.Lemmas.PktCsum


theorem take4_len (p : List UInt8) (a : Nat) (h : a + 4 ≤ p.length) : ((p.drop a).take 4).length = 4 := by
  simp; omega

theorem take16_len (p : List UInt8) (a : Nat) (h : a + 16 ≤ p.length) : ((p.drop a).take 16).length = 16 := by
  simp; omega

def reply4 (src dst : List UInt8) (proto : Nat) (upper : List UInt8) : Spec.IP.Pkt :=
  { version := 4, src := src, dst := dst, proto := proto, hdrLen := 20, nonFirstFrag := false, anyFrag := false, upper := upper, nExt := 0 }

def reply6 (src dst : List UInt8) (proto : Nat) (upper : List UInt8) : Spec.IP.Pkt :=
  { version := 6, src := src, dst := dst, proto := proto, hdrLen := 40, nonFirstFrag := false, anyFrag := false, upper := upper, nExt := 0 }

theorem good_v4Tcp (p : List UInt8) (hlen : ¬ p.length < 20) (h6 : byte p 9 = 6) : goodReply p (pkt4 p) (v4TcpReply p) = true := by
  have hs := take4_len p 16 (by omega)
  have hd := take4_len p 12 (by omega)
  have hparse := parse_v4Header 40 6 ((p.drop 16).take 4) ((p.drop 12).take 4)
    (rstBytes (p.drop (byte p 0 % 16 * 4)) (ipv4Pseudo ((p.drop 16).take 4) ((p.drop 12).take 4) 6 20)) hs hd (by omega)
  have hps := ipv4Pseudo_eq _ _ hs hd 6 20 (by omega) (by omega)
  have hrl := rstBytes_length (p.drop (byte p 0 % 16 * 4)) (ipv4Pseudo ((p.drop 16).take 4) ((p.drop 12).take 4) 6 20)
  simp only [goodReply, v4TcpReply, hparse]
  have hrst : rstOK (pkt4 p) (reply4 ((p.drop 16).take 4) ((p.drop 12).take 4) 6
      (rstBytes (p.drop (byte p 0 % 16 * 4)) (ipv4Pseudo ((p.drop 16).take 4) ((p.drop 12).take 4) 6 20))) = true := by
    apply rst_ok
    · rfl
    · simp only [reply4, hs]; omega
    · simp only [reply4, hd]; omega
    · simp only [reply4, pkt4, hps]
  have hip : ipOK (pkt4 p) (reply4 ((p.drop 16).take 4) ((p.drop 12).take 4) 6
      (rstBytes (p.drop (byte p 0 % 16 * 4)) (ipv4Pseudo ((p.drop 16).take 4) ((p.drop 12).take 4) 6 20)))
      (v4Header 40 6 ((p.drop 16).take 4) ((p.drop 12).take 4) ++
        rstBytes (p.drop (byte p 0 % 16 * 4)) (ipv4Pseudo ((p.drop 16).take 4) ((p.drop 12).take 4) 6 20)) = true := by
    simp [reply4, ipOK, pkt4, v4Header_be16_2, v4Header_take _ _ _ _ _ hs hd, v4Header_verifies _ _ _ _ hs hd,
      v4Header_length _ _ _ _ hs hd, hrl, maxReplySize]
  simp only [reply4] at hip hrst
  have hp6 : (pkt4 p).proto = 6 := by simp [pkt4, h6]
  simp only [hp6, if_true, hip, hrst, Bool.and_self]

theorem good_v4Icmp (p : List UInt8) (hlen : ¬ p.length < 20) (h6 : byte p 9 ≠ 6) :
    goodReply p (pkt4 p) (v4IcmpReply p) = true := by
  have hs := take4_len p 16 (by omega)
  have hd := take4_len p 12 (by omega)
  have hb := byte_lt p 0
  have hn : min p.length (byte p 0 % 16 * 4 + 8) ≤ 68 := by omega
  have hparse := parse_v4Header (28 + min p.length (byte p 0 % 16 * 4 + 8)) 1 ((p.drop 16).take 4) ((p.drop 12).take 4)
    (withCsum [3, 13] ([0, 0, 0, 0] ++ p.take (min p.length (byte p 0 % 16 * 4 + 8))) 0) hs hd (by omega)
  obtain ⟨u0, u1, u2, u3, u4⟩ := unreach_body 3 13 (p.take (min p.length (byte p 0 % 16 * 4 + 8))) 0
  have hul := withCsum_length [3, 13] ([0, 0, 0, 0] ++ p.take (min p.length (byte p 0 % 16 * 4 + 8))) 0
  have hv : verifies (withCsum [3, 13] ([0, 0, 0, 0] ++ p.take (min p.length (byte p 0 % 16 * 4 + 8))) 0) 0 = true := by
    apply withCsum_verifies
    · rfl
    · have h2 := sum16_le ([0, 0, 0, 0] ++ p.take (min p.length (byte p 0 % 16 * 4 + 8)))
      have h3 : sum16 [3, 13] = 781 := by simp [sum16]
      simp only [List.length_append, List.length_cons, List.length_nil, List.length_take] at h2
      omega
  simp only [goodReply, v4IcmpReply, hparse]
  simp only [List.length_append, List.length_cons, List.length_nil, List.length_take] at hul
  have u0' : byte (withCsum [3, 13] ([0, 0, 0, 0] ++ p.take (min p.length (byte p 0 % 16 * 4 + 8))) 0) 0 = 3 := u0
  have u1' : byte (withCsum [3, 13] ([0, 0, 0, 0] ++ p.take (min p.length (byte p 0 % 16 * 4 + 8))) 0) 1 = 13 := u1
  clear u0 u1 hparse
  generalize withCsum [3, 13] ([0, 0, 0, 0] ++ p.take (min p.length (byte p 0 % 16 * 4 + 8))) 0 = u at *
  have hpn : (pkt4 p).proto ≠ 6 := by simp [pkt4, h6]
  simp [ipOK, unreachOK, hpn, v4Header_be16_2, v4Header_take _ _ _ _ _ hs hd, v4Header_verifies _ _ _ _ hs hd,
    v4Header_length _ _ _ _ hs hd, maxReplySize, u0', u1', u2, u4, hv, hul]
  simp [pkt4]
  omega


theorem good_v6Tcp (p : List UInt8) (w : V6Walk) (k : Nat) (hlen : ¬ p.length < 40) (h6 : w.nh = 6) :
    goodReply p (pkt6 p w k) (v6TcpReply p w.off) = true := by
  have hs := take16_len p 24 (by omega)
  have hd := take16_len p 8 (by omega)
  have hparse := parse_v6Header 20 6 ((p.drop 24).take 16) ((p.drop 8).take 16)
    (rstBytes (p.drop w.off) (ipv6Pseudo ((p.drop 24).take 16) ((p.drop 8).take 16) 6 20)) hs hd (Or.inl rfl)
  have hps := ipv6Pseudo_eq _ _ hs hd 6 20 (by omega) (by omega)
  have hrl := rstBytes_length (p.drop w.off) (ipv6Pseudo ((p.drop 24).take 16) ((p.drop 8).take 16) 6 20)
  simp only [goodReply, v6TcpReply, hparse]
  have hrst : rstOK (pkt6 p w k) (reply6 ((p.drop 24).take 16) ((p.drop 8).take 16) 6
      (rstBytes (p.drop w.off) (ipv6Pseudo ((p.drop 24).take 16) ((p.drop 8).take 16) 6 20))) = true := by
    apply rst_ok
    · rfl
    · simp only [reply6, hs]; omega
    · simp only [reply6, hd]; omega
    · simp only [reply6, pkt6, hps]
  have hip : ipOK (pkt6 p w k) (reply6 ((p.drop 24).take 16) ((p.drop 8).take 16) 6
      (rstBytes (p.drop w.off) (ipv6Pseudo ((p.drop 24).take 16) ((p.drop 8).take 16) 6 20)))
      (v6Header 20 6 ((p.drop 24).take 16) ((p.drop 8).take 16) ++
        rstBytes (p.drop w.off) (ipv6Pseudo ((p.drop 24).take 16) ((p.drop 8).take 16) 6 20)) = true := by
    simp [reply6, ipOK, pkt6, v6Header_be16_4, v6Header_length _ _ _ _ hs hd, hrl, maxReplySize]
  simp only [reply6] at hip hrst
  have hp6 : (pkt6 p w k).proto = 6 := by simp [pkt6, h6]
  simp only [hp6, if_true, hip, hrst, Bool.and_self]

theorem good_v6Icmp (p : List UInt8) (w : V6Walk) (k : Nat) (hlen : ¬ p.length < 40) (h6 : w.nh ≠ 6) :
    goodReply p (pkt6 p w k) (v6IcmpReply p) = true := by
  have hs := take16_len p 24 (by omega)
  have hd := take16_len p 8 (by omega)
  have hn : min p.length 1000 ≤ 1000 := by omega
  have hparse := parse_v6Header (8 + min p.length 1000) 58 ((p.drop 24).take 16) ((p.drop 8).take 16)
    (withCsum [1, 1] ([0, 0, 0, 0] ++ p.take (min p.length 1000))
      (ipv6Pseudo ((p.drop 24).take 16) ((p.drop 8).take 16) 58 (8 + min p.length 1000))) hs hd (Or.inr rfl)
  have hps := ipv6Pseudo_eq _ _ hs hd 58 (8 + min p.length 1000) (by omega) (by omega)
  have hpl := pseudo_lt ((p.drop 24).take 16) ((p.drop 8).take 16) 58 (8 + min p.length 1000) (by omega) (by omega)
    (by omega) (by omega)
  obtain ⟨u0, u1, u2, u3, u4⟩ := unreach_body 1 1 (p.take (min p.length 1000))
    (ipv6Pseudo ((p.drop 24).take 16) ((p.drop 8).take 16) 58 (8 + min p.length 1000))
  have hul := withCsum_length [1, 1] ([0, 0, 0, 0] ++ p.take (min p.length 1000))
    (ipv6Pseudo ((p.drop 24).take 16) ((p.drop 8).take 16) 58 (8 + min p.length 1000))
  simp only [List.length_append, List.length_cons, List.length_nil, List.length_take] at hul
  have hv : verifies (withCsum [1, 1] ([0, 0, 0, 0] ++ p.take (min p.length 1000))
      (ipv6Pseudo ((p.drop 24).take 16) ((p.drop 8).take 16) 58 (8 + min p.length 1000)))
      (pseudo ((p.drop 24).take 16) ((p.drop 8).take 16) 58 (8 + min p.length 1000)) = true := by
    rw [← hps]
    apply withCsum_verifies
    · rfl
    · have h2 := sum16_le ([0, 0, 0, 0] ++ p.take (min p.length 1000))
      have h3 : sum16 [1, 1] = 257 := by simp [sum16]
      simp only [List.length_append, List.length_cons, List.length_nil, List.length_take] at h2
      rw [hps]
      omega
  simp only [goodReply, v6IcmpReply, hparse]
  have u0' : byte (withCsum [1, 1] ([0, 0, 0, 0] ++ p.take (min p.length 1000))
      (ipv6Pseudo ((p.drop 24).take 16) ((p.drop 8).take 16) 58 (8 + min p.length 1000))) 0 = 1 := u0
  have u1' : byte (withCsum [1, 1] ([0, 0, 0, 0] ++ p.take (min p.length 1000))
      (ipv6Pseudo ((p.drop 24).take 16) ((p.drop 8).take 16) 58 (8 + min p.length 1000))) 1 = 1 := u1
  clear u0 u1 hparse
  generalize withCsum [1, 1] ([0, 0, 0, 0] ++ p.take (min p.length 1000))
      (ipv6Pseudo ((p.drop 24).take 16) ((p.drop 8).take 16) 58 (8 + min p.length 1000)) = u at *
  have hpn : (pkt6 p w k).proto ≠ 6 := by simp [pkt6, h6]
  have hver : (pkt6 p w k).version = 6 := rfl
  have hlu : u.length = 8 + min p.length 1000 := by omega
  simp [ipOK, unreachOK, replyPseudo, hpn, hver, v6Header_be16_4, v6Header_length _ _ _ _ hs hd, maxReplySize, u0', u1', u2,
    u4, hv, hlu]
  simp [pkt6]
  omega


end Nebula.Lemmas.Reject
