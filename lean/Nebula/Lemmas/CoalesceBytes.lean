/-
Byte-list lemmas for the C23 proofs: reads (`byteAt`/`u16At`/`u32At`) through `take`/`slice`/`set`/`++`,
big-endian write-then-read, and what a successful `parseAt` says about the packet.
-/
import Nebula.Model.Coalesce
import Nebula.Spec.KernelGSO

namespace Nebula.Lemmas.Coalesce
open Nebula.Coalesce Nebula.Gen
open Nebula.Spec

/-! ### model and spec byte accessors are the same functions -/

theorem get_eq (b : Bytes) (i : Nat) : KernelGSO.get b i = byteAt b i := rfl
theorem be16_eq (b : Bytes) (i : Nat) : KernelGSO.be16 b i = u16At b i := rfl
theorem be32_eq (b : Bytes) (i : Nat) : KernelGSO.be32 b i = u32At b i := rfl
theorem putU16_eq (b : Bytes) (off v : Nat) : putU16 b off v = KernelGSO.setBe16 b off v := rfl

/-! ### reads -/

theorem byteAt_lt (b : Bytes) (i : Nat) : byteAt b i < 256 := UInt8.toNat_lt_size _

theorem u16At_lt (b : Bytes) (i : Nat) : u16At b i < 65536 := by
  have h1 := byteAt_lt b i; have h2 := byteAt_lt b (i + 1)
  simp only [u16At]; omega

theorem u32At_lt (b : Bytes) (i : Nat) : u32At b i < 4294967296 := by
  have h1 := u16At_lt b i; have h2 := u16At_lt b (i + 2)
  simp only [u32At]; omega

theorem getD_take (b : Bytes) (n k : Nat) (h : k < n) : (b.take n).getD k 0 = b.getD k 0 := by
  simp [List.getD_eq_getElem?_getD, h]

theorem byteAt_take (b : Bytes) (n k : Nat) (h : k < n) : byteAt (b.take n) k = byteAt b k := by
  unfold byteAt; rw [getD_take b n k h]

theorem u16At_take (b : Bytes) (n k : Nat) (h : k + 1 < n) : u16At (b.take n) k = u16At b k := by
  unfold u16At; rw [byteAt_take b n k (by omega), byteAt_take b n (k + 1) h]

theorem u32At_take (b : Bytes) (n k : Nat) (h : k + 3 < n) : u32At (b.take n) k = u32At b k := by
  unfold u32At; rw [u16At_take b n k (by omega), u16At_take b n (k + 2) (by omega)]

theorem slice_zero (b : Bytes) (h : Nat) : slice b 0 h = b.take h := by simp [slice]

theorem slice_length (b : Bytes) (lo hi : Nat) : (slice b lo hi).length = min hi b.length - lo := by
  simp [slice]

theorem getD_set (l : Bytes) (i j : Nat) (a : UInt8) :
    (l.set i a).getD j 0 = if i = j ∧ i < l.length then a else l.getD j 0 := by
  simp only [List.getD_eq_getElem?_getD, List.getElem?_set]
  split <;> split <;> simp_all <;> omega

theorem getD_append (a b : Bytes) (k : Nat) :
    (a ++ b).getD k 0 = if k < a.length then a.getD k 0 else b.getD (k - a.length) 0 := by
  simp only [List.getD_eq_getElem?_getD, List.getElem?_append]
  split <;> rfl

theorem getD_drop (a : Bytes) (n k : Nat) : (a.drop n).getD k 0 = a.getD (n + k) 0 := by
  simp [List.getD_eq_getElem?_getD, List.getElem?_drop]

/-- extensionality through `getD` -/
theorem ext_getD {a b : Bytes} (hl : a.length = b.length)
    (h : ∀ k, k < a.length → a.getD k 0 = b.getD k 0) : a = b := by
  apply List.ext_getElem hl
  intro i h1 h2
  have := h i h1
  simp only [List.getD_eq_getElem?_getD, List.getElem?_eq_getElem h1, List.getElem?_eq_getElem h2,
    Option.getD_some] at this
  exact this

/-- equal slices give equal bytes inside the slice -/
theorem getD_of_slice_eq {a b : Bytes} {lo hi : Nat} (h : slice a lo hi = slice b lo hi)
    (k : Nat) (h1 : lo ≤ k) (h2 : k < hi) : a.getD k 0 = b.getD k 0 := by
  have := congrArg (fun l => l.getD (k - lo) 0) h
  simp only [slice, getD_drop] at this
  have e : lo + (k - lo) = k := by omega
  rw [e, getD_take a hi k h2, getD_take b hi k h2] at this
  exact this

theorem getD_of_drop_eq {a b : Bytes} {lo : Nat} (h : a.drop lo = b.drop lo)
    (k : Nat) (h1 : lo ≤ k) : a.getD k 0 = b.getD k 0 := by
  have := congrArg (fun l => l.getD (k - lo) 0) h
  simp only [getD_drop] at this
  have e : lo + (k - lo) = k := by omega
  rw [e] at this
  exact this

/-! ### big-endian write, then read -/

theorem ofNat_hi_lo (b : Bytes) (off : Nat) :
    UInt8.ofNat (u16At b off / 256) = b.getD off 0 ∧ UInt8.ofNat (u16At b off) = b.getD (off + 1) 0 := by
  have h1 := byteAt_lt b off; have h2 := byteAt_lt b (off + 1)
  constructor
  · have : u16At b off / 256 = (b.getD off 0).toNat := by simp only [u16At, byteAt] at *; omega
    rw [this]; exact UInt8.ofNat_toNat
  · apply UInt8.toNat_inj.mp
    rw [UInt8.toNat_ofNat']
    simp only [u16At, byteAt] at *; omega

/-! ### what a successful parse says -/

structure IPFacts (pkt : Bytes) (iphl : Nat) (ip : IPParse) : Prop where
  hl : iphl = if ip.isV6 then 40 else 20
  trim : ip.trimmed = KernelGSO.trim pkt
  take : ip.trimmed = pkt.take ip.trimmed.length
  le : ip.trimmed.length ≤ pkt.length
  ge : iphl ≤ ip.trimmed.length
  v4 : ip.isV6 = false → byteAt pkt 0 = 0x45 ∧ u16At pkt 6 % 16384 = 0 ∧ u16At pkt 2 = ip.trimmed.length
  v6 : ip.isV6 = true → byteAt pkt 0 / 16 = 6 ∧ u16At pkt 4 + 40 = ip.trimmed.length

theorem parseIPAt_facts {pkt : Bytes} {iphl : Nat} {ip : IPParse} (h : parseIPAt pkt iphl = some ip) :
    IPFacts pkt iphl ip := by
  unfold parseIPAt at h
  by_cases h20 : pkt.length < 20
  · simp [h20] at h
  · simp only [h20, ↓reduceIte] at h
    by_cases hv4 : byteAt pkt 0 / 16 = 4
    · simp only [hv4, ↓reduceIte] at h
      by_cases hi : iphl ≠ 20
      · simp [hi] at h
      · simp only [hi, ↓reduceIte] at h
        unfold parseIPv4Prologue at h
        simp only at h
        split at h
        · cases h
        · split at h
          · cases h
          · split at h
            · cases h
            · rename_i hihl hfrag hlen
              cases h
              have hb := byteAt_lt pkt 0
              have h45 : byteAt pkt 0 = 0x45 := by omega
              have htl : 20 ≤ u16At pkt 2 ∧ u16At pkt 2 ≤ pkt.length := by omega
              have hmin : min (u16At pkt 2) pkt.length = u16At pkt 2 := by omega
              constructor
              · simp; omega
              · simp only [KernelGSO.trim, h20, ↓reduceIte, get_eq, hv4, be16_eq]
                simp [htl]
              · simp [hmin]
              · simp; omega
              · simp; omega
              · intro _; simp only [List.length_take, hmin]; refine ⟨?_, ?_, ?_⟩ <;> first | omega | trivial
              · intro hc; simp at hc
    · simp only [hv4, ↓reduceIte] at h
      by_cases hv6 : byteAt pkt 0 / 16 = 6
      · simp only [hv6, ↓reduceIte] at h
        by_cases hi : iphl ≠ 40 ∨ pkt.length < 40
        · simp [hi] at h
        · simp only [hi, ↓reduceIte] at h
          unfold parseIPv6Prologue at h
          simp only at h
          split at h
          · cases h
          · rename_i hlen
            cases h
            have hmin : min (40 + u16At pkt 4) pkt.length = 40 + u16At pkt 4 := by omega
            constructor
            · simp; omega
            · simp only [KernelGSO.trim, h20, ↓reduceIte, get_eq, hv6, be16_eq]
              have : 40 ≤ pkt.length ∧ 40 + u16At pkt 4 ≤ pkt.length := by omega
              simp [this]
            · simp [hmin]
            · simp; omega
            · simp; omega
            · intro hc; simp at hc
            · intro _; simp only [List.length_take, hmin]; exact ⟨hv6, by omega⟩
      · simp [hv6] at h

/-- what `parseAt` establishes about a packet -/
structure ParseFacts (tcp : Bool) (pkt : Bytes) (iphl : Nat) (info : Parsed) : Prop where
  ipHdrLen : info.ipHdrLen = iphl
  hl : iphl = if info.fk.isV6 then 40 else 20
  trim : KernelGSO.trim pkt = pkt.take (info.hdrLen + info.payLen)
  le : info.hdrLen + info.payLen ≤ pkt.length
  v4 : info.fk.isV6 = false → byteAt pkt 0 = 0x45 ∧ u16At pkt 6 % 16384 = 0 ∧ u16At pkt 2 = info.hdrLen + info.payLen
  v6 : info.fk.isV6 = true → byteAt pkt 0 / 16 = 6 ∧ u16At pkt 4 + 40 = info.hdrLen + info.payLen
  udp : tcp = false → info.hdrLen = iphl + 8 ∧ u16At pkt (iphl + 4) = 8 + info.payLen
  tcpF : tcp = true → info.hdrLen = iphl + byteAt pkt (iphl + 12) / 16 * 4 ∧
      20 ≤ byteAt pkt (iphl + 12) / 16 * 4 ∧ info.seq = u32At pkt (iphl + 4) ∧ info.flags = byteAt pkt (iphl + 13)

theorem parseAt_facts {tcp : Bool} {pkt : Bytes} {iphl : Nat} {info : Parsed}
    (h : parseAt tcp pkt iphl = some info) : ParseFacts tcp pkt iphl info := by
  unfold parseAt at h
  cases hip : parseIPAt pkt iphl with
  | none => simp [hip] at h
  | some ip =>
    have F := parseIPAt_facts hip
    simp only [hip] at h
    cases tcp with
    | true =>
      simp only [↓reduceIte] at h
      unfold parseTailTCP at h
      simp only at h
      split at h
      · cases h
      · split at h
        · cases h
        · split at h
          · cases h
          · rename_i h1 h2 h3
            cases h
            have hlen : ip.trimmed.length = ip.trimmed.length := rfl
            have e12 : byteAt ip.trimmed (iphl + 12) = byteAt pkt (iphl + 12) := by
              rw [F.take]; exact byteAt_take _ _ _ (by omega)
            have e13 : byteAt ip.trimmed (iphl + 13) = byteAt pkt (iphl + 13) := by
              rw [F.take]; exact byteAt_take _ _ _ (by omega)
            have e4 : u32At ip.trimmed (iphl + 4) = u32At pkt (iphl + 4) := by
              rw [F.take]; exact u32At_take _ _ _ (by omega)
            rw [e12] at h2 h3
            have hsum : iphl + byteAt pkt (iphl + 12) / 16 * 4 +
                (ip.trimmed.length - (iphl + byteAt pkt (iphl + 12) / 16 * 4)) = ip.trimmed.length := by omega
            constructor
            · rfl
            · exact F.hl
            · simp only [e12, hsum]; rw [← F.trim]; exact F.take
            · simp only [e12, hsum]; exact F.le
            · intro hv; simp only [e12, hsum]; exact F.v4 hv
            · intro hv; simp only [e12, hsum]; exact F.v6 hv
            · intro hc; cases hc
            · intro _; simp only [e12, e13, e4]; refine ⟨?_, ?_, ?_, ?_⟩ <;> first | omega | trivial
    | false =>
      simp only [Bool.false_eq_true, ↓reduceIte] at h
      unfold parseTailUDP at h
      simp only at h
      split at h
      · cases h
      · split at h
        · cases h
        · rename_i h1 h2
          cases h
          have e4 : u16At ip.trimmed (iphl + 4) = u16At pkt (iphl + 4) := by
            rw [F.take]; exact u16At_take _ _ _ (by omega)
          rw [e4] at h2
          have hsum : iphl + 8 + (u16At pkt (iphl + 4) - 8) = ip.trimmed.length := by omega
          constructor
          · rfl
          · exact F.hl
          · simp only [e4, hsum]; rw [← F.trim]; exact F.take
          · simp only [e4, hsum]; exact F.le
          · intro hv; simp only [e4, hsum]; exact F.v4 hv
          · intro hv; simp only [e4, hsum]; exact F.v6 hv
          · intro _; simp only [e4]; refine ⟨?_, ?_⟩ <;> first | omega | trivial
          · intro hc; cases hc

end Nebula.Lemmas.Coalesce
