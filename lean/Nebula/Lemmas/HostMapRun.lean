/-
`Complete` / `CheckAndComplete` / `AddRelay` and whole operation sequences.
-/
import Nebula.Lemmas.HostMapOps

namespace Nebula.HostMap
open FMap

theorem pendingDelete_inv {s : State} (i : Inv s) (h : Nat) : Inv (pendingDelete s h) := by
  have d := pendingDelete_spec s h
  exact ⟨pendingDelete_core i.core h, fun a => by rw [hostList_congr d.hosts d.more]; exact i.cap a⟩

/-! ### continueHandshake tail -/

theorem opFin_inv {s : State} (i : Inv s) (idx : Nat) (ads : List Nat) (r t : Nat) : Inv (opFin s idx ads r t).1 := by
  unfold opFin
  cases hp : s.pidx.get idx with
  | none => exact i
  | some h =>
    simp only
    obtain ⟨p1, p2, p3, p4⟩ := i.core.pidx idx h hp
    by_cases hc : ads.contains ((s.obj h).addrs.headD 0) = true
    · simp only [hc, ↓reduceIte, complete]
      let o : Obj := { s.obj h with addrs := ads, ridx := r, hsTime := t, initiator := true }
      let s1 := s.setObj h o
      have ho1 : s1.obj h = o := by simp [s1, State.obj, State.setObj, get_set]
      have d := pendingDelete_spec s1 h
      generalize hs2 : pendingDelete s1 h = s2 at d
      have hnl : ¬ Live s h := by simp [Live, p1, p3]
      have hlt : h < s.next := lt_next_of_lidx i.core (by rw [p1]; exact p2)
      have hvp : ∀ a, s2.vpnIps.get a ≠ some h := by
        intro a ha
        rw [d.vpnIps] at ha
        split at ha
        · cases ha
        · rename_i hn
          have ha' : s.vpnIps.get a = some h := ha
          have := (i.core.vpn a h ha').1
          apply hn
          refine ⟨?_, ha'⟩
          rw [ho1]
          simp only [this, List.headD_cons] at hc
          simpa [o] using hc
      have c2 : Core none s2 := by
        refine core_update i.core h o hnl (by simp) ?_ d.hosts d.more d.indexes d.rindexes d.relays ?_ ?_ ?_
        · intro y; rw [d.objs]; simp [s1, State.setObj, get_set]
        · intro a x hx
          by_cases e : x = h
          · subst e; exact absurd hx (hvp a)
          · simp only [e, ↓reduceIte]
            rw [d.vpnIps] at hx
            split at hx
            · cases hx
            · exact hx
        · intro j x hx
          rw [d.pidx] at hx
          split at hx
          · cases hx
          · rename_i hn
            have hx' : s.pidx.get j = some x := hx
            by_cases e : x = h
            · subst e
              exfalso; apply hn
              refine ⟨?_, hx'⟩
              rw [ho1]; simp [o, (i.core.pidx j x hx').1]
            · simp [e, hx']
        · intro x hx
          rw [d.next] at hx
          have hx' : s.next ≤ x := hx
          exact ⟨hx', by omega⟩
      have ho2 : s2.obj h = o := by
        simp [State.obj, d.objs, s1, State.setObj, get_set]
      have cap2 : Cap s2 := fun a => by
        rw [hostList_congr d.hosts d.more]; simpa [s1, hostList, State.setObj] using i.cap a
      refine (addHost_inv c2 cap2 ?_ ?_ ?_ hvp).1
      · rw [ho2, d.indexes]; simpa [o, p1, s1, State.setObj] using p3
      · rw [ho2]; simpa [o, p1] using p2
      · have hpp : s1.pidx = s.pidx := rfl
        rw [ho2, d.pidx, ho1, hpp]; simp [o, p1, hp]
    · simp only [hc, Bool.false_eq_true, ↓reduceIte]
      exact startHandshake_inv (pendingDelete_inv i h) _

/-! ### beginHandshake tail -/

theorem checkAndComplete_inv {s : State} (i : Inv s) (h : Nat) (hz : (s.obj h).lidx ≠ 0)
    (hv : ∀ a, s.vpnIps.get a ≠ some h) (hpn : ∀ j, s.pidx.get j ≠ some h) : Inv (checkAndComplete s h).1 := by
  unfold checkAndComplete
  simp only
  split
  · exact i
  · cases hi : s.indexes.get (s.obj h).lidx with
    | some x => exact i
    | none =>
      simp only
      cases hp : s.pidx.get (s.obj h).lidx with
      | some p =>
        simp only
        by_cases e : p = h
        · subst e; exact absurd hp (hpn _)
        · simp [e]; exact i
      | none => exact (addHost_inv i.core i.cap hi hz hp hv).1

theorem opResp_inv {s : State} (i : Inv s) (ads : List Nat) (r p t : Nat) (st : List Nat) :
    Inv (match opResp s ads r p t st with | some (s', _) => s' | none => s) := by
  unfold opResp
  cases hg : genIndex st with
  | none => exact i
  | some q =>
    obtain ⟨idx, st'⟩ := q
    simp only
    obtain ⟨u1, u2, u3⟩ := fresh_unref i.core (Nat.le_refl s.next)
    let o : Obj := { addrs := ads, lidx := idx, ridx := r, pkt := p, hsTime := t }
    let s1 : State := { s with objs := s.objs.set s.next o, next := s.next + 1 }
    have c1 : Core none s1 := by
      refine core_update i.core s.next o u3 (by simp) (fun y => by simp [s1, get_set]) rfl rfl rfl rfl rfl ?_ ?_ ?_
      · intro a x hx
        have hx' : s.vpnIps.get a = some x := hx
        have : x ≠ s.next := fun e => u1 a (e ▸ hx')
        simp [this, hx']
      · intro j x hx
        have hx' : s.pidx.get j = some x := hx
        have : x ≠ s.next := fun e => u2 j (e ▸ hx')
        simp [this, hx']
      · intro x hx
        have hx' : s.next + 1 ≤ x := hx
        exact ⟨by omega, by omega⟩
    have i1 : Inv s1 := ⟨c1, fun a => by simpa [s1, hostList] using i.cap a⟩
    have ho : s1.obj s.next = o := by simp [s1, State.obj, get_set]
    exact checkAndComplete_inv i1 s.next (by rw [ho]; exact genIndex_nonzero hg) u1 u2

/-! ### AddRelay -/

theorem relay_update {s : State} (i : Inv s) {h idx : Nat} (hl : Live s h) (hz : idx ≠ 0) (rl : List Nat)
    (hsub : ∀ x ∈ (s.obj h).relays, x ∈ rl) (hin : idx ∈ rl) :
    Inv { s.setObj h { s.obj h with relays := rl } with relays := s.relays.set idx h } := by
  let t : State := { s.setObj h { s.obj h with relays := rl } with relays := s.relays.set idx h }
  have hoh : t.obj h = { s.obj h with relays := rl } := by simp [t, State.obj, State.setObj, get_set]
  have hox : ∀ x, x ≠ h → t.obj x = s.obj x := fun x hx => by
    simp [t, State.obj, State.setObj, get_set, Ne.symm hx]
  have addrs : ∀ x, (t.obj x).addrs = (s.obj x).addrs := fun x => by
    by_cases e : x = h
    · subst e; rw [hoh]
    · rw [hox x e]
  have lidx : ∀ x, (t.obj x).lidx = (s.obj x).lidx := fun x => by
    by_cases e : x = h
    · subst e; rw [hoh]
    · rw [hox x e]
  have ridx : ∀ x, (t.obj x).ridx = (s.obj x).ridx := fun x => by
    by_cases e : x = h
    · subst e; rw [hoh]
    · rw [hox x e]
  have ready : ∀ x, (t.obj x).ready = (s.obj x).ready := fun x => by
    by_cases e : x = h
    · subst e; rw [hoh]
    · rw [hox x e]
  have lv : ∀ x, Live t x ↔ Live s x := fun x => by
    simp only [Live, lidx]; rfl
  have hlist : ∀ a, hostList t a = hostList s a := fun a => by simp [t, hostList, State.setObj]
  have c := i.core
  show Inv t
  refine ⟨⟨c.rep, ?_, ?_, ?_, ?_, ?_, ?_, ?_, ?_, ?_⟩, fun a => by rw [hlist]; exact i.cap a⟩
  · intro a x hx; rw [hlist] at hx; rw [lv, addrs]; exact c.listOk a x hx
  · intro a; rw [hlist]; exact c.nodup a
  · intro j x hx; rw [lidx]; exact c.idx j x hx
  · intro j x hx a ha; rw [addrs] at ha; rw [hlist]; exact c.reach j x hx a ha
  · intro j x hx; rw [lv, ridx]; exact c.ridx j x hx
  · intro j x hx
    have hx' : (s.relays.set idx h).get j = some x := hx
    rw [get_set] at hx'
    by_cases e : idx = j
    · simp only [e, ↓reduceIte, Option.some.injEq] at hx'
      subst hx'; subst e
      rw [lv, hoh]; exact ⟨hl, hin, hz⟩
    · simp only [e, ↓reduceIte] at hx'
      obtain ⟨q1, q2, q3⟩ := c.rel j x hx'
      rw [lv]
      refine ⟨q1, ?_, q3⟩
      by_cases e' : x = h
      · subst e'; rw [hoh]; exact hsub j q2
      · rw [hox x e']; exact q2
  · intro j x hx; rw [lidx, ready]; exact c.pidx j x hx
  · intro a x hx; rw [lv, addrs]; exact c.vpn a x hx
  · intro x hx
    have hx' : s.next ≤ x := hx
    show (s.objs.set h _).get x = none
    rw [get_set]
    have : h ≠ x := by
      rintro rfl
      have := obj_fresh c hx'
      simp only [Live, this] at hl
      exact (c.idx _ _ hl).2 rfl
    simp [this, c.fresh x hx']

theorem relayLoop_inv (h : Nat) (fuel : Nat) : ∀ (s : State) (st : List Nat), Inv s →
    Inv (relayLoop h fuel s st).1 ∧
    (∀ idx, (relayLoop h fuel s st).2 = .ok idx → idx ≠ 0 ∧ s.relays.get idx = none ∧ Live s h ∧
      (relayLoop h fuel s st).1.relays.get idx = some h) := by
  induction fuel with
  | zero => intro s st i; simp [relayLoop, i]
  | succ n ih =>
    intro s st i
    unfold relayLoop
    cases hg : genIndex st with
    | none => simp [i]
    | some p =>
      obtain ⟨idx, st'⟩ := p
      simp only
      by_cases c : (s.relays.get idx).isNone = true
      · simp only [c, ↓reduceIte]
        obtain ⟨i1, same, hok⟩ := makePrimary_inv i h
        generalize hmp : makePrimary s h = mp at i1 same hok
        obtain ⟨s1, ok⟩ := mp
        simp only at i1 same hok
        cases ok with
        | false => simp [i1]
        | true =>
          simp only [Bool.not_true, Bool.false_eq_true, ↓reduceIte]
          have hl : Live s h := hok.mp rfl
          have hl1 : Live s1 h := by simpa [Live, same.obj, same.indexes] using hl
          have hz := genIndex_nonzero hg
          refine ⟨?_, ?_⟩
          · apply relay_update i1 hl1 hz
            · intro x hx; split
              · exact hx
              · exact List.mem_append_left _ hx
            · split
              · assumption
              · simp
          · intro idx' e
            simp only [Prod.mk.injEq, AllocRes.ok.injEq] at e
            subst e
            refine ⟨hz, by simpa using c, hl, ?_⟩
            simp [get_set]
      · simp only [c, Bool.false_eq_true, ↓reduceIte]
        exact ih s st' i

/-! ### all operations, all sequences -/

theorem applyOp_inv {s : State} (i : Inv s) (op : Op) : Inv (applyOp s op) := by
  cases op with
  | start a => exact startHandshake_inv i a
  | alloc a st => exact opAlloc_inv i a st
  | fin idx ads r t => exact opFin_inv i idx ads r t
  | resp ads r p t st => exact opResp_inv i ads r p t st
  | del h => exact deleteHost_inv i h
  | pdel h => exact pendingDelete_inv i h
  | prim h => exact (makePrimary_inv i h).1
  | relay h st => exact (relayLoop_inv h 32 s st i).1

theorem run_inv (ops : List Op) : ∀ s, Inv s → Inv (run s ops) := by
  induction ops with
  | nil => intro s i; exact i
  | cons op r ih => intro s i; exact ih _ (applyOp_inv i op)

end Nebula.HostMap
