/-
`Complete` / `CheckAndComplete` / `AddRelay` and whole operation sequences.
-/
import Nebula.Lemmas.HostMapOps

namespace Nebula.HostMap
open FMap

/-- the frame of an operation that prepares tunnel `h` (not live before) and then runs `unlockedAddHostInfo(h)` -/
theorem opFrame_of_addHost {s0 s t : State} {h : Nat} (c0 : Core none s0) (c : Core none s) (hnl : ¬ Live s0 h)
    (hi : s.indexes = s0.indexes) (hr : s.rindexes = s0.rindexes) (hrs : s.rs = s0.rs)
    (ho : ∀ x, x ≠ h → s.obj x = s0.obj x)
    (hp : ∀ i, s0.pidx.get i = some h → (s.obj h).lidx = i ∧ (s.obj h).ready = true)
    (f : AddHostFrame s t h) : OpFrame s0 t [h] := by
  have hto : ∀ x, t.obj x = s.obj x := fun x => by simp [State.obj, f.objs]
  refine ⟨fun i x e => ?_, fun x hl => ?_, fun x i hk => ?_, fun i x e => ?_, fun r x e => ?_⟩
  · rcases f.idxSub i x e with k | k
    · exact Or.inl (hi ▸ k)
    · exact Or.inr (by simp [k])
  · have hxh : x ≠ h := by rintro rfl; exact hnl hl
    rw [hto, ho x hxh]
  · have e1 : s.rstate x = s0.rstate x := by simp [State.rstate, hrs]
    rw [← e1] at hk
    rw [(f.rs x (c.rok x)).2.2.1 i]; exact hk
  · by_cases hxh : x = h
    · subst hxh; rw [hto]; exact hp i e
    · rw [hto, ho x hxh]
      obtain ⟨p1, _, _, p4⟩ := c0.pidx i x e
      exact ⟨p1, p4⟩
  · rw [← hr] at e
    rcases f.ridxKeep r x e with k | k | k
    · exact Or.inl k
    · right; left; intro hl; simp only [Live, hto] at hl; exact k hl
    · right; right; exact ⟨h, k, by simp⟩

theorem opFrame_refl {s : State} (c : Core none s) : OpFrame s s [] :=
  opFrame_basic c rfl rfl (fun _ _ => rfl) (fun _ _ e => e)

theorem pendingDelete_inv {s : State} (i : Inv s) (h : Nat) : Inv (pendingDelete s h) := by
  have d := pendingDelete_spec s h
  exact ⟨pendingDelete_core i.core h, fun a => by rw [hostList_congr d.hosts d.more]; exact i.cap a⟩

/-! ### continueHandshake tail -/

theorem opFin_both {s : State} (i : Inv s) (idx : Nat) (ads : List Nat) (r t : Nat) :
    Inv (opFin s idx ads r t).1 ∧ OpFrame s (opFin s idx ads r t).1 (s.pidx.get idx).toList := by
  unfold opFin
  cases hp : s.pidx.get idx with
  | none => exact ⟨i, (opFrame_refl i.core).mono (by simp)⟩
  | some h =>
    simp only
    obtain ⟨p1, p2, p3, p4⟩ := i.core.pidx idx h hp
    by_cases hc : ads.contains ((s.obj h).addrs.headD 0) = true
    · simp only [hc, ↓reduceIte, complete]
      let o : Obj := { s.obj h with addrs := ads, ridx := r, hsTime := t, initiator := true }
      let s1 := s.setObj h o
      have ho1 : s1.obj h = o := by simp [s1, State.obj, State.setObj, get_set]
      have d := pendingDelete_spec s1 h
      generalize hs2 : pendingDelete s1 h = s2 at d
      have hnl : ¬ Live s h := by simp [Live, p1, p3]
      have hlt : h < s.next := lt_next_of_lidx i.core (by rw [p1]; exact p2)
      have hvp : ∀ a, s2.vpnIps.get a ≠ some h := by
        intro a ha
        rw [d.vpnIps] at ha
        split at ha
        · cases ha
        · rename_i hn
          have ha' : s.vpnIps.get a = some h := ha
          have := (i.core.vpn a h ha').1
          apply hn
          refine ⟨?_, ha'⟩
          rw [ho1]
          simp only [this, List.headD_cons] at hc
          simpa [o] using hc
      have c2 : Core none s2 := by
        refine core_update i.core h o hnl (by simp) ?_ d.hosts d.more d.indexes d.rindexes d.relays d.rs
          (no_relay_idx_of_pidx i.core hp) ?_ ?_ ?_ (fun a ha => absurd ha (hvp a)) ?_
        · intro y; rw [d.objs]; simp [s1, State.setObj, get_set]
        · intro a x hx
          by_cases e : x = h
          · subst e; exact absurd hx (hvp a)
          · simp only [e, ↓reduceIte]
            rw [d.vpnIps] at hx
            split at hx
            · cases hx
            · exact hx
        · intro j x hx
          rw [d.pidx] at hx
          split at hx
          · cases hx
          · rename_i hn
            have hx' : s.pidx.get j = some x := hx
            by_cases e : x = h
            · subst e
              exfalso; apply hn
              refine ⟨?_, hx'⟩
              rw [ho1]; simp [o, (i.core.pidx j x hx').1]
            · simp [e, hx']
        · intro x hx
          rw [d.next] at hx
          have hx' : s.next ≤ x := hx
          exact ⟨hx', by omega⟩
        · intro j x hxh hj
          rw [d.pidx, if_neg]; exact hj
          rintro ⟨_, h2⟩
          have h2' : s.pidx.get j = some h := h2
          rw [hj] at h2'; exact hxh (Option.some.inj h2')
      have ho2 : s2.obj h = o := by
        simp [State.obj, d.objs, s1, State.setObj, get_set]
      have cap2 : Cap s2 := fun a => by
        rw [hostList_congr d.hosts d.more]; simpa [s1, hostList, State.setObj] using i.cap a
      have hnr2 : ∀ j, ((s2.rstate h).byIdx.get j).isSome = false := by
        intro j
        have : s2.rstate h = s.rstate h := by simp [State.rstate, d.rs, s1, State.setObj]
        rw [this]; exact no_relay_idx_of_pidx i.core hp j
      have key : Inv (addHost s2 h) ∧ AddHostFrame s2 (addHost s2 h) h := by
        refine addHost_inv c2 cap2 ?_ ?_ ?_ hvp hnr2
        · rw [ho2, d.indexes]; simpa [o, p1, s1, State.setObj] using p3
        · rw [ho2]; simpa [o, p1] using p2
        · have hpp : s1.pidx = s.pidx := rfl
          rw [ho2, d.pidx, ho1, hpp]; simp [o, p1, hp]
      refine ⟨key.1, ?_⟩
      simp only [Option.toList_some]
      refine opFrame_of_addHost i.core c2 hnl d.indexes d.rindexes d.rs ?_ ?_ key.2
      · intro x hx
        simp [State.obj, d.objs, s1, State.setObj, get_set, Ne.symm hx]
      · intro j hj
        rw [ho2]
        exact ⟨by simp [o, (i.core.pidx j h hj).1], by simp [o, p4]⟩
    · simp only [hc, Bool.false_eq_true, ↓reduceIte]
      refine ⟨startHandshake_inv (pendingDelete_inv i h) _, ?_⟩
      have d := pendingDelete_spec s h
      refine (opFrame_basic i.core ?_ ?_ ?_ ?_).mono (by simp)
      · unfold startHandshake; split <;> simp [d.indexes]
      · unfold startHandshake; split <;> simp [d.rindexes]
      · intro x hx
        have hlt : x < s.next := by
          apply lt_next_of_lidx i.core
          rcases hx with hl | ⟨j, hj⟩
          · have := i.core.idx _ x hl; exact this.1 ▸ this.2
          · obtain ⟨q1, q2, _⟩ := i.core.pidx j x hj; rw [q1]; exact q2
        unfold startHandshake; split
        · simp [State.obj, d.objs]
        · simp only [State.obj, d.objs, d.next, get_set]
          have : s.next ≠ x := by omega
          simp [this]
      · intro x j hk
        unfold startHandshake; split <;> simpa [State.rstate, d.rs] using hk

theorem opFin_inv {s : State} (i : Inv s) (idx : Nat) (ads : List Nat) (r t : Nat) : Inv (opFin s idx ads r t).1 :=
  (opFin_both i idx ads r t).1

/-! ### beginHandshake tail -/

theorem checkAndComplete_inv {s : State} (i : Inv s) (h : Nat) (hz : (s.obj h).lidx ≠ 0)
    (hv : ∀ a, s.vpnIps.get a ≠ some h) (hpn : ∀ j, s.pidx.get j ≠ some h)
    (hnr : ∀ i, ((s.rstate h).byIdx.get i).isSome = false) :
    Inv (checkAndComplete s h).1 ∧
      ((checkAndComplete s h).1 = s ∨ AddHostFrame s (checkAndComplete s h).1 h) := by
  unfold checkAndComplete
  simp only
  split
  · exact ⟨i, Or.inl rfl⟩
  · cases hi : s.indexes.get (s.obj h).lidx with
    | some x => exact ⟨i, Or.inl rfl⟩
    | none =>
      simp only
      cases hp : s.pidx.get (s.obj h).lidx with
      | some p =>
        simp only
        by_cases e : p = h
        · subst e; exact absurd hp (hpn _)
        · simp [e]; exact i
      | none =>
        have key := addHost_inv i.core i.cap hi hz hp hv hnr
        exact ⟨key.1, Or.inr key.2⟩

theorem opResp_both {s : State} (i : Inv s) (ads : List Nat) (r p t : Nat) (st : List Nat) :
    Inv (match opResp s ads r p t st with | some (s', _) => s' | none => s) ∧
    OpFrame s (match opResp s ads r p t st with | some (s', _) => s' | none => s) [s.next] := by
  unfold opResp
  cases hg : genIndex st with
  | none => exact ⟨i, (opFrame_refl i.core).mono (by simp)⟩
  | some q =>
    obtain ⟨idx, st'⟩ := q
    simp only
    obtain ⟨u1, u2, u3⟩ := fresh_unref i.core (Nat.le_refl s.next)
    let o : Obj := { addrs := ads, lidx := idx, ridx := r, pkt := p, hsTime := t }
    let s1 : State := { s with objs := s.objs.set s.next o, next := s.next + 1 }
    have c1 : Core none s1 := by
      refine core_update i.core s.next o u3 (by simp) (fun y => by simp [s1, get_set]) rfl rfl rfl rfl rfl rfl
        (no_relay_idx_of_fresh i.core (Nat.le_refl _)) ?_ ?_ ?_ (by intro _ _ hr; simp [o] at hr) (fun _ _ _ e => e)
      · intro a x hx
        have hx' : s.vpnIps.get a = some x := hx
        have : x ≠ s.next := fun e => u1 a (e ▸ hx')
        simp [this, hx']
      · intro j x hx
        have hx' : s.pidx.get j = some x := hx
        have : x ≠ s.next := fun e => u2 j (e ▸ hx')
        simp [this, hx']
      · intro x hx
        have hx' : s.next + 1 ≤ x := hx
        exact ⟨by omega, by omega⟩
    have i1 : Inv s1 := ⟨c1, fun a => by simpa [s1, hostList] using i.cap a⟩
    have ho : s1.obj s.next = o := by simp [s1, State.obj, get_set]
    obtain ⟨iv, fr⟩ := checkAndComplete_inv i1 s.next (by rw [ho]; exact genIndex_nonzero hg) u1 u2
      (no_relay_idx_of_fresh i.core (Nat.le_refl _))
    refine ⟨iv, ?_⟩
    have hox : ∀ x, x ≠ s.next → s1.obj x = s.obj x := fun x hx => by
      simp [s1, State.obj, get_set, Ne.symm hx]
    rcases fr with e | fr
    · rw [e]
      refine (opFrame_basic (post := s1) i.core rfl rfl ?_ (fun _ _ e => e)).mono (by simp)
      intro x hx
      apply hox
      have hlt : x < s.next := by
        apply lt_next_of_lidx i.core
        rcases hx with hl | ⟨j, hj⟩
        · have := i.core.idx _ x hl; exact this.1 ▸ this.2
        · obtain ⟨q1, q2, _⟩ := i.core.pidx j x hj; rw [q1]; exact q2
      omega
    · exact opFrame_of_addHost i.core c1 u3 rfl rfl rfl hox (fun j hj => absurd hj (u2 j)) fr

theorem opResp_inv {s : State} (i : Inv s) (ads : List Nat) (r p t : Nat) (st : List Nat) :
    Inv (match opResp s ads r p t st with | some (s', _) => s' | none => s) :=
  (opResp_both i ads r p t st).1

/-! ### AddRelay -/

/-- changing only the relay state of one tunnel, keeping the key sets of both maps and their agreement -/
theorem inv_setRs {s : State} (i : Inv s) (h : Nat) (r : RelayState) (hok : ROk r)
    (hk : ∀ j, (r.byIdx.get j).isSome = ((s.rstate h).byIdx.get j).isSome) : Inv (s.setRs h r) := by
  have c := i.core
  have rst : ∀ x, x ≠ h → (s.setRs h r).rstate x = s.rstate x := fun x hx => by
    rw [rstate_setRs]; simp [Ne.symm hx]
  have rsh : (s.setRs h r).rstate h = r := by rw [rstate_setRs]; simp
  have keys : ∀ x j, (((s.setRs h r).rstate x).byIdx.get j).isSome = ((s.rstate x).byIdx.get j).isSome := by
    intro x j
    by_cases e : x = h
    · subst e; rw [rsh]; exact hk j
    · rw [rst x e]
  refine ⟨⟨c.rep, c.listOk, c.nodup, c.idx, c.reach, c.ridx, ?_, ?_, ?_, ?_, c.pidx, c.vpn, c.fresh, c.vpnReady⟩, i.cap⟩
  · intro j x hx
    obtain ⟨p1, p2, p3⟩ := c.rel j x hx
    exact ⟨p1, by rw [keys]; exact p2, p3⟩
  · intro x j hl hkk; rw [keys] at hkk; exact c.relOwn x j hl hkk
  · intro x
    by_cases e : x = h
    · subst e; rw [rsh]; exact hok
    · rw [rst x e]; exact c.rok x
  · intro x j hkk; rw [keys] at hkk; exact c.rsPend x j hkk

theorem relayTo_inv {s : State} (i : Inv s) (h a : Nat) : Inv (s.setRs h (insertRelayTo (s.rstate h) a)) := by
  apply inv_setRs i h
  · have := i.core.rok h
    unfold insertRelayTo; split
    · exact this
    · exact this
  · intro j; unfold insertRelayTo; split <;> rfl

theorem relay_update {s : State} (i : Inv s) {h idx : Nat} (hl : Live s h) (hz : idx ≠ 0)
    (hfree : s.relays.get idx = none) (rel : Relay) (hri : rel.lidx = idx) :
    Inv { s.setRs h (insertRelay (s.rstate h) rel.peer idx rel) with relays := s.relays.set idx h } := by
  let t : State := { s.setRs h (insertRelay (s.rstate h) rel.peer idx rel) with relays := s.relays.set idx h }
  have c := i.core
  have rst : ∀ x, x ≠ h → t.rstate x = s.rstate x := fun x hx => by
    show (s.setRs h _).rstate x = _
    rw [rstate_setRs]; simp [Ne.symm hx]
  have rsh : t.rstate h = insertRelay (s.rstate h) rel.peer idx rel := by
    show (s.setRs h _).rstate h = _
    rw [rstate_setRs]; simp
  have obj : ∀ x, t.obj x = s.obj x := fun x => rfl
  have lv : ∀ x, Live t x ↔ Live s x := fun x => Iff.rfl
  have hlist : ∀ a, hostList t a = hostList s a := fun a => rfl
  have noidx : (s.rstate h).byIdx.get idx = none := by
    cases hg : (s.rstate h).byIdx.get idx with
    | none => rfl
    | some r0 =>
      have := c.relOwn h idx hl (by simp [hg])
      rw [hfree] at this; cases this
  have keyh : ∀ j, ((t.rstate h).byIdx.get j).isSome = (decide (idx = j) || ((s.rstate h).byIdx.get j).isSome) := by
    intro j; rw [rsh]; simp only [insertRelay, get_set]
    by_cases e : idx = j <;> simp [e]
  show Inv t
  refine ⟨⟨c.rep, c.listOk, c.nodup, c.idx, c.reach, c.ridx, ?_, ?_, ?_, ?_, c.pidx, c.vpn, c.fresh, c.vpnReady⟩, i.cap⟩
  · intro j x hx
    have hx' : (s.relays.set idx h).get j = some x := hx
    rw [get_set] at hx'
    by_cases e : idx = j
    · simp only [e, ↓reduceIte, Option.some.injEq] at hx'
      subst hx'; subst e
      exact ⟨hl, by rw [keyh]; simp, hz⟩
    · simp only [e, ↓reduceIte] at hx'
      obtain ⟨q1, q2, q3⟩ := c.rel j x hx'
      refine ⟨q1, ?_, q3⟩
      by_cases e' : x = h
      · subst e'; rw [keyh]; simp [q2]
      · rw [rst x e']; exact q2
  · intro x j hlx hk
    show (s.relays.set idx h).get j = some x
    rw [get_set]
    by_cases e' : x = h
    · subst e'
      rw [keyh] at hk
      by_cases e : idx = j
      · simp [e]
      · simp only [e, decide_false, Bool.false_or] at hk
        simp [e, c.relOwn x j hlx hk]
    · rw [rst x e'] at hk
      have := c.relOwn x j hlx hk
      have e : idx ≠ j := by rintro rfl; rw [hfree] at this; cases this
      simp [e, this]
  · intro x
    by_cases e' : x = h
    · subst e'
      rw [rsh]
      obtain ⟨hA, hI⟩ := c.rok x
      constructor
      · intro a r2 h2
        simp only [insertRelay, get_set] at h2 ⊢
        by_cases e : rel.peer = a
        · simp only [e, ↓reduceIte, Option.some.injEq] at h2
          subst h2; simp [e, hri]
        · simp only [e, ↓reduceIte] at h2
          obtain ⟨q1, q2⟩ := hA a r2 h2
          refine ⟨q1, ?_⟩
          have : idx ≠ r2.lidx := by
            intro e2; rw [← e2, noidx] at q2; cases q2
          simp [this, q2]
      · intro j r2 h2
        simp only [insertRelay, get_set] at h2 ⊢
        by_cases e : idx = j
        · simp only [e, ↓reduceIte, Option.some.injEq] at h2
          subst h2; simp [← e, hri]
        · simp only [e, ↓reduceIte] at h2
          obtain ⟨q1, q2⟩ := hI j r2 h2
          refine ⟨q1, ?_⟩
          by_cases e2 : rel.peer = r2.peer
          · simp [e2]
          · simp [e2, q2]
    · rw [rst x e']; exact c.rok x
  · intro x j hk
    by_cases e' : x = h
    · subst e'
      have hz' : (s.obj x).lidx ≠ 0 := by
        have := c.idx _ x hl; exact this.1 ▸ this.2
      refine ⟨lt_next_of_lidx c hz', ?_, ?_, by simp⟩
      · intro k hk'
        obtain ⟨p1, _, p3, _⟩ := c.pidx k x hk'
        have : s.indexes.get (s.obj x).lidx = some x := hl
        rw [p1, p3] at this; cases this
      · intro a ha; exact (c.vpn a x ha).2.1 hl
    · rw [rst x e'] at hk; exact c.rsPend x j hk

theorem relayLoop_inv (h : Nat) (rel : Relay) (fuel : Nat) : ∀ (s : State) (st : List Nat), Inv s →
    Inv (relayLoop h rel fuel s st).1 ∧
    (∀ idx, (relayLoop h rel fuel s st).2 = .ok idx → idx ≠ 0 ∧ s.relays.get idx = none ∧ Live s h ∧
      (relayLoop h rel fuel s st).1.relays.get idx = some h) := by
  induction fuel with
  | zero => intro s st i; simp [relayLoop, i]
  | succ n ih =>
    intro s st i
    unfold relayLoop
    cases hg : genIndex st with
    | none => simp [i]
    | some p =>
      obtain ⟨idx, st'⟩ := p
      simp only
      by_cases c : (s.relays.get idx).isNone = true
      · simp only [c, ↓reduceIte]
        obtain ⟨i1, same, hok⟩ := makePrimary_inv i h
        generalize hmp : makePrimary s h = mp at i1 same hok
        obtain ⟨s1, ok⟩ := mp
        simp only at i1 same hok
        cases ok with
        | false => simp [i1]
        | true =>
          simp only [Bool.not_true, Bool.false_eq_true, ↓reduceIte]
          have hl : Live s h := hok.mp rfl
          have hl1 : Live s1 h := by simpa [Live, same.obj, same.indexes] using hl
          have hz := genIndex_nonzero hg
          have hfree : s1.relays.get idx = none := by rw [same.relays]; simpa using c
          refine ⟨relay_update i1 hl1 hz hfree { rel with lidx := idx } rfl, ?_⟩
          intro idx' e
          simp only [Prod.mk.injEq, AllocRes.ok.injEq] at e
          subst e
          refine ⟨hz, by simpa using c, hl, ?_⟩
          simp [get_set]
      · simp only [c, Bool.false_eq_true, ↓reduceIte]
        exact ih s st' i

/-! ### all operations, all sequences -/

theorem applyOp_inv {s : State} (i : Inv s) (op : Op) : Inv (applyOp s op) := by
  cases op with
  | start a => exact startHandshake_inv i a
  | alloc a st => exact opAlloc_inv i a st
  | fin idx ads r t => exact opFin_inv i idx ads r t
  | resp ads r p t st => exact opResp_inv i ads r p t st
  | del h => exact deleteHost_inv i h
  | pdel h => exact pendingDelete_inv i h
  | prim h => exact (makePrimary_inv i h).1
  | relay h rel st => exact (relayLoop_inv h rel 32 s st i).1
  | relayTo h a => exact relayTo_inv i h a

theorem run_inv (ops : List Op) : ∀ s, Inv s → Inv (run s ops) := by
  induction ops with
  | nil => intro s i; exact i
  | cons op r ih => intro s i; exact ih _ (applyOp_inv i op)

end Nebula.HostMap
