import Nebula.Lemmas.SshPathSplit

namespace Nebula.Lemmas.SshPath
open Nebula.SshPath Nebula.Spec.SshPath

/-- a proper path element: a non-empty name other than `.` and `..`, without separator. -/
def Proper (c : Path) : Prop := c ≠ [] ∧ c ≠ dot ∧ c ≠ dotdot ∧ '/' ∉ c

/-- well-formed location: proper names; an absolute location has no leading `..`. -/
def WF (l : Loc) : Prop := (∀ c ∈ l.comps, Proper c) ∧ (l.abs = true → l.ups = 0)

theorem dotdot_sepfree : '/' ∉ dotdot := by decide

theorem stepElem_inv (abs : Bool) (st : Nat × List Path) (c : Path) (hc : '/' ∉ c)
    (h1 : ∀ x ∈ st.2, Proper x) (h2 : abs = true → st.1 = 0) :
    (∀ x ∈ (stepElem abs st c).2, Proper x) ∧ (abs = true → (stepElem abs st c).1 = 0) := by
  unfold stepElem
  split
  · exact ⟨h1, h2⟩
  · rename_i hne
    split
    · rename_i hdd
      cases hst : st.2 with
      | nil =>
        simp only
        cases abs
        · simp
        · simp only [if_true]; exact ⟨h1, fun _ => h2 rfl⟩
      | cons y rest =>
        simp only
        exact ⟨fun x hx => h1 x (by rw [hst]; exact List.mem_cons_of_mem _ hx), h2⟩
    · rename_i hdd
      refine ⟨?_, h2⟩
      intro x hx
      simp only [List.mem_cons] at hx
      rcases hx with rfl | hx
      · exact ⟨fun e => hne (Or.inl e), fun e => hne (Or.inr e), hdd, hc⟩
      · exact h1 x hx

theorem scan_inv (abs : Bool) (cs : List Path) (hcs : ∀ c ∈ cs, '/' ∉ c) :
    ∀ (st : Nat × List Path), (∀ x ∈ st.2, Proper x) → (abs = true → st.1 = 0) →
      (∀ x ∈ (scan abs st cs).2, Proper x) ∧ (abs = true → (scan abs st cs).1 = 0) := by
  induction cs with
  | nil => intro st h1 h2; exact ⟨h1, h2⟩
  | cons c cs ih =>
    intro st h1 h2
    have := stepElem_inv abs st c (hcs c (List.mem_cons_self ..)) h1 h2
    exact ih (fun x hx => hcs x (List.mem_cons_of_mem _ hx)) _ this.1 this.2

theorem resolve_wf (p : Path) : WF (resolve p) := by
  have := scan_inv (isAbs p) (split p) (split_sepfree_mem p) (0, []) (by simp) (fun _ => rfl)
  refine ⟨?_, this.2⟩
  intro c hc
  exact this.1 c (by simpa [resolve] using hc)

/-- scanning proper names pushes them. -/
theorem scan_proper (abs : Bool) (cs : List Path) (h : ∀ c ∈ cs, Proper c) :
    ∀ (st : Nat × List Path), scan abs st cs = (st.1, cs.reverse ++ st.2) := by
  induction cs with
  | nil => intro st; rfl
  | cons c cs ih =>
    intro st
    have hp := h c (List.mem_cons_self ..)
    have hstep : stepElem abs st c = (st.1, c :: st.2) := by
      unfold stepElem
      rw [if_neg (by intro e; rcases e with e | e; exact hp.1 e; exact hp.2.1 e), if_neg hp.2.2.1]
    simp only [scan, List.foldl_cons, hstep]
    have := ih (fun x hx => h x (List.mem_cons_of_mem _ hx)) (st.1, c :: st.2)
    simp only [scan] at this
    rw [this]
    simp

/-- scanning leading `..`s of a relative path on an empty stack counts them. -/
theorem scan_dotdots (n : Nat) : ∀ (k : Nat), scan false (k, []) (List.replicate n dotdot) = (k + n, []) := by
  induction n with
  | zero => intro k; rfl
  | succ n ih =>
    intro k
    have hstep : stepElem false (k, []) dotdot = (k + 1, []) := by
      unfold stepElem; simp [dotdot, dot]
    simp only [List.replicate_succ, scan, List.foldl_cons, hstep]
    have := ih (k + 1)
    simp only [scan] at this
    rw [this]
    congr 1
    omega

theorem scan_append (abs : Bool) (st : Nat × List Path) (a b : List Path) :
    scan abs st (a ++ b) = scan abs (scan abs st a) b := by
  simp [scan, List.foldl_append]

/-- the pieces of the shortest spelling of a well-formed location. -/
def selems (l : Loc) : List Path :=
  if l.abs then (if l.comps = [] then [[], []] else [] :: l.comps)
  else (if l.elems = [] then [dot] else l.elems)

theorem elems_sepfree (l : Loc) (h : WF l) : ∀ c ∈ l.elems, '/' ∉ c := by
  intro c hc
  simp only [Loc.elems, List.mem_append, List.mem_replicate] at hc
  rcases hc with ⟨_, rfl⟩ | hc
  · exact dotdot_sepfree
  · exact (h.1 c hc).2.2.2

theorem split_render (l : Loc) (h : WF l) : split (render l) = selems l := by
  unfold render selems
  cases habs : l.abs
  · simp only [Bool.false_eq_true, if_false]
    by_cases he : l.elems = []
    · simp only [he, if_true]; rfl
    · simp only [he, if_false]
      exact split_joinSep _ he (elems_sepfree l h)
  · simp only [if_true]
    have hups : l.ups = 0 := h.2 habs
    have hel : l.elems = l.comps := by simp [Loc.elems, hups]
    rw [split_cons_sep, hel]
    by_cases hc : l.comps = []
    · simp [hc, joinSep, split]
    · simp only [hc, if_false]
      rw [split_joinSep _ hc (fun c hx => (h.1 c hx).2.2.2)]

theorem isAbs_render (l : Loc) (h : WF l) : isAbs (render l) = l.abs := by
  unfold render
  cases habs : l.abs
  · simp only [Bool.false_eq_true, if_false]
    by_cases he : l.elems = []
    · simp [he, isAbs, dot]
    · simp only [he, if_false]
      -- the first element is `..` or a proper name: it does not start with `/`
      cases hel : l.elems with
      | nil => exact absurd hel he
      | cons c rest =>
        have hc : '/' ∉ c := elems_sepfree l h c (by rw [hel]; exact List.mem_cons_self ..)
        have hne : c ≠ [] := by
          have hm : c ∈ l.elems := by rw [hel]; exact List.mem_cons_self ..
          simp only [Loc.elems, List.mem_append, List.mem_replicate] at hm
          rcases hm with ⟨_, rfl⟩ | hm
          · decide
          · exact (h.1 c hm).1
        cases c with
        | nil => exact absurd rfl hne
        | cons x xs =>
          have hx : x ≠ '/' := fun e => hc (e ▸ List.mem_cons_self ..)
          cases rest with
          | nil => simp [joinSep, isAbs, hx]
          | cons r rs => simp [joinSep, isAbs, hx]
  · simp [isAbs]

/-- resolving the shortest spelling of a well-formed location gives the location back. -/
theorem resolve_render (l : Loc) (h : WF l) : resolve (render l) = l := by
  have hs := split_render l h
  have ha := isAbs_render l h
  unfold resolve
  rw [hs, ha]
  unfold selems
  cases habs : l.abs
  · simp only [Bool.false_eq_true, if_false]
    by_cases he : l.elems = []
    · simp only [he, if_true]
      have : l.ups = 0 ∧ l.comps = [] := by
        simp only [Loc.elems, List.append_eq_nil_iff, List.replicate_eq_nil_iff] at he
        exact he
      have e1 : scan false (0, []) [dot] = (0, []) := by decide
      rw [e1]
      cases l with | mk a u c => simp_all
    · rw [if_neg he]
      simp only [Loc.elems]
      rw [scan_append, scan_dotdots, scan_proper false l.comps h.1]
      cases l with | mk a u c => simp_all
  · simp only [if_true]
    have hups : l.ups = 0 := h.2 habs
    by_cases hc : l.comps = []
    · simp only [hc, if_true]
      have e1 : scan true (0, []) [[], []] = (0, []) := by decide
      rw [e1]
      cases l with | mk a u c => simp_all
    · simp only [hc, if_false]
      have e1 : scan true (0, []) ([] :: l.comps) = scan true (0, []) l.comps := by
        simp [scan, stepElem]
      rw [e1, scan_proper true l.comps h.1]
      cases l with | mk a u c => simp_all

theorem elems_ne_nil_mem (l : Loc) (h : WF l) : ∀ c ∈ l.elems, c ≠ [] := by
  intro c hm
  simp only [Loc.elems, List.mem_append, List.mem_replicate] at hm
  rcases hm with ⟨_, rfl⟩ | hm
  · decide
  · exact (h.1 c hm).1

theorem render_ne_nil (l : Loc) (h : WF l) : render l ≠ [] := by
  unfold render
  split
  · simp
  · split
    · decide
    · rename_i he
      cases hel : l.elems with
      | nil => exact absurd hel he
      | cons c rest =>
        have hc : c ≠ [] := elems_ne_nil_mem l h c (by rw [hel]; exact List.mem_cons_self ..)
        cases rest with
        | nil => simpa [joinSep] using hc
        | cons r rs => simp [joinSep, hc]

theorem clean_render (l : Loc) (h : WF l) : clean (render l) = render l := by
  unfold clean
  rw [if_neg (render_ne_nil l h), resolve_render l h]

theorem clean_eq_render (p : Path) (h : p ≠ []) : clean p = render (resolve p) := by
  unfold clean; rw [if_neg h]

end Nebula.Lemmas.SshPath
