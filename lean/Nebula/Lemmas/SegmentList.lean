/-
List-level lemmas for the segmenter proofs (C24): how the in-range field writes `set16` / `set8` /
`set32` commute with `++`, what a later read (`be16`, `getD`) sees, and what they do to `wsum`.
-/
import Nebula.Lemmas.Csum
import Nebula.Model.Segment

namespace Nebula.Lemmas.SegmentList
open Nebula.Csum Nebula.Segment

/-- a write inside the middle part of `x ++ (y ++ z)` is a write inside `y`. -/
theorem set16_mid (x y z : List UInt8) (k v : Nat) (h : k + 2 ≤ y.length) :
    set16 (x ++ (y ++ z)) (x.length + k) v = x ++ (set16 y k v ++ z) := by
  unfold set16
  have e1 : (x ++ (y ++ z)).take (x.length + k) = x ++ y.take k := by
    rw [List.take_append, List.take_of_length_le (by omega)]
    congr 1
    rw [List.take_append]
    have : x.length + k - x.length = k := by omega
    rw [this]
    have : k - y.length = 0 := by omega
    rw [this]; simp
  have e2 : (x ++ (y ++ z)).drop (x.length + k + 2) = y.drop (k + 2) ++ z := by
    rw [List.drop_append, List.drop_of_length_le (by omega)]
    have : x.length + k + 2 - x.length = k + 2 := by omega
    rw [this, List.drop_append]
    have : k + 2 - y.length = 0 := by omega
    rw [this]; simp
  rw [e1, e2]; simp [List.append_assoc]

theorem set16_left (y z : List UInt8) (k v : Nat) (h : k + 2 ≤ y.length) :
    set16 (y ++ z) k v = set16 y k v ++ z := by
  have := set16_mid [] y z k v h
  simpa using this

theorem set8_mid (x y z : List UInt8) (k v : Nat) (h : k + 1 ≤ y.length) :
    set8 (x ++ (y ++ z)) (x.length + k) v = x ++ (set8 y k v ++ z) := by
  unfold set8
  have e1 : (x ++ (y ++ z)).take (x.length + k) = x ++ y.take k := by
    rw [List.take_append, List.take_of_length_le (by omega)]
    congr 1
    rw [List.take_append]
    have : x.length + k - x.length = k := by omega
    rw [this]
    have : k - y.length = 0 := by omega
    rw [this]; simp
  have e2 : (x ++ (y ++ z)).drop (x.length + k + 1) = y.drop (k + 1) ++ z := by
    rw [List.drop_append, List.drop_of_length_le (by omega)]
    have : x.length + k + 1 - x.length = k + 1 := by omega
    rw [this, List.drop_append]
    have : k + 1 - y.length = 0 := by omega
    rw [this]; simp
  rw [e1, e2]; simp [List.append_assoc]

theorem set8_length (b : List UInt8) (off v : Nat) (h : off + 1 ≤ b.length) :
    (set8 b off v).length = b.length := by
  simp [set8]; omega

theorem set32_length (b : List UInt8) (off v : Nat) (h : off + 4 ≤ b.length) :
    (set32 b off v).length = b.length := by
  unfold set32
  rw [set16_length _ _ _ (by rw [set16_length _ _ _ (by omega)]; omega), set16_length _ _ _ (by omega)]

theorem set32_mid (x y z : List UInt8) (k v : Nat) (h : k + 4 ≤ y.length) :
    set32 (x ++ (y ++ z)) (x.length + k) v = x ++ (set32 y k v ++ z) := by
  unfold set32
  rw [set16_mid x y z k _ (by omega)]
  have := set16_mid x (set16 y k (v / 65536 % 65536)) z (k + 2) (v % 65536)
    (by rw [set16_length _ _ _ (by omega)]; omega)
  rw [← Nat.add_assoc] at this
  exact this

/-! ### reading back -/

theorem getD_set16 (b : List UInt8) (off v i : Nat) (h : off + 2 ≤ b.length) :
    (set16 b off v).getD i 0 =
      if i = off then UInt8.ofNat (v / 256 % 256) else if i = off + 1 then UInt8.ofNat (v % 256)
      else b.getD i 0 := by
  have hl : (b.take off).length = off := by simp; omega
  have hp : (put16 v).length = 2 := rfl
  unfold set16
  simp only [List.getD_eq_getElem?_getD, List.getElem?_append, List.length_append, hl, hp]
  by_cases h1 : i < off
  · have : i < off + 2 := by omega
    have : i ≠ off := by omega
    have : i ≠ off + 1 := by omega
    have hb : i < b.length := by omega
    simp [*, List.getElem?_eq_getElem hb]
  · by_cases h2 : i = off
    · subst h2; simp [put16]
    · by_cases h3 : i = off + 1
      · subst h3
        have : ¬ off + 1 < off := by omega
        simp [put16, this]
      · have : ¬ i < off + 2 := by omega
        simp only [*, if_false]
        rw [List.getElem?_drop]
        congr 2; omega

theorem be16_set16_same (b : List UInt8) (off v : Nat) (h : off + 2 ≤ b.length) (hv : v < 65536) :
    be16 (set16 b off v) off = v := by
  unfold be16
  rw [getD_set16 _ _ _ _ h, getD_set16 _ _ _ _ h]
  simp
  omega

theorem be16_set16_other (b : List UInt8) (off v off' : Nat) (h : off + 2 ≤ b.length)
    (hd : off' + 2 ≤ off ∨ off + 2 ≤ off') : be16 (set16 b off v) off' = be16 b off' := by
  unfold be16
  rw [getD_set16 _ _ _ _ h, getD_set16 _ _ _ _ h]
  have : off' ≠ off := by omega
  have : off' ≠ off + 1 := by omega
  have : off' + 1 ≠ off := by omega
  have : off' + 1 ≠ off + 1 := by omega
  simp [*]

theorem be16_take (b : List UInt8) (n off : Nat) (h : off + 2 ≤ n) : be16 (b.take n) off = be16 b off := by
  unfold be16
  simp only [List.getD_eq_getElem?_getD, List.getElem?_take]
  have : off < n := by omega
  have : off + 1 < n := by omega
  simp [*]

theorem be16_append_left (a b : List UInt8) (off : Nat) (h : off + 2 ≤ a.length) :
    be16 (a ++ b) off = be16 a off := by
  unfold be16
  simp only [List.getD_eq_getElem?_getD]
  rw [List.getElem?_append_left (by omega), List.getElem?_append_left (by omega)]

end Nebula.Lemmas.SegmentList
