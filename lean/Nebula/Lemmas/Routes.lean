/-
Lemmas for C41: the parser model refines the executable specification.
-/
import Nebula.Spec.Routes

namespace Nebula.Lemmas.Routes
open Nebula.Net Nebula.Routes Nebula.Spec.Routes

/-! ### numbers -/

def accStep (acc : Option Nat) (c : Char) : Option Nat :=
  match acc, digitVal c with
  | some n, some d => some (n * 10 + d)
  | _, _ => none

theorem foldl_none (cs : List Char) : cs.foldl accStep none = none := by
  induction cs with
  | nil => rfl
  | cons c cs ih => simpa [List.foldl, accStep] using ih

theorem digitsLoop_eq (cs : List Char) : ∀ n, digitsLoop n cs = cs.foldl accStep (some n) := by
  induction cs with
  | nil => intro n; rfl
  | cons c cs ih =>
    intro n
    simp only [digitsLoop, List.foldl_cons]
    cases h : digitVal c with
    | none => simp [accStep, h, foldl_none]
    | some d => simp [accStep, h, ih]

theorem digitsLoop_value (cs : List Char) : digitsLoop 0 cs = digitsValue cs := by
  rw [digitsLoop_eq]; rfl

theorem parseDecimal_eq (s : String) : parseDecimal s = decimalValue s.toList := by
  unfold parseDecimal decimalValue
  cases s.toList with
  | nil => rfl
  | cons c ds => simp only [digitsLoop_value]

theorem fits64 (v : Int) : fitsBits 64 v = true ↔ (-(2 : Int) ^ 63 ≤ v ∧ v < (2 : Int) ^ 63) := by
  simp [fitsBits]

theorem fits32 (v : Int) : fitsBits 32 v = true ↔ (-(2 : Int) ^ 31 ≤ v ∧ v < (2 : Int) ^ 31) := by
  simp [fitsBits]

/-- the `int`/string reader with `Atoi` is exactly "the number the value states". -/
theorem numField64 (v : Yaml) : numField 64 v = stated v := by
  cases v <;> simp only [numField, stated]
  rename_i s
  simp only [parseInt, parseDecimal_eq]
  cases decimalValue s.toList with
  | none => rfl
  | some n =>
    simp only
    by_cases h : (-(2 : Int) ^ 63 ≤ n ∧ n < (2 : Int) ^ 63)
    · rw [if_pos ((fits64 n).mpr h), if_pos h]
    · rw [if_neg (fun hc => h ((fits64 n).mp hc)), if_neg h]

/-- the reader with `ParseInt(…, 10, 32)` followed by a range check inside `[lo, 2^31-1]`, `lo ≥ 0`,
accepts exactly the stated numbers inside the range. -/
theorem numField32 (v : Yaml) (lo : Int) (hlo : 0 ≤ lo) (n : Int) :
    (numField 32 v = some n ∧ ¬ (n < lo ∨ n > maxInt32)) ↔
    (stated v = some n ∧ lo ≤ n ∧ n ≤ 2147483647) := by
  cases v <;> simp only [numField, stated, maxInt32]
  case int i => constructor <;> (rintro ⟨h1, h2⟩; refine ⟨h1, ?_⟩; omega)
  case str s =>
    simp only [parseInt, parseDecimal_eq]
    cases decimalValue s.toList with
    | none => simp
    | some m =>
      simp only
      constructor
      · rintro ⟨h1, h2⟩
        by_cases hf : fitsBits 32 m = true
        · rw [if_pos hf] at h1
          have hm : m = n := by simpa using h1
          subst hm
          have := (fits32 m).mp hf
          have h64 : (-(2 : Int) ^ 63 ≤ m ∧ m < (2 : Int) ^ 63) := by omega
          rw [if_pos h64]
          exact ⟨rfl, by omega⟩
        · rw [if_neg hf] at h1; simp at h1
      · rintro ⟨h1, h2⟩
        by_cases h64 : (-(2 : Int) ^ 63 ≤ m ∧ m < (2 : Int) ^ 63)
        · rw [if_pos h64] at h1
          have hm : m = n := by simpa using h1
          subst hm
          have hf : fitsBits 32 m = true := (fits32 m).mpr (by omega)
          rw [if_pos hf]
          exact ⟨rfl, by omega⟩
        · rw [if_neg h64] at h1; simp at h1
  all_goals simp

/-! ### lists of entries -/

theorem entries_ok {α : Type} (f : Nat → Yaml → Res α) (g : Yaml → Option α)
    (h : ∀ i r x, f i r = .ok x ↔ g r = some x) :
    ∀ (l : List Yaml) (i : Nat) (xs : List α), entries f i l = .ok xs ↔ mapOpt g l = some xs := by
  intro l
  induction l with
  | nil => intro i xs; simp [entries, mapOpt, eq_comm]
  | cons r rs ih =>
    intro i xs
    simp only [entries, mapOpt]
    cases hf : f i r with
    | ok x =>
      have hg := (h i r x).mp hf
      simp only [hg]
      cases he : entries f (i + 1) rs with
      | ok ys =>
        have := (ih (i + 1) ys).mp he
        simp [this]
      | err e =>
        cases hm : mapOpt g rs with
        | none => simp
        | some ys => have := (ih (i + 1) ys).mpr hm; rw [he] at this; cases this
      | panic =>
        cases hm : mapOpt g rs with
        | none => simp
        | some ys => have := (ih (i + 1) ys).mpr hm; rw [he] at this; cases this
    | err e =>
      cases hg : g r with
      | none => simp
      | some x => have := (h i r x).mpr hg; rw [hf] at this; cases this
    | panic =>
      cases hg : g r with
      | none => simp
      | some x => have := (h i r x).mpr hg; rw [hf] at this; cases this

theorem entries_no_panic {α : Type} (f : Nat → Yaml → Res α) (h : ∀ i r, f i r ≠ .panic) :
    ∀ (l : List Yaml) (i : Nat), entries f i l ≠ .panic := by
  intro l
  induction l with
  | nil => intro i; simp [entries]
  | cons r rs ih =>
    intro i
    simp only [entries]
    cases hf : f i r with
    | ok x =>
      cases he : entries f (i + 1) rs with
      | ok ys => simp
      | err e => simp
      | panic => exact absurd he (ih _)
    | err e => simp
    | panic => exact absurd hf (h i r)

theorem top_ok (f : Nat → Yaml → Res Route) (g : Yaml → Option Route)
    (h : ∀ i r x, f i r = .ok x ↔ g r = some x) (v : Option Yaml) (rs : List Route) :
    top f v = .ok rs ↔ specLoad g v = some rs := by
  unfold top specLoad
  cases v with
  | none => simp [eq_comm]
  | some y =>
    cases y <;> simp [eq_comm]
    rw [entries_ok f g h, eq_comm]

theorem top_no_panic (f : Nat → Yaml → Res Route) (h : ∀ i r, f i r ≠ .panic) (v : Option Yaml) :
    top f v ≠ .panic := by
  unfold top
  cases v with
  | none => simp
  | some y =>
    cases y <;> simp
    exact entries_no_panic f h _ _

end Nebula.Lemmas.Routes
