/-
Proof that the model of `checksumAVX2` (Model/ChecksumAVX2.lean) computes the RFC 1071 checksum.

Structure: every scalar stage keeps `Inv T buf ax` ("`ax` represents `T` minus the little-endian sum
of the bytes still to be read"); the vector stage keeps `VInv` (the 16 lanes add up, modulo 2^64, to an
exact natural `W` that represents the consumed bytes, and `W` is small enough not to wrap while the
buffer is shorter than 2^34 bytes); the four fold rounds compute `ocNorm`; byte-order independence
(`Csum.checksum_byte_order`) converts the little-endian result.
-/
import Nebula.Lemmas.Csum
import Nebula.Model.ChecksumAVX2

namespace Nebula.Lemmas.CsumAVX2
open Nebula.Csum Nebula.ChecksumAVX2

/-! ### scalar building blocks -/

theorem addc_eq (a b : Nat) (ha : a < M64) (hb : b < M64) :
    addc a b = if a + b < M64 then a + b else a + b - 65535 * 281479271743489 := by
  unfold addc M64 at *; simp only; split <;> omega

theorem addc_rep {a b X Y : Nat} (ha : a < M64) (hb : b < M64) (h1 : Rep a X) (h2 : Rep b Y) :
    Rep (addc a b) (X + Y) ∧ addc a b < M64 := by
  rw [addc_eq a b ha hb]
  unfold Rep M64 at *
  split
  · omega
  · have : (a + b - 65535 * 281479271743489) % 65535 = (a + b) % 65535 := by
      have h : a + b = (a + b - 65535 * 281479271743489) + 65535 * 281479271743489 := by omega
      conv => rhs; rw [h]
      rw [Nat.add_mul_mod_self_left]
    omega

theorem leLoad_lt (l : List UInt8) : leLoad l < 256 ^ l.length := by
  induction l with
  | nil => simp [leLoad]
  | cons b r ih =>
    have := b.toNat_lt
    simp only [leLoad, List.length_cons, Nat.pow_succ]
    omega

theorem leLoad_lt_M64 (l : List UInt8) (h : l.length ≤ 8) : leLoad l < M64 := by
  have h1 := leLoad_lt l
  have h2 : 256 ^ l.length ≤ 256 ^ 8 := Nat.pow_le_pow_right (by decide) h
  have : (256 : Nat) ^ 8 = M64 := by decide
  omega

theorem leLoad_lt_32 (l : List UInt8) (h : l.length ≤ 4) : leLoad l < 4294967296 := by
  have h1 := leLoad_lt l
  have h2 : 256 ^ l.length ≤ 256 ^ 4 := Nat.pow_le_pow_right (by decide) h
  have : (256 : Nat) ^ 4 = 4294967296 := by decide
  omega

/-- A little-endian load of an even number of bytes represents their little-endian word sum
(2^16 ≡ 1). -/
theorem leLoad_rep (l : List UInt8) (h : l.length % 2 = 0) : Rep (leLoad l) (leSum l) := by
  fun_induction leSum l with
  | case1 => simp [leLoad, rep_refl]
  | case2 x => simp at h
  | case3 x y r ih =>
    have hr : r.length % 2 = 0 := by simp at h; omega
    have := ih hr
    simp only [leLoad]; unfold Rep at *; omega

theorem leLoad_rep_one (l : List UInt8) (h : l.length = 1) : Rep (leLoad l) (leSum l) := by
  match l, h with
  | [x], _ => simp [leLoad, leSum, rep_refl]

theorem leSum_take_drop (buf : List UInt8) (n : Nat) (hn : n % 2 = 0) (h : n ≤ buf.length) :
    leSum buf = leSum (buf.take n) + leSum (buf.drop n) := by
  have : (buf.take n).length % 2 = 0 := by simp; omega
  rw [← leSum_append _ _ this, List.take_append_drop]

/-- `(p.drop o).take (n+m)` splits at an even `n`. -/
theorem leSum_chunk_split (p : List UInt8) (o n m : Nat) (hn : n % 2 = 0) (h : o + n ≤ p.length) :
    leSum ((p.drop o).take (n + m)) = leSum ((p.drop o).take n) + leSum ((p.drop (o + n)).take m) := by
  have : ((p.drop o).take n).length % 2 = 0 := by simp; omega
  rw [List.take_add, leSum_append _ _ this, List.drop_drop]

/-! ### the scalar stages -/

/-- `ax` (a 64-bit register) together with the unread bytes accounts for the total `T`. -/
def Inv (T : Nat) (buf : List UInt8) (ax : Nat) : Prop :=
  ax < M64 ∧ ∃ X, Rep ax X ∧ X + leSum buf = T

theorem inv_step (T : Nat) (buf : List UInt8) (ax n : Nat) (hn : n % 2 = 0) (h8 : n ≤ 8)
    (h : n ≤ buf.length) (hi : Inv T buf ax) : Inv T (buf.drop n) (addc ax (leLoad (buf.take n))) := by
  obtain ⟨hax, X, hX, hT⟩ := hi
  have hl : (buf.take n).length = n := by simp; omega
  have h1 := leLoad_lt_M64 (buf.take n) (by omega)
  have h2 := leLoad_rep (buf.take n) (by omega)
  have h3 := addc_rep hax h1 hX h2
  refine ⟨h3.2, X + leSum (buf.take n), h3.1, ?_⟩
  rw [leSum_take_drop buf n hn h] at hT; omega

theorem loop8_inv (T : Nat) (buf : List UInt8) (ax : Nat) (hi : Inv T buf ax) :
    Inv T (loop8 buf ax).1 (loop8 buf ax).2 ∧ (loop8 buf ax).1.length < 8 := by
  fun_induction loop8 buf ax with
  | case1 buf ax h ih => exact ih (inv_step T buf ax 8 (by decide) (by decide) h hi)
  | case2 buf ax h => exact ⟨hi, by show buf.length < 8; omega⟩

theorem tailN_inv (T : Nat) (n : Nat) (hn : n % 2 = 0) (h8 : n ≤ 8) (buf : List UInt8) (ax : Nat)
    (hi : Inv T buf ax) (hl : buf.length < 2 * n) :
    Inv T (tailN n buf ax).1 (tailN n buf ax).2 ∧ (tailN n buf ax).1.length < n := by
  unfold tailN
  split
  · next h => exact ⟨inv_step T buf ax n hn h8 h hi, by simp; omega⟩
  · next h => exact ⟨hi, by simp; omega⟩

theorem tail1_rep (T : Nat) (buf : List UInt8) (ax : Nat) (hi : Inv T buf ax) (hl : buf.length < 2) :
    Rep (tail1 buf ax) T ∧ tail1 buf ax < M64 := by
  obtain ⟨hax, X, hX, hT⟩ := hi
  unfold tail1
  split
  · next h =>
    have : buf = [] := List.eq_nil_of_length_eq_zero h
    subst this; simp [leSum] at hT; subst hT; exact ⟨hX, hax⟩
  · next h =>
    have h1 : buf.length = 1 := by omega
    have e : buf.take 1 = buf := List.take_of_length_le (by omega)
    rw [e]
    have := addc_rep hax (leLoad_lt_M64 buf (by omega)) hX (leLoad_rep_one buf h1)
    rw [hT] at this; exact this

/-! ### the vector stage -/

def ysum (y : Ymm) : Nat := y.l0 + y.l1 + y.l2 + y.l3

def lanesSum (v : Vec) : Nat := ysum v.y4 + ysum v.y5 + ysum v.y6 + ysum v.y7

theorem vpaddq_sum (a b : Ymm) : ysum (vpaddq a b) % M64 = (ysum a + ysum b) % M64 := by
  unfold vpaddq ysum M64; simp only; omega

theorem reduceVec_eq (v : Vec) : reduceVec v = lanesSum v % M64 := by
  unfold reduceVec lanesSum vpaddq ysum M64; simp only; omega

/-- One `VPMOVZXDQ` of 16 in-range bytes: the four lanes add up to a number that represents the
little-endian word sum of those bytes, and is below 4·2^32. -/
theorem vpmovzxdq_rep (p : List UInt8) (off : Nat) (h : off + 16 ≤ p.length) :
    Rep (ysum (vpmovzxdq p off)) (leSum ((p.drop off).take 16)) ∧
      ysum (vpmovzxdq p off) < 4 * 4294967296 := by
  have hq : 16 ≤ (p.drop off).length := by simp; omega
  unfold vpmovzxdq ysum
  dsimp only
  generalize p.drop off = q at hq ⊢
  have s1 := leSum_chunk_split q 0 4 12 (by decide) (by omega)
  have s2 := leSum_chunk_split q 4 4 8 (by decide) (by omega)
  have s3 := leSum_chunk_split q 8 4 4 (by decide) (by omega)
  simp only [List.drop_zero, Nat.reduceAdd] at s1 s2 s3
  have r0 := leLoad_rep (q.take 4) (by simp; omega)
  have r1 := leLoad_rep ((q.drop 4).take 4) (by simp; omega)
  have r2 := leLoad_rep ((q.drop 8).take 4) (by simp; omega)
  have r3 := leLoad_rep ((q.drop 12).take 4) (by simp; omega)
  have b0 := leLoad_lt_32 (q.take 4) (by simp; omega)
  have b1 := leLoad_lt_32 ((q.drop 4).take 4) (by simp; omega)
  have b2 := leLoad_lt_32 ((q.drop 8).take 4) (by simp; omega)
  have b3 := leLoad_lt_32 ((q.drop 12).take 4) (by simp; omega)
  rw [s1, s2, s3]
  refine ⟨?_, by omega⟩
  have := rep_add (rep_add (rep_add r0 r1) r2) r3
  simpa only [Nat.add_assoc] using this

/-- State of the vector loops: the lanes add up (mod 2^64) to an exact `W`; `W` represents `X`; `X`
plus the unread bytes is the whole buffer's sum `T0`; and `W` is bounded by the bytes consumed
(`L0` = original length). -/
def VInv (T0 L0 : Nat) (buf : List UInt8) (v : Vec) : Prop :=
  ∃ W X, lanesSum v % M64 = W % M64 ∧ Rep W X ∧ X + leSum buf = T0 ∧
    W * 4 + buf.length * 4294967296 ≤ L0 * 4294967296

theorem loop64_inv (T0 L0 : Nat) (buf : List UInt8) (v : Vec) (hi : VInv T0 L0 buf v) :
    VInv T0 L0 (loop64 buf v).1 (loop64 buf v).2 := by
  fun_induction loop64 buf v with
  | case2 buf v h => exact hi
  | case1 buf v h ih =>
    apply ih
    obtain ⟨W, X, hW, hX, hT, hB⟩ := hi
    have a0 := vpmovzxdq_rep buf 0 (by omega)
    have a1 := vpmovzxdq_rep buf 16 (by omega)
    have a2 := vpmovzxdq_rep buf 32 (by omega)
    have a3 := vpmovzxdq_rep buf 48 (by omega)
    have s0 := leSum_take_drop buf 64 (by decide) h
    have s1 := leSum_chunk_split buf 0 16 48 (by decide) (by omega)
    have s2 := leSum_chunk_split buf 16 16 32 (by decide) (by omega)
    have s3 := leSum_chunk_split buf 32 16 16 (by decide) (by omega)
    simp only [List.drop_zero, Nat.reduceAdd] at s1 s2 s3 a0
    refine ⟨W + (ysum (vpmovzxdq buf 0) + ysum (vpmovzxdq buf 16) + ysum (vpmovzxdq buf 32)
        + ysum (vpmovzxdq buf 48)), X + leSum (buf.take 64), ?_, ?_, ?_, ?_⟩
    · have p0 := vpaddq_sum (vpmovzxdq buf 0) v.y4
      have p1 := vpaddq_sum (vpmovzxdq buf 16) v.y5
      have p2 := vpaddq_sum (vpmovzxdq buf 32) v.y6
      have p3 := vpaddq_sum (vpmovzxdq buf 48) v.y7
      unfold lanesSum at *
      simp only
      unfold M64 at *
      omega
    · apply rep_add hX
      rw [s1, s2, s3]
      have := rep_add (rep_add (rep_add a0.1 a1.1) a2.1) a3.1
      simpa [Nat.add_assoc] using this
    · omega
    · simp only [List.length_drop]; omega

theorem loop32_inv (T0 L0 : Nat) (buf : List UInt8) (v : Vec) (hi : VInv T0 L0 buf v) :
    VInv T0 L0 (loop32 buf v).1 (loop32 buf v).2 ∧ (loop32 buf v).1.length < 32 := by
  fun_induction loop32 buf v with
  | case2 buf v h => exact ⟨hi, by show buf.length < 32; omega⟩
  | case1 buf v h ih =>
    apply ih
    obtain ⟨W, X, hW, hX, hT, hB⟩ := hi
    have a0 := vpmovzxdq_rep buf 0 (by omega)
    have a1 := vpmovzxdq_rep buf 16 (by omega)
    have s0 := leSum_take_drop buf 32 (by decide) h
    have s1 := leSum_chunk_split buf 0 16 16 (by decide) (by omega)
    simp only [List.drop_zero, Nat.reduceAdd] at s1 a0
    refine ⟨W + (ysum (vpmovzxdq buf 0) + ysum (vpmovzxdq buf 16)), X + leSum (buf.take 32), ?_, ?_, ?_, ?_⟩
    · have p0 := vpaddq_sum (vpmovzxdq buf 0) v.y4
      have p1 := vpaddq_sum (vpmovzxdq buf 16) v.y5
      unfold lanesSum at *
      simp only
      unfold M64 at *
      omega
    · apply rep_add hX
      rw [s1]
      exact rep_add a0.1 a1.1
    · omega
    · simp only [List.length_drop]; omega

/-! ### the fold -/

theorem fold_r1 (x : Nat) : Rep (x % 4294967296 + x / 4294967296) x := by
  unfold Rep
  constructor
  · have h1 : x = x % 4294967296 + 4294967296 * (x / 4294967296) := by omega
    conv => rhs; rw [h1]
    have h2 : 4294967296 * (x / 4294967296) = x / 4294967296 + 65535 * (65537 * (x / 4294967296)) := by
      omega
    rw [h2, ← Nat.add_assoc, Nat.add_mul_mod_self_left]
  · omega

theorem fold_r2 (x : Nat) (h : x ≤ 8589934590) : Rep ((x + x / 4294967296) % 4294967296) x := by
  unfold Rep
  by_cases h1 : x < 4294967296
  · have : x / 4294967296 = 0 := by omega
    rw [this]; omega
  · have : x / 4294967296 = 1 := by omega
    rw [this]
    have : (x + 1) % 4294967296 = x - 65535 * 65537 := by omega
    rw [this]
    have h : x = (x - 65535 * 65537) + 65535 * 65537 := by omega
    constructor
    · conv => rhs; rw [h]
      rw [Nat.add_mul_mod_self_left]
    · omega

theorem fold_r3 (x : Nat) : Rep (x % 65536 + x / 65536) x := foldStep_rep x

theorem fold_r4 (x : Nat) (h : x ≤ 131070) : Rep ((x + x / 65536) % 65536) x := by
  unfold Rep
  by_cases h1 : x < 65536
  · have : x / 65536 = 0 := by omega
    rw [this]; omega
  · have : x / 65536 = 1 := by omega
    rw [this]; omega

/-- The four assembly fold rounds, followed by the 16-bit store, compute the canonical one's-complement
representative of any 64-bit accumulator. -/
theorem fold64_eq (x : Nat) (h : x < M64) : fold64 x % 65536 = ocNorm x := by
  unfold fold64 M64 at *
  simp only
  have b1 : x % 4294967296 + x / 4294967296 ≤ 8589934590 := by omega
  have e1 : (x % 4294967296 + x / 4294967296) % 18446744073709551616 = x % 4294967296 + x / 4294967296 := by
    omega
  rw [e1]
  have q1 := fold_r1 x
  generalize x % 4294967296 + x / 4294967296 = y1 at *
  have e2 : (y1 + y1 / 4294967296) % 18446744073709551616 = y1 + y1 / 4294967296 := by omega
  rw [e2]
  have q2 := fold_r2 y1 b1
  have b2 : (y1 + y1 / 4294967296) % 4294967296 < 4294967296 := by omega
  generalize (y1 + y1 / 4294967296) % 4294967296 = y2 at *
  have e3 : (y2 % 65536 + y2 / 65536) % 18446744073709551616 = y2 % 65536 + y2 / 65536 := by omega
  rw [e3]
  have q3 := fold_r3 y2
  have b3 : y2 % 65536 + y2 / 65536 ≤ 131070 := by omega
  generalize y2 % 65536 + y2 / 65536 = y3 at *
  have e4 : (y3 + y3 / 65536) % 18446744073709551616 = y3 + y3 / 65536 := by omega
  rw [e4]
  have q4 := fold_r4 y3 b3
  exact rep_norm (rep_trans q4 (rep_trans q3 (rep_trans q2 q1))) (by omega)

theorem xchgb_low (x : Nat) : xchgb x % 65536 = swap16 (x % 65536) := by
  unfold xchgb
  have := swap16_lt (x % 65536)
  omega

theorem xchgb_of_lt (x : Nat) (h : x < 65536) : xchgb x = swap16 x := by
  unfold xchgb
  have : x / 65536 = 0 := by omega
  have : x % 65536 = x := by omega
  simp [*]

/-! ### the whole routine -/

theorem scalar_tail_rep (T : Nat) (buf : List UInt8) (ax : Nat) (hi : Inv T buf ax) :
    let r8 := loop8 buf ax
    let r4 := tailN 4 r8.1 r8.2
    let r2 := tailN 2 r4.1 r4.2
    Rep (tail1 r2.1 r2.2) T ∧ tail1 r2.1 r2.2 < M64 := by
  intro r8 r4 r2
  have h8 := loop8_inv T buf ax hi
  have h8' : r8.1.length < 8 := h8.2
  have h4 := tailN_inv T 4 (by decide) (by decide) r8.1 r8.2 h8.1 (by omega)
  have h4' : r4.1.length < 4 := h4.2
  have h2 := tailN_inv T 2 (by decide) (by decide) r4.1 r4.2 h4.1 (by omega)
  exact tail1_rep T r2.1 r2.2 h2.1 h2.2

/-- **Main lemma.** For every buffer shorter than 2^34 bytes and every 16-bit seed the modelled
assembly returns the RFC 1071 checksum. -/
theorem checksumAVX2_eq (buf : List UInt8) (s : Nat) (hs : s < 65536) (hl : buf.length < 17179869184) :
    checksumAVX2 buf s = checksum buf s := by
  have hs' : s % 65536 = s := Nat.mod_eq_of_lt hs
  have hax0 : xchgb (s % 65536) = swap16 s := by rw [hs', xchgb_of_lt s hs]
  have hsw := swap16_lt s
  -- everything after the vector stage, for any entry state satisfying the invariant
  have fin : ∀ (b : List UInt8) (ax : Nat), Inv (swap16 s + leSum buf) b ax →
      (let r8 := loop8 b ax
       let r4 := tailN 4 r8.1 r8.2
       let r2 := tailN 2 r4.1 r4.2
       xchgb (fold64 (tail1 r2.1 r2.2)) % 65536) = checksum buf s := by
    intro b ax hi
    have h := scalar_tail_rep _ b ax hi
    simp only at h ⊢
    rw [xchgb_low, fold64_eq _ h.2, ocNorm_congr h.1, ← fold16_eq, Nat.add_comm]
    exact checksum_byte_order buf s hs
  unfold checksumAVX2
  rw [hax0]
  by_cases h32 : buf.length < 32
  · simp only [h32, if_true]
    exact fin buf (swap16 s) ⟨by unfold M64; omega, swap16 s, rep_refl _, rfl⟩
  · simp only [h32, if_false]
    have v0 : VInv (leSum buf) buf.length buf ⟨Ymm.zero, Ymm.zero, Ymm.zero, Ymm.zero⟩ :=
      ⟨0, 0, by simp [lanesSum, ysum, Ymm.zero], rep_refl 0, by simp, by omega⟩
    have v1 := loop64_inv _ _ _ _ v0
    have v2 := (loop32_inv _ _ _ _ v1).1
    generalize loop64 buf ⟨Ymm.zero, Ymm.zero, Ymm.zero, Ymm.zero⟩ = st1 at v1 v2 ⊢
    generalize loop32 st1.1 st1.2 = st2 at v2 ⊢
    obtain ⟨W, X, hW, hX, hT, hB⟩ := v2
    have hWlt : W < M64 := by unfold M64; omega
    have hr : reduceVec st2.2 = W := by
      rw [reduceVec_eq, hW]; exact Nat.mod_eq_of_lt hWlt
    apply fin
    have := addc_rep (a := swap16 s) (b := W) (by unfold M64; omega) hWlt (rep_refl _) hX
    rw [hr]
    exact ⟨this.2, swap16 s + X, this.1, by omega⟩

end Nebula.Lemmas.CsumAVX2
