import Nebula.Lemmas.HsRace

namespace Nebula.Lemmas.HsRace
open Nebula.HsRace

theorem receive_addr_swaps (me : Side) (fresh : Nat) (m : Msg) :
    (me.receive fresh m).1.addr = me.addr ∧ (me.receive fresh m).1.swaps = me.swaps := by
  cases m with
  | m1 hs idx =>
    simp only [Side.receive]
    split
    · exact ⟨rfl, rfl⟩
    · simp
  | m2 hs r i =>
    simp only [Side.receive]
    split
    · split
      · simp
      · exact ⟨rfl, rfl⟩
    · exact ⟨rfl, rfl⟩

/-- a side has swapped only if its own address is not greater than the peer's -/
def SwapInv (s : St) : Prop :=
  (s.x.swaps > 0 → s.y.addr ≥ s.x.addr) ∧ (s.y.swaps > 0 → s.x.addr ≥ s.y.addr)

theorem step_addrs (s : St) (st : Step) : (s.step st).x.addr = s.x.addr ∧ (s.step st).y.addr = s.y.addr := by
  cases st with
  | start onX hs idx => cases onX <;> simp only [St.step, St.get, St.set, Bool.not_true, Bool.not_false, if_true, if_false, Bool.false_eq_true] <;> split <;> simp
  | resend onX => cases onX <;> simp only [St.step, St.get, St.set, Bool.not_true, Bool.not_false, if_true, if_false, Bool.false_eq_true] <;> split <;> simp
  | giveUp onX => cases onX <;> simp [St.step, St.get, St.set]
  | deliver toX k ridx =>
    cases toX <;> simp only [St.step, St.get, St.set, Bool.not_true, Bool.not_false, if_true, if_false, Bool.false_eq_true]
    · split
      · simp
      · rename_i m _; exact ⟨rfl, (receive_addr_swaps s.y ridx m).1⟩
    · split
      · simp
      · rename_i m _; exact ⟨(receive_addr_swaps s.x ridx m).1, rfl⟩
  | drop toX k => cases toX <;> simp [St.step, St.get, St.set]
  | swap onX j =>
    cases onX <;> simp only [St.step, St.get, St.set, Bool.not_true, Bool.not_false, if_true, if_false, Bool.false_eq_true] <;>
      (split; · simp
       · split
         · simp
         · split <;> simp)
  | del onX j =>
    cases onX <;> simp only [St.step, St.get, St.set, if_true, if_false, Bool.false_eq_true] <;> split <;> simp
  | check onX j i o => exact ⟨rfl, rfl⟩

theorem step_swapinv (s : St) (st : Step) (h : SwapInv s) : SwapInv (s.step st) := by
  have ha := step_addrs s st
  unfold SwapInv
  rw [ha.1, ha.2]
  cases st with
  | start onX hs idx => cases onX <;> simp only [St.step, St.get, St.set, Bool.not_true, Bool.not_false, if_true, if_false, Bool.false_eq_true] <;> split <;> exact h
  | resend onX => cases onX <;> simp only [St.step, St.get, St.set, Bool.not_true, Bool.not_false, if_true, if_false, Bool.false_eq_true] <;> split <;> exact h
  | giveUp onX => cases onX <;> simp only [St.step, St.get, St.set, if_true, if_false, Bool.false_eq_true] <;> exact h
  | deliver toX k ridx =>
    cases toX <;> simp only [St.step, St.get, St.set, Bool.not_true, Bool.not_false, if_true, if_false, Bool.false_eq_true]
    · split
      · exact h
      · rename_i m _
        have := (receive_addr_swaps s.y ridx m).2
        exact ⟨h.1, by rw [this]; exact h.2⟩
    · split
      · exact h
      · rename_i m _
        have := (receive_addr_swaps s.x ridx m).2
        exact ⟨by rw [this]; exact h.1, h.2⟩
  | drop toX k => cases toX <;> simp only [St.step, St.get, St.set, if_true, if_false, Bool.false_eq_true] <;> exact h
  | swap onX j =>
    cases onX <;> simp only [St.step, St.get, St.set, Bool.not_true, Bool.not_false, if_true, if_false, Bool.false_eq_true]
    · split
      · exact h
      · split
        · exact h
        · split
          · rename_i hs
            refine ⟨h.1, fun _ => ?_⟩
            simpa [shouldSwap] using hs
          · exact h
    · split
      · exact h
      · split
        · exact h
        · split
          · rename_i hs
            refine ⟨fun _ => ?_, h.2⟩
            simpa [shouldSwap] using hs
          · exact h
  | del onX j =>
    cases onX <;> simp only [St.step, St.get, St.set, if_true, if_false, Bool.false_eq_true] <;> split <;> exact h
  | check onX j i o => exact h

theorem stepAll_addrs (s : St) (st : Step) : (s.stepAll st).x.addr = s.x.addr ∧ (s.stepAll st).y.addr = s.y.addr := by
  cases st with
  | check onX j i o =>
    cases onX <;> simp only [St.stepAll, St.get, St.set, Bool.not_true, Bool.not_false, if_true, if_false, Bool.false_eq_true]
    · exact ⟨trivial, (check_shrink s.y s.x j i o).2.2.2.1⟩
    · exact ⟨(check_shrink s.x s.y j i o).2.2.2.1, trivial⟩
  | start onX hs idx => exact step_addrs s _
  | resend onX => exact step_addrs s _
  | giveUp onX => exact step_addrs s _
  | deliver toX k r => exact step_addrs s _
  | drop toX k => exact step_addrs s _
  | swap onX j => exact step_addrs s _
  | del onX j => exact step_addrs s _

theorem stepAll_swapinv (s : St) (st : Step) (h : SwapInv s) : SwapInv (s.stepAll st) := by
  cases st with
  | check onX j i o =>
    have ha := stepAll_addrs s (.check onX j i o)
    unfold SwapInv
    rw [ha.1, ha.2]
    cases onX <;> simp only [St.stepAll, St.get, St.set, Bool.not_true, Bool.not_false, if_true, if_false, Bool.false_eq_true]
    · refine ⟨h.1, fun hp => ?_⟩
      rcases (check_shrink s.y s.x j i o).2.2.2.2.1 with e | ⟨_, e⟩
      · rw [e] at hp; exact h.2 hp
      · simpa [shouldSwap] using e
    · refine ⟨fun hp => ?_, h.2⟩
      rcases (check_shrink s.x s.y j i o).2.2.2.2.1 with e | ⟨_, e⟩
      · rw [e] at hp; exact h.1 hp
      · simpa [shouldSwap] using e
  | start onX hs idx => exact step_swapinv s _ h
  | resend onX => exact step_swapinv s _ h
  | giveUp onX => exact step_swapinv s _ h
  | deliver toX k r => exact step_swapinv s _ h
  | drop toX k => exact step_swapinv s _ h
  | swap onX j => exact step_swapinv s _ h
  | del onX j => exact step_swapinv s _ h

theorem run_swapinv (s : St) (steps : List Step) (h : SwapInv s) :
    SwapInv (s.run steps) ∧ (s.run steps).x.addr = s.x.addr ∧ (s.run steps).y.addr = s.y.addr := by
  induction steps generalizing s with
  | nil => exact ⟨h, rfl, rfl⟩
  | cons st rest ih =>
    have := ih (s.stepAll st) (stepAll_swapinv s st h)
    have ha := stepAll_addrs s st
    simp only [St.run, List.foldl_cons] at this ⊢
    exact ⟨this.1, by rw [this.2.1, ha.1], by rw [this.2.2, ha.2]⟩

end Nebula.Lemmas.HsRace
