/-
Lemmas for C21, part 4: closed forms of the remaining reply builders.
-/
import Nebula.Lemmas.RejectRst

namespace Nebula.Lemmas.Reject
open Nebula.Pkt Nebula.Reject Nebula.Spec.IP Nebula.Spec.PktCsum Nebula.Spec.Reject
open Nebula.Lemmas.PktParse Nebula.Lemmas.PktCsum


theorem slice_tail (p : List UInt8) (a : Nat) (h : a ≤ p.length) : slice p a p.length = .ok (p.drop a) := by
  rw [slice_eq p a p.length h (Nat.le_refl _)]
  congr 1
  apply List.take_of_length_le
  simp

def v4TcpReply (p : List UInt8) : List UInt8 :=
  v4Header 40 6 ((p.drop 16).take 4) ((p.drop 12).take 4) ++
    rstBytes (p.drop (byte p 0 % 16 * 4)) (ipv4Pseudo ((p.drop 16).take 4) ((p.drop 12).take 4) 6 20)

theorem v4RejectTCP_eq (p : List UInt8) (cap : Nat) (hlen : ¬ p.length < 20) :
    v4RejectTCP p cap =
      if p.length < byte p 0 % 16 * 4 + 20 then .ok none
      else if 40 > cap then .ok none
      else .ok (some (v4TcpReply p)) := by
  simp only [v4RejectTCP, idx_eq p 0 (by omega), ok_bind, pure_eq, and_0f, shl2]
  by_cases h1 : p.length < byte p 0 % 16 * 4 + 20
  · simp [h1]
  · by_cases h2 : 40 > cap
    · simp [h1, h2]
    · have h2' : ¬ 20 + 20 > cap := by omega
      simp only [if_neg h1, if_neg h2, if_neg h2', slice_eq p 16 20 (by omega) (by omega),
        slice_eq p 12 16 (by omega) (by omega), slice_tail p _ (show byte p 0 % 16 * 4 ≤ p.length by omega), ok_bind,
        rstSegment_eq _ _ (show 20 ≤ (p.drop (byte p 0 % 16 * 4)).length by simp; omega), v4TcpReply]

def v6IcmpErr (p : List UInt8) (proto off : Nat) : Prop :=
  proto = 58 ∧ p.length > off ∧ (byte p off ≥ 1 ∧ byte p off ≤ 4)

instance (p : List UInt8) (proto off : Nat) : Decidable (v6IcmpErr p proto off) := by
  unfold v6IcmpErr; exact inferInstance

def v6IcmpReply (p : List UInt8) : List UInt8 :=
  let n := min p.length 1000
  v6Header (8 + n) 58 ((p.drop 24).take 16) ((p.drop 8).take 16) ++
    withCsum [1, 1] ([0, 0, 0, 0] ++ p.take n) (ipv6Pseudo ((p.drop 24).take 16) ((p.drop 8).take 16) 58 (8 + n))

theorem v6RejectICMP_eq (p : List UInt8) (cap proto off : Nat) (hlen : ¬ p.length < 40) :
    v6RejectICMP p cap proto off =
      if v6IcmpErr p proto off then .ok none
      else if 48 + min p.length 1000 > cap then .ok none
      else .ok (some (v6IcmpReply p)) := by
  have hpl : (40 + 8 + min p.length 1000 - 40) % 65536 = 8 + min p.length 1000 := by omega
  simp only [v6RejectICMP, ok_bind, pure_eq]
  by_cases h2 : proto = 58 ∧ p.length > off
  · obtain ⟨hp58, hgt⟩ := h2
    subst hp58
    have h2 : (58 : Nat) = 58 ∧ p.length > off := ⟨rfl, hgt⟩
    simp only [h2, and_self, if_true, idx_eq p _ h2.2, ok_bind, pure_eq]
    by_cases h3 : v6IcmpErr p 58 off
    · have h3' := h3.2.2
      simp [h3, h3']
    · have h3' : ¬ (byte p off ≥ 1 ∧ byte p off ≤ 4) := by
        intro hc; exact h3 ⟨h2.1, h2.2, hc⟩
      simp only [h3', decide_false, Bool.false_eq_true, if_false, if_neg h3]
      by_cases h4 : 48 + min p.length 1000 > cap
      · have h4' : 40 + 8 + min p.length 1000 > cap := by omega
        simp [h4, h4']
      · have h4' : ¬ 40 + 8 + min p.length 1000 > cap := by omega
        simp only [if_neg h4, if_neg h4', slice_eq p 24 40 (by omega) (by omega), slice_eq p 8 24 (by omega) (by omega),
          slice_eq p 0 _ (Nat.zero_le _) (Nat.min_le_left _ _), ok_bind, pure_eq, v6IcmpReply, hpl]
        simp
  · have h3 : ¬ v6IcmpErr p proto off := by intro hc; exact h2 ⟨hc.1, hc.2.1⟩
    simp only [if_neg h2, pure_eq, ok_bind, Bool.false_eq_true, if_false, if_neg h3]
    by_cases h4 : 48 + min p.length 1000 > cap
    · have h4' : 40 + 8 + min p.length 1000 > cap := by omega
      simp [h4, h4']
    · have h4' : ¬ 40 + 8 + min p.length 1000 > cap := by omega
      simp only [if_neg h4, if_neg h4', slice_eq p 24 40 (by omega) (by omega), slice_eq p 8 24 (by omega) (by omega),
        slice_eq p 0 _ (Nat.zero_le _) (Nat.min_le_left _ _), ok_bind, pure_eq, v6IcmpReply, hpl]
      simp

def v6TcpReply (p : List UInt8) (off : Nat) : List UInt8 :=
  v6Header 20 6 ((p.drop 24).take 16) ((p.drop 8).take 16) ++
    rstBytes (p.drop off) (ipv6Pseudo ((p.drop 24).take 16) ((p.drop 8).take 16) 6 20)

theorem v6RejectTCP_eq (p : List UInt8) (cap off : Nat) (hlen : ¬ p.length < 40) :
    v6RejectTCP p cap off =
      if p.length < off + 20 then .ok none
      else if 60 > cap then .ok none
      else .ok (some (v6TcpReply p off)) := by
  simp only [v6RejectTCP, ok_bind, pure_eq]
  by_cases h1 : p.length < off + 20
  · simp [h1]
  · by_cases h2 : 60 > cap
    · have h2' : 40 + 20 > cap := by omega
      simp [h1, h2, h2']
    · have h2' : ¬ 40 + 20 > cap := by omega
      simp only [if_neg h1, if_neg h2, if_neg h2', slice_eq p 24 40 (by omega) (by omega),
        slice_eq p 8 24 (by omega) (by omega), slice_tail p _ (show off ≤ p.length by omega), ok_bind,
        rstSegment_eq _ _ (show 20 ≤ (p.drop off).length by simp; omega), v6TcpReply]


end Nebula.Lemmas.Reject
