/-
Invariants of the coalescing lanes (model: `Nebula.Coalesce.Lane`), by induction over the committed
packets:

* `I_lock`  (`LaneInv.lock`): `lastSlot` is kept in lockstep with `openSlots`;
* the open map only points at existing, open, non-verbatim slots of the right flow;
* `SlotOK`: what every slot knows about the packets folded into it (`I_run`, `I_geom`): each packet parsed,
  agrees with the seed on every compared header field, carries the sequence number / IPv4 ID the kernel
  will regenerate, all payloads but the last have `gsoSize` bytes, at most 64 segments, at most 65535 bytes.
-/
import Nebula.Lemmas.CoalesceBytes

namespace Nebula.Lemmas.Coalesce
open Nebula.Coalesce Nebula.Gen
open Nebula.Spec

/-! ### the association list -/

theorem omLookup_erase (m : List (FlowKey × Nat)) (fk k : FlowKey) :
    omLookup (omErase m fk) k = if k = fk then none else omLookup m k := by
  induction m with
  | nil => simp [omErase, omLookup]
  | cons kv rest ih =>
    obtain ⟨a, v⟩ := kv
    simp only [omErase] at ih ⊢
    by_cases h : a = fk
    · subst h
      simp only [List.filter, ne_eq, not_true_eq_false, decide_false]
      rw [ih]; simp only [omLookup]
      by_cases h2 : k = a
      · simp [h2]
      · have : ¬ a = k := fun e => h2 e.symm
        simp [h2, this]
    · simp only [List.filter, ne_eq, h, not_false_eq_true, decide_true, omLookup]
      rw [ih]
      by_cases h2 : a = k
      · subst h2; simp [h]
      · simp [h2]

theorem omLookup_insert (m : List (FlowKey × Nat)) (fk k : FlowKey) (i : Nat) :
    omLookup (omInsert m fk i) k = if k = fk then some i else omLookup m k := by
  simp only [omInsert, omLookup, omLookup_erase]
  by_cases h : fk = k
  · subst h; simp
  · have : ¬ k = fk := fun e => h e.symm
    simp [h, this]

theorem omLookup_nil (k : FlowKey) : omLookup [] k = none := rfl

theorem omLookup_some_length {m : List (FlowKey × Nat)} {k : FlowKey} {i : Nat}
    (h : omLookup m k = some i) : m.length ≠ 0 := by
  cases m with
  | nil => simp [omLookup] at h
  | cons => simp

/-! ### what a slot knows about its packets -/

/-- Facts about packet `p` (parsed as `info`) folded as segment `i` into a chain of `n` packets seeded by
`p0`, for a slot with the given scalar fields and payload list. -/
structure PktFacts (tcp : Bool) (hdrLen ipHdrLen gsoSize : Nat) (isV6 : Bool) (pays : List Bytes)
    (p0 : Bytes) (n i : Nat) (p : Bytes) (info : Parsed) : Prop where
  hHdr : info.hdrLen = hdrLen
  hV6 : info.fk.isV6 = isV6
  payPos : 0 < info.payLen
  payLe : info.payLen ≤ gsoSize
  full : i + 1 < n → info.payLen = gsoSize ∧ (tcp = true → hasPsh info.flags = false)
  adm : tcp = true → hasAck info.flags = true ∧ hasOther info.flags = false
  ece : tcp = true → hasEce info.flags = hasEce (byteAt p0 (ipHdrLen + 13))
  seq : tcp = true → info.seq = (u32At p0 (ipHdrLen + 4) + i * gsoSize) % 4294967296
  hm : headersMatch tcp (slice p0 0 hdrLen) (slice p 0 info.hdrLen) isV6 ipHdrLen = true
  id : isV6 = false → ipv4CanCoalesceID p0 p i = true
  proto : byteAt p (if isV6 then 6 else 9) = if tcp then 6 else 17
  pay : pays[i]? = some (slice p info.hdrLen (info.hdrLen + info.payLen))

/-- the seed packet of a slot -/
def seedOf (s : Slot) : Bytes := s.ghost.headD []

/-- does the last packet folded into the slot carry PSH (TCP)? -/
def lastPsh (s : Slot) : Bool := hasPsh (byteAt (s.ghost.getLastD []) (s.ipHdrLen + 13))

/-- a coalescing (non-verbatim) slot -/
structure CoalOK (tcp : Bool) (s : Slot) : Prop where
  ne : s.ghost ≠ []
  numSeg : s.numSeg = s.ghost.length
  npay : s.payIovs.length = s.ghost.length
  segs : s.numSeg ≤ 64
  pk : ∀ (i : Nat) (p : Bytes), s.ghost[i]? = some p → ∃ info, parseAt tcp p s.ipHdrLen = some info ∧
        PktFacts tcp s.hdrLen s.ipHdrLen s.gsoSize s.isV6 s.payIovs (seedOf s) s.ghost.length i p info
  total : s.totalPay = (s.payIovs.map List.length).sum
  cap : s.hdrLen + s.totalPay ≤ 65535
  g0 : ∃ info, parseAt tcp (seedOf s) s.ipHdrLen = some info ∧ s.gsoSize = info.payLen
  nextSeq : tcp = true → s.nextSeq = (u32At (seedOf s) (s.ipHdrLen + 4) + s.totalPay) % 4294967296
  raw : s.rawPkt = if tcp = true ∧ 2 ≤ s.ghost.length ∧ lastPsh s = true
          then orPsh (seedOf s) (s.ipHdrLen + 13) else seedOf s
  fkV6 : s.fk.isV6 = s.isV6
  hl : s.ipHdrLen = if s.isV6 then 40 else 20

/-- what holds of every slot -/
structure SlotOK (tcp : Bool) (s : Slot) : Prop where
  verb : s.verbatim = true → s.ghost = [s.rawPkt]
  coal : s.verbatim = false → CoalOK tcp s

/-- an open slot (one that `openSlots` / `lastSlot` may point at): every payload so far is full-sized,
no PSH yet, header still pristine. -/
structure SlotOpen (tcp : Bool) (s : Slot) : Prop where
  nv : s.verbatim = false
  allFull : ∀ (i : Nat) (p : Bytes) (info : Parsed), s.ghost[i]? = some p → parseAt tcp p s.ipHdrLen = some info →
      info.payLen = s.gsoSize ∧ (tcp = true → hasPsh info.flags = false)
  tot : s.totalPay = s.ghost.length * s.gsoSize
  raw : s.rawPkt = seedOf s

/-- The lane invariant. `ex`: a flow key whose entry is allowed to point at a slot that is no longer open
(the moment between `appendPayload` closing a chain and `sealFlow` deregistering it). -/
structure LaneInv (tcp : Bool) (ex : Option FlowKey) (c : Lane) : Prop where
  /-- `I_lock` -/
  lock : ∀ i, c.lastSlot = some i → ∃ s, c.slots[i]? = some s ∧ omLookup c.openSlots s.fk = some i
  key : ∀ k i, omLookup c.openSlots k = some i → ∃ s, c.slots[i]? = some s ∧ s.fk = k
  opn : ∀ k i s, omLookup c.openSlots k = some i → c.slots[i]? = some s → some k ≠ ex → SlotOpen tcp s
  ok : ∀ s ∈ c.slots, SlotOK tcp s

theorem LaneInv.weaken {tcp c} (h : LaneInv tcp none c) (ex : Option FlowKey) : LaneInv tcp ex c :=
  { lock := h.lock, key := h.key, ok := h.ok
    opn := fun k i s h1 h2 _ => h.opn k i s h1 h2 (by simp) }

theorem laneInv_init (tcp : Bool) : LaneInv tcp none {} := by
  constructor <;> simp [omLookup]

/-! ### sealAllOpen, addVerbatim, sealFlow -/

theorem sealAllOpen_inv {tcp ex c} (h : LaneInv tcp ex c) : LaneInv tcp none c.sealAllOpen := by
  constructor
  · intro i hi; simp [Lane.sealAllOpen] at hi
  · intro k i hk; simp [Lane.sealAllOpen, omLookup] at hk
  · intro k i s hk; simp [Lane.sealAllOpen, omLookup] at hk
  · exact h.ok

theorem getElem?_append_of_some {α} {l : List α} {i : Nat} {a : α} (x : List α) (h : l[i]? = some a) :
    (l ++ x)[i]? = some a := by
  have hi : i < l.length := by
    rcases Nat.lt_or_ge i l.length with h' | h'
    · exact h'
    · rw [List.getElem?_eq_none h'] at h; cases h
  rw [List.getElem?_append_left hi]; exact h

theorem getElem?_lt {α} {l : List α} {i : Nat} {a : α} (h : l[i]? = some a) : i < l.length := by
  rcases Nat.lt_or_ge i l.length with h' | h'
  · exact h'
  · rw [List.getElem?_eq_none h'] at h; cases h

/-- appending a slot that nobody points at keeps the invariant -/
theorem addSlot_inv {tcp ex c} (h : LaneInv tcp ex c) (s : Slot) (hs : SlotOK tcp s) :
    LaneInv tcp ex { c with slots := c.slots ++ [s] } := by
  constructor
  · intro i hi
    obtain ⟨s', h1, h2⟩ := h.lock i hi
    exact ⟨s', getElem?_append_of_some _ h1, h2⟩
  · intro k i hk
    obtain ⟨s', h1, h2⟩ := h.key k i hk
    exact ⟨s', getElem?_append_of_some _ h1, h2⟩
  · intro k i s' hk hs' hne
    obtain ⟨s'', h1, _⟩ := h.key k i hk
    have := getElem?_append_of_some [s] h1
    simp only at hs'
    rw [this] at hs'
    have e : s'' = s' := Option.some.inj hs'
    subst e
    exact h.opn k i s'' hk h1 hne
  · intro s' hs'
    simp only [List.mem_append, List.mem_singleton] at hs'
    rcases hs' with h' | h'
    · exact h.ok s' h'
    · subst h'; exact hs

/-- a verbatim slot is fine whatever else the recycled slot object still contained -/
theorem verbatim_ok (tcp : Bool) (blank : Slot) (pkt : Bytes) :
    SlotOK tcp { blank with verbatim := true, rawPkt := pkt, ghost := [pkt] } :=
  { verb := fun _ => rfl, coal := fun h => by simp at h }

/-! taking a slot object from the pool changes nothing but the pool -/
@[simp] theorem take_slots (c : Lane) : c.take.2.slots = c.slots := by
  unfold Lane.take; split <;> rfl
@[simp] theorem take_openSlots (c : Lane) : c.take.2.openSlots = c.openSlots := by
  unfold Lane.take; split <;> rfl
@[simp] theorem take_lastSlot (c : Lane) : c.take.2.lastSlot = c.lastSlot := by
  unfold Lane.take; split <;> rfl

/-- the invariant does not mention the pool -/
theorem laneInv_congr {tcp ex} {c c' : Lane} (h : LaneInv tcp ex c) (hs : c'.slots = c.slots)
    (ho : c'.openSlots = c.openSlots) (hl : c'.lastSlot = c.lastSlot) : LaneInv tcp ex c' := by
  constructor
  · intro i hi; rw [hl] at hi; rw [hs, ho]; exact h.lock i hi
  · intro k i hk; rw [ho] at hk; rw [hs]; exact h.key k i hk
  · intro k i s hk hsl; rw [ho] at hk; rw [hs] at hsl; exact h.opn k i s hk hsl
  · intro s hsm; rw [hs] at hsm; exact h.ok s hsm

theorem take_inv {tcp ex c} (h : LaneInv tcp ex c) : LaneInv tcp ex c.take.2 :=
  laneInv_congr h (take_slots c) (take_openSlots c) (take_lastSlot c)

theorem seedSlotFrom_eq (blank : Slot) (tcp : Bool) (pkt : Bytes) (info : Parsed) :
    seedSlotFrom blank tcp pkt info = seedSlot tcp pkt info := rfl

theorem addVerbatim_eq (c : Lane) (pkt : Bytes) : c.addVerbatim pkt = c.take.2.pushVerbatim c.take.1 pkt := rfl

@[simp] theorem addVerbatim_openSlots (c : Lane) (pkt : Bytes) : (c.addVerbatim pkt).openSlots = c.openSlots := by
  rw [addVerbatim_eq]; simp [Lane.pushVerbatim]
@[simp] theorem addVerbatim_slots (c : Lane) (pkt : Bytes) :
    (c.addVerbatim pkt).slots = c.slots ++ [{ c.take.1 with verbatim := true, rawPkt := pkt, ghost := [pkt] }] := by
  rw [addVerbatim_eq]; simp [Lane.pushVerbatim]

theorem addVerbatim_inv {tcp ex c} (h : LaneInv tcp ex c) (pkt : Bytes) :
    LaneInv tcp ex (c.addVerbatim pkt) := by
  rw [addVerbatim_eq]
  exact addSlot_inv (take_inv h) _ (verbatim_ok tcp _ pkt)

/-- `sealFlow fk` re-establishes the full invariant when `fk` was the only exception. -/
theorem sealFlow_inv {tcp c} (fk : FlowKey) (ex : Option FlowKey) (hex : ex = none ∨ ex = some fk)
    (h : LaneInv tcp ex c) : LaneInv tcp none (c.sealFlow fk) := by
  unfold Lane.sealFlow
  by_cases h0 : c.openSlots.length = 0
  · simp only [h0, ↓reduceIte]
    have hnil : c.openSlots = [] := List.eq_nil_of_length_eq_zero h0
    constructor
    · exact h.lock
    · exact h.key
    · intro k i s hk; rw [hnil] at hk; simp [omLookup] at hk
    · exact h.ok
  · simp only [h0, ↓reduceIte]
    constructor
    · intro i hi
      simp only at hi
      cases hl : c.lastSlot with
      | none => rw [hl] at hi; simp at hi
      | some j =>
        rw [hl] at hi
        simp only at hi
        by_cases hj : c.slotFk j = some fk
        · simp [hj] at hi
        · simp only [hj, ↓reduceIte, Option.some.injEq] at hi
          subst hi
          obtain ⟨s, h1, h2⟩ := h.lock j hl
          refine ⟨s, h1, ?_⟩
          simp only [omLookup_erase]
          have : ¬ s.fk = fk := by
            intro e; apply hj; simp [Lane.slotFk, h1, e]
          simp [this, h2]
    · intro k i hk
      simp only [omLookup_erase] at hk
      by_cases hkf : k = fk
      · simp [hkf] at hk
      · simp only [hkf, ↓reduceIte] at hk
        exact h.key k i hk
    · intro k i s hk hs _
      simp only [omLookup_erase] at hk
      by_cases hkf : k = fk
      · simp [hkf] at hk
      · simp only [hkf, ↓reduceIte] at hk
        apply h.opn k i s hk hs
        rcases hex with e | e
        · simp [e]
        · rw [e]; intro e'; cases e'; exact hkf rfl
    · exact h.ok

/-! ### seeding a slot -/

theorem headersMatch_refl (tcp : Bool) (a : Bytes) (isV6 : Bool) (l4 : Nat) :
    headersMatch tcp a a isV6 l4 = true := by
  cases tcp <;> cases isV6 <;> simp [headersMatch, ipHeadersMatch]

theorem ipv4CanCoalesceID_self (p : Bytes) : ipv4CanCoalesceID p p 0 = true := by
  unfold ipv4CanCoalesceID
  split
  · rfl
  · have := u16At_lt p 4
    simp [Nat.mod_eq_of_lt this]

/-- what `commitParsed` knows about a packet when it reaches the slot logic -/
structure CommitPre (tcp : Bool) (pkt : Bytes) (iphl : Nat) (info : Parsed) : Prop where
  parse : parseAt tcp pkt iphl = some info
  pay : 0 < info.payLen
  adm : tcp = true → hasAck info.flags = true ∧ hasOther info.flags = false
  proto : byteAt pkt (if info.fk.isV6 then 6 else 9) = if tcp then 6 else 17

theorem slice_len_of_le (b : Bytes) (lo n : Nat) (h : lo + n ≤ b.length) : (slice b lo (lo + n)).length = n := by
  rw [slice_length]; omega

theorem seedSlot_ok {tcp pkt iphl info} (pre : CommitPre tcp pkt iphl info)
    (hcap : info.hdrLen + info.payLen ≤ 65535) : SlotOK tcp (seedSlot tcp pkt info) := by
  have F := parseAt_facts pre.parse
  have hipl : info.ipHdrLen = iphl := F.ipHdrLen
  constructor
  · intro h; simp [seedSlot] at h
  · intro _
    constructor
    · simp [seedSlot]
    · simp [seedSlot]
    · simp [seedSlot]
    · simp [seedSlot]
    · intro i p hp
      simp only [seedSlot] at hp
      have hi : i = 0 := by
        have := getElem?_lt hp; simp at this; exact this
      subst hi
      simp only [List.getElem?_cons_zero, Option.some.injEq] at hp
      subst hp
      refine ⟨info, by simp only [seedSlot, hipl]; exact pre.parse, ?_⟩
      constructor
      · rfl
      · rfl
      · exact pre.pay
      · simp [seedSlot]
      · intro h; simp [seedSlot] at h
      · exact pre.adm
      · intro ht; simp only [seedSlot, seedOf, List.headD_cons, hipl]; rw [(F.tcpF ht).2.2.2]
      · intro ht
        simp only [seedSlot, seedOf, List.headD_cons, hipl]
        rw [(F.tcpF ht).2.2.1]
        have := u32At_lt pkt (iphl + 4)
        simp [Nat.mod_eq_of_lt this]
      · simp only [seedSlot, seedOf, List.headD_cons]; exact headersMatch_refl _ _ _ _
      · intro _; simp only [seedSlot, seedOf, List.headD_cons]; exact ipv4CanCoalesceID_self _
      · simp only [seedSlot]; exact pre.proto
      · simp [seedSlot]
    · simp only [seedSlot, List.map_cons, List.map_nil, List.sum_cons, List.sum_nil, Nat.add_zero]
      rw [slice_len_of_le _ _ _ F.le]
    · simp only [seedSlot]; exact hcap
    · refine ⟨info, ?_, rfl⟩
      simp only [seedSlot, seedOf, List.headD_cons, hipl]; exact pre.parse
    · intro ht
      simp only [seedSlot, seedOf, List.headD_cons, ht, ↓reduceIte, hipl]
      rw [(F.tcpF ht).2.2.1]
    · simp [seedSlot, seedOf]
    · rfl
    · simp only [seedSlot, hipl]; exact F.hl

theorem seedSlot_open {tcp pkt iphl info} (pre : CommitPre tcp pkt iphl info)
    (hpsh : tcp = true → hasPsh info.flags = false) : SlotOpen tcp (seedSlot tcp pkt info) := by
  have F := parseAt_facts pre.parse
  have hipl : info.ipHdrLen = iphl := F.ipHdrLen
  constructor
  · rfl
  · intro i p info' hp hparse
    simp only [seedSlot] at hp
    have hi : i = 0 := by
      have := getElem?_lt hp; simp at this; exact this
    subst hi
    simp only [List.getElem?_cons_zero, Option.some.injEq] at hp
    subst hp
    simp only [seedSlot, hipl] at hparse
    rw [pre.parse] at hparse
    cases hparse
    exact ⟨rfl, hpsh⟩
  · simp [seedSlot]
  · simp [seedSlot, seedOf]

theorem bufSize_eq (tcp : Bool) :
    (if tcp = true then batch_tcpCoalesceBufSize else batch_udpCoalesceBufSize) = 65535 := by
  cases tcp <;> rfl

theorem seed_eq (tcp : Bool) (c : Lane) (pkt : Bytes) (info : Parsed) :
    c.seed tcp pkt info =
      if info.hdrLen + info.payLen > 65535 then (c.sealFlow info.fk).addVerbatim pkt
      else c.take.2.seedTaken tcp c.take.1 pkt info := by
  unfold Lane.seed; rw [bufSize_eq]

theorem seedTaken_inv {tcp c pkt iphl info} (blank : Slot) (h : LaneInv tcp none c) (pre : CommitPre tcp pkt iphl info)
    (hbig : ¬ info.hdrLen + info.payLen > 65535) :
    LaneInv tcp none (c.seedTaken tcp blank pkt info) := by
  unfold Lane.seedTaken
  simp only [seedSlotFrom_eq]
  · have hok := seedSlot_ok pre (by omega)
    by_cases hp : tcp = true ∧ hasPsh info.flags = true
    · rw [if_pos hp]
      exact sealFlow_inv info.fk none (Or.inl rfl) (addSlot_inv h _ hok)
    · rw [if_neg hp]
      have hopen := seedSlot_open pre (by
        intro ht; cases hh : hasPsh info.flags with
        | false => rfl
        | true => exact absurd ⟨ht, hh⟩ hp)
      have hnew : (c.slots ++ [seedSlot tcp pkt info])[c.slots.length]? = some (seedSlot tcp pkt info) := by
        simp
      constructor
      · intro i hi
        simp only [Option.some.injEq] at hi
        subst hi
        exact ⟨_, hnew, by simp [omLookup_insert, seedSlot]⟩
      · intro k i hk
        simp only [omLookup_insert] at hk
        by_cases hkf : k = info.fk
        · simp only [hkf, ↓reduceIte, Option.some.injEq] at hk
          subst hk
          exact ⟨_, hnew, by simp [seedSlot, hkf]⟩
        · simp only [hkf, ↓reduceIte] at hk
          obtain ⟨s', h1, h2⟩ := h.key k i hk
          exact ⟨s', getElem?_append_of_some _ h1, h2⟩
      · intro k i s' hk hs' _
        simp only [omLookup_insert] at hk
        by_cases hkf : k = info.fk
        · simp only [hkf, ↓reduceIte, Option.some.injEq] at hk
          subst hk
          simp only at hs'
          rw [hnew] at hs'
          have e := Option.some.inj hs'
          subst e
          exact hopen
        · simp only [hkf, ↓reduceIte] at hk
          obtain ⟨s'', h1, _⟩ := h.key k i hk
          have := getElem?_append_of_some [seedSlot tcp pkt info] h1
          simp only at hs'
          rw [this] at hs'
          have e := Option.some.inj hs'
          subst e
          exact h.opn k i s'' hk h1 (by simp)
      · intro s' hs'
        simp only [List.mem_append, List.mem_singleton] at hs'
        rcases hs' with h' | h'
        · exact h.ok s' h'
        · subst h'; exact hok

theorem seed_inv {tcp c pkt iphl info} (h : LaneInv tcp none c) (pre : CommitPre tcp pkt iphl info) :
    LaneInv tcp none (c.seed tcp pkt info) := by
  rw [seed_eq]
  by_cases hbig : info.hdrLen + info.payLen > 65535
  · rw [if_pos hbig]
    exact addVerbatim_inv (sealFlow_inv info.fk none (Or.inl rfl) h) pkt
  · rw [if_neg hbig]
    exact seedTaken_inv _ (take_inv h) pre hbig

/-! ### appending to an open slot -/

structure CanAppendFacts (tcp : Bool) (s : Slot) (pkt : Bytes) (info : Parsed) : Prop where
  hdr : info.hdrLen = s.hdrLen
  seq : tcp = true → info.seq = s.nextSeq
  segs : s.numSeg < 64
  payLe : info.payLen ≤ s.gsoSize
  cap : s.hdrLen + s.totalPay + info.payLen ≤ 65535
  ece : tcp = true → hasEce (byteAt s.rawPkt (s.ipHdrLen + 13)) = hasEce info.flags
  id : s.isV6 = false → ipv4CanCoalesceID s.rawPkt pkt s.numSeg = true
  hm : headersMatch tcp (slice s.rawPkt 0 s.hdrLen) (slice pkt 0 info.hdrLen) s.isV6 s.ipHdrLen = true

theorem maxSegs_eq (tcp : Bool) :
    (if tcp = true then batch_tcpCoalesceMaxSegs else batch_udpCoalesceMaxSegs) = 64 := by
  cases tcp <;> rfl

theorem canAppend_facts {tcp s pkt info} (h : canAppend tcp s pkt info = true) :
    CanAppendFacts tcp s pkt info := by
  unfold canAppend at h
  rw [bufSize_eq, maxSegs_eq] at h
  split at h
  · cases h
  · split at h
    · cases h
    · split at h
      · cases h
      · split at h
        · cases h
        · split at h
          · cases h
          · split at h
            · cases h
            · split at h
              · cases h
              · rename_i h1 h2 h3 h4 h5 h6 h7
                constructor
                · exact Classical.not_not.mp h1
                · intro ht; exact Classical.not_not.mp (fun hn => h2 ⟨ht, hn⟩)
                · omega
                · omega
                · omega
                · intro ht; exact Classical.not_not.mp (fun hn => h6 ⟨ht, hn⟩)
                · intro hv
                  cases hid : ipv4CanCoalesceID s.rawPkt pkt s.numSeg with
                  | true => rfl
                  | false => exact absurd (by simp [hv, hid]) h7
                · exact h

theorem getElem?_append_singleton {α} {l : List α} {x a : α} {i : Nat} (h : (l ++ [x])[i]? = some a) :
    l[i]? = some a ∨ (i = l.length ∧ a = x) := by
  rw [List.getElem?_append] at h
  split at h
  · exact Or.inl h
  · rename_i hi
    right
    have : i - l.length = 0 := by
      have := getElem?_lt h; simp at this; omega
    rw [this] at h
    simp at h
    exact ⟨by omega, h.symm⟩

theorem headD_append_of_ne {α} (l : List α) (x : List α) (d : α) (h : l ≠ []) :
    (l ++ x).headD d = l.headD d := by
  cases l with
  | nil => exact absurd rfl h
  | cons a t => rfl

theorem getLastD_append_singleton {α} (l : List α) (x d : α) : (l ++ [x]).getLastD d = x := by
  simp [List.getLastD_eq_getLast?]

theorem append_ok {tcp s pkt info} (hok : CoalOK tcp s) (hopen : SlotOpen tcp s)
    (pre : CommitPre tcp pkt s.ipHdrLen info) (ca : CanAppendFacts tcp s pkt info) :
    CoalOK tcp (appendPayload tcp s pkt info).1 := by
  have F := parseAt_facts pre.parse
  have hseed : seedOf (appendPayload tcp s pkt info).1 = seedOf s := by
    simp only [appendPayload, seedOf]; exact headD_append_of_ne _ _ _ hok.ne
  have hn : 1 ≤ s.ghost.length := by
    have := hok.ne; cases hg : s.ghost with
    | nil => exact absurd hg this
    | cons => simp
  have hraw := hopen.raw
  constructor
  · simp [appendPayload]
  · simp [appendPayload, hok.numSeg]
  · simp [appendPayload, hok.npay]
  · have := ca.segs; simp only [appendPayload]; omega
  · intro i p hp
    rw [hseed]
    simp only [appendPayload] at hp ⊢
    rcases getElem?_append_singleton hp with hold | ⟨hi, hpp⟩
    · obtain ⟨info', hpi, Fi⟩ := hok.pk i p hold
      have hilt := getElem?_lt hold
      refine ⟨info', hpi, ?_⟩
      constructor
      · exact Fi.hHdr
      · exact Fi.hV6
      · exact Fi.payPos
      · exact Fi.payLe
      · intro _; exact hopen.allFull i p info' hold hpi
      · exact Fi.adm
      · exact Fi.ece
      · exact Fi.seq
      · exact Fi.hm
      · exact Fi.id
      · exact Fi.proto
      · exact getElem?_append_of_some _ Fi.pay
    · subst hpp
      refine ⟨info, pre.parse, ?_⟩
      constructor
      · exact ca.hdr
      · -- family: the version nibble is inside the compared header range
        have := F.hl; have := hok.hl
        cases h6 : info.fk.isV6 <;> cases h6' : s.isV6 <;> simp_all
      · exact pre.pay
      · exact ca.payLe
      · intro hlt; simp at hlt; omega
      · exact pre.adm
      · intro ht; rw [← hraw]; exact (ca.ece ht).symm
      · intro ht
        rw [ca.seq ht, hok.nextSeq ht, hopen.tot, hi]
      · rw [← hraw]; exact ca.hm
      · intro hv; rw [← hraw, hi, ← hok.numSeg]; exact ca.id hv
      · have := F.hl; have := hok.hl
        have hp := pre.proto
        cases h6 : info.fk.isV6 <;> cases h6' : s.isV6 <;> simp_all
      · rw [hi, ← hok.npay]; simp
  · simp only [appendPayload, List.map_append, List.map_cons, List.map_nil, List.sum_append,
      List.sum_cons, List.sum_nil, Nat.add_zero]
    rw [slice_len_of_le _ _ _ F.le, hok.total]
  · have := ca.cap; simp only [appendPayload]; omega
  · rw [hseed]; exact hok.g0
  · intro ht
    rw [hseed]
    simp only [appendPayload, ht, ↓reduceIte]
    rw [ca.seq ht, hok.nextSeq ht]
    omega
  · rw [hseed]
    have hl : lastPsh (appendPayload tcp s pkt info).1 = hasPsh (byteAt pkt (s.ipHdrLen + 13)) := by
      simp only [lastPsh, appendPayload, getLastD_append_singleton]
    rw [hl]
    simp only [appendPayload, List.length_append, List.length_cons, List.length_nil]
    cases tcp with
    | false => simp [hraw]
    | true =>
      have hf := (F.tcpF rfl).2.2.2
      rw [← hf, hraw]
      have : 2 ≤ s.ghost.length + (0 + 1) := by omega
      simp [this]
  · exact hok.fkV6
  · exact hok.hl

theorem append_open {tcp s pkt info} (hok : CoalOK tcp s) (hopen : SlotOpen tcp s)
    (pre : CommitPre tcp pkt s.ipHdrLen info) (ca : CanAppendFacts tcp s pkt info)
    (hnc : (appendPayload tcp s pkt info).2 = false) : SlotOpen tcp (appendPayload tcp s pkt info).1 := by
  have hseed : seedOf (appendPayload tcp s pkt info).1 = seedOf s := by
    simp only [appendPayload, seedOf]; exact headD_append_of_ne _ _ _ hok.ne
  simp only [appendPayload, decide_eq_false_iff_not, not_or, Nat.not_lt, not_and,
    Bool.not_eq_true] at hnc
  obtain ⟨hge, hnp⟩ := hnc
  have hpl : info.payLen = s.gsoSize := by have := ca.payLe; omega
  have hnp' : tcp = true → hasPsh info.flags = false := by
    intro ht
    cases hh : hasPsh info.flags with
    | false => rfl
    | true => have := hnp ht; simp [hh] at this
  constructor
  · simp only [appendPayload]; exact hopen.nv
  · intro i p info' hp hparse
    simp only [appendPayload] at hp hparse ⊢
    rcases getElem?_append_singleton hp with hold | ⟨hi, hpp⟩
    · exact hopen.allFull i p info' hold hparse
    · subst hpp
      rw [pre.parse] at hparse
      cases hparse
      exact ⟨hpl, hnp'⟩
  · simp only [appendPayload, List.length_append, List.length_cons, List.length_nil]
    rw [hopen.tot, hpl, Nat.add_mul]; omega
  · rw [hseed]
    simp only [appendPayload]
    cases tcp with
    | false => simp [hopen.raw]
    | true => simp [hnp' rfl, hopen.raw]

/-- the ghost packets of a lane, in emission order -/
def lanePkts (c : Lane) : List Bytes := c.slots.flatMap (·.ghost)

theorem flatMap_set_perm {l : List Slot} {i : Nat} {s s' : Slot} {pkt : Bytes} (h : l[i]? = some s)
    (hg : s'.ghost = s.ghost ++ [pkt]) :
    ((l.set i s').flatMap (·.ghost)).Perm (l.flatMap (·.ghost) ++ [pkt]) := by
  induction l generalizing i with
  | nil => simp at h
  | cons a t ih =>
    cases i with
    | zero =>
      simp only [List.getElem?_cons_zero, Option.some.injEq] at h
      subst h
      simp only [List.set_cons_zero, List.flatMap_cons, hg, List.append_assoc]
      exact List.Perm.append_left _ List.perm_append_comm
    | succ j =>
      simp only [List.getElem?_cons_succ] at h
      simp only [List.set_cons_succ, List.flatMap_cons, List.append_assoc]
      exact List.Perm.append_left _ (ih h)

/-! ### the packets of a lane -/

theorem lanePkts_sealFlow (c : Lane) (fk : FlowKey) : lanePkts (c.sealFlow fk) = lanePkts c := by
  unfold Lane.sealFlow lanePkts; split <;> rfl

theorem lanePkts_sealAllOpen (c : Lane) : lanePkts c.sealAllOpen = lanePkts c := rfl

theorem lanePkts_addVerbatim (c : Lane) (pkt : Bytes) : lanePkts (c.addVerbatim pkt) = lanePkts c ++ [pkt] := by
  rw [addVerbatim_eq]
  simp [lanePkts, Lane.pushVerbatim]

theorem lanePkts_addSlot (c : Lane) (s : Slot) :
    lanePkts { c with slots := c.slots ++ [s] } = lanePkts c ++ s.ghost := by
  simp [lanePkts]

theorem lanePkts_seedTaken (tcp : Bool) (c : Lane) (blank : Slot) (pkt : Bytes) (info : Parsed) :
    lanePkts (c.seedTaken tcp blank pkt info) = lanePkts c ++ [pkt] := by
  unfold Lane.seedTaken
  simp only [seedSlotFrom_eq]
  by_cases hp : tcp = true ∧ hasPsh info.flags = true
  · rw [if_pos hp, lanePkts_sealFlow, lanePkts_addSlot]; rfl
  · rw [if_neg hp]
    show lanePkts { c with slots := c.slots ++ [seedSlot tcp pkt info],
                           openSlots := omInsert c.openSlots info.fk c.slots.length,
                           lastSlot := some c.slots.length } = _
    simp [lanePkts, seedSlot]

theorem lanePkts_take (c : Lane) : lanePkts c.take.2 = lanePkts c := by
  simp [lanePkts]

theorem lanePkts_seed (tcp : Bool) (c : Lane) (pkt : Bytes) (info : Parsed) :
    lanePkts (c.seed tcp pkt info) = lanePkts c ++ [pkt] := by
  rw [seed_eq]
  by_cases hbig : info.hdrLen + info.payLen > 65535
  · rw [if_pos hbig, lanePkts_addVerbatim, lanePkts_sealFlow]
  · rw [if_neg hbig, lanePkts_seedTaken, lanePkts_take]

/-! ### replacing a slot by its extension -/

theorem set_inv_closed {tcp c i s s'} (h : LaneInv tcp none c) (hs : c.slots[i]? = some s)
    (hfk : s'.fk = s.fk) (hok : SlotOK tcp s') :
    LaneInv tcp (some s.fk) { c with slots := c.slots.set i s' } := by
  have hi := getElem?_lt hs
  constructor
  · intro j hj
    obtain ⟨sj, h1, h2⟩ := h.lock j hj
    by_cases hji : i = j
    · subst hji
      rw [hs] at h1; have e := Option.some.inj h1; subst e
      exact ⟨s', by simp [hi], by rw [hfk]; exact h2⟩
    · exact ⟨sj, by simp only [List.getElem?_set, hji, ↓reduceIte]; exact h1, h2⟩
  · intro k j hk
    obtain ⟨sj, h1, h2⟩ := h.key k j hk
    by_cases hji : i = j
    · subst hji
      rw [hs] at h1; have e := Option.some.inj h1; subst e
      exact ⟨s', by simp [hi], by rw [hfk]; exact h2⟩
    · exact ⟨sj, by simp only [List.getElem?_set, hji, ↓reduceIte]; exact h1, h2⟩
  · intro k j x hk hx hne
    obtain ⟨sj, h1, h2⟩ := h.key k j hk
    by_cases hji : i = j
    · subst hji
      rw [hs] at h1; have e := Option.some.inj h1; subst e
      exact absurd (by rw [h2]) hne
    · simp only [List.getElem?_set, hji, ↓reduceIte] at hx
      exact h.opn k j x hk hx (by simp)
  · intro x hx
    rcases List.mem_or_eq_of_mem_set hx with h' | h'
    · exact h.ok x h'
    · subst h'; exact hok

theorem set_inv_open {tcp c i s s'} (h : LaneInv tcp none c) (hs : c.slots[i]? = some s)
    (hl : omLookup c.openSlots s.fk = some i)
    (hfk : s'.fk = s.fk) (hok : SlotOK tcp s') (hop : SlotOpen tcp s') :
    LaneInv tcp none { c with slots := c.slots.set i s', lastSlot := some i } := by
  have hi := getElem?_lt hs
  have hc := set_inv_closed h hs hfk hok
  constructor
  · intro j hj
    simp only [Option.some.injEq] at hj
    subst hj
    exact ⟨s', by simp [hi], by rw [hfk]; exact hl⟩
  · exact hc.key
  · intro k j x hk hx _
    by_cases hks : k = s.fk
    · subst hks
      simp only at hk hx
      rw [hl] at hk
      have e := Option.some.inj hk; subst e
      simp only [List.getElem?_set, hi, ↓reduceIte] at hx
      have e := Option.some.inj hx; subst e
      exact hop
    · exact hc.opn k j x hk hx (by intro e; exact hks (Option.some.inj e))
  · exact hc.ok

/-! ### commitParsed / commitStaged -/

/-- the slot `commitParsed` finds for a flow is a registered, open slot of that flow -/
theorem open_lookup {tcp c} (h : LaneInv tcp none c) (fk : FlowKey) (i : Nat)
    (ho : (match c.lastSlot with
      | some j => if c.slotFk j = some fk then some j else omLookup c.openSlots fk
      | none => omLookup c.openSlots fk) = some i) :
    ∃ s, c.slots[i]? = some s ∧ s.fk = fk ∧ omLookup c.openSlots fk = some i ∧ SlotOpen tcp s := by
  have viaMap : omLookup c.openSlots fk = some i →
      ∃ s, c.slots[i]? = some s ∧ s.fk = fk ∧ omLookup c.openSlots fk = some i ∧ SlotOpen tcp s := by
    intro hl
    obtain ⟨s, h1, h2⟩ := h.key fk i hl
    exact ⟨s, h1, h2, hl, h.opn fk i s hl h1 (by simp)⟩
  cases hl : c.lastSlot with
  | none => rw [hl] at ho; exact viaMap ho
  | some j =>
    rw [hl] at ho
    simp only at ho
    by_cases hj : c.slotFk j = some fk
    · rw [if_pos hj] at ho
      have e := Option.some.inj ho; subst e
      obtain ⟨s, h1, h2⟩ := h.lock j hl
      have hfk : s.fk = fk := by simpa [Lane.slotFk, h1] using hj
      rw [hfk] at h2
      exact viaMap h2
    · rw [if_neg hj] at ho; exact viaMap ho

theorem commitParsed_inv {tcp c pkt iphl info} (h : LaneInv tcp none c)
    (hparse : parseAt tcp pkt iphl = some info)
    (hproto : byteAt pkt (if info.fk.isV6 then 6 else 9) = if tcp then 6 else 17) :
    LaneInv tcp none (c.commitParsed tcp pkt info) ∧
      (lanePkts (c.commitParsed tcp pkt info)).Perm (lanePkts c ++ [pkt]) := by
  unfold Lane.commitParsed
  by_cases hadm : tcp = true ∧ ((!hasAck info.flags) = true ∨ hasOther info.flags = true)
  · rw [if_pos hadm]
    exact ⟨addVerbatim_inv (sealFlow_inv _ none (Or.inl rfl) h) pkt,
      by rw [lanePkts_addVerbatim, lanePkts_sealFlow]⟩
  · rw [if_neg hadm]
    by_cases hz : info.payLen = 0
    · rw [if_pos hz]
      cases tcp with
      | true => exact ⟨addVerbatim_inv h pkt, by simp only [↓reduceIte]; rw [lanePkts_addVerbatim]⟩
      | false =>
        exact ⟨addVerbatim_inv (sealFlow_inv _ none (Or.inl rfl) h) pkt,
          by simp only [Bool.false_eq_true, ↓reduceIte]; rw [lanePkts_addVerbatim, lanePkts_sealFlow]⟩
    · rw [if_neg hz]
      have pre : CommitPre tcp pkt iphl info := by
        refine ⟨hparse, by omega, ?_, hproto⟩
        intro ht
        cases ha : hasAck info.flags <;> cases ho : hasOther info.flags <;> simp_all
      simp only
      split
      · rename_i i ho
        obtain ⟨s, hs, hfk, hl, hopen⟩ := open_lookup h info.fk i ho
        rw [hs]
        simp only
        have hsok := h.ok s (List.mem_of_getElem? hs)
        have hcoal := hsok.coal hopen.nv
        have hipl : s.ipHdrLen = iphl := by
          have h1 := hcoal.hl; have h2 := (parseAt_facts hparse).hl
          have h3 := hcoal.fkV6; rw [hfk] at h3
          rw [h1, h2, h3]
        by_cases hca : canAppend tcp s pkt info = true
        · rw [if_pos hca]
          have ca := canAppend_facts hca
          have pre' : CommitPre tcp pkt s.ipHdrLen info := by rw [hipl]; exact pre
          have hok' : SlotOK tcp (appendPayload tcp s pkt info).1 :=
            { verb := fun hv => by simp [appendPayload, hopen.nv] at hv
              coal := fun _ => append_ok hcoal hopen pre' ca }
          have hfk' : (appendPayload tcp s pkt info).1.fk = s.fk := rfl
          have hperm : (lanePkts { c with slots := c.slots.set i (appendPayload tcp s pkt info).1 }).Perm
              (lanePkts c ++ [pkt]) := flatMap_set_perm hs rfl
          cases hcl : (appendPayload tcp s pkt info).2 with
          | true =>
            simp only [↓reduceIte]
            have := set_inv_closed h hs hfk' hok'
            rw [hfk] at this
            exact ⟨sealFlow_inv info.fk _ (Or.inr rfl) this, by rw [lanePkts_sealFlow]; exact hperm⟩
          | false =>
            simp only [Bool.false_eq_true, ↓reduceIte]
            exact ⟨set_inv_open h hs (by rw [hfk]; exact hl) hfk' hok' (append_open hcoal hopen pre' ca hcl),
              hperm⟩
        · rw [if_neg hca]
          exact ⟨seed_inv (sealFlow_inv _ none (Or.inl rfl) h) pre, by rw [lanePkts_seed, lanePkts_sealFlow]⟩
      · exact ⟨seed_inv h pre, by rw [lanePkts_seed]⟩

theorem proto_of_consistent {tcp pkt proto iphl info}
    (hc : KernelGSO.ppConsistent pkt proto iphl false = true)
    (hparse : parseAt tcp pkt iphl = some info) :
    byteAt pkt (if info.fk.isV6 then 6 else 9) = proto := by
  have F := parseAt_facts hparse
  unfold KernelGSO.ppConsistent at hc
  simp only [get_eq, be16_eq] at hc
  cases h6 : info.fk.isV6 with
  | false =>
    obtain ⟨h45, _, _⟩ := F.v4 h6
    have : byteAt pkt 0 / 16 = 4 := by omega
    simp [this] at hc
    simp only [Bool.false_eq_true, ↓reduceIte]
    exact (of_decide_eq_true hc.1.1).symm
  | true =>
    obtain ⟨hv, _⟩ := F.v6 h6
    have hl := F.hl; simp only [h6, ↓reduceIte] at hl
    have h4 : ¬ byteAt pkt 0 / 16 = 4 := by omega
    simp [hv, hl] at hc
    simp only [↓reduceIte]
    exact (of_decide_eq_true hc.2).symm

theorem commitStaged_inv {tcp c} {sp : Staged} (h : LaneInv tcp none c)
    (hproto : sp.proto = if tcp then 6 else 17)
    (hc : KernelGSO.ppConsistent sp.pkt sp.proto sp.ipHdrLen sp.fragAny = true) :
    LaneInv tcp none (c.commitStaged tcp sp) ∧
      (lanePkts (c.commitStaged tcp sp)).Perm (lanePkts c ++ [sp.pkt]) := by
  unfold Lane.commitStaged
  cases hf : sp.fragAny with
  | true =>
    simp only [↓reduceIte]
    exact ⟨addVerbatim_inv (sealAllOpen_inv h) _, by rw [lanePkts_addVerbatim, lanePkts_sealAllOpen]⟩
  | false =>
    simp only [Bool.false_eq_true, ↓reduceIte]
    cases hp : parseAt tcp sp.pkt sp.ipHdrLen with
    | none =>
      exact ⟨addVerbatim_inv (sealAllOpen_inv h) _, by rw [lanePkts_addVerbatim, lanePkts_sealAllOpen]⟩
    | some info =>
      simp only
      rw [hf] at hc
      have := proto_of_consistent hc hp
      rw [hproto] at this
      exact commitParsed_inv h hp this

end Nebula.Lemmas.Coalesce
