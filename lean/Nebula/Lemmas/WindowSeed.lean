/-
`newConnectionStateFromResult` seeds the replay window so that exactly the counters `0..MessageIndex`
count as seen (through the refinement of C11).
-/
import Nebula.Lemmas.BitsRefine
import Nebula.Model.WindowSeed

namespace Nebula.WindowSeed
open Nebula.Bits Nebula.Spec Nebula.Lemmas.Bits

/-- spec window after accepting `1..n` in order. -/
def specSeed (L n : Nat) : Window.W := afterSpec L Window.init (List.range' 1 n)

theorem hi_le_of_all_le (w : Window.W) (n : Nat) (h : ∀ x ∈ w, x ≤ n) : Window.hi w ≤ n := by
  induction w with
  | nil => simp [Window.hi]
  | cons a w ih =>
    rw [hi_cons]
    have h1 := h a (by simp)
    have h2 := ih (fun x hx => h x (by simp [hx]))
    omega

/-- after seeding, the spec window holds exactly `0..n`. -/
theorem specSeed_mem (L n : Nat) : ∀ i, i ∈ specSeed L n ↔ i ≤ n := by
  induction n with
  | zero => intro i; simp [specSeed, afterSpec, Window.init]
  | succ n ih =>
    intro i
    have hr : List.range' 1 (n + 1) = List.range' 1 n ++ [n + 1] := by
      rw [List.range'_concat]; simp [Nat.add_comm]
    have hacc : Window.accepts L (specSeed L n) (n + 1) = true := by
      have hnot : (specSeed L n).contains (n + 1) = false := by
        simp only [List.contains_eq_mem, decide_eq_false_iff_not]
        intro hm; have := (ih (n + 1)).mp hm; omega
      have hhi : Window.hi (specSeed L n) ≤ n := hi_le_of_all_le _ _ (fun x hx => (ih x).mp hx)
      simp only [Window.accepts, hnot, Bool.not_false, Bool.true_and, Bool.or_eq_true, decide_eq_true_eq]
      left; left; omega
    have hstep : specSeed L (n + 1) = (n + 1) :: specSeed L n := by
      have : specSeed L (n + 1) = (Window.step L (specSeed L n) (n + 1)).1 := by
        simp only [specSeed, hr, afterSpec, List.foldl_append, List.foldl_cons, List.foldl_nil]
      rw [this, Window.step, if_pos hacc]
    rw [hstep]
    simp only [List.mem_cons, ih]
    omega

theorem seedLoop_eq_after (b : Bits) (mi : Nat) :
    seedLoop b mi = after b ((List.range' 1 mi).map (BitVec.ofNat 64)) := by
  simp [seedLoop, after, List.foldl_map]

theorem toNat_range (mi : Nat) (h : mi < 2 ^ 63) :
    ((List.range' 1 mi).map (BitVec.ofNat 64)).map (·.toNat) = List.range' 1 mi := by
  rw [List.map_map]
  conv => rhs; rw [← List.map_id (List.range' 1 mi)]
  apply List.map_congr_left
  intro a ha
  simp only [List.mem_range'_1] at ha
  simp only [Function.comp, BitVec.toNat_ofNat, id]
  apply Nat.mod_eq_of_lt
  omega

/-- For every `MessageIndex` below the replay window: the seeded window represents the spec window
holding exactly `0..MessageIndex`. -/
theorem seed_refines (mi : Nat) (h : mi < 8192) :
    ∃ b, seed mi = some (b, mi) ∧ R b 8192 (specSeed 8192 mi) := by
  obtain ⟨b0, hb0, r0⟩ := newBits_R 13 (by decide)
  have hrw : replayWindow = 2 ^ 13 := by decide
  have hnot : ¬ replayWindow ≤ mi := by rw [hrw]; omega
  refine ⟨seedLoop b0 mi, ?_, ?_⟩
  · have hnot' : ¬ (2 ^ 13 ≤ mi) := by omega
    simp only [seed, hrw, hb0, if_neg hnot']
  · have := (run_refines ((List.range' 1 mi).map (BitVec.ofNat 64)) r0).2
    rw [toNat_range mi (by omega)] at this
    rw [seedLoop_eq_after]
    exact this

end Nebula.WindowSeed
