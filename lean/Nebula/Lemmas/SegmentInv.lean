/-
Detailed inversion of a successful `segmentTCP` / `segmentUDP` run (C24): the values of every context
field in terms of the superpacket's bytes.
-/
import Nebula.Lemmas.SegmentNF

namespace Nebula.Lemmas.SegmentInv
open Nebula.Csum Nebula.Segment Nebula.Gen Nebula.Lemmas.Segment Nebula.Lemmas.SegmentList
open Nebula.Lemmas.SegmentRun Nebula.Lemmas.SegmentNF

def byteAt (p : List UInt8) (i : Nat) : Nat := (p.getD i 0).toNat

theorem byteAt_lt (p : List UInt8) (i : Nat) : byteAt p i < 256 := (p.getD i 0).toNat_lt

theorem rd_ok_val {p : List UInt8} {i v : Nat} (h : rd p i = .ok v) : i < p.length ∧ v = byteAt p i := by
  unfold rd at h
  split at h
  · next b hb =>
    have := List.getElem?_eq_some_iff.mp hb
    simp [pure, Except.pure] at h
    refine ⟨this.1, ?_⟩
    simp [byteAt, List.getD_eq_getElem?_getD, hb, h]
  · simp [throw, throwThe, MonadExceptOf.throw] at h

theorem rd16_ok {p : List UInt8} {off v : Nat} (h : rd16 p off = .ok v) :
    off + 2 ≤ p.length ∧ v = be16 p off := by
  unfold rd16 at h
  split at h
  · next hc => simp [pure, Except.pure] at h; exact ⟨hc, h.symm⟩
  · simp [throw, throwThe, MonadExceptOf.throw] at h

theorem rd32_ok {p : List UInt8} {off v : Nat} (h : rd32 p off = .ok v) :
    off + 4 ≤ p.length ∧ v = be16 p off * 65536 + be16 p (off + 2) := by
  unfold rd32 at h
  split at h
  · next hc => simp [pure, Except.pure] at h; exact ⟨hc, h.symm⟩
  · simp [throw, throwThe, MonadExceptOf.throw] at h

/-- the address bytes the pseudo-header is built from. -/
def addrBytes (pkt : List UInt8) (isV4 : Bool) : List UInt8 :=
  if isV4 then (pkt.drop 12).take 8 else (pkt.drop 8).take 32

theorem basePseudoSum_ok {pkt : List UInt8} {isV4 : Bool} {proto v : Nat}
    (h : basePseudoSum pkt isV4 proto = .ok v) :
    v = checksum (addrBytes pkt isV4) 0 + proto ∧ (if isV4 then 20 else 40) ≤ pkt.length := by
  unfold addrBytes
  cases isV4
  · unfold basePseudoSum at h
    simp only [Bool.false_eq_true, if_false, bind_ok, pure_ok, virtio_ipv6SrcOff, virtio_ipv6AddrsEnd] at h ⊢
    obtain ⟨a, ha, hv⟩ := h
    have := slice_ok ha
    exact ⟨by rw [← hv, this.2.2], this.2.1⟩
  · unfold basePseudoSum at h
    simp only [if_true, bind_ok, pure_ok, virtio_ipv4SrcOff, virtio_ipv4AddrsEnd] at h ⊢
    obtain ⟨a, ha, hv⟩ := h
    have := slice_ok ha
    exact ⟨by rw [← hv, this.2.2], this.2.1⟩

/-- the base sum `baseIPv4HdrSum` computes, as a function of the header bytes `A`. -/
def ipBaseSum (A : List UInt8) : Nat :=
  fold2 ((checksum A 0 + compl16 (be16 A 2) + compl16 (be16 A 10) + compl16 (be16 A 4)) % 4294967296)

theorem baseIPv4HdrSum_ok {pkt : List UInt8} {cs s : Nat} (h : baseIPv4HdrSum pkt cs = .ok s) :
    20 ≤ byteAt pkt 0 % 16 * 4 ∧ byteAt pkt 0 % 16 * 4 ≤ cs ∧ byteAt pkt 0 % 16 * 4 ≤ pkt.length ∧
      s = ipBaseSum (pkt.take (byteAt pkt 0 % 16 * 4)) := by
  unfold baseIPv4HdrSum at h
  simp only [bind_ok, failIf_ok, pure_ok] at h
  obtain ⟨b0, hb0, _, hihl, hdr, hhdr, tl, htl, ck, hck, id, hid, hs⟩ := h
  simp only [virtio_ipv4HeaderMinLen, virtio_ipv4TotalLenOff, virtio_ipv4ChecksumOff, virtio_ipv4IDOff] at *
  have r0 := rd_ok_val hb0
  have sl := slice_ok hhdr
  have r1 := rd16_ok htl
  have r2 := rd16_ok hck
  have r3 := rd16_ok hid
  rw [← r0.2]
  refine ⟨by omega, by omega, sl.2.1, ?_⟩
  have hA : hdr = pkt.take (b0 % 16 * 4) := by rw [sl.2.2]; simp
  unfold ipBaseSum
  rw [← hA, ← hs, r1.2, r2.2, r3.2, hA]
  rw [be16_take _ _ _ (by omega), be16_take _ _ _ (by omega), be16_take _ _ _ (by omega)]

theorem ipBase_ok {pkt : List UInt8} {isV4 : Bool} {cs : Nat} {ipb : Nat × Nat}
    (h : ipBase pkt isV4 cs = .ok ipb) :
    if isV4 then ipb.1 = be16 pkt 4 ∧ baseIPv4HdrSum pkt cs = .ok ipb.2 else ipb.1 = 0 ∧ ipb.2 = 0 := by
  unfold ipBase at h
  cases isV4
  · simp only [Bool.false_eq_true, if_false, pure_ok] at h ⊢; subst h; exact ⟨rfl, rfl⟩
  · simp only [if_true, bind_ok, pure_ok, virtio_ipv4IDOff] at h ⊢
    obtain ⟨id, hid, s, hs, he⟩ := h
    have := rd16_ok hid
    subst he
    exact ⟨this.2, hs⟩

/-- the base sum `baseTCPHdrSum` computes, as a function of the TCP header bytes `T`. -/
def tcpBaseSum (T : List UInt8) : Nat :=
  fold2 ((checksum T 0 + compl16 (be16 T 4) + compl16 (be16 T 6) + compl16 (byteAt T 13)
    + compl16 (be16 T 16)) % 4294967296)

theorem baseTCPHdrSum_ok {pkt : List UInt8} {cs hl v : Nat} (h : baseTCPHdrSum pkt cs hl = .ok v) :
    cs ≤ hl ∧ hl ≤ pkt.length ∧ cs + 18 ≤ pkt.length ∧
      (cs + 18 ≤ hl → v = tcpBaseSum ((pkt.take hl).drop cs)) := by
  unfold baseTCPHdrSum at h
  simp only [bind_ok, pure_ok, virtio_tcpSeqOff, virtio_tcpFlagsOff, virtio_tcpChecksumOff] at h
  obtain ⟨seq, hseq, fl, hfl, hdr, hhdr, ck, hck, hv⟩ := h
  have r0 := rd32_ok hseq
  have r1 := rd_ok_val hfl
  have sl := slice_ok hhdr
  have r2 := rd16_ok hck
  refine ⟨sl.1, sl.2.1, r2.1, ?_⟩
  intro h18
  have hT : hdr = (pkt.take hl).drop cs := by rw [sl.2.2, List.drop_take]
  have b4 : be16 ((pkt.take hl).drop cs) 4 = be16 pkt (cs + 4) := by
    rw [be16_drop, be16_take _ _ _ (by omega)]
  have b6 : be16 ((pkt.take hl).drop cs) 6 = be16 pkt (cs + 4 + 2) := by
    rw [be16_drop, be16_take _ _ _ (by omega)]
  have b16 : be16 ((pkt.take hl).drop cs) 16 = be16 pkt (cs + 16) := by
    rw [be16_drop, be16_take _ _ _ (by omega)]
  have b13 : byteAt ((pkt.take hl).drop cs) 13 = byteAt pkt (cs + 13) := by
    unfold byteAt; rw [getD_drop, getD_take _ _ _ (by omega)]
  have l4 := be16_lt pkt (cs + 4)
  have l6 := be16_lt pkt (cs + 4 + 2)
  have e1 : (be16 pkt (cs + 4) * 65536 + be16 pkt (cs + 4 + 2)) / 65536 = be16 pkt (cs + 4) := by omega
  have e2 : (be16 pkt (cs + 4) * 65536 + be16 pkt (cs + 4 + 2)) % 65536 = be16 pkt (cs + 4 + 2) := by omega
  unfold tcpBaseSum
  rw [b4, b6, b16, b13, ← hv, r0.2, r1.2, r2.2, e1, e2, hT]

/-- Everything a successful `segmentTCP` run fixes. -/
theorem segmentTCP_inv {pkt : List UInt8} {hdrLen cs g : Nat} {segs : List (List UInt8)}
    (h : segmentTCP pkt hdrLen cs g = .ok segs) :
    ∃ c : TcpCtx, c.saved = pkt.take hdrLen ∧ c.hdrLen = hdrLen ∧ c.csumStart = cs ∧ c.g = g ∧
      c.numSeg = segCount (pkt.length - hdrLen) g ∧
      segs = (List.range c.numSeg).map (tcpSeg c pkt) ∧
      c.isV4 = decide (byteAt pkt 0 / 16 = 4) ∧
      c.tcpHdrLen = byteAt pkt (cs + 12) / 16 * 4 ∧
      c.origSeq = be16 pkt (cs + 4) * 65536 + be16 pkt (cs + 6) ∧
      c.origFlags = byteAt pkt (cs + 13) ∧
      c.baseProto = checksum (addrBytes pkt c.isV4) 0 + 6 ∧
      (if c.isV4 then 20 else 40) ≤ pkt.length ∧
      c.baseTcp = tcpBaseSum ((pkt.take hdrLen).drop cs) ∧
      (if c.isV4 then c.origID = be16 pkt 4 ∧ baseIPv4HdrSum pkt cs = .ok c.baseIP
        else c.origID = 0 ∧ c.baseIP = 0) := by
  unfold segmentTCP at h
  simp only [bind_ok, failIf_ok, pure_ok] at h
  obtain ⟨_, hg, _, hcs, _, hh, b0, hb0, d, hd, sq, hsq, fl, hfl, bp, hbp, bt, hbt, ipb, hipb, saved, hs, _,
    hpre, hsegs⟩ := h
  simp only [virtio_maxSegHdrLen, virtio_tcpChecksumOff, virtio_tcpDataOffOff, virtio_tcpSeqOff,
    virtio_tcpFlagsOff, IPPROTO_TCP] at *
  have hs' := slice_ok hs
  have r0 := rd_ok_val hb0
  have r1 := rd_ok_val hd
  have r2 := rd32_ok hsq
  have r3 := rd_ok_val hfl
  have r4 := basePseudoSum_ok hbp
  have r5 := baseTCPHdrSum_ok hbt
  have r6 := ipBase_ok hipb
  refine ⟨_, ?_, rfl, rfl, rfl, rfl, hsegs.symm, ?_, ?_, ?_, ?_, ?_, ?_, ?_, ?_⟩
  · simp [hs'.2.2]
  · simp [r0.2]
  · simp [r1.2]
  · simp [r2.2]
  · simp [r3.2]
  · simpa [r0.2] using r4.1
  · simpa [r0.2] using r4.2
  · exact r5.2.2.2 (by omega)
  · simpa [r0.2] using r6

/-- Everything a successful `segmentUDP` run fixes. -/
theorem segmentUDP_inv {pkt : List UInt8} {hdrLen cs g : Nat} {segs : List (List UInt8)}
    (h : segmentUDP pkt hdrLen cs g = .ok segs) :
    ∃ c : UdpCtx, c.saved = pkt.take hdrLen ∧ c.hdrLen = hdrLen ∧ c.csumStart = cs ∧ c.g = g ∧
      segs = (List.range (segCount (pkt.length - hdrLen) g)).map (udpSeg c pkt) ∧
      c.isV4 = decide (byteAt pkt 0 / 16 = 4) ∧
      c.baseProto = checksum (addrBytes pkt c.isV4) 0 + 17 ∧
      (if c.isV4 then 20 else 40) ≤ pkt.length ∧
      (if c.isV4 then c.origID = be16 pkt 4 ∧ baseIPv4HdrSum pkt cs = .ok c.baseIP
        else c.origID = 0 ∧ c.baseIP = 0) := by
  unfold segmentUDP at h
  simp only [bind_ok, failIf_ok, pure_ok] at h
  obtain ⟨_, hg, _, hcs, b0, hb0, _, hh, _, hu, bp, hbp, ipb, hipb, saved, hs, hsegs⟩ := h
  simp only [IPPROTO_UDP] at *
  have hs' := slice_ok hs
  have r0 := rd_ok_val hb0
  have r4 := basePseudoSum_ok hbp
  have r6 := ipBase_ok hipb
  refine ⟨_, ?_, rfl, rfl, rfl, hsegs.symm, ?_, ?_, ?_, ?_⟩
  · simp [hs'.2.2]
  · simp [r0.2]
  · simpa [r0.2] using r4.1
  · simpa [r0.2] using r4.2
  · simpa [r0.2] using r6

end Nebula.Lemmas.SegmentInv
