/-
The outbound handshake timer wheel as the manager uses it: an Add lands in a slot of the wheel (never out of
range), and Advance hands out exactly the entries it removes — counted per handshake tag.
-/
import Nebula.Model.HsManager

namespace Nebula.Lemmas.HsWheel
open Nebula.HsManager

/-- number of entries tagged with handshake `id` in a list of timer items -/
def cntL (l : List TimerItem) (id : Nat) : Nat := (l.filter (fun it => it.2 == id)).length

/-- … in all slots -/
def cntS (slots : List (List TimerItem)) (id : Nat) : Nat := (slots.map (fun l => cntL l id)).sum

def cnt (w : Wheel) (id : Nat) : Nat := cntS w.slots id

theorem cntL_append (l l' : List TimerItem) (id : Nat) : cntL (l ++ l') id = cntL l id + cntL l' id := by
  simp [cntL]

theorem cntL_nil (id : Nat) : cntL [] id = 0 := rfl

theorem cntL_single (v : TimerItem) (id : Nat) : cntL [v] id = if v.2 = id then 1 else 0 := by
  simp only [cntL, List.filter_cons, List.filter_nil]
  by_cases h : v.2 = id <;> simp [h]

theorem cntS_modify (slots : List (List TimerItem)) (i : Nat) (v : TimerItem) (id : Nat) (hi : i < slots.length) :
    cntS (slots.modify i (fun l => l ++ [v])) id = cntS slots id + (if v.2 = id then 1 else 0) := by
  induction slots generalizing i with
  | nil => simp at hi
  | cons s ss ih =>
    cases i with
    | zero => simp [cntS, List.modify, cntL_append, cntL_single]; omega
    | succ i =>
      have := ih i (by simpa using hi)
      simp only [cntS, List.modify_succ_cons, List.map_cons, List.sum_cons] at this ⊢
      omega

theorem cntS_set_nil (slots : List (List TimerItem)) (i : Nat) (id : Nat) :
    cntS (slots.set i []) id + cntL (slots.getD i []) id = cntS slots id := by
  induction slots generalizing i with
  | nil => simp [cntS, cntL]
  | cons s ss ih =>
    cases i with
    | zero => simp [cntS, cntL_nil]; omega
    | succ i =>
      have := ih i
      simp only [cntS, List.set_cons_succ, List.map_cons, List.sum_cons, List.getD_cons_succ] at this ⊢
      omega

theorem mem_modify (slots : List (List TimerItem)) (i : Nat) (v it : TimerItem)
    (h : it ∈ (slots.modify i (fun l => l ++ [v])).flatten) : it ∈ slots.flatten ∨ it = v := by
  induction slots generalizing i with
  | nil => simp at h
  | cons s ss ih =>
    cases i with
    | zero =>
      have h : it ∈ (s ++ [v]) ++ ss.flatten := by simpa [List.modify] using h
      simp only [List.flatten_cons, List.mem_append, List.mem_singleton] at h ⊢
      rcases h with (h | h) | h
      · left; left; exact h
      · right; exact h
      · left; right; exact h
    | succ i =>
      simp only [List.modify_succ_cons, List.flatten_cons, List.mem_append] at h ⊢
      rcases h with h | h
      · left; left; exact h
      · rcases ih i h with h | h
        · left; right; exact h
        · right; exact h

theorem mem_set_nil (slots : List (List TimerItem)) (i : Nat) (it : TimerItem)
    (h : it ∈ (slots.set i []).flatten) : it ∈ slots.flatten := by
  induction slots generalizing i with
  | nil => simp at h
  | cons s ss ih =>
    cases i with
    | zero => simp only [List.set_cons_zero, List.flatten_cons, List.nil_append] at h; simp [h]
    | succ i =>
      simp only [List.set_cons_succ, List.flatten_cons, List.mem_append] at h ⊢
      rcases h with h | h
      · left; exact h
      · right; exact ih i h

theorem mem_getD_flatten (slots : List (List TimerItem)) (i : Nat) (it : TimerItem)
    (h : it ∈ slots.getD i []) : it ∈ slots.flatten := by
  induction slots generalizing i with
  | nil => simp at h
  | cons s ss ih =>
    cases i with
    | zero => simp at h; simp [h]
    | succ i => simp only [List.getD_cons_succ] at h; simp only [List.flatten_cons, List.mem_append]; right; exact ih i h

/-- well-formed wheel: what NewTimerWheel establishes for a positive tick and a non-negative span -/
structure WF (w : Wheel) : Prop where
  tick : 0 < w.tickDur
  span : 0 ≤ w.wheelDur
  len : (w.len : Int) = Int.tdiv w.wheelDur (w.tickDur : Int) + 2
  cur : w.current < w.len

theorem findWheel_lt (w : Wheel) (h : WF w) (t : Int) : w.findWheel t < w.len := by
  obtain ⟨htick, hspan, hlen, hcur⟩ := h
  unfold Wheel.findWheel
  have htd : (0 : Int) < (w.tickDur : Int) := by exact_mod_cast htick
  -- the clamped timeout
  generalize hT : (if t < (w.tickDur : Int) then (w.tickDur : Int) else if t > w.wheelDur then w.wheelDur else t) = T
  have hq : 0 ≤ Int.tdiv w.wheelDur (w.tickDur : Int) := Int.tdiv_nonneg hspan (Int.le_of_lt htd)
  -- (T - 1) tdiv td + 1 ≤ wheelDur tdiv td + 1 and ≥ 0
  have hb : 0 ≤ Int.tdiv (T - 1) (w.tickDur : Int) + 1 ∧
      Int.tdiv (T - 1) (w.tickDur : Int) + 1 ≤ Int.tdiv w.wheelDur (w.tickDur : Int) + 1 := by
    by_cases h1 : t < (w.tickDur : Int)
    · simp only [h1, if_true] at hT; subst hT
      have : Int.tdiv ((w.tickDur : Int) - 1) (w.tickDur : Int) = 0 :=
        Int.tdiv_eq_zero_of_lt (by omega) (by omega)
      rw [this]; omega
    · simp only [h1, if_false] at hT
      by_cases h2 : t > w.wheelDur
      · simp only [h2, if_true] at hT; subst hT
        by_cases h0 : w.wheelDur = 0
        · rw [h0]
          have e : Int.tdiv (0 - 1) (w.tickDur : Int) = -(Int.tdiv 1 (w.tickDur : Int)) := by
            rw [show (0 - 1 : Int) = -1 from rfl, Int.neg_tdiv]
          have h1d : 0 ≤ Int.tdiv 1 (w.tickDur : Int) := Int.tdiv_nonneg (by omega) (Int.le_of_lt htd)
          have h1e : Int.tdiv 1 (w.tickDur : Int) ≤ 1 := by
            exact Int.tdiv_le_self (a := 1) (w.tickDur : Int) (by omega)
          rw [e]
          have : Int.tdiv 0 (w.tickDur : Int) = 0 := Int.zero_tdiv _
          rw [this]; omega
        · have hpos : 0 ≤ w.wheelDur - 1 := by omega
          have m : Int.tdiv (w.wheelDur - 1) (w.tickDur : Int) ≤ Int.tdiv w.wheelDur (w.tickDur : Int) := by
            rw [Int.tdiv_eq_ediv_of_nonneg hpos, Int.tdiv_eq_ediv_of_nonneg hspan]
            exact Int.ediv_le_ediv htd (by omega)
          have : 0 ≤ Int.tdiv (w.wheelDur - 1) (w.tickDur : Int) := Int.tdiv_nonneg hpos (Int.le_of_lt htd)
          omega
      · simp only [h2, if_false] at hT; subst hT
        have hpos : 0 ≤ t - 1 := by omega
        have m : Int.tdiv (t - 1) (w.tickDur : Int) ≤ Int.tdiv w.wheelDur (w.tickDur : Int) := by
          rw [Int.tdiv_eq_ediv_of_nonneg hpos, Int.tdiv_eq_ediv_of_nonneg hspan]
          exact Int.ediv_le_ediv htd (by omega)
        have : 0 ≤ Int.tdiv (t - 1) (w.tickDur : Int) := Int.tdiv_nonneg hpos (Int.le_of_lt htd)
        omega
  dsimp only
  split <;> omega

theorem add_wf (w : Wheel) (h : WF w) (v : TimerItem) (t : Int) : WF (w.add v t) := by
  obtain ⟨a, b, c, d⟩ := h
  exact ⟨a, b, by simpa [Wheel.add, Wheel.len] using c, by simpa [Wheel.add, Wheel.len] using d⟩

theorem add_cnt (w : Wheel) (h : WF w) (v : TimerItem) (t : Int) (id : Nat) :
    cnt (w.add v t) id = cnt w id + (if v.2 = id then 1 else 0) := by
  unfold cnt Wheel.add
  exact cntS_modify w.slots _ v id (findWheel_lt w h t)

theorem add_mem (w : Wheel) (v : TimerItem) (t : Int) (it : TimerItem) (h : it ∈ (w.add v t).slots.flatten) :
    it ∈ w.slots.flatten ∨ it = v := mem_modify _ _ _ _ h

theorem step1_spec (w : Wheel) (h : WF w) (id : Nat) :
    WF w.step1.1 ∧ cnt w.step1.1 id + cntL w.step1.2 id = cnt w id ∧
    (∀ it, it ∈ w.step1.1.slots.flatten → it ∈ w.slots.flatten) ∧ (∀ it, it ∈ w.step1.2 → it ∈ w.slots.flatten) := by
  obtain ⟨a, b, c, d⟩ := h
  unfold Wheel.step1
  refine ⟨⟨a, b, by simpa [Wheel.len] using c, ?_⟩, cntS_set_nil _ _ _, fun it hm => mem_set_nil _ _ _ hm,
    fun it hm => mem_getD_flatten _ _ _ hm⟩
  simp only [Wheel.len, List.length_set]
  unfold Wheel.len at d
  by_cases hc : w.current + 1 ≥ w.slots.length
  · simp only [hc, if_true]; omega
  · simp only [hc, if_false]; omega

theorem stepN_spec (n : Nat) (w : Wheel) (acc : List TimerItem) (h : WF w) (id : Nat) :
    WF (Wheel.stepN n w acc).1 ∧
    cnt (Wheel.stepN n w acc).1 id + cntL (Wheel.stepN n w acc).2 id = cnt w id + cntL acc id ∧
    (∀ it, it ∈ (Wheel.stepN n w acc).1.slots.flatten → it ∈ w.slots.flatten) ∧
    (∀ it, it ∈ (Wheel.stepN n w acc).2 → it ∈ w.slots.flatten ∨ it ∈ acc) := by
  induction n generalizing w acc with
  | zero => exact ⟨h, rfl, fun _ hm => hm, fun _ hm => Or.inr hm⟩
  | succ n ih =>
    simp only [Wheel.stepN]
    have s1 := step1_spec w h id
    have := ih w.step1.1 (acc ++ w.step1.2) s1.1
    refine ⟨this.1, ?_, fun it hm => s1.2.2.1 it (this.2.2.1 it hm), ?_⟩
    · rw [this.2.1, cntL_append]; have := s1.2.1; omega
    · intro it hm
      rcases this.2.2.2 it hm with h1 | h1
      · left; exact s1.2.2.1 it h1
      · rcases List.mem_append.mp h1 with h2 | h2
        · right; exact h2
        · left; exact s1.2.2.2 it h2

theorem advance_spec (w : Wheel) (now : Nat) (h : WF w) (id : Nat) :
    WF (w.advance now).1 ∧ cnt (w.advance now).1 id + cntL (w.advance now).2 id = cnt w id ∧
    (∀ it, it ∈ (w.advance now).1.slots.flatten → it ∈ w.slots.flatten) ∧
    (∀ it, it ∈ (w.advance now).2 → it ∈ w.slots.flatten) := by
  unfold Wheel.advance
  dsimp only
  generalize hn : (if (now - w.lastTick.getD now) / w.tickDur > w.len then w.len else (now - w.lastTick.getD now) / w.tickDur) = n
  have s := stepN_spec n w [] h id
  obtain ⟨⟨a, b, c, d⟩, e, f, g⟩ := s
  refine ⟨⟨a, b, c, d⟩, by simpa [cntL_nil, cnt] using e, f, fun it hm => ?_⟩
  rcases g it hm with h1 | h1
  · exact h1
  · simp at h1

theorem new_wf (min : Nat) (max : Int) (h1 : 0 < min) (h2 : 0 ≤ max) : WF (Wheel.new min max) := by
  have hq : 0 ≤ Int.tdiv max (min : Int) := Int.tdiv_nonneg h2 (by omega)
  refine ⟨h1, h2, ?_, ?_⟩
  · simp only [Wheel.new, Wheel.len, List.length_replicate]; omega
  · simp only [Wheel.new, Wheel.len, List.length_replicate]; omega

theorem new_empty (min : Nat) (max : Int) (it : TimerItem) : it ∉ (Wheel.new min max).slots.flatten := by
  simp [Wheel.new]

end Nebula.Lemmas.HsWheel
