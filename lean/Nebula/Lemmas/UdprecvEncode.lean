import Nebula.Lemmas.Udprecv
namespace Nebula.Lemmas.Udprecv
open Nebula.Udprecv Nebula.Spec.Udprecv

theorem leBytes_length (n v : Nat) : (leBytes n v).length = n := by
  induction n generalizing v with
  | zero => rfl
  | succ n ih => simp [leBytes, ih]

theorem leVal_leBytes (n v : Nat) (h : v < 256 ^ n) : leVal (leBytes n v) = v := by
  induction n generalizing v with
  | zero => simp at h; simp [leBytes, leVal, h]
  | succ n ih =>
    simp only [leBytes, leVal]
    have h1 : v / 256 < 256 ^ n := by
      rw [Nat.div_lt_iff_lt_mul (by decide)]; rw [Nat.pow_succ] at h; exact h
    rw [ih _ h1]
    have : (UInt8.ofNat (v % 256)).toNat = v % 256 := by
      simp [UInt8.toNat_ofNat']
    rw [this]; omega

theorem rd_mid (a b c : List UInt8) : rd (a ++ b ++ c) a.length b.length = some (leVal b) := by
  simp [rd]

theorem leVal_foldr (l : List UInt8) : ((leVal l : Nat) : Int) = l.foldr (fun b a => (b.toNat : Int) + 256 * a) 0 := by
  induction l with
  | nil => rfl
  | cons b bs ih => simp [leVal, ih]

theorem rd_at (ctrl a b c : List UInt8) (off n : Nat) (h : ctrl = a ++ b ++ c) (ho : off = a.length)
    (hn : n = b.length) : rd ctrl off n = some (leVal b) := by
  subst h ho hn; exact rd_mid a b c

/-- the fold step of `Spec.Udprecv.groOf` -/
def groStep (acc : Int) (m : Cmsg) : Int :=
  if m.level = 17 ∧ m.type = 104 ∧ 4 ≤ m.data.length then
    let v : Int := (m.data.take 4).foldr (fun b a => (b.toNat : Int) + 256 * a) 0
    if v < 2 ^ 31 then (v : Int) else (v : Int) - (2 ^ 32 : Nat)
  else acc

theorem groOf_eq (msgs : List Cmsg) : groOf msgs = msgs.foldl groStep 0 := rfl

theorem encodeOne_length (m : Cmsg) : (encodeOne m).length = 16 + (m.data.length + 7) / 8 * 8 := by
  simp [encodeOne, leBytes_length]; omega

/-- well-formedness of a message for the encoder: fields fit their wire widths, and a UDP_GRO message
carries its 4-byte value (what the kernel produces). -/
def MsgOK (m : Cmsg) : Prop :=
  m.level < 2 ^ 32 ∧ m.type < 2 ^ 32 ∧ m.data.length + 16 < 2 ^ 63 ∧ (m.level = 17 ∧ m.type = 104 → 4 ≤ m.data.length)

theorem walk_encode (pre : List UInt8) (msgs : List Cmsg) (g : Int) (it : Nat) (hw : ∀ m ∈ msgs, MsgOK m) :
    walk (pre ++ encode msgs) pre.length g it = .gso (msgs.foldl groStep g) (it + msgs.length) := by
  induction msgs generalizing pre g it with
  | nil =>
    rw [walk]; simp only [encode, sizeofCmsghdr, List.map_nil, List.flatten_nil, List.append_nil]
    rw [if_neg (by omega)]; simp
  | cons m ms ih =>
    obtain ⟨h1, h2, h3, h4⟩ := hw m List.mem_cons_self
    have henc : encode (m :: ms) = encodeOne m ++ encode ms := by simp [encode]
    have hlen := encodeOne_length m
    generalize hc : pre ++ encode (m :: ms) = ctrl
    have hcl : ctrl.length = pre.length + (16 + (m.data.length + 7) / 8 * 8) + (encode ms).length := by
      rw [← hc, henc]; simp [hlen]; omega
    have r1 : rd ctrl pre.length 8 = some (16 + m.data.length) := by
      rw [rd_at ctrl pre (leBytes 8 (16 + m.data.length))
        (leBytes 4 m.level ++ leBytes 4 m.type ++ m.data ++ List.replicate ((8 - m.data.length % 8) % 8) 0 ++ encode ms)
        pre.length 8 (by rw [← hc, henc]; simp [encodeOne]) rfl (by simp [leBytes_length])]
      rw [leVal_leBytes _ _ (by omega)]
    have r2 : rd ctrl (pre.length + 8) 4 = some m.level := by
      rw [rd_at ctrl (pre ++ leBytes 8 (16 + m.data.length)) (leBytes 4 m.level)
        (leBytes 4 m.type ++ m.data ++ List.replicate ((8 - m.data.length % 8) % 8) 0 ++ encode ms)
        (pre.length + 8) 4 (by rw [← hc, henc]; simp [encodeOne]) (by simp [leBytes_length]) (by simp [leBytes_length])]
      rw [leVal_leBytes _ _ (by omega)]
    have r3 : rd ctrl (pre.length + 12) 4 = some m.type := by
      rw [rd_at ctrl (pre ++ leBytes 8 (16 + m.data.length) ++ leBytes 4 m.level) (leBytes 4 m.type)
        (m.data ++ List.replicate ((8 - m.data.length % 8) % 8) 0 ++ encode ms)
        (pre.length + 12) 4 (by rw [← hc, henc]; simp [encodeOne]) (by simp [leBytes_length]) (by simp [leBytes_length])]
      rw [leVal_leBytes _ _ (by omega)]
    have r4 : 4 ≤ m.data.length → rd ctrl (pre.length + 16) 4 = some (leVal (m.data.take 4)) := by
      intro h
      rw [rd_at ctrl (pre ++ leBytes 8 (16 + m.data.length) ++ leBytes 4 m.level ++ leBytes 4 m.type) (m.data.take 4)
        (m.data.drop 4 ++ List.replicate ((8 - m.data.length % 8) % 8) 0 ++ encode ms)
        (pre.length + 16) 4 (by rw [← hc, henc]; simp only [encodeOne, List.append_assoc]; rw [← List.append_assoc (List.take 4 m.data), List.take_append_drop]) (by simp [leBytes_length]) (by simp; omega)]
    rw [walk]
    have hcond : pre.length + sizeofCmsghdr ≤ ctrl.length := by simp only [sizeofCmsghdr]; omega
    rw [if_pos hcond, r1, r2, r3]
    simp only
    have hs : toSigned 64 (16 + m.data.length) = ((16 + m.data.length : Nat) : Int) := by
      simp only [toSigned]; rw [if_pos (by omega)]
    rw [hs]
    have hnc : ¬ (((16 + m.data.length : Nat) : Int) < (sizeofCmsghdr : Int) ∨
        ((16 + m.data.length : Nat) : Int) > ((ctrl.length - pre.length : Nat) : Int)) := by
      simp only [sizeofCmsghdr]; omega
    rw [if_neg hnc]
    have hoff : pre.length + cmsgSpace (((16 + m.data.length : Nat) : Int).toNat - cmsgLen 0) = (pre ++ encodeOne m).length := by
      simp only [cmsgSpace, cmsgLen, cmsgAlign, sizeofCmsghdr, hlen, List.length_append, Int.toNat_natCast]; omega
    have hctrl : ctrl = (pre ++ encodeOne m) ++ encode ms := by rw [← hc, henc]; simp
    have hms : ∀ x ∈ ms, MsgOK x := fun x hx => hw x (List.mem_cons_of_mem _ hx)
    by_cases hg : m.level = solUDP ∧ m.type = udpGRO
    · have h4' := h4 (by simpa [solUDP, udpGRO] using hg)
      have hin : pre.length + cmsgLen 0 + Gen.urx_udpGROCmsgPayload ≤ ctrl.length := by
        simp [cmsgLen, cmsgAlign, sizeofCmsghdr, Gen.urx_udpGROCmsgPayload]; omega
      simp only [hg, and_self, if_true, hin]
      have : pre.length + cmsgLen 0 = pre.length + 16 := by simp [cmsgLen, cmsgAlign, sizeofCmsghdr]
      rw [this, show Gen.urx_udpGROCmsgPayload = 4 from rfl, r4 h4']
      simp only [Option.map_some]
      rw [hoff, hctrl, ih _ _ _ hms]
      simp only [List.foldl_cons, List.length_cons]
      congr 1
      · congr 1
        have hg' : m.level = 17 ∧ m.type = 104 ∧ 4 ≤ m.data.length := ⟨hg.1, hg.2, h4'⟩
        simp only [groStep, hg', and_self, if_true, toSigned, ← leVal_foldr]
        generalize leVal (List.take 4 m.data) = v
        split <;> split <;> omega
      · omega
    · simp only [hg, if_false]
      rw [hoff, hctrl, ih _ _ _ hms]
      simp only [List.foldl_cons, List.length_cons]
      congr 1
      · congr 1
        have : ¬ (m.level = 17 ∧ m.type = 104 ∧ 4 ≤ m.data.length) := by
          intro h; exact hg ⟨h.1, h.2.1⟩
        simp [groStep, this]
      · omega
end Nebula.Lemmas.Udprecv
