/-
C24: `FinishChecksum` (the non-GSO read with NEEDS_CSUM): the completed L4 checksum verifies against the
partial pseudo-header sum the kernel left in the checksum field; RFC 768 zero rule for UDP; nothing else
in the packet changes.
-/
import Nebula.Lemmas.SegmentOwn

namespace Nebula.Lemmas.SegmentFinish
open Nebula.Csum Nebula.Segment Nebula.Gen Nebula.Lemmas.SegmentList Nebula.Lemmas.SegmentRun
open Nebula.Lemmas.SegmentNF Nebula.Lemmas.SegmentCsum

/-- a write at or after `n` commutes with dropping `n` bytes. -/
theorem drop_set16_ge (b : List UInt8) (n k v : Nat) (h : n + k + 2 ≤ b.length) :
    (set16 b (n + k) v).drop n = set16 (b.drop n) k v := by
  have hx : (b.take n).length = n := by simp; omega
  have hy : k + 2 ≤ (b.drop n).length := by simp; omega
  have e : b = b.take n ++ (b.drop n ++ []) := by simp
  have := set16_mid (b.take n) (b.drop n) [] k v hy
  rw [hx] at this
  conv => lhs; rw [e, this]
  rw [List.drop_append, List.drop_of_length_le (by omega)]
  simp [hx]

theorem finish_arith (WD part f c : Nat) (hf : f < 65536) (hfr : f % 65535 = (WD + part) % 65535)
    (hfz : f = 0 ↔ WD + part = 0) (hc : c = 65535 - f ∨ (f = 65535 ∧ c = 65535)) :
    (WD + c + part) % 65535 = 0 ∧ WD + c + part ≠ 0 := by
  omega

/-- **FinishChecksum.** -/
theorem finishChecksum_valid {seg res : List UInt8} {h : Hdr} (he : finishChecksum seg h = .ok res)
    (hco : h.csumOffset % 2 = 0) :
    verifies (res.drop h.csumStart) (be16 seg (h.csumStart + h.csumOffset)) ∧
    res.length = seg.length ∧
    (h.csumOffset = 6 → be16 res (h.csumStart + 6) ≠ 0) ∧
    (∀ j, j ≠ h.csumStart + h.csumOffset → j ≠ h.csumStart + h.csumOffset + 1 → res.getD j 0 = seg.getD j 0) := by
  unfold finishChecksum at he
  simp only [bind_ok, failIf_ok, pure_ok] at he
  obtain ⟨_, hr, he⟩ := he
  generalize hcs : h.csumStart = cs at *
  generalize hcoo : h.csumOffset = co at *
  have hlen : cs + co + 2 ≤ seg.length := by omega
  have l1 := set16_length seg (cs + co) 0 hlen
  have hD : (set16 seg (cs + co) 0).drop cs = set16 (seg.drop cs) co 0 := drop_set16_ge seg cs co 0 hlen
  rw [hD] at he
  have lD0 : (seg.drop cs).length = seg.length - cs := by simp
  have lD := set16_length (seg.drop cs) co 0 (by omega)
  have z := be16_set16_same (seg.drop cs) co 0 (by omega) (by omega)
  generalize hDdef : set16 (seg.drop cs) co 0 = D at *
  have hfr := checksum_rep D (be16 seg (cs + co))
  have hflt := checksum_lt D (be16 seg (cs + co))
  generalize hfdef : checksum D (be16 seg (cs + co)) = f at *
  have hcf : compl16 f = 65535 - f := by unfold compl16; omega
  rw [hcf] at he
  generalize hcdef : (if co = virtio_udpChecksumOff ∧ 65535 - f = 0 then 65535 else 65535 - f) = c at he
  have hc : c = 65535 - f ∨ (f = 65535 ∧ c = 65535) := by
    rw [← hcdef]; split
    · next hh => right; omega
    · left; rfl
  have hclt : c < 65536 := by omega
  subst he
  have hres : (set16 (set16 seg (cs + co) 0) (cs + co) c).drop cs = set16 D co c := by
    rw [drop_set16_ge _ cs co c (by omega), hD]
  refine ⟨?_, ?_, ?_, ?_⟩
  · rw [hres]
    unfold verifies
    have e := wsum_set16 D co c hco (by omega) hclt
    have := finish_arith (wsum D) (be16 seg (cs + co)) f c hflt hfr.1 hfr.2 hc
    apply fold16_ffff
    · omega
    · omega
  · rw [set16_length _ _ _ (by omega), l1]
  · intro h6
    have h6' : co = virtio_udpChecksumOff := h6
    have hcz : c ≠ 0 := by
      by_cases hz : 65535 - f = 0
      · have hcond : co = virtio_udpChecksumOff ∧ 65535 - f = 0 := ⟨h6', hz⟩
        rw [if_pos hcond] at hcdef; omega
      · rcases hc with hc | hc <;> omega
    have hb := be16_set16_same (set16 seg (cs + co) 0) (cs + co) c (by omega) hclt
    rw [← h6, hb]; exact hcz
  · intro j hj1 hj2
    rw [getD_set16 _ _ _ _ (by omega), getD_set16 _ _ _ _ hlen]
    simp [hj1, hj2]

/-- The non-GSO read path: the packet is delivered unchanged, or — with NEEDS_CSUM — as completed by
`FinishChecksum`. -/
theorem readAndSegment_plain {h : Hdr} {pkt : List UInt8} {segs : List (List UInt8)}
    (hg : h.gso = GSO_NONE) (he : readAndSegment h pkt = .ok segs) :
    (h.flags % 2 = F_NEEDS_CSUM → ∃ p, finishChecksum pkt h = .ok p ∧ segs = [p]) ∧
    (h.flags % 2 ≠ F_NEEDS_CSUM → segs = [pkt]) := by
  unfold readAndSegment at he
  simp only [bind_ok, failIf_ok] at he
  obtain ⟨_, _, he⟩ := he
  simp only [hg, if_true] at he
  constructor
  · intro hf
    simp only [hf, if_true, bind_ok, pure_ok] at he
    obtain ⟨p, hp, hs⟩ := he
    exact ⟨p, hp, hs.symm⟩
  · intro hf
    simp only [hf, if_false, pure_ok] at he
    exact he.symm

end Nebula.Lemmas.SegmentFinish
