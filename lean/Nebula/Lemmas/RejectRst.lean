/-
Lemmas for C21, part 3: closed forms of the reply builders and the TCP reset.
-/
import Nebula.Lemmas.RejectReply

namespace Nebula.Lemmas.Reject
open Nebula.Pkt Nebula.Reject Nebula.Spec.IP Nebula.Spec.PktCsum Nebula.Spec.Reject
open Nebula.Lemmas.PktParse Nebula.Lemmas.PktCsum


set_option maxRecDepth 100000 in
theorem flag_bits (f : Nat) (h : f < 256) :
    ((f &&& 0x10 ≠ 0) ↔ f / 16 % 2 = 1) ∧ (f &&& 0x02) >>> 1 = f / 2 % 2 ∧ f &&& 0x01 = f % 2 := by
  have : ∀ n : Fin 256, ((n.val &&& 0x10 ≠ 0) ↔ n.val / 16 % 2 = 1) ∧ (n.val &&& 0x02) >>> 1 = n.val / 2 % 2 ∧
      n.val &&& 0x01 = n.val % 2 := by decide
  exact this ⟨f, h⟩

theorem be32At_eq (t : List UInt8) (i : Nat) (h : i + 4 ≤ t.length) : be32At t i = .ok (be32 t i) := by
  simp only [be32At, u16At_eq t i (by omega), u16At_eq t (i + 2) (by omega), ok_bind, pure_eq, be32]

theorem be32_lt (t : List UInt8) (i : Nat) : be32 t i < 4294967296 := by
  have := byte_lt t i; have := byte_lt t (i + 1); have := byte_lt t (i + 2); have := byte_lt t (i + 2 + 1)
  simp only [be32, be16]; omega

/-- sequence / acknowledgement numbers and flags of the reset, as coded -/
def rstSeq (t : List UInt8) : Nat := if byte t 13 &&& 0x10 ≠ 0 then be32 t 8 else 0
def rstAck (t : List UInt8) : Nat :=
  if byte t 13 &&& 0x10 ≠ 0 then 0 else
    u32 (u32 (u32 (u32 (be32 t 4 + (byte t 13 &&& 0x02) >>> 1) + (byte t 13 &&& 0x01)) + u32 t.length) + 4294967296
      - u32 ((byte t 12 >>> 4) <<< 2))
def rstFlags (t : List UInt8) : Nat := if byte t 13 &&& 0x10 ≠ 0 then 0x04 else 0x14

def rstBytes (t : List UInt8) (init : Nat) : List UInt8 :=
  withCsum ([t.getD 2 0, t.getD 3 0] ++ [t.getD 0 0, t.getD 1 0] ++ put32 (rstSeq t) ++ put32 (rstAck t) ++
    [0x50, UInt8.ofNat (rstFlags t), 0, 0]) [0, 0] init

theorem rstSegment_eq (t : List UInt8) (init : Nat) (h : 20 ≤ t.length) : rstSegment t init = .ok (rstBytes t init) := by
  have e1 := take2 t 0 (by omega)
  have e2 := take2 t 2 (by omega)
  simp only [List.drop_zero, Nat.zero_add] at e1
  simp only [rstSegment, idx_eq t 13 (by omega), idx_eq t 12 (by omega), be32At_eq t 4 (by omega), ok_bind, pure_eq,
    slice_eq t 0 2 (by omega) (by omega), slice_eq t 2 4 (by omega) (by omega), List.drop_zero, Nat.sub_zero, e1,
    show (4 : Nat) - 2 = 2 from rfl, e2, rstBytes, rstSeq, rstAck, rstFlags]
  by_cases hA : byte t 13 &&& 0x10 ≠ 0
  · simp only [hA, if_true, be32At_eq t 8 (by omega), ok_bind, ne_eq, not_false_eq_true]
  · simp only [hA, if_false, pure_eq, ok_bind, ne_eq]


theorem put32_be32 (v : Nat) (h : v < 4294967296) (a b : List UInt8) (ha : a.length = 4) :
    be32 (a ++ put32 v ++ b) 4 = v := by
  obtain ⟨x, y, z, w, rfl⟩ := len4 a ha
  simp [put32, be32, be16, byte]
  omega

theorem rstBytes_length (t : List UInt8) (init : Nat) : (rstBytes t init).length = 20 := by
  simp [rstBytes, withCsum_length, put32]

theorem rstBytes_verifies (t : List UInt8) (init : Nat) (hinit : init < 16777216) :
    verifies (rstBytes t init) init = true := by
  apply withCsum_verifies
  · simp [put32]
  · have h1 := sum16_le ([t.getD 2 0, t.getD 3 0] ++ [t.getD 0 0, t.getD 1 0] ++ put32 (rstSeq t) ++ put32 (rstAck t) ++
      [0x50, UInt8.ofNat (rstFlags t), 0, 0])
    have l1 : ([t.getD 2 0, t.getD 3 0] ++ [t.getD 0 0, t.getD 1 0] ++ put32 (rstSeq t) ++ put32 (rstAck t) ++
      [0x50, UInt8.ofNat (rstFlags t), 0, 0]).length = 16 := by simp [put32]
    rw [l1] at h1
    have h2 : sum16 [0, 0] = 0 := by simp [sum16]
    omega

theorem rstAck_lt (t : List UInt8) : rstAck t < 4294967296 := by
  simp only [rstAck, u32]; split <;> omega

theorem rstSeq_lt (t : List UInt8) : rstSeq t < 4294967296 := by
  simp only [rstSeq]; split
  · exact be32_lt t 8
  · omega

theorem rstBytes_fields (t : List UInt8) (init : Nat) :
    let u := rstBytes t init
    be16 u 0 = be16 t 2 ∧ be16 u 2 = be16 t 0 ∧ byte u 12 = 0x50 ∧ be16 u 14 = 0 ∧ be16 u 18 = 0 ∧
    byte u 13 = rstFlags t ∧ be32 u 4 = rstSeq t ∧ be32 u 8 = rstAck t := by
  have hs := rstSeq_lt t
  have ha := rstAck_lt t
  have hf : rstFlags t < 256 := by simp only [rstFlags]; split <;> omega
  simp [rstBytes, withCsum, put32, put16, be32, be16, byte, Nat.mod_eq_of_lt hf]
  omega


theorem rst_ok (o r : Spec.IP.Pkt) (hp : r.proto = 6) (hs : r.src.length ≤ 16) (hd : r.dst.length ≤ 16)
    (hu : r.upper = rstBytes o.upper (pseudo r.src r.dst 6 20)) : rstOK o r = true := by
  have hl := rstBytes_length o.upper (pseudo r.src r.dst 6 20)
  have hps : replyPseudo r = pseudo r.src r.dst 6 20 := by simp [replyPseudo, hp, hu, hl]
  have hv := rstBytes_verifies o.upper _ (pseudo_lt r.src r.dst 6 20 hs hd (by omega) (by omega))
  obtain ⟨f1, f2, f3, f4, f5, f6, f7, f8⟩ := rstBytes_fields o.upper (pseudo r.src r.dst 6 20)
  have fb := flag_bits (byte o.upper 13) (byte_lt _ _)
  have hd12 := byte_lt o.upper 12
  have hb := be32_lt o.upper 4
  simp only [rstOK, hps, hu, hv, hl, hp, f1, f2, f3, f4, f5, f6, f7, f8, beq_self_eq_true, Bool.and_true, Bool.true_and]
  by_cases hA : byte o.upper 13 &&& 0x10 ≠ 0
  · have h1 : byte o.upper 13 / 16 % 2 = 1 := fb.1.1 hA
    simp [rstFlags, rstSeq, rstAck, hA, h1]
  · have h1 : ¬ byte o.upper 13 / 16 % 2 = 1 := fun h => hA (fb.1.2 h)
    have e : rstAck o.upper = (be32 o.upper 4 + byte o.upper 13 / 2 % 2 + byte o.upper 13 % 2 +
        (o.upper.length + 4294967296 - byte o.upper 12 / 16 * 4)) % 4294967296 := by
      simp only [rstAck, hA, if_false, fb.2.1, fb.2.2, Nat.shiftRight_eq_div_pow, shl2, u32]
      omega
    simp [rstFlags, rstSeq, hA, h1, e]



/-- the reply of `ipv4CreateRejectICMPPacket` when it produces one -/
def v4IcmpReply (p : List UInt8) : List UInt8 :=
  let n := min p.length (byte p 0 % 16 * 4 + 8)
  v4Header (28 + n) 1 ((p.drop 16).take 4) ((p.drop 12).take 4) ++ withCsum [3, 13] ([0, 0, 0, 0] ++ p.take n) 0

def v4IcmpErr (p : List UInt8) : Prop :=
  byte p 9 = 1 ∧ p.length > byte p 0 % 16 * 4 ∧
    (let t := byte p (byte p 0 % 16 * 4); t = 3 ∨ t = 4 ∨ t = 5 ∨ t = 11 ∨ t = 12)

instance (p : List UInt8) : Decidable (v4IcmpErr p) := by unfold v4IcmpErr; exact inferInstance

/-- closed form of the model of `ipv4CreateRejectICMPPacket` (no panic branch is reachable) -/
theorem v4RejectICMP_eq (p : List UInt8) (cap : Nat) (hlen : ¬ p.length < 20) :
    v4RejectICMP p cap =
      if p.length < byte p 0 % 16 * 4 then .ok none
      else if v4IcmpErr p then .ok none
      else if 28 + min p.length (byte p 0 % 16 * 4 + 8) > cap then .ok none
      else .ok (some (v4IcmpReply p)) := by
  simp only [v4RejectICMP, idx_eq p 0 (by omega), ok_bind, pure_eq, and_0f, shl2]
  by_cases h1 : p.length < byte p 0 % 16 * 4
  · simp [h1]
  · simp only [if_neg h1, idx_eq p 9 (by omega), ok_bind]
    by_cases h2 : byte p 9 = 1 ∧ p.length > byte p 0 % 16 * 4
    · simp only [h2, and_self, if_true, idx_eq p _ h2.2, ok_bind, pure_eq]
      by_cases h3 : v4IcmpErr p
      · have h3' := h3.2.2
        simp only [] at h3'
        simp [h3, h3']
      · have h3' : ¬ (byte p (byte p 0 % 16 * 4) = 3 ∨ byte p (byte p 0 % 16 * 4) = 4 ∨ byte p (byte p 0 % 16 * 4) = 5 ∨
            byte p (byte p 0 % 16 * 4) = 11 ∨ byte p (byte p 0 % 16 * 4) = 12) := by
          intro hc; exact h3 ⟨h2.1, h2.2, hc⟩
        simp only [h3', decide_false, Bool.false_eq_true, if_false, if_neg h3]
        by_cases h4 : 28 + min p.length (byte p 0 % 16 * 4 + 8) > cap
        · simp [h4]
        · have h4' : ¬ 20 + 8 + min p.length (byte p 0 % 16 * 4 + 8) > cap := by omega
          simp only [if_neg h4, if_neg h4', slice_eq p 16 20 (by omega) (by omega), slice_eq p 12 16 (by omega) (by omega),
            slice_eq p 0 _ (Nat.zero_le _) (Nat.min_le_left _ _), ok_bind, pure_eq, v4IcmpReply]
          simp
    · have h3 : ¬ v4IcmpErr p := by intro hc; exact h2 ⟨hc.1, hc.2.1⟩
      simp only [if_neg h2, pure_eq, ok_bind, Bool.false_eq_true, if_false, if_neg h3]
      by_cases h4 : 28 + min p.length (byte p 0 % 16 * 4 + 8) > cap
      · simp [h4]
      · have h4' : ¬ 20 + 8 + min p.length (byte p 0 % 16 * 4 + 8) > cap := by omega
        simp only [if_neg h4, if_neg h4', slice_eq p 16 20 (by omega) (by omega), slice_eq p 12 16 (by omega) (by omega),
          slice_eq p 0 _ (Nat.zero_le _) (Nat.min_le_left _ _), ok_bind, pure_eq, v4IcmpReply]
        simp

end Nebula.Lemmas.Reject
