/- Whole-table check of the translated `IsValidSubType` against the documented combinations
(256 × 256 entries, kernel evaluation). Slow (~1.5 min) but cached until `Gen/Header.lean` changes. -/
import Nebula.Model.Header
import Nebula.Spec.Header

namespace Nebula.Lemmas
open Nebula.Header

theorem header_valid_table : (List.range 256).all (fun t => (List.range 256).all (fun s =>
    isValidSubType t s == Spec.Header.validSubType t s)) = true := by
  decide +kernel

end Nebula.Lemmas
