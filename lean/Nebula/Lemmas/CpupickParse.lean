/- Helper lemmas for `parseCPUList` (C46): reading back what the kernel prints. Core Lean only. -/
import Nebula.Model.Cpupick
import Nebula.Spec.Cpupick

namespace Nebula.Lemmas.CpupickParse
open Nebula.Cpupick
open Nebula.Spec.Cpupick (printNum printItem printList expand)

def IsDig (c : Nat) : Prop := 0x30 ≤ c ∧ c ≤ 0x39

theorem strip_prefix_digit (d : Nat) (rest : List Nat) (h : IsDig d) :
    stripPrefixSpace (d :: rest) = none := by
  unfold IsDig at h
  unfold stripPrefixSpace
  have : spaceSeqs.find? (fun q => q.isPrefixOf (d :: rest)) = none := by
    rw [List.find?_eq_none]
    intro q hq
    simp only [spaceSeqs, List.mem_cons, List.mem_nil_iff, or_false] at hq
    rcases hq with rfl | rfl | rfl | rfl | rfl | rfl | rfl | rfl | rfl | rfl | rfl | rfl | rfl | rfl | rfl | rfl | rfl | rfl | rfl | rfl | rfl | rfl | rfl | rfl | rfl <;>
      (simp only [List.isPrefixOf, Bool.and_eq_true, beq_iff_eq]; simp; omega)
  rw [this]; rfl

theorem strip_suffix_digit (init : List Nat) (d : Nat) (h : IsDig d) :
    stripSuffixSpace (init ++ [d]) = none := by
  unfold IsDig at h
  unfold stripSuffixSpace
  have : spaceSeqs.find? (fun q => q.isSuffixOf (init ++ [d])) = none := by
    rw [List.find?_eq_none]
    intro q hq
    simp only [spaceSeqs, List.mem_cons, List.mem_nil_iff, or_false] at hq
    rcases hq with rfl | rfl | rfl | rfl | rfl | rfl | rfl | rfl | rfl | rfl | rfl | rfl | rfl | rfl | rfl | rfl | rfl | rfl | rfl | rfl | rfl | rfl | rfl | rfl | rfl <;>
      (simp only [List.isSuffixOf, List.reverse_append, List.reverse_cons, List.reverse_nil, List.nil_append, List.cons_append, List.isPrefixOf]; simp; omega)
  rw [this]; rfl

/-- `TrimSpace` leaves a string that starts and ends with a digit alone. -/
theorem trimSpace_digit_ends (s : List Nat) (d : Nat) (rest : List Nat) (init : List Nat) (d' : Nat)
    (h1 : s = d :: rest) (h2 : s = init ++ [d']) (hd : IsDig d) (hd' : IsDig d') : trimSpace s = s := by
  unfold trimSpace
  have e1 : trimLeft s.length s = s := by
    rw [h1]; simp only [List.length_cons]; unfold trimLeft; rw [strip_prefix_digit d rest hd]
  rw [e1]
  have e2 : s.length = init.length + 1 := by rw [h2]; simp
  rw [e2, h2]; unfold trimRight; rw [strip_suffix_digit init d' hd']

theorem printNum_digits (n : Nat) : (∀ c ∈ printNum n, IsDig c) ∧ printNum n ≠ [] := by
  induction n using Nat.strongRecOn with
  | _ n ih =>
    unfold printNum
    split
    · exact ⟨by intro c hc; simp at hc; subst hc; unfold IsDig; omega, by simp⟩
    · rename_i h
      have := ih (n / 10) (by omega)
      refine ⟨?_, by simp⟩
      intro c hc
      rw [List.mem_append] at hc
      cases hc with
      | inl h1 => exact this.1 c h1
      | inr h1 => simp at h1; subst h1; unfold IsDig; omega

theorem digitsVal_append (l : List Nat) (c : Nat) (v : Nat) (hl : digitsVal l = some v) (hc : IsDig c) :
    digitsVal (l ++ [c]) = some (v * 10 + (c - 0x30)) := by
  unfold digitsVal at *
  rw [List.foldl_append, hl]
  unfold IsDig at hc
  simp [digitVal, hc]

theorem digitsVal_printNum (n : Nat) : digitsVal (printNum n) = some n := by
  induction n using Nat.strongRecOn with
  | _ n ih =>
    unfold printNum
    split
    · rename_i h
      unfold digitsVal
      have : 0x30 ≤ 0x30 + n ∧ 0x30 + n ≤ 0x39 := by omega
      simp [digitVal, this]
    · rename_i h
      rw [digitsVal_append _ _ _ (ih (n / 10) (by omega)) (by unfold IsDig; omega)]
      congr 1; omega

theorem head_digit (l : List Nat) (h : ∀ c ∈ l, IsDig c) (hne : l ≠ []) :
    (∃ d rest, l = d :: rest ∧ IsDig d) ∧ (∃ init d', l = init ++ [d'] ∧ IsDig d') := by
  constructor
  · cases l with
    | nil => exact absurd rfl hne
    | cons d rest => exact ⟨d, rest, rfl, h d List.mem_cons_self⟩
  · rcases List.eq_nil_or_concat l with e | ⟨init, d', e⟩
    · exact absurd e hne
    · have e' : l = init ++ [d'] := by rw [e, List.concat_eq_append]
      exact ⟨init, d', e', h d' (by rw [e']; simp)⟩

theorem atoi_printNum (n : Nat) (hn : n < 2 ^ 63) : atoi (printNum n) = some (n : Int) := by
  obtain ⟨hd, hne⟩ := printNum_digits n
  obtain ⟨⟨d, rest, e, hdd⟩, _⟩ := head_digit _ hd hne
  have hv := digitsVal_printNum n
  unfold IsDig at hdd
  unfold atoi
  rw [e] at hv ⊢
  split
  · rename_i heq
    split at heq
    · rename_i r h2; injection h2 with h3; omega
    · rename_i r h2; injection h2 with h3; omega
    · rename_i neg ds r _ _
      cases heq
      simp only [List.isEmpty_cons, Bool.false_eq_true, if_false, hv]
      have : ¬ ((n : Int) < -(2 ^ 63) ∨ (n : Int) > 2 ^ 63 - 1) := by omega
      rw [if_neg this]

theorem cutDash_nodash (l : List Nat) (h : 0x2d ∉ l) : cutDash l = (l, [], false) := by
  induction l with
  | nil => rfl
  | cons c rest ih =>
    have hc : ¬ (c = 0x2d) := fun e => h (by rw [e]; exact List.mem_cons_self)
    have hr : 0x2d ∉ rest := fun m => h (List.mem_cons_of_mem _ m)
    unfold cutDash; simp only [hc, if_false]; rw [ih hr]

theorem cutDash_dash (l r : List Nat) (h : 0x2d ∉ l) : cutDash (l ++ 0x2d :: r) = (l, r, true) := by
  induction l with
  | nil => simp [cutDash]
  | cons c rest ih =>
    have hc : ¬ (c = 0x2d) := fun e => h (by rw [e]; exact List.mem_cons_self)
    have hr : 0x2d ∉ rest := fun m => h (List.mem_cons_of_mem _ m)
    simp only [List.cons_append]
    unfold cutDash; simp only [hc, if_false]; rw [ih hr]

theorem not_mem_digits (l : List Nat) (h : ∀ c ∈ l, IsDig c) (x : Nat) (hx : x < 0x30) : x ∉ l := by
  intro hm; have := h x hm; unfold IsDig at this; omega

/-- a valid printed item: `lo ≤ hi`, at most 8193 CPUs wide, inside `int`. -/
def ValidItem (r : Nat × Nat) : Prop := r.1 ≤ r.2 ∧ r.2 - r.1 ≤ 8192 ∧ r.2 < 2 ^ 63

theorem parsePart_printItem (r : Nat × Nat) (h : ValidItem r) : parsePart (printItem r) = some (expand [r]) := by
  obtain ⟨a, b⟩ := r
  obtain ⟨h1, h2, h3⟩ := h
  simp only at h1 h2 h3
  obtain ⟨d1, _⟩ := printNum_digits a
  obtain ⟨d2, _⟩ := printNum_digits b
  have hexp : ∀ (a b : Nat), a ≤ b → rangeIncl (a : Int) ((b : Int) - a).toNat = expand [(a, b)] := by
    intro a b hab
    simp only [rangeIncl, expand, List.flatMap_cons, List.flatMap_nil, List.append_nil]
    have : ((b : Int) - a).toNat = b - a := by omega
    rw [this]
    apply List.map_congr_left
    intro i _; simp
  unfold printItem
  simp only
  split
  · rename_i heq
    subst heq
    unfold parsePart
    rw [cutDash_nodash _ (not_mem_digits _ d1 _ (by decide))]
    simp only [atoi_printNum a (by omega)]
    simp [expand]
  · unfold parsePart
    rw [List.append_assoc, List.singleton_append, cutDash_dash _ _ (not_mem_digits _ d1 _ (by decide))]
    simp only [atoi_printNum a (by omega), atoi_printNum b h3]
    have : ¬ ((b : Int) < a ∨ (b : Int) - a > 8192) := by omega
    simp only [Bool.not_true, Bool.false_eq_true, if_false, this]
    rw [hexp a b h1]

theorem printItem_shape (r : Nat × Nat) :
    (∀ c ∈ printItem r, IsDig c ∨ c = 0x2d) ∧
    (∃ d rest, printItem r = d :: rest ∧ IsDig d) ∧ (∃ init d', printItem r = init ++ [d'] ∧ IsDig d') := by
  obtain ⟨d1, n1⟩ := printNum_digits r.1
  obtain ⟨d2, n2⟩ := printNum_digits r.2
  obtain ⟨⟨a, ra, ea, ha⟩, ⟨ia, la, eia, hla⟩⟩ := head_digit _ d1 n1
  obtain ⟨⟨b, rb, eb, hb⟩, ⟨ib, lb, eib, hlb⟩⟩ := head_digit _ d2 n2
  unfold printItem
  split
  · exact ⟨fun c hc => Or.inl (d1 c hc), ⟨a, ra, ea, ha⟩, ⟨ia, la, eia, hla⟩⟩
  · refine ⟨?_, ⟨a, ra ++ [0x2d] ++ printNum r.2, by rw [ea]; simp, ha⟩,
      ⟨printNum r.1 ++ [0x2d] ++ ib, lb, by rw [eib]; simp, hlb⟩⟩
    intro c hc
    simp only [List.mem_append, List.mem_singleton] at hc
    rcases hc with (h | h) | h
    · exact Or.inl (d1 c h)
    · exact Or.inr h
    · exact Or.inl (d2 c h)

theorem splitOn_nosep (p : List Nat) (h : 0x2c ∉ p) : splitOn 0x2c p = [p] := by
  induction p with
  | nil => rfl
  | cons c rest ih =>
    have hc : ¬ (c = 0x2c) := fun e => h (by rw [e]; exact List.mem_cons_self)
    have hr : 0x2c ∉ rest := fun m => h (List.mem_cons_of_mem _ m)
    unfold splitOn; simp only [hc, if_false]; rw [ih hr]

theorem splitOn_sep (p rest : List Nat) (h : 0x2c ∉ p) :
    splitOn 0x2c (p ++ 0x2c :: rest) = p :: splitOn 0x2c rest := by
  induction p with
  | nil => simp [splitOn]
  | cons c r ih =>
    have hc : ¬ (c = 0x2c) := fun e => h (by rw [e]; exact List.mem_cons_self)
    have hr : 0x2c ∉ r := fun m => h (List.mem_cons_of_mem _ m)
    simp only [List.cons_append]
    conv => lhs; unfold splitOn
    simp only [hc, if_false]; rw [ih hr]

theorem no_comma (r : Nat × Nat) : 0x2c ∉ printItem r := by
  intro hm
  rcases (printItem_shape r).1 _ hm with h | h
  · unfold IsDig at h; omega
  · omega

theorem parseParts_printList (rs : List (Nat × Nat)) (hne : rs ≠ []) (hv : ∀ r ∈ rs, ValidItem r) :
    parseParts (splitOn 0x2c (printList rs)) = some (expand rs) := by
  induction rs with
  | nil => exact absurd rfl hne
  | cons r rest ih =>
    have hr := hv r List.mem_cons_self
    obtain ⟨_, ⟨d, rs', e1, hd⟩, ⟨init, d', e2, hd'⟩⟩ := printItem_shape r
    have htrim := trimSpace_digit_ends _ d rs' init d' e1 e2 hd hd'
    have hnonempty : (printItem r).isEmpty = false := by rw [e1]; rfl
    have hexp : expand (r :: rest) = expand [r] ++ expand rest := by simp [expand]
    cases rest with
    | nil =>
      simp only [printList]
      rw [splitOn_nosep _ (no_comma r)]
      simp only [parseParts, htrim, hnonempty, Bool.false_eq_true, if_false, parsePart_printItem r hr]
      simp
    | cons r2 rest2 =>
      have := ih (by simp) (fun x hx => hv x (List.mem_cons_of_mem _ hx))
      simp only [printList]
      rw [List.append_assoc, List.singleton_append, splitOn_sep _ _ (no_comma r)]
      simp only [parseParts, htrim, hnonempty, Bool.false_eq_true, if_false, parsePart_printItem r hr]
      rw [this, hexp]

end Nebula.Lemmas.CpupickParse
