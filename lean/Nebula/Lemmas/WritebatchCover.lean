import Nebula.Lemmas.WritebatchDisable
namespace Nebula.Lemmas.Writebatch
open Nebula.Writebatch List
variable {δ : Type} [DecidableEq δ]

theorem mem_idxs (e : Entry) (j : Nat) : j ∈ e.idxs ↔ e.start ≤ j ∧ j < e.start + e.cnt := by
  simp [Entry.idxs, List.mem_range'_1]

omit [DecidableEq δ] in
/-- all packets of a well-shaped run have the destination of its first packet -/
theorem runShape_dst (maxSeg : Int) (pk : List (Pkt δ)) (e : Entry) (hs : RunShape maxSeg pk e)
    (j : Nat) (h1 : e.start ≤ j) (h2 : j < e.start + e.cnt) (hj : j < pk.length) (h0 : e.start < pk.length) :
    pk[j].dst = pk[e.start].dst := by
  by_cases hc : 2 ≤ e.cnt
  · have h := (hs.2.2.2 hc).2.2.2.1
    have hm : pk[j] ∈ e.pkts pk := by
      simp only [Entry.pkts]
      rw [List.mem_iff_getElem]
      refine ⟨j - e.start, by simp; omega, ?_⟩
      simp [List.getElem_take, List.getElem_drop]
      congr 1; omega
    exact (h _ hm).1 _ (List.getElem?_eq_getElem h0)
  · have : j = e.start := by have := hs.1; omega
    subst this; rfl

/-- the packing loop loses nothing: every routable packet it passes over is in a committed entry; and if
it commits nothing although a slot and an iovec are free, it has passed over the whole batch. -/
theorem pack_cover (c : Cfg δ) (gso : Bool) (pk : List (Pkt δ)) (i entry iovIdx : Nat) (ctl : Ctl) (hi : i ≤ pk.length) :
    let p := pack c gso pk i entry iovIdx ctl
    (∀ j (hj : j < pk.length), i ≤ j → j < p.next → c.routable pk[j].dst = true → ∃ e ∈ p.ents, j ∈ e.idxs) ∧
    (p.ents = [] → entry < c.n → iovIdx < c.n → p.next = pk.length) := by
  fun_induction pack c gso pk i entry iovIdx ctl with
  | case1 i entry iovIdx ctl h budget hb =>
    refine ⟨fun j hj h1 h2 => by simp only at h2; omega, fun _ _ h3 => ?_⟩
    exfalso; simp only [budget] at hb; omega
  | case2 i entry iovIdx ctl h budget hb pr hr =>
    refine ⟨fun j hj h1 h2 => by simp only at h2; omega, fun _ _ _ => ?_⟩
    exfalso
    have := (planRun_spec gso c.maxSeg pk i budget h.2 (by omega)).1.1
    simp only at this
    rw [show planRun gso c.maxSeg pk i budget = pr from rfl] at this
    omega
  | case3 i entry iovIdx ctl h budget hb pr hr hroute r ih =>
    have hps := (planRun_spec gso c.maxSeg pk i budget h.2 (by omega)).1
    rw [show planRun gso c.maxSeg pk i budget = pr from rfl] at hps
    have ih := ih hps.2.1
    rw [show pack c gso pk (i + pr.1) (entry + 1) (iovIdx + pr.1) (writeEntryCmsg ctl entry pr.1 pr.2) = r from rfl] at ih
    refine ⟨fun j hj h1 h2 hr' => ?_, fun h0 => by simp at h0⟩
    simp only at h2
    by_cases hlt : j < i + pr.1
    · exact ⟨_, List.mem_cons_self, by rw [mem_idxs]; exact ⟨h1, hlt⟩⟩
    · obtain ⟨e, he, hje⟩ := ih.1 j hj (by omega) h2 hr'
      exact ⟨e, List.mem_cons_of_mem _ he, hje⟩
  | case4 i entry iovIdx ctl h budget hb pr hr hroute ih =>
    have hps := (planRun_spec gso c.maxSeg pk i budget h.2 (by omega)).1
    rw [show planRun gso c.maxSeg pk i budget = pr from rfl] at hps
    have ih := ih hps.2.1
    refine ⟨fun j hj h1 h2 hr' => ?_, ih.2⟩
    by_cases hlt : j < i + pr.1
    · exfalso
      have := runShape_dst c.maxSeg pk _ hps j h1 hlt hj h.2
      simp only at this
      rw [this] at hr'
      exact hroute hr'
    · exact ih.1 j hj (by omega) h2 hr'
  | case5 i entry iovIdx ctl h =>
    refine ⟨fun j hj h1 h2 => by simp only at h2; omega, fun _ h2 h3 => ?_⟩
    simp only; omega

/-- a call whose first remaining entry the kernel rejected (nothing sent, an errno reported) -/
def Rej (c : Call) : Prop := c.out.sent ≤ 0 ∧ c.out.err ≠ .none

/-- an entry is accounted for by a trace: the kernel accepted it, or rejected it with an errno -/
def CovE (calls : List Call) (e : Entry) : Prop :=
  e ∈ accepted calls ∨ ∃ c ∈ calls, Rej c ∧ c.ents.head? = some e

theorem CovE_cons (c : Call) (calls : List Call) (e : Entry) (h : CovE calls e) : CovE (c :: calls) e := by
  rcases h with h | ⟨x, hx, h⟩
  · left; rw [accepted_cons]; exact List.mem_append_right _ h
  · right; exact ⟨x, List.mem_cons_of_mem _ hx, h⟩

theorem CovE_append_left (a b : List Call) (e : Entry) (h : CovE a e) : CovE (a ++ b) e := by
  rcases h with h | ⟨x, hx, h⟩
  · left; rw [accepted_append]; exact List.mem_append_left _ h
  · right; exact ⟨x, List.mem_append_left _ hx, h⟩

theorem CovE_append_right (a b : List Call) (e : Entry) (h : CovE b e) : CovE (a ++ b) e := by
  rcases h with h | ⟨x, hx, h⟩
  · left; rw [accepted_append]; exact List.mem_append_right _ h
  · right; exact ⟨x, List.mem_append_right _ hx, h⟩

theorem drain_cover (kern : Nat → Nat → Outcome) (hk : KernOK kern) (gso : Bool) (chunk : List Entry) (ctl : Ctl)
    (done k : Nat) (hd : done ≤ chunk.length) :
    let d := drain kern gso chunk ctl done k
    ∃ lim, done ≤ lim ∧ lim ≤ chunk.length ∧
      (∀ m (h : m < chunk.length), done ≤ m → m < lim → CovE d.calls chunk[m]) ∧
      (d.stop = .finished → lim = chunk.length) ∧
      (∀ i, d.stop = .replay i → ∃ h : lim < chunk.length, i = chunk[lim].start) ∧
      (d.stop = .noProgress → ∃ h : lim < chunk.length, ∃ init last, d.calls = init ++ [last] ∧
          last.ents.head? = some chunk[lim]) := by
  fun_induction drain kern gso chunk ctl done k with
  | case1 done k h n o call hpos hover =>
    exfalso; have := hk k n; simp only [o, n] at *; omega
  | case2 done k h n o call hpos hover s r ih =>
    have hs1 : 1 ≤ s := by simp only [s]; omega
    have hsn : done + s ≤ chunk.length := by simp only [s, n] at *; omega
    have ih := ih hsn
    rw [show drain kern gso chunk ctl (done + s) (k + 1) = r from rfl] at ih
    obtain ⟨lim, l1, l2, l3, l4, l5, l6⟩ := ih
    have hacc : call.accepted = (chunk.drop done).take s := by
      simp only [Call.accepted, call]; rw [if_pos hpos]
    refine ⟨lim, by omega, l2, ?_, l4, l5, ?_⟩
    · intro m hm h1 h2
      by_cases hlt : m < done + s
      · left
        rw [accepted_cons, hacc]
        apply List.mem_append_left
        rw [List.mem_iff_getElem]
        refine ⟨m - done, by simp; omega, ?_⟩
        simp only [List.getElem_take, List.getElem_drop]
        congr 1; omega
      · exact CovE_cons _ _ _ (l3 m hm (by omega) h2)
    · intro hst
      obtain ⟨hl, init, last, h1, h2⟩ := l6 hst
      exact ⟨hl, call :: init, last, by simp [h1], h2⟩
  | case3 done k h n o call hpos herr =>
    refine ⟨done, Nat.le_refl _, by omega, fun m hm h1 h2 => by omega, by simp, by simp, fun _ => ?_⟩
    refine ⟨h, [], call, by simp, ?_⟩
    simp only [call]; rw [List.drop_eq_getElem_cons h]; rfl
  | case4 done k h n o call hpos herr hrep =>
    refine ⟨done, Nat.le_refl _, by omega, fun m hm h1 h2 => by omega, by simp, ?_, by simp⟩
    intro i hi
    simp only [Stop.replay.injEq] at hi
    exact ⟨h, hi.symm⟩
  | case5 done k h n o call hpos herr hrep r ih =>
    have ih := ih (by omega)
    rw [show drain kern gso chunk ctl (done + 1) (k + 1) = r from rfl] at ih
    obtain ⟨lim, l1, l2, l3, l4, l5, l6⟩ := ih
    refine ⟨lim, by omega, l2, ?_, l4, l5, ?_⟩
    · intro m hm h1 h2
      by_cases heq : m = done
      · subst heq
        right
        refine ⟨call, List.mem_cons_self, ⟨by simp only [call]; omega, by simp only [call]; exact herr⟩, ?_⟩
        simp only [call]; rw [List.drop_eq_getElem_cons h]; rfl
      · exact CovE_cons _ _ _ (l3 m hm (by omega) h2)
    · intro hst
      obtain ⟨hl, init, last, h1, h2⟩ := l6 hst
      exact ⟨hl, call :: init, last, by simp [h1], h2⟩
  | case6 done k h =>
    refine ⟨done, Nat.le_refl _, hd, fun m hm h1 h2 => by omega, fun _ => by omega, by simp, by simp⟩

/-- a packet index is accounted for by a trace: it is in an accepted entry, or in the first entry of a call
the kernel rejected with an errno -/
def CovI (calls : List Call) (j : Nat) : Prop :=
  j ∈ sentIdxs calls ∨ ∃ c ∈ calls, Rej c ∧ ∃ e, c.ents.head? = some e ∧ j ∈ e.idxs

theorem CovI_of_CovE (calls : List Call) (e : Entry) (j : Nat) (h : CovE calls e) (hj : j ∈ e.idxs) : CovI calls j := by
  rcases h with h | ⟨x, hx, hr, hh⟩
  · left; simp only [sentIdxs, List.mem_flatMap]; exact ⟨e, h, hj⟩
  · right; exact ⟨x, hx, hr, e, hh, hj⟩

theorem CovI_append_left (a b : List Call) (j : Nat) (h : CovI a j) : CovI (a ++ b) j := by
  rcases h with h | ⟨x, hx, h⟩
  · left; simp only [sentIdxs, accepted_append, List.flatMap_append] at *; exact List.mem_append_left _ h
  · right; exact ⟨x, List.mem_append_left _ hx, h⟩

theorem CovI_append_right (a b : List Call) (j : Nat) (h : CovI b j) : CovI (a ++ b) j := by
  rcases h with h | ⟨x, hx, h⟩
  · left; simp only [sentIdxs, accepted_append, List.flatMap_append] at *; exact List.mem_append_right _ h
  · right; exact ⟨x, List.mem_append_right _ hx, h⟩

/-- in an ordered chunk, an index below the start of entry `lim` belongs to an earlier entry -/
theorem chunk_before (chunk : List Entry) (hp : chunk.Pairwise Before) (m lim : Nat) (hm : m < chunk.length)
    (hl : lim < chunk.length) (j : Nat) (hj : j ∈ (chunk[m]).idxs) (hlt : j < (chunk[lim]).start) : m < lim := by
  rw [mem_idxs] at hj
  rcases Nat.lt_trichotomy m lim with h | h | h
  · exact h
  · subst h; omega
  · have := (List.pairwise_iff_getElem.mp hp) lim m hl hm h
    simp only [Before] at this; omega

theorem run_cover (c : Cfg δ) (kern : Nat → Nat → Outcome) (hk : KernOK kern) (hn : 0 < c.n)
    (pk : List (Pkt δ)) (gso : Bool) (i k : Nat) (ctl : Ctl) (hi : i ≤ pk.length) :
    let r := run c kern pk gso i k ctl
    (r.err = false → ∀ j (hj : j < pk.length), i ≤ j → c.routable pk[j].dst = true → CovI r.calls j) ∧
    (r.err = true → ∃ init last e, r.calls = init ++ [last] ∧ last.ents.head? = some e ∧
      ∀ j (hj : j < pk.length), i ≤ j → j < e.start → c.routable pk[j].dst = true → CovI r.calls j) := by
  fun_induction run c kern pk gso i k ctl with
  | case1 gso i k ctl h p hp =>
    have pc := pack_cover c gso pk i 0 0 ctl hi
    rw [show pack c gso pk i 0 0 ctl = p from rfl] at pc
    refine ⟨fun _ j hj h1 hr => ?_, by simp⟩
    exfalso
    have hnext := pc.2 hp hn hn
    obtain ⟨e, he, _⟩ := pc.1 j hj h1 (by omega) hr
    rw [hp] at he; cases he
  | case2 gso i k ctl h p hp d hd r ih =>
    have pc := pack_cover c gso pk i 0 0 ctl hi
    have ps := pack_spec c gso pk i 0 0 ctl hi
    simp only at ps
    rw [show pack c gso pk i 0 0 ctl = p from rfl] at pc ps
    have dc := drain_cover kern hk gso p.ents p.ctl 0 k (Nat.zero_le _)
    simp only at dc
    rw [show drain kern gso p.ents p.ctl 0 k = d from rfl] at dc
    obtain ⟨lim, _, _, d3, d4, _, _⟩ := dc
    have hlim := d4 hd
    have ih := ih ps.2.1
    rw [show run c kern pk gso p.next (k + d.calls.length) p.ctl = r from rfl] at ih
    -- indices of this chunk
    have hchunk : ∀ j (hj : j < pk.length), i ≤ j → j < p.next → c.routable pk[j].dst = true → CovI (d.calls ++ r.calls) j := by
      intro j hj h1 h2 hr
      obtain ⟨e, he, hje⟩ := pc.1 j hj h1 h2 hr
      obtain ⟨m, hm, rfl⟩ := List.mem_iff_getElem.mp he
      exact CovI_append_left _ _ _ (CovI_of_CovE _ _ _ (d3 m hm (Nat.zero_le _) (by omega)) hje)
    refine ⟨fun he j hj h1 hr => ?_, fun he => ?_⟩
    · by_cases hlt : j < p.next
      · exact hchunk j hj h1 hlt hr
      · exact CovI_append_right _ _ _ (ih.1 he j hj (by omega) hr)
    · obtain ⟨init, last, e, h1, h2, h3⟩ := ih.2 he
      refine ⟨d.calls ++ init, last, e, by simp [h1], h2, fun j hj hij hje hr => ?_⟩
      by_cases hlt : j < p.next
      · exact hchunk j hj hij hlt hr
      · exact CovI_append_right _ _ _ (h3 j hj (by omega) hje hr)
  | case3 gso i k ctl h p hp d i' hd r ih =>
    have pc := pack_cover c gso pk i 0 0 ctl hi
    have ps := pack_spec c gso pk i 0 0 ctl hi
    simp only at ps
    rw [show pack c gso pk i 0 0 ctl = p from rfl] at pc ps
    obtain ⟨p1, p2, p3, p4, p5⟩ := ps
    have dc := drain_cover kern hk gso p.ents p.ctl 0 k (Nat.zero_le _)
    simp only at dc
    rw [show drain kern gso p.ents p.ctl 0 k = d from rfl] at dc
    obtain ⟨lim, _, _, d3, _, d5, _⟩ := dc
    obtain ⟨hl, hi'⟩ := d5 i' hd
    have gj := p3 p.ents[lim] (List.getElem_mem hl)
    have hle : i' ≤ pk.length := by rw [hi']; have := gj.2.1; have := gj.2.2.1.1; omega
    have hnx : i' < p.next := by rw [hi']; have := gj.2.1; have := gj.2.2.1.1; omega
    have ih := ih hle
    rw [show run c kern pk false i' (k + d.calls.length) p.ctl = r from rfl] at ih
    have hchunk : ∀ j (hj : j < pk.length), i ≤ j → j < i' → c.routable pk[j].dst = true → CovI (d.calls ++ r.calls) j := by
      intro j hj h1 h2 hr
      obtain ⟨e, he, hje⟩ := pc.1 j hj h1 (by omega) hr
      obtain ⟨m, hm, rfl⟩ := List.mem_iff_getElem.mp he
      have hml := chunk_before p.ents p4 m lim hm hl j hje (by rw [← hi']; exact h2)
      exact CovI_append_left _ _ _ (CovI_of_CovE _ _ _ (d3 m hm (Nat.zero_le _) hml) hje)
    refine ⟨fun he j hj h1 hr => ?_, fun he => ?_⟩
    · by_cases hlt : j < i'
      · exact hchunk j hj h1 hlt hr
      · exact CovI_append_right _ _ _ (ih.1 he j hj (by omega) hr)
    · obtain ⟨init, last, e, h1, h2, h3⟩ := ih.2 he
      refine ⟨d.calls ++ init, last, e, by simp [h1], h2, fun j hj hij hje hr => ?_⟩
      by_cases hlt : j < i'
      · exact hchunk j hj hij hlt hr
      · exact CovI_append_right _ _ _ (h3 j hj (by omega) hje hr)
  | case4 gso i k ctl h p hp d hd =>
    have pc := pack_cover c gso pk i 0 0 ctl hi
    have ps := pack_spec c gso pk i 0 0 ctl hi
    simp only at ps
    rw [show pack c gso pk i 0 0 ctl = p from rfl] at pc ps
    obtain ⟨p1, p2, p3, p4, p5⟩ := ps
    have dc := drain_cover kern hk gso p.ents p.ctl 0 k (Nat.zero_le _)
    simp only at dc
    rw [show drain kern gso p.ents p.ctl 0 k = d from rfl] at dc
    obtain ⟨lim, _, _, d3, _, _, d6⟩ := dc
    obtain ⟨hl, init, last, h1, h2⟩ := d6 hd
    have gj := p3 p.ents[lim] (List.getElem_mem hl)
    refine ⟨by simp, fun _ => ⟨init, last, p.ents[lim], h1, h2, fun j hj hij hje hr => ?_⟩⟩
    obtain ⟨e, he, hje'⟩ := pc.1 j hj hij (by have := gj.2.1; have := gj.2.2.1.1; omega) hr
    obtain ⟨m, hm, rfl⟩ := List.mem_iff_getElem.mp he
    have hml := chunk_before p.ents p4 m lim hm hl j hje' hje
    exact CovI_of_CovE _ _ _ (d3 m hm (Nat.zero_le _) hml) hje'
  | case5 gso i k ctl h p hp d hd =>
    exfalso
    have ds := drain_spec kern hk gso p.ents p.ctl 0 k
    simp only at ds
    rw [show drain kern gso p.ents p.ctl 0 k = d from rfl] at ds
    exact ds.1 hd
  | case6 gso i k ctl h =>
    exact ⟨fun _ j hj h1 => by omega, by simp⟩
end Nebula.Lemmas.Writebatch
