/-
C23, ordering clause: spec-level flows (`KernelGSO.flowOf`) versus the coalescers' flow keys.
-/
import Nebula.Lemmas.CoalesceMulti

namespace Nebula.Lemmas.Coalesce
open Nebula.Coalesce Nebula.Gen
open Nebula.Spec
open Nebula.Spec.KernelGSO (trim classify flowOf pureAck Flow ppConsistent)

/-- "packet `p` belongs to flow `f` and is not a pure TCP ACK" — the packets whose relative order the
property fixes. -/
def qf (f : Flow) (p : Bytes) : Bool := flowOf p == some f && !pureAck p

/-- the spec-level flow a coalescer key stands for -/
def keyFlow (tcp : Bool) (fk : FlowKey) : Flow :=
  { isV6 := fk.isV6
    src := if fk.isV6 then fk.src else fk.src.take 4
    dst := if fk.isV6 then fk.dst else fk.dst.take 4
    proto := if tcp then 6 else 17
    sport := fk.sport, dport := fk.dport }

/-- IPv4 keys carry their 4 address bytes followed by 12 zero bytes (the `fk must be zero on entry`
convention of `parseIPAt`). -/
def WFKey (fk : FlowKey) : Prop :=
  fk.isV6 = false → fk.src = fk.src.take 4 ++ List.replicate 12 0 ∧ fk.dst = fk.dst.take 4 ++ List.replicate 12 0

theorem keyFlow_inj {tcp : Bool} {a b : FlowKey} (ha : WFKey a) (hb : WFKey b)
    (h : keyFlow tcp a = keyFlow tcp b) : a = b := by
  simp only [keyFlow, Flow.mk.injEq] at h
  obtain ⟨h6, hs, hd, _, hsp, hdp⟩ := h
  cases a with
  | mk asrc adst asp adp a6 =>
  cases b with
  | mk bsrc bdst bsp bdp b6 =>
  simp only at h6 hs hd hsp hdp ha hb ⊢
  subst h6 hsp hdp
  cases a6 with
  | true =>
    simp only [↓reduceIte] at hs hd
    subst hs hd; rfl
  | false =>
    simp only [Bool.false_eq_true, ↓reduceIte] at hs hd
    have ha' := ha rfl; have hb' := hb rfl
    simp only at ha' hb'
    have e1 : asrc = bsrc := by rw [ha'.1, hb'.1, hs]
    have e2 : adst = bdst := by rw [ha'.2, hb'.2, hd]
    subst e1 e2; rfl

/-- the flow-key fields `parseAt` fills in -/
structure KeyFacts (pkt : Bytes) (iphl : Nat) (fk : FlowKey) : Prop where
  src : fk.src = if fk.isV6 then slice pkt 8 24 else slice pkt 12 16 ++ List.replicate 12 0
  dst : fk.dst = if fk.isV6 then slice pkt 24 40 else slice pkt 16 20 ++ List.replicate 12 0
  sport : fk.sport = u16At pkt iphl
  dport : fk.dport = u16At pkt (iphl + 2)

theorem parseIPAt_key {pkt : Bytes} {iphl : Nat} {ip : IPParse} (h : parseIPAt pkt iphl = some ip) :
    ip.src = (if ip.isV6 then slice pkt 8 24 else slice pkt 12 16 ++ List.replicate 12 0) ∧
    ip.dst = (if ip.isV6 then slice pkt 24 40 else slice pkt 16 20 ++ List.replicate 12 0) := by
  unfold parseIPAt at h
  by_cases h20 : pkt.length < 20
  · simp [h20] at h
  · simp only [h20, ↓reduceIte] at h
    by_cases hv4 : byteAt pkt 0 / 16 = 4
    · simp only [hv4, ↓reduceIte] at h
      by_cases hi : iphl ≠ 20
      · simp [hi] at h
      · simp only [hi, ↓reduceIte] at h
        unfold parseIPv4Prologue at h
        simp only at h
        split at h
        · cases h
        · split at h
          · cases h
          · split at h
            · cases h
            · cases h; simp
    · simp only [hv4, ↓reduceIte] at h
      by_cases hv6 : byteAt pkt 0 / 16 = 6
      · simp only [hv6, ↓reduceIte] at h
        by_cases hi : iphl ≠ 40 ∨ pkt.length < 40
        · simp [hi] at h
        · simp only [hi, ↓reduceIte] at h
          unfold parseIPv6Prologue at h
          simp only at h
          split at h
          · cases h
          · cases h; simp
      · simp [hv6] at h

theorem parseAt_key {tcp : Bool} {pkt : Bytes} {iphl : Nat} {info : Parsed}
    (h : parseAt tcp pkt iphl = some info) : KeyFacts pkt iphl info.fk := by
  unfold parseAt at h
  cases hip : parseIPAt pkt iphl with
  | none => simp [hip] at h
  | some ip =>
    have F := parseIPAt_facts hip
    have K := parseIPAt_key hip
    simp only [hip] at h
    cases tcp with
    | true =>
      simp only [↓reduceIte] at h
      unfold parseTailTCP at h
      simp only at h
      split at h
      · cases h
      · split at h
        · cases h
        · split at h
          · cases h
          · rename_i h1 h2 h3
            cases h
            refine ⟨K.1, K.2, ?_, ?_⟩
            · simp only; rw [F.take]; exact u16At_take _ _ _ (by omega)
            · simp only; rw [F.take]; exact u16At_take _ _ _ (by omega)
    | false =>
      simp only [Bool.false_eq_true, ↓reduceIte] at h
      unfold parseTailUDP at h
      simp only at h
      split at h
      · cases h
      · split at h
        · cases h
        · rename_i h1 h2
          cases h
          refine ⟨K.1, K.2, ?_, ?_⟩
          · simp only; rw [F.take]; exact u16At_take _ _ _ (by omega)
          · simp only; rw [F.take]; exact u16At_take _ _ _ (by omega)

theorem wfKey_of_parse {tcp : Bool} {pkt : Bytes} {iphl : Nat} {info : Parsed}
    (h : parseAt tcp pkt iphl = some info) : WFKey info.fk := by
  have K := parseAt_key h
  have P := parseAt_facts h
  intro h6
  have hl : 20 ≤ pkt.length := by
    have := P.le; have := P.hl; have := P.udp; have := P.tcpF
    cases tcp <;> simp_all <;> omega
  have l1 : (slice pkt 12 16).length = 4 := by rw [slice_length]; omega
  have l2 : (slice pkt 16 20).length = 4 := by rw [slice_length]; omega
  have hs := K.src; have hd := K.dst
  simp only [h6, Bool.false_eq_true, ↓reduceIte] at hs hd
  constructor
  · rw [hs, List.take_left' l1]
  · rw [hd, List.take_left' l2]

/-- a parsed packet of the lane's protocol belongs to the spec flow of its key -/
theorem flowOf_parsed {tcp : Bool} {p : Bytes} {iphl : Nat} {info : Parsed}
    (h : parseAt tcp p iphl = some info)
    (hproto : byteAt p (if info.fk.isV6 then 6 else 9) = if tcp then 6 else 17) :
    flowOf p = some (keyFlow tcp info.fk) := by
  have P := parseAt_facts h
  have K := parseAt_key h
  have hle := P.le
  have hmin : iphl + (if tcp then 20 else 8) ≤ info.hdrLen := by
    cases tcp with
    | true => have := P.tcpF rfl; simp only [↓reduceIte]; omega
    | false => have := P.udp rfl; simp only [Bool.false_eq_true, ↓reduceIte]; omega
  have hN : (p.take (info.hdrLen + info.payLen)).length = info.hdrLen + info.payLen := by simp; omega
  have bt : ∀ k, k < info.hdrLen + info.payLen → byteAt (p.take (info.hdrLen + info.payLen)) k = byteAt p k :=
    fun k hk => byteAt_take _ _ _ hk
  have ut : ∀ k, k + 1 < info.hdrLen + info.payLen → u16At (p.take (info.hdrLen + info.payLen)) k = u16At p k :=
    fun k hk => u16At_take _ _ _ hk
  unfold flowOf
  simp only [P.trim]
  cases h6 : info.fk.isV6 with
  | false =>
    have hl : iphl = 20 := by have := P.hl; simpa [h6] using this
    subst hl
    obtain ⟨b0, fr, _⟩ := P.v4 h6
    simp only [h6, Bool.false_eq_true, ↓reduceIte] at hproto
    have hlen28 : 28 ≤ info.hdrLen + info.payLen := by cases tcp <;> simp at hmin <;> omega
    have hcls : classify (p.take (info.hdrLen + info.payLen)) = some (false, 20, tcp) := by
      unfold classify
      rw [hN]
      simp only [get_eq, be16_eq, bt 0 (by omega), ut 6 (by omega), bt 9 (by omega), b0, fr, hproto]
      cases tcp <;> simp at hmin ⊢ <;> omega
    simp only [hcls, Bool.false_eq_true, ↓reduceIte, keyFlow, h6, be16_eq]
    have hs := K.src; have hd := K.dst
    simp only [h6, Bool.false_eq_true, ↓reduceIte] at hs hd
    have l1 : (slice p 12 16).length = 4 := by rw [slice_length]; omega
    have l2 : (slice p 16 20).length = 4 := by rw [slice_length]; omega
    rw [hs, hd, List.take_left' l1, List.take_left' l2, K.sport, K.dport, ut 20 (by omega), ut 22 (by omega)]
    simp only [slice, List.take_take]
    have m1 : min 16 (info.hdrLen + info.payLen) = 16 := by omega
    have m2 : min 20 (info.hdrLen + info.payLen) = 20 := by omega
    rw [m1, m2]
  | true =>
    have hl : iphl = 40 := by have := P.hl; simpa [h6] using this
    subst hl
    obtain ⟨b0, _⟩ := P.v6 h6
    simp only [h6, ↓reduceIte] at hproto
    have hlen48 : 48 ≤ info.hdrLen + info.payLen := by cases tcp <;> simp at hmin <;> omega
    have hcls : classify (p.take (info.hdrLen + info.payLen)) = some (true, 40, tcp) := by
      unfold classify
      rw [hN]
      have h45 : ¬ byteAt p 0 = 69 := by omega
      simp only [get_eq, bt 0 (by omega), bt 6 (by omega), b0, h45, hproto]
      cases tcp <;> simp at hmin ⊢ <;> omega
    simp only [hcls, ↓reduceIte, keyFlow, h6, be16_eq]
    have hs := K.src; have hd := K.dst
    simp only [h6, ↓reduceIte] at hs hd
    rw [hs, hd, K.sport, K.dport, ut 40 (by omega), ut 42 (by omega)]
    simp only [slice, List.take_take]
    have m1 : min 24 (info.hdrLen + info.payLen) = 24 := by omega
    have m2 : min 40 (info.hdrLen + info.payLen) = 40 := by omega
    rw [m1, m2]

theorem byteAt_trim (p : Bytes) (k : Nat) (hk : k < 20) : byteAt (trim p) k = byteAt p k := by
  unfold trim
  simp only [be16_eq]
  by_cases h20 : p.length < 20
  · simp [h20]
  · simp only [h20, ↓reduceIte]
    by_cases h4 : KernelGSO.get p 0 / 16 = 4
    · simp only [h4, ↓reduceIte]
      by_cases hc : 20 ≤ u16At p 2 ∧ u16At p 2 ≤ p.length
      · simp only [hc, and_self, ↓reduceIte]; exact byteAt_take _ _ _ (by omega)
      · simp only [hc, ↓reduceIte]
    · simp only [h4, ↓reduceIte]
      by_cases h6 : KernelGSO.get p 0 / 16 = 6
      · simp only [h6, ↓reduceIte]
        by_cases hc : 40 ≤ p.length ∧ 40 + u16At p 4 ≤ p.length
        · simp only [hc, and_self, ↓reduceIte]; exact byteAt_take _ _ _ (by omega)
        · simp only [hc, ↓reduceIte]
      · simp only [h6, ↓reduceIte]

/-- a packet with a spec-level flow is dispatched by its flow's protocol -/
theorem proto_of_flow {f : Flow} {p : Bytes} {proto iphl : Nat} {frag : Bool}
    (hf : flowOf p = some f) (hc : ppConsistent p proto iphl frag = true) : proto = f.proto := by
  unfold flowOf at hf
  simp only at hf
  cases hcl : classify (trim p) with
  | none => simp [hcl] at hf
  | some c =>
    obtain ⟨v6, l4, tcp'⟩ := c
    simp only [hcl, Option.some.injEq] at hf
    have hfp : f.proto = if tcp' then 6 else 17 := by rw [← hf]
    rw [hfp]
    unfold classify at hcl
    simp only [get_eq, be16_eq, byteAt_trim p 0 (by omega), byteAt_trim p 9 (by omega), byteAt_trim p 6 (by omega)] at hcl
    unfold ppConsistent at hc
    simp only [get_eq, be16_eq] at hc
    split at hcl
    · cases hcl
    · split at hcl
      · rename_i h45
        have h4 : byteAt p 0 / 16 = 4 := by rw [h45]
        simp only [h4, ↓reduceIte, Bool.and_eq_true, decide_eq_true_eq] at hc
        split at hcl
        · cases hcl
        · split at hcl
          · rename_i h9
            simp only [Option.some.injEq, Prod.mk.injEq] at hcl
            rw [← hcl.2.2, of_decide_eq_true hc.1.1, h9.1]; rfl
          · split at hcl
            · rename_i h9
              simp only [Option.some.injEq, Prod.mk.injEq] at hcl
              rw [← hcl.2.2, of_decide_eq_true hc.1.1, h9.1]; rfl
            · cases hcl
      · split at hcl
        · rename_i h45 h6
          have h4 : ¬ byteAt p 0 / 16 = 4 := by omega
          simp only [h4, h6, ↓reduceIte] at hc
          split at hcl
          · rename_i h9
            simp only [Option.some.injEq, Prod.mk.injEq] at hcl
            simp [h9.1] at hc
            rw [← hcl.2.2, hc.1.1.1]; rfl
          · split at hcl
            · rename_i h9
              simp only [Option.some.injEq, Prod.mk.injEq] at hcl
              simp [h9.1] at hc
              rw [← hcl.2.2, hc.1.1.1]; rfl
            · cases hcl
        · cases hcl

theorem classify_parsed {tcp : Bool} {p : Bytes} {iphl : Nat} {info : Parsed}
    (h : parseAt tcp p iphl = some info)
    (hproto : byteAt p (if info.fk.isV6 then 6 else 9) = if tcp then 6 else 17) :
    classify (trim p) = some (info.fk.isV6, iphl, tcp) := by
  have P := parseAt_facts h
  have hle := P.le
  have hmin : iphl + (if tcp then 20 else 8) ≤ info.hdrLen := by
    cases tcp with
    | true => have := P.tcpF rfl; simp only [↓reduceIte]; omega
    | false => have := P.udp rfl; simp only [Bool.false_eq_true, ↓reduceIte]; omega
  have hN : (p.take (info.hdrLen + info.payLen)).length = info.hdrLen + info.payLen := by simp; omega
  have bt : ∀ k, k < info.hdrLen + info.payLen → byteAt (p.take (info.hdrLen + info.payLen)) k = byteAt p k :=
    fun k hk => byteAt_take _ _ _ hk
  have ut : ∀ k, k + 1 < info.hdrLen + info.payLen → u16At (p.take (info.hdrLen + info.payLen)) k = u16At p k :=
    fun k hk => u16At_take _ _ _ hk
  rw [P.trim]
  cases h6 : info.fk.isV6 with
  | false =>
    have hl : iphl = 20 := by have := P.hl; simpa [h6] using this
    subst hl
    obtain ⟨b0, fr, _⟩ := P.v4 h6
    simp only [h6, Bool.false_eq_true, ↓reduceIte] at hproto
    unfold classify
    rw [hN]
    simp only [get_eq, be16_eq, bt 0 (by cases tcp <;> simp at hmin <;> omega),
      ut 6 (by cases tcp <;> simp at hmin <;> omega), bt 9 (by cases tcp <;> simp at hmin <;> omega), b0, fr, hproto]
    cases tcp <;> simp at hmin ⊢ <;> omega
  | true =>
    have hl : iphl = 40 := by have := P.hl; simpa [h6] using this
    subst hl
    obtain ⟨b0, _⟩ := P.v6 h6
    simp only [h6, ↓reduceIte] at hproto
    unfold classify
    rw [hN]
    have h45 : ¬ byteAt p 0 = 69 := by omega
    simp only [get_eq, bt 0 (by cases tcp <;> simp at hmin <;> omega), bt 6 (by cases tcp <;> simp at hmin <;> omega),
      b0, h45, hproto]
    cases tcp <;> simp at hmin ⊢ <;> omega

/-- the model's "pure ACK" (admissible flags, no payload) is the spec's -/
theorem pureAck_parsed {p : Bytes} {iphl : Nat} {info : Parsed}
    (h : parseAt true p iphl = some info)
    (hproto : byteAt p (if info.fk.isV6 then 6 else 9) = 6)
    (hz : info.payLen = 0) (hack : hasAck info.flags = true) (hoth : hasOther info.flags = false) :
    pureAck p = true := by
  have P := parseAt_facts h
  have hcls := classify_parsed h (by simpa using hproto)
  obtain ⟨hL, h20, _, hfl⟩ := P.tcpF rfl
  have hle := P.le
  unfold pureAck
  simp only [hcls]
  rw [P.trim, hz, Nat.add_zero]
  have hN : (p.take info.hdrLen).length = info.hdrLen := by simp; omega
  rw [hN]
  simp only [get_eq, byteAt_take _ _ _ (show iphl + 12 < info.hdrLen by omega),
    byteAt_take _ _ _ (show iphl + 13 < info.hdrLen by omega), ← hfl]
  rw [hasAck_iff] at hack
  rw [hasOther_false] at hoth
  simp only [Bool.and_eq_true, decide_eq_true_eq]
  refine ⟨⟨⟨⟨⟨h20, by omega⟩, hack⟩, hoth.1⟩, hoth.2.1⟩, hoth.2.2⟩

end Nebula.Lemmas.Coalesce
