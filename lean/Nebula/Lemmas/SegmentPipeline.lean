/-
`readAndSegment` (= `Offload.decodeRead` + `SegmentSuperpacket`) never panics and never leaves the
functional model's domain (C24): every slice / index expression is covered by the guards of
`CheckValid` and `CorrectHdrLen`.
-/
import Nebula.Lemmas.SegmentInv

namespace Nebula.Lemmas.SegmentPipeline
open Nebula.Csum Nebula.Segment Nebula.Gen Nebula.Lemmas.SegmentRun Nebula.Lemmas.SegmentInv

/-- the two results that must never occur. -/
def Bad (e : Err) : Prop := e = .panic ∨ e = .precond

theorem bind_err {α β : Type} (x : R α) (f : α → R β) (e : Err) :
    (x >>= f) = .error e ↔ x = .error e ∨ ∃ a, x = .ok a ∧ f a = .error e := by
  cases x <;> simp [bind, Except.bind]

theorem failIf_err (c : Prop) [Decidable c] (e' e : Err) : failIf c e' = .error e ↔ c ∧ e' = e := by
  unfold failIf; split <;> simp_all [throw, throwThe, MonadExceptOf.throw, pure, Except.pure]

theorem pure_err {α : Type} (a : α) (e : Err) : (pure a : R α) = .error e ↔ False := by
  simp [pure, Except.pure]

theorem rd_err {p : List UInt8} {i : Nat} {e : Err} (h : rd p i = .error e) : p.length ≤ i := by
  unfold rd at h
  split at h
  · simp [pure, Except.pure] at h
  · next hn => exact List.getElem?_eq_none_iff.mp hn

theorem slice_err {p : List UInt8} {a b : Nat} {e : Err} (h : slice p a b = .error e) :
    ¬ (a ≤ b ∧ b ≤ p.length) := by
  unfold slice at h
  split at h
  · simp [pure, Except.pure] at h
  · assumption

theorem rd16_err {p : List UInt8} {off : Nat} {e : Err} (h : rd16 p off = .error e) : p.length < off + 2 := by
  unfold rd16 at h
  split at h
  · simp [pure, Except.pure] at h
  · omega

theorem rd32_err {p : List UInt8} {off : Nat} {e : Err} (h : rd32 p off = .error e) : p.length < off + 4 := by
  unfold rd32 at h
  split at h
  · simp [pure, Except.pure] at h
  · omega

theorem basePseudoSum_err {pkt : List UInt8} {isV4 : Bool} {proto : Nat} {e : Err}
    (h : basePseudoSum pkt isV4 proto = .error e) : pkt.length < (if isV4 then 20 else 40) := by
  cases isV4
  · unfold basePseudoSum at h
    simp only [Bool.false_eq_true, if_false, bind_err, pure_err, virtio_ipv6SrcOff, virtio_ipv6AddrsEnd] at h ⊢
    rcases h with h | ⟨_, _, h⟩
    · have := slice_err h; omega
    · exact h.elim
  · unfold basePseudoSum at h
    simp only [if_true, bind_err, pure_err, virtio_ipv4SrcOff, virtio_ipv4AddrsEnd] at h ⊢
    rcases h with h | ⟨_, _, h⟩
    · have := slice_err h; omega
    · exact h.elim

theorem baseIPv4HdrSum_err {pkt : List UInt8} {cs : Nat} {e : Err} (h : baseIPv4HdrSum pkt cs = .error e) :
    e = .ihl ∨ pkt.length < 12 ∨ pkt.length < cs := by
  unfold baseIPv4HdrSum at h
  simp only [bind_err, failIf_err, failIf_ok, pure_err,
    virtio_ipv4TotalLenOff, virtio_ipv4ChecksumOff, virtio_ipv4IDOff] at h
  rcases h with h | ⟨b0, _, h⟩
  · have := rd_err h; omega
  rcases h with h | ⟨_, hn, h⟩
  · exact Or.inl h.2.symm
  simp only [virtio_ipv4HeaderMinLen] at hn
  rcases h with h | ⟨_, _, h⟩
  · have := slice_err h; omega
  rcases h with h | ⟨_, _, h⟩
  · have := rd16_err h; omega
  rcases h with h | ⟨_, _, h⟩
  · have := rd16_err h; omega
  rcases h with h | ⟨_, _, h⟩
  · have := rd16_err h; omega
  · exact h.elim

theorem ipBase_err {pkt : List UInt8} {isV4 : Bool} {cs : Nat} {e : Err} (h : ipBase pkt isV4 cs = .error e) :
    e = .ihl ∨ pkt.length < 12 ∨ pkt.length < cs := by
  unfold ipBase at h
  cases isV4
  · simp only [Bool.false_eq_true, if_false, pure_err] at h
  · simp only [if_true, bind_err, pure_err, virtio_ipv4IDOff] at h
    rcases h with h | ⟨_, _, h⟩
    · have := rd16_err h; omega
    rcases h with h | ⟨_, _, h⟩
    · exact baseIPv4HdrSum_err h
    · exact h.elim

theorem baseTCPHdrSum_err {pkt : List UInt8} {cs hl : Nat} {e : Err} (h : baseTCPHdrSum pkt cs hl = .error e) :
    pkt.length < cs + 18 ∨ hl < cs ∨ pkt.length < hl := by
  unfold baseTCPHdrSum at h
  simp only [bind_err, pure_err, virtio_tcpSeqOff, virtio_tcpFlagsOff, virtio_tcpChecksumOff] at h
  rcases h with h | ⟨_, _, h⟩
  · have := rd32_err h; omega
  rcases h with h | ⟨_, _, h⟩
  · have := rd_err h; omega
  rcases h with h | ⟨_, _, h⟩
  · have := slice_err h; omega
  rcases h with h | ⟨_, _, h⟩
  · have := rd16_err h; omega
  · exact h.elim

/-- Under the guards established by `CheckValid` + `CorrectHdrLen`, `segmentTCP` neither panics nor
leaves the model's domain. -/
theorem segmentTCP_not_bad {pkt : List UInt8} {hdrLen cs g : Nat} {e : Err}
    (h : segmentTCP pkt hdrLen cs g = .error e) (h20 : 20 ≤ pkt.length)
    (hv6 : byteAt pkt 0 / 16 ≠ 4 → 40 ≤ pkt.length) (hcs : cs + 20 ≤ hdrLen) (hle : hdrLen ≤ pkt.length) :
    ¬ Bad e := by
  unfold segmentTCP at h
  simp only [bind_err, failIf_err, pure_err, virtio_tcpDataOffOff, virtio_tcpSeqOff, virtio_tcpFlagsOff,
    virtio_ipv4IDOff] at h
  unfold Bad
  rcases h with h | ⟨_, _, h⟩
  · rw [← h.2]; simp
  rcases h with h | ⟨_, _, h⟩
  · rw [← h.2]; simp
  rcases h with h | ⟨_, _, h⟩
  · rw [← h.2]; simp
  rcases h with h | ⟨b0, hb0, h⟩
  · have := rd_err h; omega
  have hb0v := (rd_ok_val hb0).2
  rcases h with h | ⟨_, _, h⟩
  · have := rd_err h; omega
  rcases h with h | ⟨_, _, h⟩
  · have := rd32_err h; omega
  rcases h with h | ⟨_, _, h⟩
  · have := rd_err h; omega
  rcases h with h | ⟨_, _, h⟩
  · have := basePseudoSum_err h
    by_cases hv : b0 / 16 = 4
    · simp [hv] at this; omega
    · simp [hv] at this; rw [hb0v] at hv; have := hv6 hv; omega
  rcases h with h | ⟨_, _, h⟩
  · have := baseTCPHdrSum_err h; omega
  rcases h with h | ⟨_, _, h⟩
  · rcases ipBase_err h with h | h | h
    · rw [h]; simp
    · omega
    · omega
  rcases h with h | ⟨_, _, h⟩
  · have := slice_err h; omega
  rcases h with h | ⟨_, _, h⟩
  · have := h.1; simp only [virtio_tcpChecksumOff] at this; omega
  · exact h.elim

theorem segmentUDP_not_bad {pkt : List UInt8} {hdrLen cs g : Nat} {e : Err}
    (h : segmentUDP pkt hdrLen cs g = .error e) (h20 : 20 ≤ pkt.length)
    (hv6 : byteAt pkt 0 / 16 ≠ 4 → 40 ≤ pkt.length) (hcs : cs + 8 = hdrLen) (hle : hdrLen ≤ pkt.length) :
    ¬ Bad e := by
  unfold segmentUDP at h
  simp only [bind_err, failIf_err, pure_err, virtio_ipv4IDOff] at h
  unfold Bad
  rcases h with h | ⟨_, _, h⟩
  · rw [← h.2]; simp
  rcases h with h | ⟨_, _, h⟩
  · rw [← h.2]; simp
  rcases h with h | ⟨b0, hb0, h⟩
  · have := rd_err h; omega
  have hb0v := (rd_ok_val hb0).2
  rcases h with h | ⟨_, _, h⟩
  · rw [← h.2]; simp
  rcases h with h | ⟨_, _, h⟩
  · rw [← h.2]; simp
  rcases h with h | ⟨_, _, h⟩
  · have := basePseudoSum_err h
    by_cases hv : b0 / 16 = 4
    · simp [hv] at this; omega
    · simp [hv] at this; rw [hb0v] at hv; have := hv6 hv; omega
  rcases h with h | ⟨_, _, h⟩
  · rcases ipBase_err h with h | h | h
    · rw [h]; simp
    · omega
    · omega
  rcases h with h | ⟨_, _, h⟩
  · have := slice_err h; omega
  · exact h.elim

/-! ### the guards -/

theorem checkValid_err {pkt : List UInt8} {h : Hdr} {e : Err} (he : checkValid pkt h = .error e) : ¬ Bad e := by
  unfold checkValid at he
  simp only [bind_err, failIf_err, failIf_ok, pure_err] at he
  unfold Bad
  rcases he with he | ⟨_, _, he⟩
  · rw [← he.2]; simp
  rcases he with he | ⟨_, hn, he⟩
  · rw [← he.2]; simp
  simp only [virtio_ipv4HeaderMinLen] at hn
  rcases he with he | ⟨_, _, he⟩
  · have := rd_err he; omega
  rcases he with he | ⟨_, _, he⟩
  · rw [← he.2]; simp
  rcases he with he | ⟨_, _, he⟩
  · rw [← he.2]; simp
  rcases he with he | ⟨_, _, he⟩
  · rw [← he.2]; simp
  split at he
  · rw [failIf_err] at he; rw [← he.2]; simp
  · split at he
    · rw [failIf_err] at he; rw [← he.2]; simp
    · rw [failIf_err] at he; rw [← he.2]; simp

theorem checkValid_ok {pkt : List UInt8} {h : Hdr} {u : Unit} (he : checkValid pkt h = .ok u) :
    20 ≤ pkt.length ∧ (byteAt pkt 0 / 16 ≠ 4 → 40 ≤ pkt.length) ∧ (h.gso ≠ GSO_NONE → h.gsoSize ≠ 0) := by
  unfold checkValid at he
  simp only [bind_ok, failIf_ok] at he
  obtain ⟨_, _, _, h20, b0, hb0, _, h6, _, hgz, _, _, hver⟩ := he
  simp only [virtio_ipv4HeaderMinLen, virtio_ipv6FixedLen] at h20 h6
  have hb := (rd_ok_val hb0).2
  have hv : b0 / 16 = 4 ∨ b0 / 16 = 6 := by
    split at hver
    · rw [failIf_ok] at hver; omega
    · split at hver
      · rw [failIf_ok] at hver; omega
      · rw [failIf_ok] at hver; omega
  refine ⟨by omega, ?_, ?_⟩
  · intro hn; rw [← hb] at hn; omega
  · intro hg hs; exact hgz ⟨hg, hs⟩

theorem correctHdrLen_err {pkt : List UInt8} {h : Hdr} {e : Err} (he : correctHdrLen pkt h = .error e) :
    ¬ Bad e := by
  unfold correctHdrLen at he
  unfold Bad
  split at he
  · simp only [bind_err, failIf_err, pure_err] at he
    rcases he with he | ⟨_, _, he⟩
    · exact he.elim
    rcases he with he | ⟨_, _, he⟩
    · rw [← he.2]; simp
    rcases he with he | ⟨_, _, he⟩
    · rw [← he.2]; simp
    rcases he with he | ⟨_, _, he⟩
    · rw [← he.2]; simp
    · exact he.elim
  · simp only [bind_err, failIf_err, failIf_ok, pure_err] at he
    rcases he with he | ⟨_, hn, he⟩
    · rw [← he.2]; simp
    rcases he with he | ⟨_, _, he⟩
    · have := rd_err he; omega
    rcases he with he | ⟨_, _, he⟩
    · rw [← he.2]; simp
    rcases he with he | ⟨_, _, he⟩
    · exact he.elim
    rcases he with he | ⟨_, _, he⟩
    · rw [← he.2]; simp
    rcases he with he | ⟨_, _, he⟩
    · rw [← he.2]; simp
    rcases he with he | ⟨_, _, he⟩
    · rw [← he.2]; simp
    · exact he.elim

theorem correctHdrLen_ok {pkt : List UInt8} {h : Hdr} {hl : Nat} (he : correctHdrLen pkt h = .ok hl) :
    hl ≤ pkt.length ∧ h.csumStart ≤ hl ∧
      (h.gso = GSO_UDP_L4 → hl = (h.csumStart + 8) % 65536) ∧
      (h.gso ≠ GSO_UDP_L4 → ∃ t, 20 ≤ t ∧ t ≤ 60 ∧ hl = (h.csumStart + t) % 65536) := by
  unfold correctHdrLen at he
  split at he
  · next hg =>
    simp only [bind_ok, failIf_ok, pure_ok] at he
    obtain ⟨a, ha, _, h1, _, h2, _, _, h3⟩ := he
    subst h3; subst ha
    exact ⟨by omega, by omega, fun _ => rfl, fun hn => absurd hg hn⟩
  · next hg =>
    simp only [bind_ok, failIf_ok, pure_ok] at he
    obtain ⟨_, _, d, _, _, ht, a, ha, _, h1, _, h2, _, _, h3⟩ := he
    simp only [virtio_tcpHeaderMinLen, virtio_tcpHeaderMaxLen] at ht
    subst h3; subst ha
    exact ⟨by omega, by omega, fun hc => absurd hc hg, fun _ => ⟨d / 16 * 4, by omega, by omega, rfl⟩⟩

theorem finishChecksum_err {seg : List UInt8} {h : Hdr} {e : Err} (he : finishChecksum seg h = .error e) :
    ¬ Bad e := by
  unfold finishChecksum at he
  simp only [bind_err, failIf_err, pure_err] at he
  unfold Bad
  rcases he with he | ⟨_, _, he⟩
  · rw [← he.2]; simp
  · exact he.elim

theorem protoFromGSOType_err {g : Nat} {e : Err} (he : protoFromGSOType g = .error e) : ¬ Bad e := by
  unfold protoFromGSOType at he
  unfold Bad
  split at he
  · simp [pure, Except.pure] at he
  · split at he
    · simp [pure, Except.pure] at he
    · simp [throw, throwThe, MonadExceptOf.throw] at he; rw [← he]; simp

theorem protoFromGSOType_ok {g : Nat} {p : Proto} (he : protoFromGSOType g = .ok p) :
    (p = .udp ↔ g = GSO_UDP_L4) := by
  unfold protoFromGSOType at he
  split at he
  · next hc =>
    simp [pure, Except.pure] at he; subst he
    simp only [GSO_TCPV4, GSO_TCPV6, GSO_UDP_L4] at *
    constructor
    · intro h; cases h
    · intro h; exfalso; omega
  · split at he
    · next hc => simp [pure, Except.pure] at he; subst he; simp [hc]
    · simp [throw, throwThe, MonadExceptOf.throw] at he

/-- **No panic, and never outside the model's domain.**  For every virtio header (16-bit `csum_start`)
and every packet, one tun read (`decodeRead` + `SegmentSuperpacket`) either succeeds or returns one of
the code's own errors. -/
theorem readAndSegment_not_bad (h : Hdr) (pkt : List UInt8) (hcs16 : h.csumStart < 65536) (e : Err)
    (he : readAndSegment h pkt = .error e) : ¬ Bad e := by
  unfold readAndSegment at he
  simp only [bind_err, failIf_err, pure_err] at he
  rcases he with he | ⟨_, _, he⟩
  · unfold Bad; rw [← he.2]; simp
  split at he
  · split at he
    · simp only [bind_err, pure_err] at he
      rcases he with he | ⟨_, _, he⟩
      · exact finishChecksum_err he
      · exact he.elim
    · simp [pure, Except.pure] at he
  · simp only [bind_err] at he
    rcases he with he | ⟨_, hcv, he⟩
    · exact checkValid_err he
    have g1 := checkValid_ok hcv
    rcases he with he | ⟨hl, hhl, he⟩
    · exact correctHdrLen_err he
    have g2 := correctHdrLen_ok hhl
    rcases he with he | ⟨p, hp, he⟩
    · exact protoFromGSOType_err he
    have g3 := protoFromGSOType_ok hp
    split at he
    · simp [pure, Except.pure] at he
    · cases p
      · -- TCP
        have hne : h.gso ≠ GSO_UDP_L4 := by intro hc; have := g3.mpr hc; cases this
        obtain ⟨t, ht1, ht2, ht3⟩ := g2.2.2.2 hne
        exact segmentTCP_not_bad he g1.1 g1.2.1 (by omega) g2.1
      · -- UDP
        have hu := g2.2.2.1 (g3.mp rfl)
        exact segmentUDP_not_bad he g1.1 g1.2.1 (by omega) g2.1

/-- `CorrectHdrLen` on a TCP GSO type: the corrected length is `csum_start` + the data offset read from
the packet (no 16-bit wrap survives the guards). -/
theorem correctHdrLen_tcp {pkt : List UInt8} {h : Hdr} {hl : Nat} (he : correctHdrLen pkt h = .ok hl)
    (hg : h.gso ≠ GSO_UDP_L4) (hcs16 : h.csumStart < 65536) :
    hl = h.csumStart + byteAt pkt (h.csumStart + 12) / 16 * 4 := by
  unfold correctHdrLen at he
  split at he
  · next hc => exact absurd hc hg
  · simp only [bind_ok, failIf_ok, pure_ok] at he
    obtain ⟨_, _, d, hd, _, ht, a, ha, _, h1, _, h2, _, _, h3⟩ := he
    simp only [virtio_tcpHeaderMinLen, virtio_tcpHeaderMaxLen, virtio_tcpDataOffOff] at ht hd
    subst h3; subst ha
    have hnw : h.csumStart + d / 16 * 4 < 65536 := by omega
    have e12 : (h.csumStart + 12) % 65536 = h.csumStart + 12 := by omega
    rw [e12] at hd
    rw [← (rd_ok_val hd).2]; omega

/-- A successful tun read of a GSO superpacket *is* a run of `segmentTCP` / `segmentUDP` with the
corrected header length: the bridge from the per-segmenter theorems to the real read path. -/
theorem readAndSegment_gso {h : Hdr} {pkt : List UInt8} {segs : List (List UInt8)}
    (hcs16 : h.csumStart < 65536) (hg : h.gso ≠ GSO_NONE) (he : readAndSegment h pkt = .ok segs) :
    (h.gso = GSO_UDP_L4 ∧ segmentUDP pkt (h.csumStart + 8) h.csumStart h.gsoSize = .ok segs) ∨
    ((h.gso = GSO_TCPV4 ∨ h.gso = GSO_TCPV6) ∧
      segmentTCP pkt (h.csumStart + byteAt pkt (h.csumStart + 12) / 16 * 4) h.csumStart h.gsoSize = .ok segs) := by
  unfold readAndSegment at he
  simp only [bind_ok, failIf_ok] at he
  obtain ⟨_, _, he⟩ := he
  simp only [hg, if_false, bind_ok] at he
  obtain ⟨_, hcv, hl, hhl, p, hp, he⟩ := he
  have g1 := checkValid_ok hcv
  have g2 := correctHdrLen_ok hhl
  have g3 := protoFromGSOType_ok hp
  have hgs := g1.2.2 hg
  simp only [hgs, if_false] at he
  cases p
  · right
    have hne : h.gso ≠ GSO_UDP_L4 := by intro hc; have := g3.mpr hc; cases this
    have := correctHdrLen_tcp hhl hne hcs16
    subst this
    refine ⟨?_, he⟩
    unfold protoFromGSOType at hp
    split at hp
    · assumption
    · simp [hne, throw, throwThe, MonadExceptOf.throw, pure, Except.pure] at hp
  · left
    have hu := g3.mp rfl
    have h8 := g2.2.2.1 hu
    have : hl = h.csumStart + 8 := by have := g2.2.1; omega
    subst this
    exact ⟨hu, he⟩

end Nebula.Lemmas.SegmentPipeline
