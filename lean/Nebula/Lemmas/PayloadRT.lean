/-
Round-trip lemmas for `Model/Payload` against the schema specification: a well-formed, conforming
record in front of anything is consumed exactly and interpreted as the schema interprets it.
-/
import Nebula.Lemmas.Payload

namespace Nebula.Payload
open Nebula.Wire
open Nebula.Spec.HandshakeSchema

/-- The fields of the schema message that `handshake.Payload` keeps (everything but `Cookie`). -/
def toPayload (d : Details) : Payload :=
  { cert := d.cert, initiatorIndex := d.initiatorIndex, responderIndex := d.responderIndex,
    time := d.time, certVersion := d.certVersion }

def ofPayload (p : Payload) : Details :=
  { cert := p.cert, initiatorIndex := p.initiatorIndex, responderIndex := p.responderIndex,
    time := p.time, certVersion := p.certVersion }

@[simp] theorem toPayload_ofPayload (p : Payload) : toPayload (ofPayload p) = p := rfl

theorem consumeFieldValue_nongroup (num typ : Nat) (b : Bytes) (h : typ ≠ StartGroupType) :
    consumeFieldValue num typ b = fieldValueSwitch typ b (fun _ => .error .recursionDepth) := by
  rw [consumeFieldValue, consumeFieldValueD]
  unfold fieldValueSwitch
  simp [h]

theorem cfv_varint (num v : Nat) (rest : Bytes) (hv : v < 2 ^ 64) :
    consumeFieldValue num VarintType (appendVarint v ++ rest) = .ok (appendVarint v).length := by
  rw [consumeFieldValue_nongroup _ _ _ (by decide)]
  simp [fieldValueSwitch, consumeVarint_append _ _ hv]

theorem cfv_bytes (num : Nat) (v rest : Bytes) (hv : v.length < 2 ^ 64) :
    consumeFieldValue num BytesType (appendBytes v ++ rest) = .ok (appendBytes v).length := by
  rw [consumeFieldValue_nongroup _ _ _ (by decide)]
  simp [fieldValueSwitch, consumeBytes_append _ _ hv, BytesType, VarintType, Fixed32Type, Fixed64Type]

theorem cfv_fixed32 (num : Nat) (v rest : Bytes) (hv : v.length = 4) :
    consumeFieldValue num Fixed32Type (v ++ rest) = .ok v.length := by
  rw [consumeFieldValue_nongroup _ _ _ (by decide)]
  simp [fieldValueSwitch, consumeFixed32, hv, BytesType, VarintType, Fixed32Type, Fixed64Type]

theorem cfv_fixed64 (num : Nat) (v rest : Bytes) (hv : v.length = 8) :
    consumeFieldValue num Fixed64Type (v ++ rest) = .ok v.length := by
  rw [consumeFieldValue_nongroup _ _ _ (by decide)]
  simp [fieldValueSwitch, consumeFixed64, hv, BytesType, VarintType, Fixed32Type, Fixed64Type]

theorem cfv_tok (num : Nat) (val : Val) (rest : Bytes) (hwf : Tok.wf ⟨num, val⟩) :
    consumeFieldValue num val.typ (val.encode ++ rest) = .ok val.encode.length := by
  obtain ⟨_, _, h⟩ := hwf
  cases val with
  | varint v => exact cfv_varint _ _ _ h
  | bytes b => exact cfv_bytes _ _ _ h
  | fixed32 b => exact cfv_fixed32 _ _ _ h
  | fixed64 b => exact cfv_fixed64 _ _ _ h
  | group => exact absurd h (by simp)

theorem varintField_append (v : Nat) (rest : Bytes) (l : Bool) (hv : v < 2 ^ 64) (hl : l = true → v < 2 ^ 32) :
    varintField VarintType (appendVarint v ++ rest) l = .ok v rest := by
  unfold varintField
  simp only [ne_eq, not_true_eq_false, if_false, consumeVarint_append _ _ hv, sliceFrom_append]
  have : ¬ (l && decide (v > maxUint32)) = true := by
    cases l with
    | false => simp
    | true => have := hl rfl; simp [maxUint32]; omega
  simp [this]

/-- One conforming record, followed by anything: consumed exactly, interpreted as by the schema. -/
theorem detailsField_tok (d : Details) (t : Tok) (rest : Bytes) (hwf : t.wf) (hc : t.conforms) :
    detailsField (toPayload d) t.num t.val.typ (t.val.encode ++ rest) =
      .next (toPayload (applyDetails d t)) rest := by
  obtain ⟨num, val⟩ := t
  have hcfv := cfv_tok num val rest hwf
  obtain ⟨h1, h2, h3⟩ := hwf
  obtain ⟨c1, c2, c5⟩ := hc
  simp only at h1 h2 h3 c1 c2 c5 hcfv ⊢
  unfold detailsField
  simp only [fieldCert, fieldInitiatorIndex, fieldResponderIndex, fieldTime, fieldCertVersion,
    Gen.handshake_fieldCert, Gen.handshake_fieldInitiatorIndex, Gen.handshake_fieldResponderIndex,
    Gen.handshake_fieldTime, Gen.handshake_fieldCertVersion]
  by_cases n1 : num = 1
  · subst n1
    obtain ⟨b, rfl⟩ := c1 rfl
    have h3' : b.length < 2 ^ 64 := h3
    simp [Val.typ, Val.encode, consumeBytes_append _ _ h3', sliceFrom_append, applyDetails, toPayload]
  · by_cases n2 : num = 2
    · subst n2
      obtain ⟨v, rfl, hv⟩ := c2 (Or.inl rfl)
      have h3' : v < 2 ^ 64 := h3
      simp [Val.typ, Val.encode, varintField_append _ _ _ h3' (fun _ => hv), ofVarintField, applyDetails,
        toPayload, Nat.mod_eq_of_lt hv]
    · by_cases n3 : num = 3
      · subst n3
        obtain ⟨v, rfl, hv⟩ := c2 (Or.inr (Or.inl rfl))
        have h3' : v < 2 ^ 64 := h3
        simp [Val.typ, Val.encode, varintField_append _ _ _ h3' (fun _ => hv), ofVarintField, applyDetails,
          toPayload, Nat.mod_eq_of_lt hv]
      · by_cases n5 : num = 5
        · subst n5
          obtain ⟨v, rfl⟩ := c5 rfl
          have h3' : v < 2 ^ 64 := h3
          simp [Val.typ, Val.encode, varintField_append v rest false h3' (by simp), ofVarintField, applyDetails,
            toPayload]
        · by_cases n8 : num = 8
          · subst n8
            obtain ⟨v, rfl, hv⟩ := c2 (Or.inr (Or.inr rfl))
            have h3' : v < 2 ^ 64 := h3
            simp [Val.typ, Val.encode, varintField_append _ _ _ h3' (fun _ => hv), ofVarintField, applyDetails,
              toPayload, Nat.mod_eq_of_lt hv]
          · simp only [n1, n2, n3, n5, n8, if_false, hcfv, sliceFrom_append]
            have : toPayload (applyDetails d ⟨num, val⟩) = toPayload d := by
              unfold applyDetails
              split <;> simp_all [toPayload]
            rw [this]

theorem Val.typ_lt (v : Val) : v.typ < 8 := by cases v <;> simp [Val.typ, VarintType, BytesType, Fixed32Type, Fixed64Type, StartGroupType]

theorem encodeToks_cons (t : Tok) (ts : List Tok) : encodeToks (t :: ts) = t.encode ++ encodeToks ts := by
  simp [encodeToks]

/-- One iteration of the details loop on a valid tag followed by anything. -/
theorem detailsLoop_step (f : Nat) (p : Payload) (num typ : Nat) (body : Bytes)
    (h1 : 1 ≤ num) (h2 : num < 2 ^ 31) (ht : typ < 8) :
    detailsLoop (f + 1) p (appendTag num typ ++ body) =
      match detailsField p num typ body with
      | .stop r => r
      | .next p b => detailsLoop f p b := by
  have hpos := appendTag_length_pos num typ
  have hne : ¬ ((appendTag num typ ++ body).length = 0) := by rw [List.length_append]; omega
  rw [detailsLoop, if_neg hne, consumeTag_append _ _ _ h1 h2 ht]
  simp only [sliceFrom_append]
  rfl

theorem payloadLoop_step (f : Nat) (p : Payload) (num typ : Nat) (body : Bytes)
    (h1 : 1 ≤ num) (h2 : num < 2 ^ 31) (ht : typ < 8) :
    payloadLoop (f + 1) p (appendTag num typ ++ body) =
      match payloadField p num typ body with
      | .stop r => r
      | .next p b => payloadLoop f p b := by
  have hpos := appendTag_length_pos num typ
  have hne : ¬ ((appendTag num typ ++ body).length = 0) := by rw [List.length_append]; omega
  rw [payloadLoop, if_neg hne, consumeTag_append _ _ _ h1 h2 ht]
  simp only [sliceFrom_append]
  rfl

/-- Any sequence of well-formed conforming records in front of anything: consumed exactly, and the
payload afterwards is the schema's interpretation (last occurrence wins, unknown numbers skipped). -/
theorem detailsLoop_toks : ∀ (ts : List Tok) (d : Details) (rest : Bytes) (fuel : Nat),
    (∀ t ∈ ts, t.wf ∧ t.conforms) → (encodeToks ts ++ rest).length < fuel →
    ∃ fuel', rest.length < fuel' ∧
      detailsLoop fuel (toPayload d) (encodeToks ts ++ rest) =
        detailsLoop fuel' (toPayload (ts.foldl applyDetails d)) rest := by
  intro ts
  induction ts with
  | nil => intro d rest fuel _ hlen; exact ⟨fuel, by simpa [encodeToks] using hlen, by simp [encodeToks]⟩
  | cons t ts ih =>
    intro d rest fuel hall hlen
    have ht := hall t (by simp)
    obtain ⟨hwf, hc⟩ := ht
    have hwf' := hwf
    obtain ⟨h1, h2, _⟩ := hwf'
    have h2' : t.num < 2 ^ 31 := by unfold maxValidNumber at h2; omega
    cases fuel with
    | zero => omega
    | succ f =>
      rw [encodeToks_cons, List.append_assoc, Tok.encode, List.append_assoc,
        detailsLoop_step f _ _ _ _ h1 h2' (Val.typ_lt _), detailsField_tok d t _ hwf hc]
      simp only
      have hpos := appendTag_length_pos t.num t.val.typ
      have hlen' : (encodeToks ts ++ rest).length < f := by
        rw [encodeToks_cons, Tok.encode] at hlen
        simp at hlen ⊢
        omega
      obtain ⟨fuel', hf, he⟩ := ih (applyDetails d t) rest f (fun t' ht' => hall t' (by simp [ht'])) hlen'
      exact ⟨fuel', hf, by simpa using he⟩

theorem detailsLoop_nil (fuel : Nat) (p : Payload) (h : 0 < fuel) : detailsLoop fuel p [] = .ok p := by
  cases fuel with
  | zero => omega
  | succ f => simp [detailsLoop]

theorem payloadLoop_nil (fuel : Nat) (p : Payload) (h : 0 < fuel) : payloadLoop fuel p [] = .ok p := by
  cases fuel with
  | zero => omega
  | succ f => simp [payloadLoop]

/-- `unmarshalPayloadDetails` on any well-formed conforming record sequence. -/
theorem unmarshalDetails_toks (ts : List Tok) (d : Details) (h : ∀ t ∈ ts, t.wf ∧ t.conforms) :
    unmarshalDetails (toPayload d) (encodeToks ts) = .ok (toPayload (ts.foldl applyDetails d)) := by
  obtain ⟨fuel', hf, he⟩ := detailsLoop_toks ts d [] ((encodeToks ts).length + 1) h (by simp)
  unfold unmarshalDetails
  rw [List.append_nil] at he
  rw [he, detailsLoop_nil _ _ (by omega)]

end Nebula.Payload
