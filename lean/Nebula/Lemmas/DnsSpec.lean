/-
Bridges between the invariant of `Lemmas/Dns` and the boolean specification predicates of `Spec/Dns`.
-/
import Nebula.Lemmas.Dns

namespace Nebula.Lemmas.Dns
open Nebula.Net Nebula.Dns Nebula.Spec.Dns

theorem memAddr_of_mem {a : Addr} {l : List Addr} (h : a ∈ l) : memAddr a l = true := by
  unfold memAddr
  exact List.any_eq_true.mpr ⟨a, h, by simp⟩

theorem mem_of_memAddr {a : Addr} {l : List Addr} (h : memAddr a l = true) : a ∈ l := by
  unfold memAddr at h
  obtain ⟨x, hx, he⟩ := List.any_eq_true.mp h
  have : x = a := by simpa using he
  exact this ▸ hx

/-- a table entry found under the lower-cased question name is authentic for the name as asked. -/
theorem authentic_of_src {cur : Self} {evs : List Ev} {name : Name} {a : Addr}
    (h : Src cur evs (lower name) a) : authentic cur evs name a = true := by
  unfold authentic
  rcases h with ⟨k, n, as, hm, hk, ha⟩ | ⟨n, as, hs, hk, ha⟩
  · apply Bool.or_eq_true_iff.mpr; left
    exact List.any_eq_true.mpr ⟨_, hm, by simp [hk, memAddr_of_mem ha]⟩
  · apply Bool.or_eq_true_iff.mpr; right
    subst hs
    simp [hk, memAddr_of_mem ha]

theorem loopback_eq (b : Addr) :
    isLoopback b = (match b.fam with
      | .v4 => ({ addr := { fam := .v4, val := 0x7f000000 }, len := 8 } : Prefix).contains b
      | .v6 => b.val == 1) := by
  cases b with | mk fam val =>
    cases fam
    · have h1 : (Fam.v4 == Fam.v4) = true := by decide
      have h2 : (0x7f000000 : Nat) >>> (32 - 8) = 127 := by decide
      have h3 : val >>> (32 - 8) = val / 2 ^ 24 := Nat.shiftRight_eq_div_pow val 24
      show (val / 2 ^ 24 == 127) = ((Fam.v4 == Fam.v4) && decide (8 ≤ 32) && ((0x7f000000 : Nat) >>> (32 - 8) == val >>> (32 - 8)))
      rw [h1, h2, h3]
      cases h : (val / 2 ^ 24 == 127)
      · have hn : ¬ (val / 2 ^ 24 = 127) := by intro e; rw [e] at h; exact absurd h (by decide)
        have : (127 == val / 2 ^ 24) = false := by
          cases h' : (127 == val / 2 ^ 24)
          · rfl
          · exact absurd (eq_of_beq h').symm hn
        rw [this]; rfl
      · have : val / 2 ^ 24 = 127 := eq_of_beq h
        rw [this]; rfl
    · rfl

/-- the client test of the code is the specification's notion of a local client. -/
theorem isLocal_eq (s : St) (client : Addr) :
    isSelfNebulaOrLocalhost s client = isLocal s.self client := by
  unfold isSelfNebulaOrLocalhost isLocal
  simp only [loopback_eq]
  cases hs : s.self with
  | none => simp [selfAddrs, hs]; rfl
  | some p => cases p with | mk n as => simp [selfAddrs, hs]; rfl

theorem find_hosts_mem {h : List (Addr × Nat)} {ip : Addr} {e : Addr × Nat}
    (hf : h.find? (fun e => decide (e.1 = ip)) = some e) : e ∈ h ∧ e.1 = ip := by
  have h1 := List.find?_some hf
  have h2 := List.mem_of_find?_eq_some hf
  exact ⟨h2, by simpa using h1⟩

/-- a certificate returned by `QueryCert` belongs to ourselves or to a handshaked peer that owns the
address asked for. -/
theorem queryCert_owns {me : Self} {evs : List Ev} {s : St} (inv : Inv me evs s)
    {name : Name} {parsed : Option Addr} {c : CertId} (h : queryCert s name parsed = some c) :
    ∃ ip, parsed = some ip ∧ certOwns (selfAfter me evs) evs ip c = true := by
  unfold queryCert at h
  split at h
  · simp at h
  · cases parsed with
    | none => simp at h
    | some ip =>
      refine ⟨ip, rfl, ?_⟩
      simp only at h
      split at h
      · rename_i hc
        have hc' : s.self.isSome = true ∧ memAddr ip (selfAddrs s) = true := by simpa using hc
        have : c = .self := by simpa using h.symm
        subst this
        rw [inv.self_eq] at hc'
        cases hme : selfAfter me evs with
        | none => simp [hme] at hc'
        | some p =>
          cases p with | mk n as =>
          have h2 := hc'.2
          simp only [selfAddrs, inv.self_eq, hme] at h2
          simpa [certOwns] using h2
      · cases hf : s.hosts.find? (fun e => decide (e.1 = ip)) with
        | none => simp [hf] at h
        | some e =>
          simp [hf] at h
          obtain ⟨hm, he⟩ := find_hosts_mem hf
          obtain ⟨n, as, hev, hin⟩ := inv.hosts e hm
          subst h
          unfold certOwns
          exact List.any_eq_true.mpr ⟨_, hev, by simp [← he, memAddr_of_mem hin]⟩

theorem parseQuery_answers (s : St) (client : Addr) (qs : List Question) :
    (parseQuery s client qs).answers = (parseLoop s client qs [] false).1 := by
  simp only [parseQuery]
  split <;> rfl

theorem handle_answers (s : St) (client : Addr) (opcode : Nat) (qs : List Question) (a : Answer)
    (h : a ∈ (handle s client opcode qs).answers) : AnsOK s client (qs.take 1) a := by
  unfold handle at h
  split at h
  · rw [parseQuery_answers] at h
    exact parseLoop_answers s client (qs.take 1) (qs.take 1) [] false (fun _ h => h) (fun _ h => by simp at h) a h
  · simp at h

end Nebula.Lemmas.Dns
