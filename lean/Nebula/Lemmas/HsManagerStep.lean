/-
One step of a node, seen from the main hostmap: it is unchanged, or one tunnel built from the event's
completed handshake result is added, or a tunnel already in Indexes is promoted, or a tunnel is deleted.
-/
import Nebula.Lemmas.HsManager

namespace Nebula.Lemmas.HsManager
open Nebula.HsManager

/-- the completed Machine result an event carries, if any -/
def completionOf : Ev → Option Completed
  | .stage1 _ _ (some c) _ _ => some c
  | .stage2 _ _ (.completed c) => some c
  | _ => none

inductive MainChange (cfg : Cfg) (m m' : HostMap) (e : Ev) : Prop
  | same (h : m' = m)
  | added (hi : HostInfo) (c : Completed) (hc : completionOf e = some c) (ha : hi.vpnAddrs = c.certAddrs)
      (hself : c.certAddrs.any (fun a => cfg.myAddrs.contains a) = false) (h : m' = m.addHostInfo hi)
  | promoted (hi : HostInfo) (k : Nat) (hk : alookup k m.indexes = some hi) (h : m' = m.makePrimary hi)
  | deleted (hi : HostInfo) (h : m' = m.deleteHostInfo hi)

theorem beginHandshake_main (n : Node) (via : UNode) (pkt : Handle) (res : Option Completed) (rv now : Nat) :
    (n.beginHandshake via pkt res rv now).1.cfg = n.cfg ∧
    MainChange n.cfg n.main (n.beginHandshake via pkt res rv now).1.main (.stage1 via pkt res rv now) := by
  unfold Node.beginHandshake
  split
  · exact ⟨rfl, .same rfl⟩
  · rename_i c
    split
    · exact ⟨rfl, .same rfl⟩
    · rename_i hok
      have hself : c.certAddrs.any (fun a => n.cfg.myAddrs.contains a) = false := by
        simp [peerCertOk] at hok
        simpa using hok.2
      split
      rename_i p hi rid hprep
      have hva : hi.vpnAddrs = c.certAddrs := by
        unfold PSide.prepareResponder at hprep
        simp only [Prod.mk.injEq] at hprep
        rw [← hprep.2.1]
      split
      · split <;> exact ⟨rfl, .same rfl⟩
      · exact ⟨rfl, .same rfl⟩
      · exact ⟨rfl, .same rfl⟩
      · exact ⟨rfl, .added hi c rfl hva hself rfl⟩

theorem continueHandshake_main (n : Node) (via : UNode) (idx : Nat) (res : S2Res) :
    (n.continueHandshake via idx res).1.cfg = n.cfg ∧
    MainChange n.cfg n.main (n.continueHandshake via idx res).1.main (.stage2 via idx res) := by
  unfold Node.continueHandshake
  split
  · exact ⟨rfl, .same rfl⟩
  · rename_i hh _
    split
    · exact ⟨rfl, .same rfl⟩
    · split
      · split <;> exact ⟨rfl, .same rfl⟩
      · rename_i c
        dsimp only
        split
        · exact ⟨rfl, .same rfl⟩
        · rename_i hself
          split
          · exact ⟨rfl, .same rfl⟩
          · refine ⟨rfl, .added (initiatorHostInfo hh via c) c rfl rfl ?_ rfl⟩
            simpa using hself

/-- GetOrHandshake never touches the configuration or the main hostmap -/
theorem getOrHandshake_main (n : Node) (a : Addr) (cb : Pending → Pending) :
    (n.getOrHandshake a cb).1.cfg = n.cfg ∧ (n.getOrHandshake a cb).1.main = n.main := by
  unfold Node.getOrHandshake; split <;> exact ⟨rfl, rfl⟩

theorem firstReady_main (gs : List Addr) (n : Node) :
    (n.firstReady gs).1.cfg = n.cfg ∧ (n.firstReady gs).1.main = n.main := by
  induction gs generalizing n with
  | nil => exact ⟨rfl, rfl⟩
  | cons g gs ih =>
    simp only [Node.firstReady]
    have h1 := getOrHandshake_main n g id
    generalize n.getOrHandshake g id = r at h1 ⊢
    obtain ⟨n', o⟩ := r
    cases o with
    | some h => exact h1
    | none => have := ih n'; exact ⟨this.1.trans h1.1, this.2.trans h1.2⟩

theorem sendRouted_main (n : Node) (q : Cached) :
    (n.sendRouted q).1.cfg = n.cfg ∧ (n.sendRouted q).1.main = n.main := by
  unfold Node.sendRouted
  split
  next => exact ⟨rfl, rfl⟩
  next g _ =>
    have h1 := getOrHandshake_main n g.1 (fun hh => hh.cache q)
    generalize n.getOrHandshake g.1 (fun hh => hh.cache q) = r at h1 ⊢
    obtain ⟨n', o⟩ := r
    cases o <;> exact h1
  next =>
    split
    next => exact ⟨rfl, rfl⟩
    next chosen _ =>
      have h1 := getOrHandshake_main n chosen id
      generalize n.getOrHandshake chosen id = r at h1 ⊢
      obtain ⟨n1, o⟩ := r
      cases o with
      | some h => exact h1
      | none =>
        dsimp only
        have h2 := firstReady_main ((n.cfg.routes.map (·.1)).filter (· != chosen)) n1
        generalize n1.firstReady ((n.cfg.routes.map (·.1)).filter (· != chosen)) = r2 at h2 ⊢
        obtain ⟨n2, o2⟩ := r2
        cases o2 with
        | some h => exact ⟨h2.1.trans h1.1, h2.2.trans h1.2⟩
        | none =>
          dsimp only
          split <;> exact ⟨h2.1.trans h1.1, h2.2.trans h1.2⟩

theorem sendInside_main (n : Node) (a : Addr) (q : Cached) :
    (n.sendInside a q).1.cfg = n.cfg ∧ (n.sendInside a q).1.main = n.main := by
  unfold Node.sendInside
  split
  · exact ⟨rfl, rfl⟩
  · split
    · exact sendRouted_main n q
    · split
      · exact ⟨rfl, rfl⟩
      · have h1 := getOrHandshake_main n a (fun hh => hh.cache q)
        generalize n.getOrHandshake a (fun hh => hh.cache q) = r at h1 ⊢
        obtain ⟨n', o⟩ := r
        cases o <;> exact h1

theorem step_main (n : Node) (e : Ev) :
    (n.step e).1.cfg = n.cfg ∧ MainChange n.cfg n.main (n.step e).1.main e := by
  cases e with
  | lh a u => exact ⟨rfl, .same rfl⟩
  | hs a =>
    simp only [Node.step, Node.getOrHandshake]
    split <;> exact ⟨rfl, .same rfl⟩
  | rehs a => exact ⟨rfl, .same rfl⟩
  | tick now => exact ⟨rfl, .same rfl⟩
  | trig a now => exact ⟨rfl, .same rfl⟩
  | stage1 via pkt res rv now => exact beginHandshake_main n via pkt res rv now
  | stage2 via idx res => exact continueHandshake_main n via idx res
  | send a q =>
    have := sendInside_main n a q
    exact ⟨this.1, .same this.2⟩
  | idx v => exact ⟨rfl, .same rfl⟩
  | del li =>
    simp only [Node.step, Node.deleteTunnel]
    split
    · exact ⟨rfl, .same rfl⟩
    · rename_i hi _; exact ⟨rfl, .deleted hi rfl⟩
  | swap li =>
    simp only [Node.step, Node.swapCheck]
    split
    · exact ⟨rfl, .same rfl⟩
    · rename_i hi hk
      split
      · exact ⟨rfl, .same rfl⟩
      · split
        · exact ⟨rfl, .same rfl⟩
        · split
          · exact ⟨rfl, .same rfl⟩
          · exact ⟨rfl, .promoted hi li hk rfl⟩
  | block ids => exact ⟨rfl, .same rfl⟩
  | cmcheck li i o =>
    simp only [Node.step, Node.trafficCheck]
    split
    · exact ⟨rfl, .same rfl⟩
    · rename_i hi hk
      split
      · split <;> exact ⟨rfl, .deleted hi rfl⟩
      · split <;> exact ⟨rfl, .deleted hi rfl⟩
      · exact ⟨rfl, .promoted hi li hk rfl⟩
      · split <;> exact ⟨rfl, .same rfl⟩
      · exact ⟨rfl, .same rfl⟩
      · exact ⟨rfl, .same rfl⟩
      · exact ⟨rfl, .same rfl⟩

/-- completed results carried by a history -/
def comps (evs : List Ev) : List Completed := evs.filterMap completionOf

/-- what C09 says of one tunnel, relative to a set `S` of completed handshake results -/
def Certified (cfg : Cfg) (S : List Completed) (h : HostInfo) : Prop :=
  (∀ x ∈ h.vpnAddrs, x ∉ cfg.myAddrs) ∧ ∃ c ∈ S, h.vpnAddrs = c.certAddrs

theorem Certified.mono {cfg : Cfg} {S S' : List Completed} (hs : ∀ c ∈ S, c ∈ S') {h : HostInfo}
    (hc : Certified cfg S h) : Certified cfg S' h :=
  ⟨hc.1, let ⟨c, hm, e⟩ := hc.2; ⟨c, hs c hm, e⟩⟩

theorem step_good (n : Node) (e : Ev) (S : List Completed) (g : Good (Certified n.cfg S) n.main) :
    Good (Certified n.cfg (S ++ (completionOf e).toList)) (n.step e).1.main := by
  have g' : Good (Certified n.cfg (S ++ (completionOf e).toList)) n.main :=
    g.mono (fun h hc => hc.mono (fun c hm => List.mem_append_left _ hm))
  rcases (step_main n e).2 with h | ⟨hi, c, hc, ha, hself, h⟩ | ⟨hi, k, hk, h⟩ | ⟨hi, h⟩
  · rw [h]; exact g'
  · rw [h]
    apply g'.add
    constructor
    · intro x hx hmy
      rw [ha] at hx
      have := List.any_eq_false.mp hself x hx
      simp at this
      exact this hmy
    · exact ⟨c, by simp [hc], ha⟩
  · rw [h]; exact g'.makePrimary (g'.2 k hi hk)
  · rw [h]; exact g'.delete hi

theorem run_good (evs : List Ev) (n : Node) (S : List Completed) (g : Good (Certified n.cfg S) n.main) :
    (n.run evs).cfg = n.cfg ∧ Good (Certified n.cfg (S ++ comps evs)) (n.run evs).main := by
  induction evs generalizing n S with
  | nil => simpa [Node.run, comps] using g
  | cons e es ih =>
    have hcfg := (step_main n e).1
    have g1 := step_good n e S g
    rw [← hcfg] at g1
    have := ih (n.step e).1 _ g1
    simp only [Node.run, List.foldl_cons] at this ⊢
    rw [hcfg] at this
    refine ⟨this.1, ?_⟩
    have e2 : S ++ comps (e :: es) = S ++ (completionOf e).toList ++ comps es := by
      simp only [comps, List.filterMap_cons]
      cases completionOf e <;> simp
    rw [e2]; exact this.2

end Nebula.Lemmas.HsManager
