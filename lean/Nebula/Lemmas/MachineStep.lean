/-
Lemmas about one `ProcessPacket` step of `Model/Machine`.
-/
import Nebula.Lemmas.Machine

namespace Nebula.Machine
open Nebula.Wire Nebula.Spec.Handshake

theorem requireComplete_err {s s' : St} {e : Err} (h : requireComplete s = (s', some e)) : s'.failed = true := by
  unfold requireComplete at h
  split at h
  · simp [fail] at h; rw [← h.1]
  · simp at h

theorem pp_failed (b : Bool) (c : Cfg) (s : St) (len st : Nat) (rd : ReadOut) (co : CertOut) (now : Nat)
    (wr : WriteOut) (h : s.failed = true) :
    processPacketG b c s len st rd co now wr = (s, .err .machineFailed) := by
  simp [processPacketG, h]

theorem initiate_failed (c : Cfg) (s : St) (now : Nat) (wr : WriteOut) (h : s.failed = true) :
    initiate c s now wr = (s, .err .machineFailed) := by
  simp [initiate, h]

/-- A rejection that leaves the Machine usable left it exactly as it was, and either never reached
the noise library or the library reported an error with an unchanged transcript. -/
theorem pp_reject (c : Cfg) (s s' : St) (len st : Nat) (rd : ReadOut) (co : CertOut) (now : Nat)
    (wr : WriteOut) (e : Err)
    (h : processPacketG true c s len st rd co now wr = (s', .err e)) (hf : s'.failed = false) :
    s' = s ∧ (reachesNoise c s len st = false ∨ rd = .err false) := by
  unfold processPacketG at h
  split at h
  · rename_i hfail; simp at h; exact ⟨h.1.symm, by simp [reachesNoise, hfail]⟩
  · rename_i hfail
    split at h
    · rename_i hl; simp at h; refine ⟨h.1.symm, Or.inl ?_⟩; simp [reachesNoise]; omega
    · split at h
      · rename_i hl hs; simp at h; refine ⟨h.1.symm, Or.inl ?_⟩; simp [reachesNoise, hs]
      · split at h
        · simp [fail] at h; rw [← h.1] at hf; simp at hf
        · split at h
          · rename_i mutated
            cases mutated with
            | true => simp [fail] at h; rw [← h.1] at hf; simp at hf
            | false => simp at h; exact ⟨h.1.symm, Or.inr rfl⟩
          · rename_i msg k1 k2 ps
            simp only at h
            split at h
            · rename_i s1 e1 hpp
              simp at h; rw [← h.1] at hf
              have := processPayload_err hpp
              rw [this] at hf; simp at hf
            · rename_i s1 hpp
              split at h
              · split at h
                · simp [fail] at h; rw [← h.1] at hf; simp at hf
                · split at h
                  · rename_i s2 e2 hrc
                    simp at h; rw [← h.1] at hf
                    have := requireComplete_err hrc
                    rw [this] at hf; simp at hf
                  · simp at h
              · split at h
                · simp [fail] at h; rw [← h.1] at hf; simp at hf
                · rename_i s2 sent dk ek hbr
                  split at h
                  · split at h
                    · simp [fail] at h; rw [← h.1] at hf; simp at hf
                    · split at h
                      · rename_i s3 e3 hrc
                        simp at h; rw [← h.1] at hf
                        have := requireComplete_err hrc
                        rw [this] at hf; simp at hf
                      · simp at h
                  · simp at h

/-- What a completion rests on (one step). -/
theorem pp_result (b : Bool) (c : Cfg) (s s' : St) (len st : Nat) (rd : ReadOut) (co : CertOut) (now : Nat)
    (wr : WriteOut) (sent : Option Sent) (r : Result)
    (h : processPacketG b c s len st rd co now wr = (s', .ok sent (some r))) :
    s'.remoteCertSet = true ∧ s'.payloadSet = true ∧ s'.failed = false ∧ r = completed c s' r.eKey r.dKey ∧
    reachesNoise c s len st = true ∧
    (∃ msg k1 k2 ps, rd = .ok msg k1 k2 ps ∧
      ((k1 = true ∧ k2 = true ∧ sent = none ∧ r.eKey = .cs1 ∧ r.dKey = .cs2) ∨
       (k1 = false ∧ k2 = false ∧ wr = .ok true true ∧ sent ≠ none ∧ r.eKey = .cs2 ∧ r.dKey = .cs1))) := by
  unfold processPacketG at h
  split at h
  · simp at h
  · rename_i hfail
    split at h
    · simp at h
    · rename_i hlen
      split at h
      · simp at h
      · rename_i hsub
        split at h
        · simp at h
        · rename_i hinit
          have hreach : reachesNoise c s len st = true := by
            have h1 : s.failed = false := by simpa using hfail
            have h2 : Gen.header_Len ≤ len := by omega
            have h3 : st = c.subtype := by simpa using hsub
            have h4 : (c.initiator && decide (s.msgIdx = 0)) = false := by
              cases hi : c.initiator <;> simp [hi] at hinit ⊢
              exact hinit
            simp [reachesNoise, h1, h2, h3, h4]
          split at h
          · simp at h
          · rename_i msg k1 k2 ps
            simp only at h
            split at h
            · simp at h
            · rename_i s1 hpp
              have hf1 : s1.failed = false := by
                rw [processPayload_ok_failed hpp]; simpa using hfail
              split at h
              · rename_i hk
                split at h
                · simp at h
                · rename_i hk2
                  split at h
                  · simp at h
                  · rename_i s2 hrc
                    obtain ⟨rfl, hp, hc⟩ := requireComplete_ok hrc
                    simp at h
                    obtain ⟨rfl, rfl, rfl⟩ := h
                    simp at hk2
                    refine ⟨hc, hp, hf1, by simp [completed], hreach, msg, k1, k2, ps, rfl, Or.inl ?_⟩
                    simp [hk2, completed]
              · rename_i hk
                split at h
                · simp at h
                · rename_i s2 sent2 dk ek hbr
                  have hb := buildResponse_fields hbr
                  split at h
                  · split at h
                    · simp at h
                    · rename_i hk2
                      split at h
                      · simp at h
                      · rename_i s3 hrc
                        obtain ⟨rfl, hp, hc⟩ := requireComplete_ok hrc
                        simp at h
                        obtain ⟨rfl, rfl, rfl⟩ := h
                        simp at hk hk2
                        refine ⟨hc, hp, by rw [hb.2.2.2.1]; exact hf1, by simp [completed], hreach, msg, k1, k2, ps, rfl, Or.inr ?_⟩
                        simp [hk, completed, hb.2.2.2.2.2.2, hk2]
                  · simp at h

def CertEq (s s' : St) : Prop :=
  s'.remoteCertSet = s.remoteCertSet ∧ (s'.remoteCert, s'.remoteKey) = (s.remoteCert, s.remoteKey)

theorem CertStep.then_eq {s s1 s2 : St} {ps : Bytes} {co : CertOut} (h : CertStep s s1 ps co) (e : CertEq s1 s2) :
    CertStep s s2 ps co := by
  rcases h with ⟨a, b⟩ | ⟨pub, ver, cert, h1, h2, h3, h4⟩
  · left; exact ⟨e.1.trans a, e.2.trans b⟩
  · right; exact ⟨pub, ver, cert, h1, h2, h3, e.2.trans h4⟩

theorem requireComplete_certEq (s : St) : CertEq s (requireComplete s).1 := by
  unfold requireComplete; split <;> simp [CertEq, fail]

theorem certEq_fail (s : St) : CertEq s (fail s) := by simp [CertEq, fail]

/-- The certificate fields after any `ProcessPacket` step are untouched, or the step read a message
successfully and they come from a certificate recombined with that message's `PeerStatic()` and
accepted by the verifier. -/
theorem pp_certStep (b : Bool) (c : Cfg) (s : St) (len st : Nat) (rd : ReadOut) (co : CertOut) (now : Nat)
    (wr : WriteOut) :
    CertEq s (processPacketG b c s len st rd co now wr).1 ∨
    (∃ cert ps, accepts rd co cert = true ∧ readStatic rd = some ps ∧
      ((processPacketG b c s len st rd co now wr).1.remoteCert, (processPacketG b c s len st rd co now wr).1.remoteKey) = (some cert, ps)) := by
  unfold processPacketG
  split; · left; simp [CertEq]
  split; · left; simp [CertEq]
  split; · left; simp [CertEq]
  split; · left; exact certEq_fail s
  split
  · left; split <;> simp [CertEq, fail]
  · rename_i msg k1 k2 ps
    simp only
    have hstep := processPayload_certStep c { s with msgIdx := s.msgIdx + 1 } msg
      (peerMsgFlags c { s with msgIdx := s.msgIdx + 1 }) ps co
    have conv : ∀ s' : St, CertStep { s with msgIdx := s.msgIdx + 1 } s' ps co →
        CertEq s s' ∨ (∃ cert ps', accepts (.ok msg k1 k2 ps) co cert = true ∧ readStatic (.ok msg k1 k2 ps) = some ps' ∧
          (s'.remoteCert, s'.remoteKey) = (some cert, ps')) := by
      intro s' h
      rcases h with ⟨a, b⟩ | ⟨pub, ver, cert, h1, h2, h3, h4⟩
      · left; exact ⟨a, b⟩
      · right; exact ⟨cert, ps, by simp [accepts, h1, h2, h3], rfl, h4⟩
    split
    · rename_i s1 e1 hpp
      rw [hpp] at hstep; exact conv _ hstep
    · rename_i s1 hpp
      rw [hpp] at hstep
      simp only at hstep
      split
      · split
        · exact conv _ (hstep.then_eq (certEq_fail s1))
        · have hr := requireComplete_certEq s1
          split
          · rename_i s2 e2 hrc; rw [hrc] at hr; exact conv _ (hstep.then_eq hr)
          · rename_i s2 hrc; rw [hrc] at hr; exact conv _ (hstep.then_eq hr)
      · split
        · exact conv _ (hstep.then_eq (certEq_fail s1))
        · rename_i s2 sent dk ek hbr
          have hb := buildResponse_fields hbr
          have e12 : CertEq s1 s2 := ⟨hb.1, hb.2.1⟩
          split
          · split
            · exact conv _ ((hstep.then_eq e12).then_eq (certEq_fail s2))
            · have hr := requireComplete_certEq s2
              split
              · rename_i s3 e3 hrc; rw [hrc] at hr; exact conv _ ((hstep.then_eq e12).then_eq hr)
              · rename_i s3 hrc; rw [hrc] at hr; exact conv _ ((hstep.then_eq e12).then_eq hr)
          · exact conv _ (hstep.then_eq e12)

theorem initiate_certEq (c : Cfg) (s : St) (now : Nat) (wr : WriteOut) : CertEq s (initiate c s now wr).1 := by
  unfold initiate
  split; · simp [CertEq]
  split; · exact certEq_fail s
  split; · exact certEq_fail s
  split
  · exact certEq_fail s
  · rename_i s2 sent a b hbr
    have hb := buildResponse_fields hbr
    exact ⟨hb.1, hb.2.1⟩

end Nebula.Machine
