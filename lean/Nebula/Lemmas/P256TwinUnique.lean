/-
Uniqueness of the DER form `parseSignature` accepts (C02, P-256 twin): for byte strings shorter than 130 bytes
(P-256 signatures have at most 72) the strict reader accepts exactly the specification's minimal encoding of the
numbers it reads — one length octet per element, INTEGER contents with the fewest octets.
-/
import Nebula.Lemmas.P256Twin
namespace Nebula.Lemmas.P256TwinUnique
open Nebula.Der Nebula.P256 Nebula.P256Twin Nebula.Lemmas.DerRT Nebula.Lemmas.DerInt Nebula.Lemmas.P256Twin

theorem ofNat_toNat (b : UInt8) : UInt8.ofNat b.toNat = b := by
  cases b with | ofBitVec v => simp [UInt8.ofNat, UInt8.toNat]

theorem toNat_pos_of_ne (b : UInt8) (hb : b ≠ 0) : 0 < b.toNat := by
  rcases Nat.eq_zero_or_pos b.toNat with h0 | h0
  · exfalso; apply hb; rw [← ofNat_toNat b, h0]; rfl
  · exact h0

theorem natBytes_foldl (xs : Bytes) : ∀ acc, (0 < acc ∨ ∀ b rest, xs = b :: rest → b ≠ 0) →
    natBytes (xs.foldl (fun a b => a * 256 + b.toNat) acc) = natBytes acc ++ xs := by
  induction xs with
  | nil => intro acc _; simp
  | cons b rest ih =>
    intro acc h
    have hlt : b.toNat < 256 := b.toNat_lt
    have hpos : 0 < acc * 256 + b.toNat := by
      rcases h with h | h
      · omega
      · have := toNat_pos_of_ne b (h b rest rfl); omega
    simp only [List.foldl_cons]
    rw [ih _ (Or.inl hpos), natBytes_pos _ hpos]
    have e1 : (acc * 256 + b.toNat) / 256 = acc := by omega
    have e2 : (acc * 256 + b.toNat) % 256 = b.toNat := by omega
    rw [e1, e2, ofNat_toNat]; simp

/-- digits without a leading zero are the digits of their value. -/
theorem natBytes_beNat (xs : Bytes) (h : ∀ b rest, xs = b :: rest → b ≠ 0) : natBytes (beNat xs) = xs := by
  unfold beNat
  rw [natBytes_foldl xs 0 (Or.inr h), natBytes_zero]; rfl

theorem byte_facts' (b : UInt8) :
    ((b &&& 0x80 == 0x80) = decide (128 ≤ b.toNat)) ∧ ((b &&& 0x80 == 0) = decide (b.toNat < 128)) ∧
    ((b == 0) = decide (b.toNat = 0)) ∧ ((b == 0xff) = decide (b.toNat = 255)) := by
  have h := byte_facts b.toNat b.toNat_lt
  rw [ofNat_toNat] at h
  exact ⟨h.1, h.2.1, h.2.2.1, h.2.2.2.1⟩

/-- a content the strict reader accepts as a non-negative INTEGER is the specification's content of its value. -/
theorem intContent_of_content (c : Bytes) (hchk : checkASN1Integer c = true)
    (hneg : ∀ b0 rest, c = b0 :: rest → (b0 &&& 0x80 == 0x80) = false) :
    intContent (beNat (stripZeros c)) = c := by
  match c, hchk, hneg with
  | [], hchk, _ => simp [checkASN1Integer] at hchk
  | [b], _, hneg =>
    obtain ⟨a1, a2, a3, a4⟩ := byte_facts' b
    have hn := hneg b [] rfl
    rw [a1] at hn
    have hlt : b.toNat < 128 := by simpa using hn
    simp only [stripZeros]
    by_cases h0 : b.toNat = 0
    · have : b = 0 := by rw [← ofNat_toNat b, h0]; rfl
      subst this; rfl
    · have e : beNat [b] = b.toNat := by simp [beNat]
      rw [e]
      unfold intContent
      rw [natBytes_digit _ (by omega) (by omega), ofNat_toNat]
      have : (b &&& 0x80 != 0) = false := by simp only [bne, a2]; simp; omega
      simp [this]
  | b0 :: b1 :: rest, hchk, hneg =>
    obtain ⟨a1, a2, a3, a4⟩ := byte_facts' b0
    obtain ⟨c1, c2, c3, c4⟩ := byte_facts' b1
    have hn := hneg b0 (b1 :: rest) rfl
    rw [a1] at hn
    have hlt : b0.toNat < 128 := by simpa using hn
    simp only [checkASN1Integer] at hchk
    by_cases h0 : b0.toNat = 0
    · have e0 : b0 = 0 := by rw [← ofNat_toNat b0, h0]; rfl
      subst e0
      have hb1 : 128 ≤ b1.toNat := by
        have z : ((0 : UInt8) == 0) = true := rfl
        rw [z, c2] at hchk
        by_cases hh : b1.toNat < 128
        · simp [hh] at hchk
        · omega
      have hb1ne : b1 ≠ 0 := by
        intro e; rw [e] at hb1; simp at hb1
      have hs : stripZeros (0 :: b1 :: rest) = b1 :: rest := by
        have z : ((0 : UInt8) == 0) = true := rfl
        have nz : (b1 == 0) = false := by rw [c3]; simp; omega
        cases rest with
        | nil => simp [stripZeros]
        | cons r0 rest' => simp [stripZeros, nz]
      rw [hs]
      unfold intContent
      rw [natBytes_beNat (b1 :: rest) (by intro b r e; cases e; exact hb1ne)]
      have : (b1 &&& 0x80 != 0) = true := by simp only [bne, c2]; simp; omega
      simp [this]
    · have hb0ne : b0 ≠ 0 := by
        intro e; rw [e] at h0; simp at h0
      have nz : (b0 == 0) = false := by rw [a3]; simp; omega
      have hs : stripZeros (b0 :: b1 :: rest) = b0 :: b1 :: rest := by simp [stripZeros, nz]
      rw [hs]
      unfold intContent
      rw [natBytes_beNat (b0 :: b1 :: rest) (by intro b r e; cases e; exact hb0ne)]
      have : (b0 &&& 0x80 != 0) = false := by simp only [bne, a2]; simp; omega
      simp [this]

/-- below 130 bytes the reader accepts exactly what the writer writes: an element is its tag, the one length
octet and the content. -/
theorem readASN1_short (tag : UInt8) (s c rest : Bytes) (hl : s.length < 130)
    (h : readASN1 tag s = some (c, rest)) : s = encTLV tag c ++ rest := by
  unfold readASN1 at h
  cases hr : readAny s with
  | none => rw [hr] at h; cases h
  | some t =>
    rw [hr] at h
    simp only at h
    by_cases ht : (t.tag == tag) = true
    · simp only [ht, if_true, Option.some.injEq, Prod.mk.injEq] at h
      obtain ⟨hc, hrest⟩ := h
      have htag : t.tag = tag := eq_of_beq ht
      have hsplit := Nebula.Lemmas.Der.readAny_split s t hr
      unfold readAny at hr
      match s, hl, hr, hsplit with
      | [], _, hr, _ => simp [headerOf] at hr
      | [_], _, hr, _ => simp [headerOf] at hr
      | t0 :: lb :: tl, hl, hr, hsplit =>
        simp only [headerOf] at hr
        by_cases h1f : t0 &&& 0x1f = 0x1f
        · simp [h1f] at hr
        · simp only [h1f, if_false] at hr
          by_cases hshort : lb &&& 0x80 = 0
          · simp only [hshort, if_true] at hr
            split at hr
            · cases hr
            · next hlen =>
              simp only [Option.some.injEq] at hr
              subst hr
              simp only [TLV.content] at hc
              simp only at htag hrest
              subst htag
              simp only [List.length_cons] at hlen
              have hlb : lb.toNat < 128 := by
                obtain ⟨-, a2, -, -⟩ := byte_facts' lb
                have : (lb &&& 0x80 == 0) = true := by rw [hshort]; rfl
                rw [a2] at this; simpa using this
              have hce : c = tl.take lb.toNat := by
                rw [← hc]
                show ((t0 :: lb :: tl).take (lb.toNat + 2)).drop 2 = _
                simp [List.take]
              have hcl : c.length = lb.toNat := by
                rw [hce]; simp [List.length_take]; omega
              unfold encTLV encLen
              simp only [hcl, hlb, if_true, ofNat_toNat]
              rw [hce, ← hrest]
              show t0 :: lb :: tl = t0 :: ([lb] ++ tl.take lb.toNat) ++ (t0 :: lb :: tl).drop (lb.toNat + 2)
              simp
          · simp only [hshort, if_false] at hr
            cases hll : longLen (lb &&& 0x7f).toNat tl with
            | none => rw [hll] at hr; simp at hr
            | some v =>
              rw [hll] at hr
              simp only at hr
              exfalso
              have hv : 128 ≤ v := by
                unfold longLen at hll
                repeat' split at hll
                all_goals try (cases hll; done)
                simp only [Option.some.injEq] at hll
                omega
              split at hr
              · cases hr
              · next hlen => simp only [List.length_cons] at hlen hl; omega
    · simp [ht] at h

theorem readIntegerBytes_short (s digits rest : Bytes) (hl : s.length < 130)
    (h : readIntegerBytes s = some (digits, rest)) : s = encInt (beNat digits) ++ rest := by
  unfold readIntegerBytes at h
  cases hr : readASN1 0x02 s with
  | none => rw [hr] at h; cases h
  | some p =>
    obtain ⟨c, rest'⟩ := p
    rw [hr] at h
    simp only at h
    have hs := readASN1_short 0x02 s c rest' hl hr
    by_cases hchk : checkASN1Integer c = true
    · simp only [hchk, Bool.not_true, Bool.false_eq_true, if_false] at h
      match c, hchk, h, hs with
      | [], hchk, _, _ => simp [checkASN1Integer] at hchk
      | b0 :: tl, hchk, h, hs =>
        simp only at h
        by_cases hn : (b0 &&& 0x80 == 0x80) = true
        · simp [hn] at h
        · simp only [hn, Bool.false_eq_true, if_false, Option.some.injEq, Prod.mk.injEq] at h
          obtain ⟨hd, hrest⟩ := h
          subst hd hrest
          have := intContent_of_content (b0 :: tl) hchk (by
            intro b r e; cases e; simpa using hn)
          unfold encInt
          rw [this]; exact hs
    · simp [hchk] at h

/-- **Uniqueness of the accepted encoding** (signatures of fewer than 130 bytes; P-256 signatures have at most
72): a byte string `parseSignature` accepts IS the specification's minimal DER encoding of the numbers read. -/
theorem parse_unique (sig rb sb : Bytes) (hl : sig.length < 130) (h : parseSignature sig = some (rb, sb)) :
    sig = encSig (beNat rb) (beNat sb) := by
  unfold parseSignature at h
  cases h0 : readASN1 0x30 sig with
  | none => rw [h0] at h; cases h
  | some p =>
    obtain ⟨inner, rest⟩ := p
    rw [h0] at h
    simp only at h
    have hs := readASN1_short 0x30 sig inner rest hl h0
    by_cases hre : rest.isEmpty = true
    · simp only [hre, Bool.not_true, Bool.false_eq_true, if_false] at h
      have hrest : rest = [] := List.isEmpty_iff.mp hre
      subst hrest
      have hil : inner.length < 130 := by
        have := congrArg List.length hs
        simp only [encTLV, List.length_append, List.length_cons, List.length_nil] at this
        omega
      cases h1 : readIntegerBytes inner with
      | none => rw [h1] at h; cases h
      | some p1 =>
        obtain ⟨r1, i2⟩ := p1
        rw [h1] at h
        simp only at h
        have hs1 := readIntegerBytes_short inner r1 i2 hil h1
        have hi2 : i2.length < 130 := by
          have := congrArg List.length hs1
          simp only [List.length_append] at this
          omega
        cases h2 : readIntegerBytes i2 with
        | none => rw [h2] at h; cases h
        | some p2 =>
          obtain ⟨s1, i3⟩ := p2
          rw [h2] at h
          simp only at h
          have hs2 := readIntegerBytes_short i2 s1 i3 hi2 h2
          by_cases h3 : i3.isEmpty = true
          · simp only [h3, if_true, Option.some.injEq, Prod.mk.injEq] at h
            obtain ⟨e1, e2⟩ := h
            subst e1 e2
            have : i3 = [] := List.isEmpty_iff.mp h3
            subst this
            unfold encSig
            rw [hs, hs1, hs2]; simp
          · simp [h3] at h
    · simp [hre] at h

end Nebula.Lemmas.P256TwinUnique
