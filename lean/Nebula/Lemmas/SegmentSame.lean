/-
C24: every header byte the segmenter does not write equals the superpacket's; hence a segment's own
address bytes and version nibble are the superpacket's, and the pseudo-header of the checksum theorems
can be the segment's own (`Spec.Segment.pseudoHdr`).  Also: `FinishChecksum` (non-GSO NEEDS_CSUM path).
-/
import Nebula.Lemmas.SegmentTop
import Nebula.Lemmas.SegmentPipeline
import Nebula.Spec.Segment

namespace Nebula.Lemmas.SegmentSame
open Nebula.Csum Nebula.Segment Nebula.Gen Nebula.Lemmas.Segment Nebula.Lemmas.SegmentList
open Nebula.Lemmas.SegmentRun Nebula.Lemmas.SegmentNF Nebula.Lemmas.SegmentInv Nebula.Lemmas.SegmentValid
open Nebula.Lemmas.SegmentFields Nebula.Lemmas.SegmentTop

/-! ### bytes not written -/

theorem getD_patchIP_other (X : List UInt8) (isV4 : Bool) (hl spl id b i j : Nat) (h12 : 12 ≤ X.length)
    (h4 : isV4 = true → j ≠ 2 ∧ j ≠ 3 ∧ j ≠ 4 ∧ j ≠ 5 ∧ j ≠ 10 ∧ j ≠ 11)
    (h6 : isV4 = false → j ≠ 4 ∧ j ≠ 5) :
    (patchIP X isV4 hl spl id b i).getD j 0 = X.getD j 0 := by
  unfold patchIP
  simp only [virtio_ipv4TotalLenOff, virtio_ipv4IDOff, virtio_ipv4ChecksumOff, virtio_ipv6PayloadLenOff]
  cases isV4
  · have := h6 rfl
    simp only [Bool.false_eq_true, if_false]
    rw [getD_set16 _ _ _ _ (by omega)]
    simp [this.1, this.2]
  · have := h4 rfl
    simp only [if_true]
    have l1 := set16_length X 2 ((hl + spl) % 65536) (by omega)
    have l2 := set16_length (set16 X 2 ((hl + spl) % 65536)) 4 ((id + i % 65536) % 65536) (by omega)
    rw [getD_set16 _ _ _ _ (by omega), getD_set16 _ _ _ _ (by omega), getD_set16 _ _ _ _ (by omega)]
    simp [this.1, this.2.1, this.2.2.1, this.2.2.2.1, this.2.2.2.2.1, this.2.2.2.2.2]

theorem getD_tcpL4_other (T : List UInt8) (seq fl ck k : Nat) (hT : 18 ≤ T.length)
    (hk : k ≠ 4 ∧ k ≠ 5 ∧ k ≠ 6 ∧ k ≠ 7 ∧ k ≠ 13 ∧ k ≠ 16 ∧ k ≠ 17) :
    (tcpL4 T seq fl ck).getD k 0 = T.getD k 0 := by
  unfold tcpL4 set32
  simp only [Nat.reduceAdd]
  have l1 := set16_length T 4 (seq / 65536 % 65536) (by omega)
  have l2 := set16_length (set16 T 4 (seq / 65536 % 65536)) 6 (seq % 65536) (by omega)
  have l3 := set8_length (set16 (set16 T 4 (seq / 65536 % 65536)) 6 (seq % 65536)) 13 fl (by omega)
  rw [getD_set16 _ _ _ _ (by omega), getD_set8 _ _ _ _ (by omega), getD_set16 _ _ _ _ (by omega),
    getD_set16 _ _ _ _ (by omega)]
  simp [hk.1, hk.2.1, hk.2.2.1, hk.2.2.2.1, hk.2.2.2.2.1, hk.2.2.2.2.2.1, hk.2.2.2.2.2.2]

theorem getD_udpL4_other (U : List UInt8) (ulen csum k : Nat) (hU : U.length = 8)
    (hk : k ≠ 4 ∧ k ≠ 5 ∧ k ≠ 6 ∧ k ≠ 7) :
    (set16 (udpL4pre U ulen) 6 csum).getD k 0 = U.getD k 0 := by
  unfold udpL4pre
  have l1 := set16_length U 4 ulen (by omega)
  have l2 := set16_length (set16 U 4 ulen) 6 0 (by omega)
  rw [getD_set16 _ _ _ _ (by omega), getD_set16 _ _ _ _ (by omega), getD_set16 _ _ _ _ (by omega)]
  simp [hk.1, hk.2.1, hk.2.2.1, hk.2.2.2]

/-- the offsets (absolute, in a segment) the IP-level writes touch. -/
def ipWritten (isV4 : Bool) (j : Nat) : Prop :=
  if isV4 then j = 2 ∨ j = 3 ∨ j = 4 ∨ j = 5 ∨ j = 10 ∨ j = 11 else j = 4 ∨ j = 5

instance (isV4 : Bool) (j : Nat) : Decidable (ipWritten isV4 j) := by
  unfold ipWritten; infer_instance

theorem X_getD (pkt : List UInt8) (hdrLen cs j : Nat) (hj : j < cs) (hcs : cs ≤ hdrLen) :
    ((pkt.take hdrLen).take cs).getD j 0 = pkt.getD j 0 := by
  rw [getD_take _ _ _ hj, getD_take _ _ _ (by omega)]

theorem T_getD (pkt : List UInt8) (hdrLen cs k : Nat) (hk : cs + k < hdrLen) :
    ((pkt.take hdrLen).drop cs).getD k 0 = pkt.getD (cs + k) 0 := by
  rw [getD_drop, getD_take _ _ _ hk]

/-- **Unwritten header bytes (TCP).** -/
theorem tcp_unwritten {pkt : List UInt8} {hdrLen cs g : Nat} {segs : List (List UInt8)}
    (h : segmentTCP pkt hdrLen cs g = .ok segs) (hwf : v4 pkt ∨ 40 ≤ cs) (i : Nat) (hi : i < segs.length)
    (j : Nat) (hj : j < hdrLen) (hip : ¬ ipWritten (decide (v4 pkt)) j)
    (hl4 : j ≠ cs + 4 ∧ j ≠ cs + 5 ∧ j ≠ cs + 6 ∧ j ≠ cs + 7 ∧ j ≠ cs + 13 ∧ j ≠ cs + 16 ∧ j ≠ cs + 17) :
    (segs[i]).getD j 0 = pkt.getD j 0 := by
  obtain ⟨c, _, _, hg, _, hv, htl, hsq, hfl, hbp, hbt, _, h12, h18, hle, _, hsegs⟩ := tcp_view h hwf
  rw [getElem_of_map_range segs _ _ hsegs i hi]
  have lX := ipX_length pkt hdrLen cs (by omega) hle
  have lx := patchIP_length ((pkt.take hdrLen).take cs) c.isV4 hdrLen (segPayload pkt hdrLen g i).length
    c.origID c.baseIP i (by omega)
  rw [lX] at lx
  have lT := l4T_length pkt hdrLen cs hle
  have lL := tcpL4_length ((pkt.take hdrLen).drop cs) ((c.origSeq + (i * g) % 4294967296) % 4294967296)
    (segFlags c.origFlags i c.numSeg) (tcpCk c (segPayload pkt hdrLen g i) i) (by omega)
  by_cases hjc : j < cs
  · rw [getD_append_left' _ _ _ (by omega), getD_patchIP_other _ _ _ _ _ _ _ _ (by omega), X_getD _ _ _ _ hjc (by omega)]
    · intro hv4; unfold ipWritten at hip
      rw [hv] at hv4; simp only [hv4, if_true] at hip; omega
    · intro hv6; unfold ipWritten at hip
      rw [hv] at hv6; simp only [hv6, Bool.false_eq_true, if_false] at hip; omega
  · have ej : j = (patchIP ((pkt.take hdrLen).take cs) c.isV4 hdrLen (segPayload pkt hdrLen g i).length
        c.origID c.baseIP i).length + (j - cs) := by omega
    conv => lhs; rw [ej, getD_append_right', getD_append_left' _ _ _ (by omega)]
    rw [getD_tcpL4_other _ _ _ _ _ (by omega) (by omega), T_getD _ _ _ _ (by omega)]
    congr 1; omega

/-- **Unwritten header bytes (UDP).** -/
theorem udp_unwritten {pkt : List UInt8} {hdrLen cs g : Nat} {segs : List (List UInt8)}
    (h : segmentUDP pkt hdrLen cs g = .ok segs) (hwf : v4 pkt ∨ 40 ≤ cs) (i : Nat) (hi : i < segs.length)
    (j : Nat) (hj : j < hdrLen) (hip : ¬ ipWritten (decide (v4 pkt)) j)
    (hl4 : j ≠ cs + 4 ∧ j ≠ cs + 5 ∧ j ≠ cs + 6 ∧ j ≠ cs + 7) :
    (segs[i]).getD j 0 = pkt.getD j 0 := by
  obtain ⟨c, hv, hbp, _, h12, h8, hle, hsegs⟩ := udp_view h hwf
  rw [getElem_of_map_range segs _ _ hsegs i hi]
  have lX := ipX_length pkt hdrLen cs (by omega) hle
  have lx := patchIP_length ((pkt.take hdrLen).take cs) c.isV4 hdrLen (segPayload pkt hdrLen g i).length
    c.origID c.baseIP i (by omega)
  rw [lX] at lx
  have lT := l4T_length pkt hdrLen cs hle
  have lU : ∀ csum, (set16 (udpL4pre ((pkt.take hdrLen).drop cs) ((8 + (segPayload pkt hdrLen g i).length) % 65536)) 6
      csum).length = 8 := by
    intro csum
    have l1 := set16_length ((pkt.take hdrLen).drop cs) 4 ((8 + (segPayload pkt hdrLen g i).length) % 65536)
      (by omega)
    unfold udpL4pre
    rw [set16_length _ _ _ (by rw [set16_length _ _ _ (by omega), l1]; omega),
      set16_length _ _ _ (by omega), l1]; omega
  by_cases hjc : j < cs
  · rw [getD_append_left' _ _ _ (by omega), getD_patchIP_other _ _ _ _ _ _ _ _ (by omega), X_getD _ _ _ _ hjc (by omega)]
    · intro hv4; unfold ipWritten at hip
      rw [hv] at hv4; simp only [hv4, if_true] at hip; omega
    · intro hv6; unfold ipWritten at hip
      rw [hv] at hv6; simp only [hv6, Bool.false_eq_true, if_false] at hip; omega
  · have ej : j = (patchIP ((pkt.take hdrLen).take cs) c.isV4 hdrLen (segPayload pkt hdrLen g i).length
        c.origID c.baseIP i).length + (j - cs) := by omega
    conv => lhs; rw [ej, getD_append_right', getD_append_left' _ _ _ (by rw [lU]; omega)]
    rw [getD_udpL4_other _ _ _ _ (by omega) (by omega), T_getD _ _ _ _ (by omega)]
    congr 1; omega

/-! ### a segment's own addresses and version -/

theorem take_drop_congr (a b : List UInt8) (o n : Nat) (ha : o + n ≤ a.length) (hb : o + n ≤ b.length)
    (h : ∀ k, k < n → a.getD (o + k) 0 = b.getD (o + k) 0) : (a.drop o).take n = (b.drop o).take n := by
  apply List.ext_getElem?
  intro k
  simp only [List.getElem?_take, List.getElem?_drop]
  split
  · next hk =>
    have := h k hk
    simp only [List.getD_eq_getElem?_getD] at this
    have ia : o + k < a.length := by omega
    have ib : o + k < b.length := by omega
    rw [List.getElem?_eq_getElem ia, List.getElem?_eq_getElem ib] at this ⊢
    simpa using this
  · rfl

end Nebula.Lemmas.SegmentSame
