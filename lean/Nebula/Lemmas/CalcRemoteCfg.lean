/- Helper lemmas for the configuration path of calculated remotes (C48). Core Lean only. -/
import Nebula.Model.CalcRemoteCfg
import Nebula.Spec.CalcRemoteCfg
import Nebula.Lemmas.CalcRemote

namespace Nebula.Lemmas.CalcRemoteCfg
open Nebula.CalcRemote Nebula.Spec.CalcRemote Nebula.Net Nebula.Lemmas.CalcRemote

/-- the `calculatedRemote` the code builds for a specification entry. -/
def crOfEntry (e : Entry) : CR := { ipNet := e.mask, mask := e.mask.masked, port := e.port }

theorem parsePfx_ok (p : Prefix) : parsePfx (.ok p) = if pfxOK p then some p else none := by
  simp only [parsePfx, pfxOK]
  by_cases h1 : p.addr.val < 2 ^ p.addr.fam.bits <;> by_cases h2 : p.len ≤ p.addr.fam.bits <;> simp [h1, h2]

theorem new_eq (cidr m : Prefix) (n : Int) :
    newCalculatedRemote cidr m n =
      if decide (m.addr.fam = cidr.addr.fam) && decide (0 ≤ n) && decide (n ≤ 65535) then
        .ok { ipNet := m, mask := m.masked, port := n.toNat }
      else if m.addr.fam = cidr.addr.fam then .error .port else .error .family := by
  unfold newCalculatedRemote
  by_cases hf : m.addr.fam = cidr.addr.fam
  · have hb : (m.addr.fam.bits != cidr.addr.fam.bits) = false := by simp [hf]
    simp only [hb, hf, decide_true, Bool.true_and, if_true, Bool.false_eq_true, if_false]
    by_cases h0 : 0 ≤ n
    · by_cases h1 : n ≤ 65535
      · have : ¬ (n < 0 ∨ n > 65535) := by omega
        simp [h0, h1, this]
      · have : (n < 0 ∨ n > 65535) := by omega
        simp [h1, this]
    · have : (n < 0 ∨ n > 65535) := by omega
      simp [h0, this]
  · have hb : (m.addr.fam.bits != cidr.addr.fam.bits) = true := by
      simp only [bne_iff_ne, ne_eq]
      intro h; exact hf (fam_eq_of_bits h)
    simp [hb, hf]

/-- item level: the code accepts exactly the specification's entries and builds their `calculatedRemote`. -/
theorem entryFromConfig_eq (cidr : Prefix) (it : ItemV) :
    entryFromConfig cidr it = (itemEntry cidr it).map crOfEntry := by
  cases it with
  | nonMap v => rfl
  | entry mask port =>
    cases mask with
    | missing v => cases port <;> rfl
    | nonString v => cases port <;> rfl
    | str ps =>
      cases ps with
      | bad v => cases port <;> rfl
      | ok m =>
        cases port with
        | missing v => simp only [entryFromConfig, parsePfx_ok, itemEntry]; split <;> rfl
        | strBad v => simp only [entryFromConfig, parsePfx_ok, itemEntry]; split <;> rfl
        | other v => simp only [entryFromConfig, parsePfx_ok, itemEntry]; split <;> rfl
        | int n =>
          simp only [entryFromConfig, parsePfx_ok, itemEntry, new_eq]
          by_cases hp : pfxOK m = true <;> by_cases hf : m.addr.fam = cidr.addr.fam <;>
            by_cases h0 : 0 ≤ n <;> by_cases h1 : n ≤ 65535 <;> simp [hp, hf, h0, h1, crOfEntry]
        | str n =>
          simp only [entryFromConfig, parsePfx_ok, itemEntry, new_eq]
          by_cases hp : pfxOK m = true <;> by_cases hf : m.addr.fam = cidr.addr.fam <;>
            by_cases h0 : 0 ≤ n <;> by_cases h1 : n ≤ 65535 <;> simp [hp, hf, h0, h1, crOfEntry]

theorem itemsFromConfig_eq (cidr : Prefix) (items : List ItemV) :
    itemsFromConfig cidr items = (allSome (items.map (itemEntry cidr))).map (·.map crOfEntry) := by
  induction items with
  | nil => rfl
  | cons it rest ih =>
    simp only [itemsFromConfig, entryFromConfig_eq, ih, List.map_cons]
    cases h1 : itemEntry cidr it with
    | none => simp [allSome]
    | some e =>
      cases h2 : allSome (rest.map (itemEntry cidr)) with
      | none => simp [allSome, h2]
      | some l => simp [allSome, h2]

/-- inserting the ranges of a configuration one after the other. -/
def insertAll (t : Table) (rs : List (Prefix × List Entry)) : Table :=
  rs.foldl (fun t r => tableInsert t r.1 (r.2.map crOfEntry)) t

theorem mapFromConfig_eq (es : List (PfxV × EntV)) (t : Table) :
    mapFromConfig es t = (allSome (es.map rangeEntries)).map (insertAll t) := by
  induction es generalizing t with
  | nil => rfl
  | cons kv rest ih =>
    obtain ⟨k, v⟩ := kv
    cases k with
    | bad b => simp [mapFromConfig, parsePfx, rangeEntries, allSome]
    | ok cidr =>
      cases v with
      | nonList b =>
        simp only [mapFromConfig, parsePfx_ok, List.map_cons, rangeEntries, allSome]
        split <;> simp [listFromConfig]
      | list items =>
        simp only [mapFromConfig, parsePfx_ok, List.map_cons, rangeEntries, listFromConfig, itemsFromConfig_eq]
        by_cases hp : pfxOK cidr = true
        · simp only [hp, if_true]
          cases h : allSome (items.map (itemEntry cidr)) with
          | none => simp [allSome]
          | some l =>
            simp only [Option.map_some, allSome, ih]
            cases allSome (rest.map rangeEntries) <;> simp [insertAll]
        · simp [hp, allSome]

/-- `NewCalculatedRemotesFromConfig` in terms of the specification: it fails exactly on what is not a configuration,
returns nil when nothing is configured, and otherwise the table of the configuration's ranges. -/
theorem fromConfig_eq (c : CfgV) :
    fromConfig c = match cfgRanges c with
      | none => .error ()
      | some none => .ok none
      | some (some rs) => .ok (some (insertAll [] rs)) := by
  cases c with
  | absent => rfl
  | nonMap v => rfl
  | map es =>
    simp only [fromConfig, mapFromConfig_eq, cfgRanges]
    cases allSome (es.map rangeEntries) <;> rfl

theorem fromConfig_ok_iff (c : CfgV) : (∃ t, fromConfig c = .ok t) ↔ cfgValid c = true := by
  rw [fromConfig_eq, cfgValid]
  cases h : cfgRanges c with
  | none => simp
  | some o => cases o <;> simp

/-- what a table built by `insertAll` contains. -/
theorem mem_insertAll (rs : List (Prefix × List Entry)) (t : Table) (p : Prefix) (crs : List CR)
    (h : (p, crs) ∈ insertAll t rs) :
    (p, crs) ∈ t ∨ ∃ r ∈ rs, p = r.1.masked ∧ crs = r.2.map crOfEntry := by
  induction rs generalizing t with
  | nil => exact .inl h
  | cons r rest ih =>
    simp only [insertAll, List.foldl_cons] at h
    rcases ih _ h with h1 | ⟨r', hr', e⟩
    · simp only [tableInsert, List.mem_append, List.mem_filter, List.mem_singleton] at h1
      rcases h1 with h1 | h1
      · exact .inl h1.1
      · exact .inr ⟨r, by simp, by cases h1; exact ⟨rfl, rfl⟩⟩
    · exact .inr ⟨r', by simp [hr'], e⟩

theorem allSome_mem {α : Type} (l : List (Option α)) (out : List α) (h : allSome l = some out) :
    ∀ x ∈ out, some x ∈ l := by
  induction l generalizing out with
  | nil => simp [allSome] at h; subst h; simp
  | cons o rest ih =>
    cases o with
    | none => simp [allSome] at h
    | some a =>
      simp only [allSome, Option.map_eq_some_iff] at h
      obtain ⟨l', hl, rfl⟩ := h
      intro x hx
      simp only [List.mem_cons] at hx
      rcases hx with rfl | hx
      · simp
      · exact List.mem_cons_of_mem _ (ih l' hl x hx)

/-- the entries the specification reads out of one list element. -/
theorem itemEntry_fields (cidr : Prefix) (it : ItemV) (e : Entry) (h : itemEntry cidr it = some e) :
    e.cidr = cidr ∧ pfxOK e.mask = true ∧ e.mask.addr.fam = cidr.addr.fam ∧ e.port ≤ 65535 := by
  unfold itemEntry at h
  split at h
  · split at h
    · rename_i hc
      cases h
      simp only [Bool.and_eq_true, decide_eq_true_eq] at hc
      exact ⟨rfl, hc.1.1.1, hc.1.1.2, by simp only []; omega⟩
    · cases h
  · split at h
    · rename_i hc
      cases h
      simp only [Bool.and_eq_true, decide_eq_true_eq] at hc
      exact ⟨rfl, hc.1.1.1, hc.1.1.2, by simp only []; omega⟩
    · cases h
  · cases h

theorem rangeEntries_fields (kv : PfxV × EntV) (r : Prefix × List Entry) (h : rangeEntries kv = some r) :
    ∀ e ∈ r.2, e.cidr = r.1 ∧ pfxOK e.mask = true ∧ e.mask.addr.fam = r.1.addr.fam ∧ e.port ≤ 65535 := by
  obtain ⟨k, v⟩ := kv
  cases k with
  | bad b => simp [rangeEntries] at h
  | ok cidr =>
    cases v with
    | nonList b => simp [rangeEntries] at h
    | list items =>
      simp only [rangeEntries] at h
      split at h
      · simp only [Option.map_eq_some_iff] at h
        obtain ⟨l, hl, rfl⟩ := h
        intro e he
        have := allSome_mem _ _ hl e he
        obtain ⟨it, _, hit⟩ := List.mem_map.mp this
        exact itemEntry_fields cidr it e hit
      · cases h

/-- a table built from a configuration: every (key, remotes) row is a range of the configuration (key = the range
masked), its remotes are the `calculatedRemote`s of that range's entries, and these are entries of the
configuration. -/
theorem fromConfig_rows (c : CfgV) (t : Table) (h : fromConfig c = .ok (some t)) (p : Prefix) (crs : List CR)
    (hm : (p, crs) ∈ t) :
    ∃ (cidr : Prefix) (es : List Entry), p = cidr.masked ∧ crs = es.map crOfEntry ∧
      (∀ e ∈ es, e ∈ cfgEntries c ∧ e.cidr = cidr ∧ pfxOK e.mask = true ∧ e.mask.addr.fam = cidr.addr.fam ∧
        e.port ≤ 65535) := by
  rw [fromConfig_eq] at h
  cases hc : cfgRanges c with
  | none => rw [hc] at h; cases h
  | some o =>
    cases o with
    | none => rw [hc] at h; cases h
    | some rs =>
      rw [hc] at h
      simp only [Except.ok.injEq, Option.some.injEq] at h
      subst h
      rcases mem_insertAll rs [] p crs hm with h1 | ⟨r, hr, e1, e2⟩
      · simp at h1
      · refine ⟨r.1, r.2, e1, e2, ?_⟩
        intro e he
        have hent : e ∈ cfgEntries c := by
          simp only [cfgEntries, hc, List.mem_flatMap]
          exact ⟨r, hr, he⟩
        -- the range comes out of `rangeEntries`
        cases c with
        | absent => simp [cfgRanges] at hc
        | nonMap v => simp [cfgRanges] at hc
        | map es =>
          simp only [cfgRanges, Option.map_eq_some_iff] at hc
          obtain ⟨rs', hrs, e3⟩ := hc
          cases e3
          have := allSome_mem _ _ hrs r hr
          obtain ⟨kv, _, hkv⟩ := List.mem_map.mp this
          exact ⟨hent, rangeEntries_fields kv r hkv e he⟩

theorem topBits_masked (f : Fam) (v len : Nat) :
    topBits f (topBits f v len <<< (f.bits - len)) len = topBits f v len := by
  simp only [topBits, Nat.shiftLeft_eq, Nat.shiftRight_eq_div_pow]
  rw [Nat.mul_div_cancel _ (Nat.pow_pos (by decide))]

theorem masked_contains (p : Prefix) (a : Addr) : p.masked.contains a = p.contains a := by
  obtain ⟨⟨pf, pv⟩, pl⟩ := p
  obtain ⟨af, av⟩ := a
  have h46 : (Fam.v4 == Fam.v6) = false := rfl
  have h64 : (Fam.v6 == Fam.v4) = false := rfl
  cases pf <;> cases af <;> simp only [Prefix.contains, Prefix.masked, topBits_masked, h46, h64, Bool.false_and] <;> rfl

theorem not_valid_of_error (c : CfgV) (e : Unit) (h : fromConfig c = .error e) : cfgValid c = false := by
  cases hv : cfgValid c with
  | false => rfl
  | true => obtain ⟨t, ht⟩ := (fromConfig_ok_iff c).mpr hv; rw [h] at ht; cases ht

/-- The invariant that links the code's state to the specification's configuration in force: the table is the one
`NewCalculatedRemotesFromConfig` builds for the configuration in force, and whenever the value remembered for
`HasChanged` is itself a configuration, it is the one the table was built from. -/
def Inv (s : Option LHState) (f : Option CfgV) : Prop :=
  match s, f with
  | none, none => True
  | some st, some cfg => fromConfig cfg = .ok st.tbl ∧ ∀ t, fromConfig st.prev = .ok t → t = st.tbl
  | _, _ => False

theorem inv_step (s : Option LHState) (f : Option CfgV) (op : CfgOp) (h : Inv s f)
    (hr : op.reachesBlock = true) : Inv (cfgRun1 s op).1 (inForce1 f op) := by
  cases op with
  | reloadEarlierErr c => cases hr
  | load c =>
    simp only [cfgRun1, cfgStep, Bool.true_or, if_true, inForce1]
    cases hc : fromConfig c with
    | error e => simp [not_valid_of_error c e hc, Inv]
    | ok t =>
      have hv : cfgValid c = true := (fromConfig_ok_iff c).mp ⟨t, hc⟩
      simp [hv, Inv, hc]
  | reload c =>
    match s, f, h with
    | none, none, _ => simp [cfgRun1, inForce1, Inv]
    | some st, some cfg, ⟨h1, h2⟩ =>
      simp only [cfgRun1, inForce1, cfgStep, Bool.false_or]
      by_cases hch : hasChanged st.prev c = true
      · simp only [hch, if_true]
        cases hc : fromConfig c with
        | error e => simp [not_valid_of_error c e hc, Inv, h1, hc]
        | ok t =>
          have hv : cfgValid c = true := (fromConfig_ok_iff c).mp ⟨t, hc⟩
          simp [hv, Inv, hc]
      · have heq : st.prev = c := by simpa [hasChanged] using hch
        simp only [hch]
        subst heq
        cases hv : cfgValid st.prev with
        | false => simpa [Inv, h1] using h2
        | true =>
          obtain ⟨t, ht⟩ := (fromConfig_ok_iff _).mpr hv
          have := h2 t ht
          subst this
          simpa [Inv, ht] using h2

theorem inv_run (ops : List CfgOp) (s : Option LHState) (f : Option CfgV) (h : Inv s f)
    (hr : ∀ op ∈ ops, op.reachesBlock = true) : Inv (cfgRun s ops) (inForce f ops) := by
  induction ops generalizing s f with
  | nil => exact h
  | cons op rest ih =>
    exact ih _ _ (inv_step s f op h (hr op (by simp))) (fun o ho => hr o (by simp [ho]))

end Nebula.Lemmas.CalcRemoteCfg
