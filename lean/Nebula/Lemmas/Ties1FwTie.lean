/-
Tie of the conntrack timeout arithmetic (C18) to firewall.go regenerated from source: the timer-wheel bounds
`tmin` / `tmax` computed at the top of `NewFirewall` and the per-protocol timeout `addConn` selects.
-/
import Nebula.Model.Conntrack
import Nebula.Gen.tie_ties1_fw

namespace Nebula.Lemmas.Ties1FwTie
open Nebula.Gen Nebula.Fw

theorem toInt_ofNat_small (a : Nat) (ha : a < 2 ^ 63) : (BitVec.ofNat 64 a).toInt = a := by
  rw [BitVec.toInt_eq_toNat_cond]; simp only [BitVec.toNat_ofNat]; omega

theorem toNat_ofNat_small (a : Nat) (ha : a < 2 ^ 63) : (BitVec.ofNat 64 a).toNat = a := by
  simp only [BitVec.toNat_ofNat]; omega

theorem slt_ofNat (a b : Nat) (ha : a < 2 ^ 63) (hb : b < 2 ^ 63) :
    BitVec.slt (BitVec.ofNat 64 a) (BitVec.ofNat 64 b) = decide (a < b) := by
  simp only [BitVec.slt, toInt_ofNat_small a ha, toInt_ofNat_small b hb]
  simp

/-- `time.Duration` values are `int64`; for non-negative ones (every configured timeout) the signed comparisons of
`NewFirewall` are the model's comparisons of naturals. -/
theorem wheelBounds_eq (tcp udp dflt : Nat) (h1 : tcp < 2 ^ 63) (h2 : udp < 2 ^ 63) (h3 : dflt < 2 ^ 63) :
    ((tie_ties1_fw_tmin (BitVec.ofNat 64 tcp) (BitVec.ofNat 64 udp) (BitVec.ofNat 64 dflt)).toNat,
     (tie_ties1_fw_tmax (BitVec.ofNat 64 tcp) (BitVec.ofNat 64 udp) (BitVec.ofNat 64 dflt)).toNat)
      = wheelBounds tcp udp dflt := by
  unfold tie_ties1_fw_tmin tie_ties1_fw_tmax wheelBounds
  simp only [slt_ofNat tcp udp h1 h2]
  by_cases c1 : tcp < udp
  · simp only [c1, decide_true, if_true, slt_ofNat dflt tcp h3 h1, slt_ofNat udp dflt h2 h3]
    by_cases c2 : dflt < tcp
    · simp [c2]; omega
    · by_cases c3 : udp < dflt
      · simp [c2, c3]; omega
      · simp [c2, c3]; omega
  · simp only [c1, decide_false, if_false, Bool.false_eq_true, slt_ofNat dflt udp h3 h2, slt_ofNat tcp dflt h1 h3]
    by_cases c2 : dflt < udp
    · simp [c2]; omega
    · by_cases c3 : tcp < dflt
      · simp [c2, c3]; omega
      · simp [c2, c3]; omega

theorem timeoutFor_eq (fw : Fw) (proto : Nat) (hp : proto < 256)
    (h1 : fw.tcpTimeout < 2 ^ 63) (h2 : fw.udpTimeout < 2 ^ 63) (h3 : fw.defaultTimeout < 2 ^ 63) :
    (tie_ties1_fw_addConn_timeout (BitVec.ofNat 8 proto) (BitVec.ofNat 8 Gen.firewall_ProtoTCP)
        (BitVec.ofNat 8 Gen.firewall_ProtoUDP) (BitVec.ofNat 64 fw.tcpTimeout) (BitVec.ofNat 64 fw.udpTimeout)
        (BitVec.ofNat 64 fw.defaultTimeout)).toNat = fw.timeoutFor proto := by
  unfold tie_ties1_fw_addConn_timeout Fw.timeoutFor
  simp only [Gen.firewall_ProtoTCP, Gen.firewall_ProtoUDP]
  by_cases c1 : proto = 6
  · subst c1; simp; omega
  · by_cases c2 : proto = 17
    · subst c2; simp; omega
    · have e1 : (BitVec.ofNat 8 proto == 6#8) = false := by
        simp [BitVec.toNat_eq]; omega
      have e2 : (BitVec.ofNat 8 proto == 17#8) = false := by
        simp [BitVec.toNat_eq]; omega
      simp [e1, e2, c1, c2]; omega

end Nebula.Lemmas.Ties1FwTie
