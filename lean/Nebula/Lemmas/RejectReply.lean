/-
Lemmas for C21, part 2: headers of the replies.
-/
import Nebula.Lemmas.RejectBase

namespace Nebula.Lemmas.Reject
open Nebula.Pkt Nebula.Reject Nebula.Spec.IP Nebula.Spec.PktCsum Nebula.Spec.Reject
open Nebula.Lemmas.PktParse Nebula.Lemmas.PktCsum

theorem v4Header_length (outLen proto : Nat) (src dst : List UInt8) (hs : src.length = 4) (hd : dst.length = 4) :
    (v4Header outLen proto src dst).length = 20 := by
  simp [v4Header, withCsum_length, put16, hs, hd]

theorem v4Header_be16_2 (outLen proto : Nat) (src dst rest : List UInt8) :
    be16 (v4Header outLen proto src dst ++ rest) 2 = outLen % 65536 := by
  simp [v4Header, withCsum, put16, be16, byte]
  omega

theorem v4Header_verifies (outLen proto : Nat) (src dst : List UInt8) (hs : src.length = 4) (hd : dst.length = 4) :
    verifies (v4Header outLen proto src dst) 0 = true := by
  apply withCsum_verifies
  · simp [put16]
  · have h1 := sum16_le ([0x45, 0] ++ put16 outLen ++ [0, 0, 0, 0, 64, UInt8.ofNat proto])
    have h2 := sum16_le (src ++ dst)
    have l1 : ([0x45, 0] ++ put16 outLen ++ [0, 0, 0, 0, 64, UInt8.ofNat proto]).length = 10 := by simp [put16]
    have l2 : (src ++ dst).length = 8 := by simp [hs, hd]
    rw [l1] at h1; rw [l2] at h2
    omega

theorem v4Header_take (outLen proto : Nat) (src dst rest : List UInt8) (hs : src.length = 4) (hd : dst.length = 4) :
    (v4Header outLen proto src dst ++ rest).take 20 = v4Header outLen proto src dst := by
  rw [List.take_left' (v4Header_length outLen proto src dst hs hd)]

/-- the reply's IPv6 header parses back -/
theorem parse_v6Header (pl proto : Nat) (src dst rest : List UInt8) (hs : src.length = 16) (hd : dst.length = 16)
    (hp : proto = 6 ∨ proto = 58) :
    parse (v6Header pl proto src dst ++ rest) =
      some { version := 6, src := src, dst := dst, proto := proto, hdrLen := 40, nonFirstFrag := false,
             anyFrag := false, upper := rest, nExt := 0 } := by
  have hlen : (v6Header pl proto src dst ++ rest).length = 40 + rest.length := by
    simp [v6Header, put16, hs, hd]; omega
  have h6 : byte (v6Header pl proto src dst ++ rest) 6 = proto := by
    rcases hp with rfl | rfl <;> simp [v6Header, put16, byte]
  have hd8 : (v6Header pl proto src dst ++ rest).drop 8 = src ++ (dst ++ rest) := by
    simp [v6Header, put16]
  have hsrc : ((v6Header pl proto src dst ++ rest).drop 8).take 16 = src := by
    rw [hd8, List.take_left' hs]
  have hd24 : (v6Header pl proto src dst ++ rest).drop 24 = dst ++ rest := by
    have : (24 : Nat) = 8 + 16 := rfl
    rw [this, ← List.drop_drop, hd8, List.drop_left' hs]
  have hdst : ((v6Header pl proto src dst ++ rest).drop 24).take 16 = dst := by
    rw [hd24, List.take_left' hd]
  have hd40 : (v6Header pl proto src dst ++ rest).drop 40 = rest := by
    have : (40 : Nat) = 24 + 16 := rfl
    rw [this, ← List.drop_drop, hd24, List.drop_left' hd]
  have hv : parse (v6Header pl proto src dst ++ rest) = parse6 (v6Header pl proto src dst ++ rest) := by
    simp [v6Header, parse]
  have hw : walk (rest.length + 1) proto rest 40 false 0 = .resolved proto 40 false false rest 0 := by
    apply walk_term <;> omega
  rw [hv]
  simp only [parse6, hlen, hd40, h6, hw, hsrc, hdst]
  simp

theorem v6Header_be16_4 (pl proto : Nat) (src dst rest : List UInt8) :
    be16 (v6Header pl proto src dst ++ rest) 4 = pl % 65536 := by
  simp [v6Header, put16, be16, byte]
  omega

theorem v6Header_length (pl proto : Nat) (src dst : List UInt8) (hs : src.length = 16) (hd : dst.length = 16) :
    (v6Header pl proto src dst).length = 40 := by
  simp [v6Header, put16, hs, hd]

/-- `slice` on a guarded range -/
theorem slice_ok (d : List UInt8) (a b : Nat) (h1 : a ≤ b) (h2 : b ≤ d.length) :
    slice d a b = .ok ((d.drop a).take (b - a)) := slice_eq d a b h1 h2

theorem shl2 (x : Nat) : x <<< 2 = x * 4 := by simp [Nat.shiftLeft_eq]

theorem unreach_body (c0 c1 : UInt8) (body : List UInt8) (init : Nat) :
    let u := withCsum [c0, c1] ([0, 0, 0, 0] ++ body) init
    byte u 0 = c0.toNat ∧ byte u 1 = c1.toNat ∧ u.drop 8 = body ∧ 8 ≤ u.length ∧ be32 u 4 = 0 := by
  simp [withCsum, put16, byte, be32, be16]

end Nebula.Lemmas.Reject
