import Nebula.Lemmas.DnsKnown

namespace Nebula.Lemmas.Dns
open Nebula.Net Nebula.Dns Nebula.Spec.Dns

def K (s : St) (n : Name) : Bool := hasKey s.map4 n || hasKey s.map6 n

/-- the specification's published-name state describes the responder's tables. -/
structure Pub (me : Self) (st : Bool × List Name) (s : St) : Prop where
  en : st.1 = s.enabled
  keys : ∀ n, st.2.contains n = K s n
  self_eq : s.self = me
  host : s.selfHost = [] ∨ ∃ name as, me = some (name, as) ∧ s.selfHost = lower name ++ ['.']

theorem contains_filter_ne (l : List Name) (k n : Name) :
    (l.filter (· != k)).contains n = (!(n == k) && l.contains n) := by
  rw [Bool.eq_iff_iff]
  simp [List.mem_filter, and_comm]

theorem pub_add {me : Self} {st : Bool × List Name} {s : St} (h : Pub me st s) (host : Name) (addrs : List Addr) :
    Pub me (if st.1 && !addrs.isEmpty then (st.1, lower host :: st.2) else st) (add s host addrs) := by
  unfold add
  cases hen : s.enabled
  · have h1 : st.1 = false := by rw [h.en, hen]
    simp only [Bool.not_false, if_true, h1, Bool.false_and, Bool.false_eq_true, if_false]
    exact h
  · have h1 : st.1 = true := by rw [h.en, hen]
    simp only [Bool.not_true, Bool.false_eq_true, if_false, h1, Bool.true_and]
    refine ⟨?_, ?_, h.self_eq, h.host⟩
    · split <;> simp [h1, hen]
    · intro n
      have := addLoop_published (lower host) addrs s.map4 s.map6 n
      simp only [K] at this ⊢
      rw [this]
      cases he : addrs.isEmpty
      · simp only [Bool.not_false, if_true, Bool.and_true, List.contains_cons]
        rw [h.keys n, K, Bool.or_comm]
      · simp only [Bool.not_true, Bool.false_eq_true, if_false, Bool.and_false, Bool.or_false]
        exact h.keys n

theorem pub_seed {me : Self} {st : Bool × List Name} {s : St} (h : Pub me st s) (hen : s.enabled = true)
    (name : Name) (as : List Addr) (hme : me = some (name, as)) :
    Pub me (true, if as.isEmpty then st.2.filter (· != lower name ++ ['.'])
                  else (lower name ++ ['.']) :: st.2.filter (· != lower name ++ ['.'])) (seedSelf s) := by
  have hself : s.self = some (name, as) := by rw [h.self_eq, hme]
  have hstale : (s.selfHost != [] && s.selfHost != lower name ++ ['.']) = false := by
    rcases h.host with e | ⟨name', as', e1, e2⟩
    · simp [e]
    · rw [hme] at e1
      injection e1 with e1
      injection e1 with e1 _
      subst e1
      simp [e2]
  unfold seedSelf
  simp only [hen, Bool.not_true, Bool.false_eq_true, if_false, hself, hstale]
  refine ⟨by simp [hen], ?_, hme.symm, Or.inr ⟨name, as, hme, rfl⟩⟩
  intro n
  have := addLoop_published (lower name ++ ['.']) as (s.map4.del (lower name ++ ['.'])) (s.map6.del (lower name ++ ['.'])) n
  simp only [K] at this ⊢
  rw [this, hasKey_del, hasKey_del]
  have hk := h.keys n
  simp only [K] at hk
  cases he : as.isEmpty
  · simp only [Bool.false_eq_true, if_false, List.contains_cons, contains_filter_ne, hk, Bool.not_false, Bool.and_true]
    cases (n == lower name ++ ['.']) <;> simp
  · simp only [if_true, contains_filter_ne, hk, Bool.not_true, Bool.and_false, Bool.or_false]
    cases (n == lower name ++ ['.']) <;> simp

theorem pub_apply {me : Self} {st : Bool × List Name} {s : St} (h : Pub me st s) (e : Ev) :
    Pub me (publishStep me st e) (apply s e) := by
  cases e with
  | hs k n as =>
    have := pub_add h (n ++ ['.']) as
    simp only [publishStep, apply, addHostInfo]
    exact ⟨this.en, this.keys, this.self_eq, this.host⟩
  | seed =>
    simp only [publishStep, apply]
    cases hen : s.enabled
    · have h1 : st.1 = false := by rw [h.en, hen]
      have : seedSelf s = s := by simp [seedSelf, hen]
      rw [this, h1]
      cases st with | mk a b => simp only at h1; subst h1; exact h
    · have h1 : st.1 = true := by rw [h.en, hen]
      cases me with
      | none =>
        have hs : s.self = none := h.self_eq
        have : seedSelf s = s := by simp [seedSelf, hen, hs]
        rw [this, h1]
        cases st with | mk a b => simp only at h1; subst h1; exact h
      | some p =>
        cases p with | mk name as =>
        rw [h1]
        exact pub_seed h hen name as rfl
  | disable =>
    simp only [publishStep, apply, clearRecords]
    exact ⟨rfl, fun n => by simp [K, hasKey, Tbl.get], h.self_eq, Or.inl rfl⟩
  | enable =>
    simp only [publishStep, apply]
    have h' : Pub me (true, st.2) { s with enabled := true } :=
      ⟨rfl, h.keys, h.self_eq, h.host⟩
    cases me with
    | none =>
      have hs : s.self = none := h.self_eq
      have : seedSelf { s with enabled := true } = { s with enabled := true } := by simp [seedSelf, hs]
      rw [this]; exact h'
    | some p =>
      cases p with | mk name as =>
      exact pub_seed h' rfl name as rfl

theorem pub_foldl {me : Self} (evs : List Ev) :
    ∀ (st : Bool × List Name) (s : St), Pub me st s → Pub me (evs.foldl (publishStep me) st) (evs.foldl apply s) := by
  induction evs with
  | nil => intro st s h; exact h
  | cons e es ih => intro st s h; exact ih _ _ (pub_apply h e)

/-- "Known name" of the specification (a certificate name seen in a handshake, or the own one, since
DNS was last disabled) is exactly "the responder holds an address record for it". -/
theorem known_eq_nameExists (me : Self) (evs : List Ev) (n : Name) :
    known me evs n = nameExists (run me evs) n := by
  have h0 : Pub me (true, []) (St.init me) :=
    ⟨rfl, fun n => by simp [K, hasKey, Tbl.get, St.init], rfl, Or.inl rfl⟩
  have := (pub_foldl evs _ _ h0).keys (lower n)
  simpa [known, published, run, K, hasKey, nameExists] using this

end Nebula.Lemmas.Dns
