import Nebula.Lemmas.DnsKnown

namespace Nebula.Lemmas.Dns
open Nebula.Net Nebula.Dns Nebula.Spec.Dns

def K (s : St) (n : Name) : Bool := hasKey s.map4 n || hasKey s.map6 n

/-- the specification's published-name state describes the responder's tables. -/
structure Pub (st : PubSt) (s : St) : Prop where
  en : st.en = s.enabled
  keys : ∀ n, st.names.contains n = K s n
  host : st.selfHost = s.selfHost
  cur : st.cur = s.self

theorem contains_filter_ne (l : List Name) (k n : Name) :
    (l.filter (· != k)).contains n = (!(n == k) && l.contains n) := by
  rw [Bool.eq_iff_iff]
  simp [List.mem_filter, and_comm]

theorem pub_add {st : PubSt} {s : St} (h : Pub st s) (host : Name) (addrs : List Addr) :
    Pub (if st.en && !addrs.isEmpty then { st with names := lower host :: st.names } else st) (add s host addrs) := by
  unfold add
  cases hen : s.enabled
  · have h1 : st.en = false := by rw [h.en, hen]
    simp only [Bool.not_false, if_true, h1, Bool.false_and, Bool.false_eq_true, if_false]
    exact h
  · have h1 : st.en = true := by rw [h.en, hen]
    simp only [Bool.not_true, Bool.false_eq_true, if_false, h1, Bool.true_and]
    refine ⟨?_, ?_, ?_, ?_⟩
    · split <;> simp [h1, hen]
    · intro n
      have := addLoop_published (lower host) addrs s.map4 s.map6 n
      simp only [K] at this ⊢
      rw [this]
      cases he : addrs.isEmpty
      · simp only [Bool.not_false, if_true, Bool.and_true, List.contains_cons]
        rw [h.keys n, K, Bool.or_comm]
      · simp only [Bool.not_true, Bool.false_eq_true, if_false, Bool.and_false, Bool.or_false]
        exact h.keys n
    · split <;> exact h.host
    · split <;> exact h.cur

/-- `seedSelf` against the specification's `seedStep` (stale own name withdrawn, current one published). -/
theorem pub_seed {st : PubSt} {s : St} (h : Pub st s) : Pub (seedStep st) (seedSelf s) := by
  unfold seedStep seedSelf
  cases hen : s.enabled
  · have h1 : st.en = false := by rw [h.en, hen]
    simp only [h1, Bool.not_false, if_true]
    exact h
  · have h1 : st.en = true := by rw [h.en, hen]
    cases hs : s.self with
    | none =>
      have h2 : st.cur = none := by rw [h.cur, hs]
      simp only [h1, h2, Bool.not_true, Bool.false_eq_true, if_false]
      exact h
    | some p =>
      cases p with | mk name as =>
      have h2 : st.cur = some (name, as) := by rw [h.cur, hs]
      simp only [h1, h2, Bool.not_true, Bool.false_eq_true, if_false]
      refine ⟨by simp [h1, hen], ?_, rfl, by simp [h2, hs]⟩
      intro n
      have := addLoop_published (lower name ++ ['.']) as
        ((if (s.selfHost != [] && s.selfHost != lower name ++ ['.']) = true then s.map4.del s.selfHost else s.map4).del (lower name ++ ['.']))
        ((if (s.selfHost != [] && s.selfHost != lower name ++ ['.']) = true then s.map6.del s.selfHost else s.map6).del (lower name ++ ['.'])) n
      simp only [K] at this ⊢
      rw [this, hasKey_del, hasKey_del, h.host]
      have hk := h.keys n
      simp only [K] at hk
      cases hst : (s.selfHost != [] && s.selfHost != lower name ++ ['.'])
      · simp only [Bool.false_eq_true, if_false]
        cases he : as.isEmpty
        · simp only [Bool.false_eq_true, if_false, List.contains_cons, contains_filter_ne, hk, Bool.not_false, Bool.and_true]
          cases (n == lower name ++ ['.']) <;> simp
        · simp only [if_true, contains_filter_ne, hk, Bool.not_true, Bool.and_false, Bool.or_false]
          cases (n == lower name ++ ['.']) <;> simp
      · simp only [if_true, hasKey_del]
        cases he : as.isEmpty
        · simp only [Bool.false_eq_true, if_false, List.contains_cons, contains_filter_ne, hk, Bool.not_false, Bool.and_true]
          cases (n == lower name ++ ['.']) <;> cases (n == s.selfHost) <;> simp
        · simp only [if_true, contains_filter_ne, hk, Bool.not_true, Bool.and_false, Bool.or_false]
          cases (n == lower name ++ ['.']) <;> cases (n == s.selfHost) <;> simp

theorem pub_apply {st : PubSt} {s : St} (h : Pub st s) (e : Ev) :
    Pub (publishStep st e) (apply s e) := by
  cases e with
  | hs k n as =>
    have := pub_add h (n ++ ['.']) as
    simp only [publishStep, apply, addHostInfo]
    exact ⟨this.en, this.keys, this.host, this.cur⟩
  | seed => exact pub_seed h
  | disable =>
    simp only [publishStep, apply, clearRecords]
    exact ⟨rfl, fun n => by simp [K, hasKey, Tbl.get], rfl, h.cur⟩
  | enable =>
    simp only [publishStep, apply]
    exact pub_seed (st := { st with en := true }) (s := { s with enabled := true }) ⟨rfl, h.keys, h.host, h.cur⟩
  | renew n as =>
    simp only [publishStep, apply]
    exact pub_seed (st := { st with cur := some (n, as) }) (s := { s with self := some (n, as) }) ⟨h.en, h.keys, h.host, rfl⟩
  | drop k =>
    simp only [publishStep, apply]
    exact ⟨h.en, h.keys, h.host, h.cur⟩

theorem pub_foldl (evs : List Ev) :
    ∀ (st : PubSt) (s : St), Pub st s → Pub (evs.foldl publishStep st) (evs.foldl apply s) := by
  induction evs with
  | nil => intro st s h; exact h
  | cons e es ih => intro st s h; exact ih _ _ (pub_apply h e)

theorem pub_run (me : Self) (evs : List Ev) : Pub (pubAfter me evs) (run me evs) :=
  pub_foldl evs _ _ ⟨rfl, fun n => by simp [K, hasKey, Tbl.get, St.init], rfl, rfl⟩

/-- "Known name" of the specification (FQDN of a certificate seen in a handshake since DNS was last
disabled, or of the current own certificate) is exactly "the responder holds an address record for it". -/
theorem known_eq_nameExists (me : Self) (evs : List Ev) (n : Name) :
    known me evs n = nameExists (run me evs) n := by
  have := (pub_run me evs).keys (lower n)
  simpa [known, published, K, hasKey, nameExists] using this

end Nebula.Lemmas.Dns
