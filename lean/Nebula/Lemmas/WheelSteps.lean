/-
For the handshake manager's wheel (`Nebula.HsManager.Wheel`, the model C32 uses): an entry added with delay
`c · tick` (`1 ≤ c`, `c · tick ≤ span`) fires after exactly `c + 1` wheel steps — not during the first `c`
iterations of the loop of `Advance`, and in the `(c+1)`-th.  Also the capped case (delay above the span) and the
general position lemma.  Counting is per handshake tag (`cntL`/`cnt` of `Lemmas/HsWheel`), the form the
manager's invariants use.
-/
import Nebula.Lemmas.HsWheel

namespace Nebula.Lemmas.WheelSteps
open Nebula.HsManager Nebula.Lemmas.HsWheel

/-- the slot `current` reaches after `r` more steps (`1 ≤ r ≤ len`, `c < len`). -/
def slotOf (L c r : Nat) : Nat := if c + r < L then c + r else c + r - L

/-- entries tagged `id` in slot `s`. -/
def cntAt (w : Wheel) (id s : Nat) : Nat := cntL (w.slots.getD s []) id

/-- exactly one entry tagged `id`, `r` steps ahead of `current`. -/
def LocAt (w : Wheel) (id r : Nat) : Prop :=
  1 ≤ r ∧ r ≤ w.len ∧ ∀ s, s < w.len → cntAt w id s = if s = slotOf w.len w.current r then 1 else 0

/-- no entry tagged `id` in any slot. -/
def NoneAt (w : Wheel) (id : Nat) : Prop := ∀ s, s < w.len → cntAt w id s = 0

theorem getD_set_nil (l : List (List TimerItem)) (i s : Nat) :
    (l.set i []).getD s [] = if s = i then [] else l.getD s [] := by
  induction l generalizing i s with
  | nil => simp
  | cons x xs ih =>
    cases i with
    | zero => cases s <;> simp
    | succ i =>
      cases s with
      | zero => simp
      | succ s => simp only [List.set_cons_succ, List.getD_cons_succ, ih]; simp

theorem getD_modify (l : List (List TimerItem)) (i s : Nat) (v : TimerItem) (hi : i < l.length) :
    (l.modify i (fun x => x ++ [v])).getD s [] = if s = i then l.getD i [] ++ [v] else l.getD s [] := by
  induction l generalizing i s with
  | nil => simp at hi
  | cons x xs ih =>
    cases i with
    | zero => cases s <;> simp [List.modify]
    | succ i =>
      cases s with
      | zero => simp
      | succ s =>
        simp only [List.modify_succ_cons, List.getD_cons_succ, ih i s (by simpa using hi)]; simp

theorem cntS_zero (slots : List (List TimerItem)) (id : Nat) (h : cntS slots id = 0) (s : Nat) :
    cntL (slots.getD s []) id = 0 := by
  induction slots generalizing s with
  | nil => simp [cntL]
  | cons x xs ih =>
    simp only [cntS, List.map_cons, List.sum_cons] at h
    cases s with
    | zero => simp; omega
    | succ s => simp only [List.getD_cons_succ]; exact ih (by unfold cntS; omega) s

/-- one step of the loop of `Advance` on the tracked tag. -/
theorem step1_loc (w : Wheel) (h : WF w) (id r : Nat) (hl : LocAt w id r) :
    (r = 1 → cntL w.step1.2 id = 1 ∧ NoneAt w.step1.1 id) ∧
    (2 ≤ r → cntL w.step1.2 id = 0 ∧ LocAt w.step1.1 id (r - 1)) := by
  obtain ⟨r1, r2, hs⟩ := hl
  have hc := h.cur
  have hc' : (if w.current + 1 ≥ w.len then 0 else w.current + 1) = slotOf w.len w.current 1 := by
    unfold slotOf; split <;> split <;> omega
  have hlt : slotOf w.len w.current 1 < w.len := by unfold slotOf; split <;> omega
  have hlen : w.step1.1.len = w.len := by simp [Wheel.step1, Wheel.len]
  have hcur : w.step1.1.current = slotOf w.len w.current 1 := by simp only [Wheel.step1, hc']
  have hout : w.step1.2 = w.slots.getD (slotOf w.len w.current 1) [] := by simp only [Wheel.step1, hc']
  have hslot : ∀ s, cntAt w.step1.1 id s = if s = slotOf w.len w.current 1 then 0 else cntAt w id s := by
    intro s
    simp only [cntAt, Wheel.step1, hc', getD_set_nil]
    split <;> simp [cntL]
  constructor
  · intro e; subst e
    refine ⟨?_, ?_⟩
    · rw [hout]; have := hs _ hlt; simpa [cntAt] using this
    · intro s hsl; rw [hlen] at hsl; rw [hslot]; split
      · rfl
      · rename_i hne; rw [hs s hsl]; simp [hne]
  · intro hr2
    have ne : slotOf w.len w.current r ≠ slotOf w.len w.current 1 := by
      unfold slotOf; split <;> split <;> omega
    refine ⟨?_, by omega, by rw [hlen]; omega, ?_⟩
    · rw [hout]; have := hs _ hlt; simp only [cntAt] at this; rw [this]
      have hne : ¬ (slotOf w.len w.current 1 = slotOf w.len w.current r) := fun e => ne e.symm
      simp [hne]
    · intro s hsl
      rw [hlen] at hsl
      rw [hslot, hlen, hcur]
      have e : slotOf w.len (slotOf w.len w.current 1) (r - 1) = slotOf w.len w.current r := by
        unfold slotOf; split <;> split <;> split <;> omega
      rw [e]
      by_cases hsc : s = slotOf w.len w.current 1
      · subst hsc
        have : ¬ (slotOf w.len w.current 1 = slotOf w.len w.current r) := fun e => ne e.symm
        simp [this]
      · simp only [hsc, if_false]; exact hs s hsl

theorem step1_none (w : Wheel) (h : WF w) (id : Nat) (hn : NoneAt w id) :
    cntL w.step1.2 id = 0 ∧ NoneAt w.step1.1 id := by
  have hc := h.cur
  have hc' : (if w.current + 1 ≥ w.len then 0 else w.current + 1) = slotOf w.len w.current 1 := by
    unfold slotOf; split <;> split <;> omega
  have hlt : slotOf w.len w.current 1 < w.len := by unfold slotOf; split <;> omega
  have hlen : w.step1.1.len = w.len := by simp [Wheel.step1, Wheel.len]
  refine ⟨?_, ?_⟩
  · have := hn _ hlt; simpa [Wheel.step1, hc', cntAt] using this
  · intro s hsl; rw [hlen] at hsl
    simp only [cntAt, Wheel.step1, hc', getD_set_nil]
    split
    · simp [cntL]
    · exact hn s hsl

theorem stepN_none (n : Nat) (w : Wheel) (acc : List TimerItem) (h : WF w) (id : Nat) (hn : NoneAt w id) :
    cntL (Wheel.stepN n w acc).2 id = cntL acc id ∧ NoneAt (Wheel.stepN n w acc).1 id := by
  induction n generalizing w acc with
  | zero => exact ⟨rfl, hn⟩
  | succ n ih =>
    simp only [Wheel.stepN]
    obtain ⟨a, b⟩ := step1_none w h id hn
    obtain ⟨c, d⟩ := ih w.step1.1 (acc ++ w.step1.2) (step1_spec w h id).1 b
    exact ⟨by rw [c, cntL_append, a]; omega, d⟩

/-- `n` steps on an entry `r` steps ahead: nothing for `n < r` (it is then `r - n` ahead), handed out exactly once
for `n ≥ r` — in the `r`-th step. -/
theorem stepN_loc (n : Nat) (w : Wheel) (acc : List TimerItem) (h : WF w) (id r : Nat) (hl : LocAt w id r) :
    (n < r → cntL (Wheel.stepN n w acc).2 id = cntL acc id ∧ LocAt (Wheel.stepN n w acc).1 id (r - n)) ∧
    (r ≤ n → cntL (Wheel.stepN n w acc).2 id = cntL acc id + 1 ∧ NoneAt (Wheel.stepN n w acc).1 id) := by
  induction n generalizing w acc r with
  | zero => exact ⟨fun _ => ⟨rfl, by simp only [Wheel.stepN, Nat.sub_zero]; exact hl⟩, fun hr => by have := hl.1; omega⟩
  | succ n ih =>
    simp only [Wheel.stepN]
    obtain ⟨s1, s2⟩ := step1_loc w h id r hl
    have hw := (step1_spec w h id).1
    by_cases hr1 : r = 1
    · obtain ⟨a, b⟩ := s1 hr1
      obtain ⟨c, d⟩ := stepN_none n w.step1.1 (acc ++ w.step1.2) hw id b
      exact ⟨fun hlt => by omega, fun _ => ⟨by rw [c, cntL_append, a], d⟩⟩
    · obtain ⟨a, b⟩ := s2 (by have := hl.1; omega)
      obtain ⟨i1, i2⟩ := ih w.step1.1 (acc ++ w.step1.2) hw (r - 1) b
      constructor
      · intro hlt
        obtain ⟨c, d⟩ := i1 (by omega)
        have e : r - 1 - n = r - (n + 1) := by omega
        exact ⟨by rw [c, cntL_append, a]; omega, by rw [← e]; exact d⟩
      · intro hle
        obtain ⟨c, d⟩ := i2 (by omega)
        exact ⟨by rw [c, cntL_append, a], d⟩

/-- number of whole ticks `findWheel` uses for a delay: capped to `[tick, span]`, rounded up. -/
def ticksOf (w : Wheel) (t : Int) : Int :=
  let t' : Int := if t < (w.tickDur : Int) then (w.tickDur : Int) else if t > w.wheelDur then w.wheelDur else t
  Int.tdiv (t' - 1) (w.tickDur : Int) + 1

/-- `Add` of a fresh tag puts the entry `ticksOf + 1` steps ahead (when the span is at least one tick... any
span: the count is between 0 and `len - 1`). -/
theorem add_loc (w : Wheel) (h : WF w) (v : TimerItem) (t : Int) (hfresh : cnt w v.2 = 0)
    (k : Nat) (hk : (k : Int) = ticksOf w t) (hk3 : k + 1 ≤ w.len) :
    LocAt (w.add v t) v.2 (k + 1) := by
  have hc := h.cur
  have hfw : w.findWheel t = slotOf w.len w.current (k + 1) := by
    unfold Wheel.findWheel
    simp only
    have e : Int.tdiv ((if t < (w.tickDur : Int) then (w.tickDur : Int) else if t > w.wheelDur then w.wheelDur else t) - 1)
        (w.tickDur : Int) + 1 = (k : Int) := by rw [hk]; rfl
    rw [e]
    unfold slotOf
    split <;> split <;> omega
  have hi : slotOf w.len w.current (k + 1) < w.slots.length := by
    show _ < w.len; unfold slotOf; split <;> omega
  refine ⟨by omega, by simpa [Wheel.add, Wheel.len] using hk3, ?_⟩
  intro s hsl
  have hlen : (w.add v t).len = w.len := by simp [Wheel.add, Wheel.len]
  rw [hlen] at hsl
  have hcur : (w.add v t).current = w.current := rfl
  rw [hlen, hcur]
  simp only [cntAt, Wheel.add, hfw, getD_modify _ _ _ _ hi]
  have hz := cntS_zero w.slots v.2 hfresh
  split
  · rw [cntL_append, hz, cntL_single]; simp
  · exact hz s

/-- **The lemma the handshake manager needs.**  In a well-formed wheel, an entry with a fresh tag added with delay
`c · tick` (`1 ≤ c`, `c · tick ≤ span`) is handed out by the `(c+1)`-th step of the loop of `Advance` and by no
earlier one: after `n ≤ c` steps nothing with its tag has come out and the wheel still holds exactly one entry with
that tag; after `c + 1` (or more) steps exactly one has come out and the wheel holds none. -/
theorem add_fires_after_exactly (w : Wheel) (h : WF w) (v : TimerItem) (c : Nat) (hc1 : 1 ≤ c)
    (hcap : ((c * w.tickDur : Nat) : Int) ≤ w.wheelDur) (hfresh : cnt w v.2 = 0) (acc : List TimerItem) :
    (∀ n, n ≤ c →
      cntL (Wheel.stepN n (w.add v ((c * w.tickDur : Nat) : Int)) acc).2 v.2 = cntL acc v.2 ∧
      cnt (Wheel.stepN n (w.add v ((c * w.tickDur : Nat) : Int)) acc).1 v.2 = 1) ∧
    (∀ n, c + 1 ≤ n →
      cntL (Wheel.stepN n (w.add v ((c * w.tickDur : Nat) : Int)) acc).2 v.2 = cntL acc v.2 + 1 ∧
      cnt (Wheel.stepN n (w.add v ((c * w.tickDur : Nat) : Int)) acc).1 v.2 = 0) := by
  have htick := h.tick
  have hlen := h.len
  -- the tick count is exactly c
  have hk : (c : Int) = ticksOf w ((c * w.tickDur : Nat) : Int) := by
    unfold ticksOf
    simp only
    have h1 : ¬ (((c * w.tickDur : Nat) : Int) < (w.tickDur : Int)) := by
      have : w.tickDur ≤ c * w.tickDur := Nat.le_mul_of_pos_left _ hc1
      omega
    have h2 : ¬ (((c * w.tickDur : Nat) : Int) > w.wheelDur) := by omega
    simp only [h1, h2, if_false]
    rw [Int.tdiv_eq_ediv_of_nonneg (by
      have : 1 ≤ c * w.tickDur := Nat.le_trans htick (Nat.le_mul_of_pos_left _ hc1)
      omega)]
    have e : ((c * w.tickDur : Nat) : Int) - 1 = ((w.tickDur : Int) - 1) + ((c : Int) - 1) * (w.tickDur : Int) := by
      rw [Int.natCast_mul, Int.sub_mul]; omega
    rw [e, Int.add_mul_ediv_right _ _ (by omega), Int.ediv_eq_zero_of_lt (by omega) (by omega)]
    omega
  -- and fits the wheel: c ≤ span / tick
  have hfit : c + 1 ≤ w.len - 1 := by
    have : (c : Int) ≤ w.wheelDur / (w.tickDur : Int) := by
      apply (Int.le_ediv_iff_mul_le (by omega)).mpr
      rw [← Int.natCast_mul]; exact hcap
    rw [Int.tdiv_eq_ediv_of_nonneg h.span] at hlen
    omega
  have hloc := add_loc w h v _ hfresh c hk (by omega)
  have hwf := add_wf w h v ((c * w.tickDur : Nat) : Int)
  have hcnt : cnt (w.add v ((c * w.tickDur : Nat) : Int)) v.2 = 1 := by
    rw [add_cnt w h]; simp [hfresh]
  constructor
  · intro n hn
    obtain ⟨a, _⟩ := (stepN_loc n _ acc hwf v.2 (c + 1) hloc).1 (by omega)
    have cons := (stepN_spec n _ acc hwf v.2).2.1
    exact ⟨a, by omega⟩
  · intro n hn
    obtain ⟨a, _⟩ := (stepN_loc n _ acc hwf v.2 (c + 1) hloc).2 (by omega)
    have cons := (stepN_spec n _ acc hwf v.2).2.1
    exact ⟨a, by omega⟩

/-- Through `Advance` itself: with `lastTick = some last`, the entry added with delay `c · tick` comes out of
`Advance(now)` exactly when at least `c + 1` whole ticks have elapsed since `last`. -/
theorem add_fires_in_advance (w : Wheel) (h : WF w) (v : TimerItem) (c : Nat) (hc1 : 1 ≤ c)
    (hcap : ((c * w.tickDur : Nat) : Int) ≤ w.wheelDur) (hfresh : cnt w v.2 = 0) (last now : Nat)
    (hl : w.lastTick = some last) :
    cntL ((w.add v ((c * w.tickDur : Nat) : Int)).advance now).2 v.2 =
      if c + 1 ≤ (now - last) / w.tickDur then 1 else 0 := by
  obtain ⟨f1, f2⟩ := add_fires_after_exactly w h v c hc1 hcap hfresh []
  have hfit : c + 1 ≤ w.len := by
    have hlen := h.len
    have : (c : Int) ≤ w.wheelDur / (w.tickDur : Int) := by
      apply (Int.le_ediv_iff_mul_le (by have := h.tick; omega)).mpr
      rw [← Int.natCast_mul]; exact hcap
    rw [Int.tdiv_eq_ediv_of_nonneg h.span] at hlen
    omega
  have hl' : (w.add v ((c * w.tickDur : Nat) : Int)).lastTick = some last := hl
  have hlen' : (w.add v ((c * w.tickDur : Nat) : Int)).len = w.len := by simp [Wheel.add, Wheel.len]
  have htd : (w.add v ((c * w.tickDur : Nat) : Int)).tickDur = w.tickDur := rfl
  unfold Wheel.advance
  simp only [hl', Option.getD_some, hlen', htd]
  generalize (now - last) / w.tickDur = ticks
  by_cases hge : c + 1 ≤ ticks
  · simp only [hge, if_true]
    have := (f2 (if ticks > w.len then w.len else ticks) (by split <;> omega)).1
    simpa [cntL] using this
  · simp only [hge, if_false]
    have := (f1 (if ticks > w.len then w.len else ticks) (by split <;> omega)).1
    simpa [cntL] using this

end Nebula.Lemmas.WheelSteps
