/- Helper lemmas for the timer-wheel model (C33). Core Lean only. -/
import Nebula.Model.Wheel
import Nebula.Spec.Wheel

namespace Nebula.Lemmas.Wheel
open Nebula.Wheel

/-- the slot that `current` reaches after `r` more ticks (`1 ≤ r ≤ L`, `c < L`). -/
def slotOf (L c r : Nat) : Nat := if c + r < L then c + r else c + r - L

def WF (tw : TW Nat) : Prop := tw.wheel.length = tw.wheelLen ∧ tw.current < tw.wheelLen

theorem slot_set (w : List (List Nat)) (i s : Nat) (a : List Nat) (hi : i < w.length) :
    slot (w.set i a) s = if s = i then a else slot w s := by
  unfold slot
  rw [List.getElem?_set]
  by_cases h : i = s
  · subst h; simp [hi]
  · have : ¬ (s = i) := fun e => h e.symm
    simp [h, this]

/-- effect of one loop iteration of `Advance`. -/
theorem tickStep_spec (tw : TW Nat) (h : WF tw) :
    WF (tickStep tw) ∧ (tickStep tw).current = slotOf tw.wheelLen tw.current 1 ∧
    (tickStep tw).wheelLen = tw.wheelLen ∧
    (tickStep tw).expired = tw.expired ++ slot tw.wheel (slotOf tw.wheelLen tw.current 1) ∧
    (∀ s, slot (tickStep tw).wheel s = if s = slotOf tw.wheelLen tw.current 1 then [] else slot tw.wheel s) ∧
    (tickStep tw).lastTick = tw.lastTick ∧ (tickStep tw).tickDuration = tw.tickDuration := by
  obtain ⟨h1, h2⟩ := h
  have hc : (if tw.current + 1 ≥ tw.wheelLen then 0 else tw.current + 1) = slotOf tw.wheelLen tw.current 1 := by
    unfold slotOf; split <;> split <;> omega
  have hlt : slotOf tw.wheelLen tw.current 1 < tw.wheel.length := by unfold slotOf; split <;> omega
  refine ⟨⟨?_, ?_⟩, ?_, rfl, ?_, ?_, rfl, rfl⟩
  · simp only [tickStep, List.length_set]; exact h1
  · simp only [tickStep, hc]; omega
  · simp only [tickStep, hc]
  · simp only [tickStep, hc]
  · intro s
    simp only [tickStep, hc]
    exact slot_set _ _ _ _ hlt

/-- where a tracked item `x` is: `r` ticks ahead of `current`, nowhere else. -/
def At (tw : TW Nat) (x r : Nat) : Prop :=
  1 ≤ r ∧ r ≤ tw.wheelLen ∧
  (∀ s, s < tw.wheelLen → (slot tw.wheel s).count x = if s = slotOf tw.wheelLen tw.current r then 1 else 0) ∧
  tw.expired.count x = 0

/-- `x` has been moved to the expired list (exactly once) and is in no slot. -/
def Fired (tw : TW Nat) (x : Nat) : Prop :=
  (∀ s, s < tw.wheelLen → (slot tw.wheel s).count x = 0) ∧ tw.expired.count x = 1

/-- `x` is nowhere in the wheel. -/
def Gone (tw : TW Nat) (x : Nat) : Prop :=
  (∀ s, s < tw.wheelLen → (slot tw.wheel s).count x = 0) ∧ tw.expired.count x = 0

theorem tickStep_at (tw : TW Nat) (h : WF tw) (x r : Nat) (ha : At tw x r) :
    (r = 1 → Fired (tickStep tw) x) ∧ (2 ≤ r → At (tickStep tw) x (r - 1)) := by
  obtain ⟨hw, hcur, hlen, hexp, hslot, _, _⟩ := tickStep_spec tw h
  obtain ⟨h1, h2⟩ := h
  obtain ⟨r1, r2, hs, he⟩ := ha
  have hc'lt : slotOf tw.wheelLen tw.current 1 < tw.wheelLen := by unfold slotOf; split <;> omega
  constructor
  · intro hr1
    subst hr1
    refine ⟨?_, ?_⟩
    · intro s hsl
      rw [hlen] at hsl
      rw [hslot s]
      split
      · simp
      · rename_i hne; rw [hs s hsl]; simp [hne]
    · rw [hexp, List.count_append, he, hs _ hc'lt]; simp
  · intro hr2
    refine ⟨by omega, by rw [hlen]; omega, ?_, ?_⟩
    · intro s hsl
      rw [hlen] at hsl
      rw [hslot s, hcur, hlen]
      have e : slotOf tw.wheelLen (slotOf tw.wheelLen tw.current 1) (r - 1) = slotOf tw.wheelLen tw.current r := by
        unfold slotOf; split <;> split <;> split <;> omega
      have ne : slotOf tw.wheelLen tw.current r ≠ slotOf tw.wheelLen tw.current 1 := by
        unfold slotOf; split <;> split <;> omega
      rw [e]
      by_cases hsc : s = slotOf tw.wheelLen tw.current 1
      · subst hsc
        have : ¬ (slotOf tw.wheelLen tw.current 1 = slotOf tw.wheelLen tw.current r) := fun e => ne e.symm
        simp [this]
      · simp only [hsc, if_false]; exact hs s hsl
    · rw [hexp, List.count_append, he, hs _ hc'lt]
      have ne : slotOf tw.wheelLen tw.current 1 ≠ slotOf tw.wheelLen tw.current r := by
        unfold slotOf; split <;> split <;> omega
      simp [ne]

theorem tickStep_fired (tw : TW Nat) (h : WF tw) (x : Nat) (hf : Fired tw x) : Fired (tickStep tw) x := by
  obtain ⟨hw, hcur, hlen, hexp, hslot, _, _⟩ := tickStep_spec tw h
  obtain ⟨hs, he⟩ := hf
  have hc'lt : slotOf tw.wheelLen tw.current 1 < tw.wheelLen := by
    obtain ⟨h1, h2⟩ := h; unfold slotOf; split <;> omega
  refine ⟨?_, ?_⟩
  · intro s hsl; rw [hlen] at hsl; rw [hslot s]; split
    · simp
    · exact hs s hsl
  · rw [hexp, List.count_append, he, hs _ hc'lt]

theorem tickStep_gone (tw : TW Nat) (h : WF tw) (x : Nat) (hf : Gone tw x) : Gone (tickStep tw) x := by
  obtain ⟨hw, hcur, hlen, hexp, hslot, _, _⟩ := tickStep_spec tw h
  obtain ⟨hs, he⟩ := hf
  have hc'lt : slotOf tw.wheelLen tw.current 1 < tw.wheelLen := by
    obtain ⟨h1, h2⟩ := h; unfold slotOf; split <;> omega
  refine ⟨?_, ?_⟩
  · intro s hsl; rw [hlen] at hsl; rw [hslot s]; split
    · simp
    · exact hs s hsl
  · rw [hexp, List.count_append, he, hs _ hc'lt]

theorem tickSteps_params (n : Nat) (tw : TW Nat) (h : WF tw) :
    WF (tickSteps n tw) ∧ (tickSteps n tw).wheelLen = tw.wheelLen ∧ (tickSteps n tw).lastTick = tw.lastTick ∧
      (tickSteps n tw).tickDuration = tw.tickDuration := by
  induction n generalizing tw with
  | zero => exact ⟨h, rfl, rfl, rfl⟩
  | succ n ih =>
    obtain ⟨hw, _, hlen, _, _, hl, ht⟩ := tickStep_spec tw h
    obtain ⟨a, b, c, d⟩ := ih (tickStep tw) hw
    simp only [tickSteps]
    exact ⟨a, by rw [b, hlen], by rw [c, hl], by rw [d, ht]⟩

/-- `n` ticks: the item `r` ticks ahead is still `r - n` ahead if `n < r`, and has fired otherwise. -/
theorem tickSteps_at (n : Nat) (tw : TW Nat) (h : WF tw) (x r : Nat) (ha : At tw x r) :
    (n < r → At (tickSteps n tw) x (r - n)) ∧ (r ≤ n → Fired (tickSteps n tw) x) := by
  induction n generalizing tw r with
  | zero =>
    refine ⟨fun _ => by simpa [tickSteps] using ha, fun hr => ?_⟩
    have := ha.1; omega
  | succ n ih =>
    obtain ⟨hw, _⟩ := tickStep_spec tw h
    obtain ⟨s1, s2⟩ := tickStep_at tw h x r ha
    simp only [tickSteps]
    by_cases hr1 : r = 1
    · have hf := s1 hr1
      refine ⟨fun hlt => by omega, fun _ => ?_⟩
      clear ih s1 s2 ha
      -- fired stays fired
      have : ∀ (m : Nat) (t : TW Nat), WF t → Fired t x → Fired (tickSteps m t) x := by
        intro m
        induction m with
        | zero => intro t _ hf; exact hf
        | succ m ihm =>
          intro t ht hf
          simp only [tickSteps]
          exact ihm _ (tickStep_spec t ht).1 (tickStep_fired t ht x hf)
      exact this n _ hw hf
    · have hat := s2 (by have := ha.1; omega)
      obtain ⟨i1, i2⟩ := ih (tickStep tw) hw (r - 1) hat
      refine ⟨fun hlt => ?_, fun hle => i2 (by omega)⟩
      have := i1 (by omega)
      have e : r - 1 - n = r - (n + 1) := by omega
      rw [e] at this; exact this

theorem tickSteps_fired (n : Nat) (tw : TW Nat) (h : WF tw) (x : Nat) (hf : Fired tw x) :
    Fired (tickSteps n tw) x := by
  induction n generalizing tw with
  | zero => exact hf
  | succ n ih => simp only [tickSteps]; exact ih _ (tickStep_spec tw h).1 (tickStep_fired tw h x hf)

theorem tickSteps_gone (n : Nat) (tw : TW Nat) (h : WF tw) (x : Nat) (hf : Gone tw x) :
    Gone (tickSteps n tw) x := by
  induction n generalizing tw with
  | zero => exact hf
  | succ n ih => simp only [tickSteps]; exact ih _ (tickStep_spec tw h).1 (tickStep_gone tw h x hf)


/-! ### `findWheel` arithmetic -/

open Nebula.Spec.Wheel (clamp ticksFor rounded)

theorem clamp_pos (tick span t : Int) (ht : 1 ≤ tick) (hs : 1 ≤ span) :
    1 ≤ clamp tick span t ∧ (clamp tick span t ≤ span ∨ clamp tick span t = tick) := by
  unfold clamp; split
  · omega
  · split <;> omega

/-- `ticksFor` is the ceiling: `k·tick` is the least multiple of `tick` that is `≥ t'`. -/
theorem ticksFor_ceil (tick t' : Int) (ht : 1 ≤ tick) :
    t' ≤ ticksFor tick t' * tick ∧ ticksFor tick t' * tick < t' + tick := by
  unfold ticksFor
  have h1 := Int.ediv_mul_le (t' + tick - 1) (b := tick) (by omega)
  have h2 := Int.lt_ediv_add_one_mul_self (t' + tick - 1) (b := tick) (by omega)
  rw [Int.add_mul] at h2
  constructor <;> omega

theorem ticksFor_eq (tick t' : Int) (ht : 1 ≤ tick) : ticksFor tick t' = (t' - 1) / tick + 1 := by
  unfold ticksFor
  have : t' + tick - 1 = (t' - 1) + 1 * tick := by omega
  rw [this, Int.add_mul_ediv_right _ _ (by omega)]

/-- number of ticks for any timeout: between 1 and `span/tick + 1` (= `wheelLen - 1`). -/
theorem ticksFor_range (tick span t : Int) (ht : 1 ≤ tick) (hs : 1 ≤ span) :
    1 ≤ ticksFor tick (clamp tick span t) ∧ ticksFor tick (clamp tick span t) ≤ span / tick + 1 := by
  obtain ⟨c1, c2⟩ := clamp_pos tick span t ht hs
  rw [ticksFor_eq _ _ ht]
  have h0 : 0 ≤ (clamp tick span t - 1) / tick := Int.ediv_nonneg (by omega) (by omega)
  refine ⟨by omega, ?_⟩
  cases c2 with
  | inl h =>
    have := Int.ediv_le_ediv (c := tick) (by omega) (show clamp tick span t - 1 ≤ span from by omega)
    omega
  | inr h =>
    rw [h]
    have e : (tick - 1) / tick = 0 := Int.ediv_eq_zero_of_lt (by omega) (by omega)
    have : 0 ≤ span / tick := Int.ediv_nonneg (by omega) (by omega)
    omega

/-- a wheel as built by `NewTimerWheel(tick, span)` with `tick, span ≥ 1`. -/
def Params (tw : TW Nat) : Prop :=
  1 ≤ tw.tickDuration ∧ 1 ≤ tw.wheelDuration ∧ (tw.wheelLen : Int) = tw.wheelDuration / tw.tickDuration + 2

theorem new_wf (tick span : Int) (ht : 1 ≤ tick) (hs : 1 ≤ span) :
    WF (Wheel.new tick span : TW Nat) ∧ Params (Wheel.new tick span : TW Nat) := by
  have h0 : 0 ≤ span / tick := Int.ediv_nonneg (by omega) (by omega)
  have e : span.tdiv tick = span / tick := Int.tdiv_eq_ediv_of_nonneg (by omega)
  refine ⟨⟨?_, ?_⟩, ht, hs, ?_⟩
  · simp [Wheel.new]
  · simp only [Wheel.new, e]; omega
  · simp only [Wheel.new, e]; omega

/-- `findWheel` puts a timeout `k + 1` ticks ahead of `current`, `k = ⌈clamp t / tick⌉`, wrapping at most once. -/
theorem findWheel_slot (tw : TW Nat) (h : WF tw) (hp : Params tw) (t : Int) :
    ∃ k : Nat, (k : Int) = ticksFor tw.tickDuration (clamp tw.tickDuration tw.wheelDuration t) ∧
      1 ≤ k ∧ k + 1 ≤ tw.wheelLen ∧ findWheel tw t = slotOf tw.wheelLen tw.current (k + 1) := by
  obtain ⟨ht, hs, hl⟩ := hp
  obtain ⟨r1, r2⟩ := ticksFor_range tw.tickDuration tw.wheelDuration t ht hs
  obtain ⟨c1, _⟩ := clamp_pos tw.tickDuration tw.wheelDuration t ht hs
  refine ⟨(ticksFor tw.tickDuration (clamp tw.tickDuration tw.wheelDuration t)).toNat, by omega, by omega, by omega, ?_⟩
  have hc : clampTimeout tw.tickDuration tw.wheelDuration t = clamp tw.tickDuration tw.wheelDuration t := rfl
  unfold findWheel
  simp only [hc]
  rw [Int.tdiv_eq_ediv_of_nonneg (by omega), ← ticksFor_eq _ _ ht]
  generalize ticksFor tw.tickDuration (clamp tw.tickDuration tw.wheelDuration t) = k at *
  obtain ⟨_, h2⟩ := h
  unfold slotOf
  split <;> split <;> omega


/-! ### `Add`, `Purge`, `Advance` on the tracked item -/

theorem add_spec (tw : TW Nat) (h : WF tw) (hp : Params tw) (v : Nat) (t : Int) :
    ∃ (tw' : TW Nat) (k : Nat), add tw v t = some tw' ∧ WF tw' ∧ Params tw' ∧ tw'.lastTick = tw.lastTick ∧
      tw'.current = tw.current ∧ tw'.wheelLen = tw.wheelLen ∧ tw'.expired = tw.expired ∧
      (k : Int) = ticksFor tw.tickDuration (clamp tw.tickDuration tw.wheelDuration t) ∧ 1 ≤ k ∧ k + 1 ≤ tw.wheelLen ∧
      (∀ s, slot tw'.wheel s =
        if s = slotOf tw.wheelLen tw.current (k + 1) then slot tw.wheel s ++ [v] else slot tw.wheel s) ∧
      tw'.tickDuration = tw.tickDuration ∧ tw'.wheelDuration = tw.wheelDuration := by
  obtain ⟨k, hk, k1, k2, hf⟩ := findWheel_slot tw h hp t
  obtain ⟨h1, h2⟩ := h
  have hlt : slotOf tw.wheelLen tw.current (k + 1) < tw.wheel.length := by
    rw [h1]; unfold slotOf; split <;> omega
  let i := slotOf tw.wheelLen tw.current (k + 1)
  let w' := tw.wheel.set i (slot tw.wheel i ++ [v])
  refine ⟨{ tw with wheel := w', itemsCached := tw.itemsCached - 1 }, k, ?_, ?_, ?_, rfl, rfl, rfl, rfl, hk, k1, k2, ?_, rfl, rfl⟩
  · unfold add; simp only [hf, hlt, if_true]; rfl
  · exact ⟨by show (tw.wheel.set _ _).length = _; rw [List.length_set]; exact h1, h2⟩
  · exact hp
  · intro s
    show slot (tw.wheel.set _ _) s = _
    rw [slot_set _ _ _ _ hlt]
    split
    · rename_i e; rw [e]
    · rfl

theorem purge_spec (tw : TW Nat) :
    (tw.expired = [] → purge tw = (none, tw)) ∧
    (∀ v rest, tw.expired = v :: rest → (purge tw).1 = some v ∧ (purge tw).2.expired = rest ∧
      (purge tw).2.wheel = tw.wheel ∧ (purge tw).2.wheelLen = tw.wheelLen ∧ (purge tw).2.current = tw.current ∧
      (purge tw).2.lastTick = tw.lastTick ∧ (purge tw).2.tickDuration = tw.tickDuration ∧
      (purge tw).2.wheelDuration = tw.wheelDuration) := by
  constructor
  · intro h; unfold purge; rw [h]
  · intro v rest h; unfold purge; rw [h]; exact ⟨rfl, rfl, rfl, rfl, rfl, rfl, rfl, rfl⟩

/-- `Advance(now)` from `lastTick = T ≤ now`: `adv = ⌊(now - T)/tick⌋` whole ticks of time pass,
`min adv wheelLen` loop iterations run, `lastTick` ends within one tick below `now`. -/
theorem advance_spec (tw : TW Nat) (T now : Int) (hl : tw.lastTick = some T) (ht : 1 ≤ tw.tickDuration) (hm : T ≤ now) :
    ∃ adv : Nat, (adv : Int) = (now - T) / tw.tickDuration ∧
      advance tw now = { tickSteps (min adv tw.wheelLen) tw with lastTick := some (T + tw.tickDuration * adv) } ∧
      T + tw.tickDuration * adv ≤ now ∧ now < T + tw.tickDuration * adv + tw.tickDuration := by
  have h0 : 0 ≤ (now - T) / tw.tickDuration := Int.ediv_nonneg (by omega) (by omega)
  refine ⟨((now - T) / tw.tickDuration).toNat, by omega, ?_, ?_, ?_⟩
  · unfold advance
    simp only [hl, Option.getD_some]
    rw [Int.tdiv_eq_ediv_of_nonneg (by omega)]
    have e1 : (((now - T) / tw.tickDuration).toNat : Int) = (now - T) / tw.tickDuration := by omega
    have e2 : (if (now - T) / tw.tickDuration > (tw.wheelLen : Int) then (tw.wheelLen : Int) else (now - T) / tw.tickDuration).toNat
        = min ((now - T) / tw.tickDuration).toNat tw.wheelLen := by
      split <;> omega
    rw [e2, e1]
  · have := Int.ediv_mul_le (now - T) (b := tw.tickDuration) (by omega)
    have e1 : (((now - T) / tw.tickDuration).toNat : Int) = (now - T) / tw.tickDuration := by omega
    rw [e1, Int.mul_comm]; omega
  · have := Int.lt_ediv_add_one_mul_self (now - T) (b := tw.tickDuration) (by omega)
    have e1 : (((now - T) / tw.tickDuration).toNat : Int) = (now - T) / tw.tickDuration := by omega
    rw [e1, Int.mul_comm]
    rw [Int.add_mul] at this; omega

/-- the first `Advance` only records the time. -/
theorem advance_first (tw : TW Nat) (now : Int) (hl : tw.lastTick = none) :
    advance tw now = { tw with lastTick := some now } := by
  unfold advance
  simp only [hl, Option.getD_none, Int.sub_self]
  have e : (0 : Int).tdiv tw.tickDuration = 0 := Int.zero_tdiv _
  rw [e]
  have e2 : (if (0 : Int) > (tw.wheelLen : Int) then (tw.wheelLen : Int) else 0).toNat = 0 := by split <;> omega
  rw [e2]; simp [tickSteps]

theorem at_congr (a b : TW Nat) (x r : Nat) (h1 : a.wheel = b.wheel) (h2 : a.wheelLen = b.wheelLen)
    (h3 : a.current = b.current) (h4 : a.expired = b.expired) : At a x r → At b x r := by
  intro ⟨p1, p2, p3, p4⟩
  exact ⟨p1, by rw [← h2]; exact p2, by rw [← h1, ← h2, ← h3]; exact p3, by rw [← h4]; exact p4⟩

theorem fired_congr (a b : TW Nat) (x : Nat) (h1 : a.wheel = b.wheel) (h2 : a.wheelLen = b.wheelLen)
    (h4 : a.expired = b.expired) : Fired a x → Fired b x := by
  intro ⟨p3, p4⟩
  exact ⟨by rw [← h1, ← h2]; exact p3, by rw [← h4]; exact p4⟩

theorem gone_congr (a b : TW Nat) (x : Nat) (h1 : a.wheel = b.wheel) (h2 : a.wheelLen = b.wheelLen)
    (h4 : a.expired = b.expired) : Gone a x → Gone b x := by
  intro ⟨p3, p4⟩
  exact ⟨by rw [← h1, ← h2]; exact p3, by rw [← h4]; exact p4⟩

/-- Timing of one `Advance` for an item `r` ticks ahead, i.e. due at `D = lastTick + r·tick`:
before `D` it stays pending with the same due time, at or after `D` it is on the expired list. -/
theorem advance_at (tw : TW Nat) (h : WF tw) (T now : Int) (hl : tw.lastTick = some T) (ht : 1 ≤ tw.tickDuration)
    (hm : T ≤ now) (x r : Nat) (ha : At tw x r) :
    (now < T + r * tw.tickDuration →
      ∃ r' T', At (advance tw now) x r' ∧ (advance tw now).lastTick = some T' ∧
        T' + r' * tw.tickDuration = T + r * tw.tickDuration ∧ T' ≤ now) ∧
    (T + r * tw.tickDuration ≤ now → Fired (advance tw now) x) := by
  obtain ⟨adv, hadv, hadvance, hle, _⟩ := advance_spec tw T now hl ht hm
  have hr := ha.2.1
  obtain ⟨s1, s2⟩ := tickSteps_at (min adv tw.wheelLen) tw h x r ha
  constructor
  · intro hlt
    have hadvr : adv < r := by
      have : (now - T) / tw.tickDuration < (r : Int) := (Int.ediv_lt_iff_lt_mul (by omega)).mpr (by omega)
      omega
    have hmin : min adv tw.wheelLen = adv := by omega
    rw [hmin] at s1
    refine ⟨r - adv, T + tw.tickDuration * adv, ?_, by rw [hadvance], ?_, hle⟩
    · rw [hadvance, hmin]
      exact at_congr (tickSteps adv tw) _ x _ rfl rfl rfl rfl (s1 hadvr)
    · have e : ((r - adv : Nat) : Int) = (r : Int) - adv := by omega
      rw [e, Int.sub_mul, Int.mul_comm tw.tickDuration]; omega
  · intro hge
    have hadvr : r ≤ adv := by
      have : (r : Int) ≤ (now - T) / tw.tickDuration := (Int.le_ediv_iff_mul_le (by omega)).mpr (by omega)
      omega
    rw [hadvance]
    exact fired_congr (tickSteps (min adv tw.wheelLen) tw) _ x rfl rfl rfl (s2 (by omega))

theorem advance_wf (tw : TW Nat) (h : WF tw) (hp : Params tw) (now : Int) :
    WF (advance tw now) ∧ Params (advance tw now) := by
  unfold advance
  simp only
  generalize (if _ > (tw.wheelLen : Int) then (tw.wheelLen : Int) else _ : Int).toNat = n
  obtain ⟨a, b, _, d⟩ := tickSteps_params n tw h
  have hwd : ∀ (m : Nat) (t : TW Nat), (tickSteps m t).wheelDuration = t.wheelDuration := by
    intro m; induction m with
    | zero => intro t; rfl
    | succ m ih => intro t; simp only [tickSteps]; rw [ih]; rfl
  exact ⟨a, by unfold Params; simp only [d, hwd, b]; exact hp⟩


/-! ### The tracked item through an arbitrary history -/

theorem add_other (tw : TW Nat) (h : WF tw) (hp : Params tw) (v : Nat) (t : Int) (x : Nat) (hne : v ≠ x) :
    ∃ tw', add tw v t = some tw' ∧ WF tw' ∧ Params tw' ∧ tw'.lastTick = tw.lastTick ∧
      tw'.tickDuration = tw.tickDuration ∧ tw'.wheelDuration = tw.wheelDuration ∧
      (∀ r, At tw x r → At tw' x r) ∧ (Fired tw x → Fired tw' x) ∧ (Gone tw x → Gone tw' x) := by
  obtain ⟨tw', k, hadd, hwf, hpp, hl, hc, hlen, hexp, _, _, _, hslot, htd⟩ := add_spec tw h hp v t
  have hcnt : ∀ s, (slot tw'.wheel s).count x = (slot tw.wheel s).count x := by
    intro s; rw [hslot s]; split
    · rw [List.count_append]; simp [hne]
    · rfl
  refine ⟨tw', hadd, hwf, hpp, hl, htd.1, htd.2, ?_, ?_, ?_⟩
  · intro r ⟨a1, a2, a3, a4⟩
    exact ⟨a1, by rw [hlen]; exact a2, by intro s hs; rw [hcnt, hlen, hc]; exact a3 s (by rw [← hlen]; exact hs), by rw [hexp]; exact a4⟩
  · intro ⟨a3, a4⟩
    exact ⟨by intro s hs; rw [hcnt]; exact a3 s (by rw [← hlen]; exact hs), by rw [hexp]; exact a4⟩
  · intro ⟨a3, a4⟩
    exact ⟨by intro s hs; rw [hcnt]; exact a3 s (by rw [← hlen]; exact hs), by rw [hexp]; exact a4⟩

/-- adding the tracked item to a wheel that does not contain it puts it `k + 1` ticks ahead. -/
theorem add_tracked (tw : TW Nat) (h : WF tw) (hp : Params tw) (x : Nat) (t : Int) (hg : Gone tw x) :
    ∃ (tw' : TW Nat) (k : Nat), add tw x t = some tw' ∧ WF tw' ∧ Params tw' ∧ tw'.lastTick = tw.lastTick ∧
      tw'.tickDuration = tw.tickDuration ∧ tw'.wheelDuration = tw.wheelDuration ∧
      (k : Int) = ticksFor tw.tickDuration (clamp tw.tickDuration tw.wheelDuration t) ∧ At tw' x (k + 1) := by
  obtain ⟨tw', k, hadd, hwf, hpp, hl, hc, hlen, hexp, hk, k1, k2, hslot, htd⟩ := add_spec tw h hp x t
  refine ⟨tw', k, hadd, hwf, hpp, hl, htd.1, htd.2, hk, by omega, by rw [hlen]; omega, ?_, by rw [hexp]; exact hg.2⟩
  intro s hs
  rw [hlen] at hs
  rw [hslot s, hlen, hc]
  split
  · rw [List.count_append, hg.1 s hs]; simp
  · exact hg.1 s hs

theorem purge_tracked (tw : TW Nat) (x : Nat) :
    (∀ r, At tw x r → At (purge tw).2 x r ∧ (purge tw).1 ≠ some x) ∧
    (Gone tw x → Gone (purge tw).2 x ∧ (purge tw).1 ≠ some x) ∧
    (Fired tw x → ((purge tw).1 = some x ∧ Gone (purge tw).2 x) ∨ ((purge tw).1 ≠ some x ∧ Fired (purge tw).2 x)) := by
  obtain ⟨p1, p2⟩ := purge_spec tw
  cases he : tw.expired with
  | nil =>
    have := p1 he
    rw [this]
    exact ⟨fun r ha => ⟨ha, by simp⟩, fun hg => ⟨hg, by simp⟩, fun hf => by have := hf.2; rw [he] at this; simp at this⟩
  | cons v rest =>
    obtain ⟨q1, q2, q3, q4, q5, _, _, _⟩ := p2 v rest he
    refine ⟨?_, ?_, ?_⟩
    · intro r ⟨a1, a2, a3, a4⟩
      rw [he, List.count_cons] at a4
      have hv : v ≠ x := by intro e; subst e; simp at a4
      refine ⟨⟨a1, by rw [q4]; exact a2, by rw [q3, q4, q5]; exact a3, by rw [q2]; omega⟩, ?_⟩
      rw [q1]; intro e; exact hv (Option.some.inj e)
    · intro ⟨a3, a4⟩
      rw [he, List.count_cons] at a4
      have hv : v ≠ x := by intro e; subst e; simp at a4
      refine ⟨⟨by rw [q3, q4]; exact a3, by rw [q2]; omega⟩, ?_⟩
      rw [q1]; intro e; exact hv (Option.some.inj e)
    · intro ⟨a3, a4⟩
      rw [he, List.count_cons] at a4
      by_cases hv : v = x
      · left
        subst hv
        simp at a4
        exact ⟨q1, by rw [q3, q4]; exact a3, by rw [q2]; exact a4⟩
      · right
        have : (v == x) = false := by simp [hv]
        rw [this] at a4
        simp at a4
        refine ⟨by rw [q1]; intro e; exact hv (Option.some.inj e), by rw [q3, q4]; exact a3, by rw [q2]; exact a4⟩

theorem purge_params (tw : TW Nat) (h : WF tw) (hp : Params tw) :
    WF (purge tw).2 ∧ Params (purge tw).2 ∧ (purge tw).2.lastTick = tw.lastTick ∧
      (purge tw).2.tickDuration = tw.tickDuration ∧ (purge tw).2.wheelDuration = tw.wheelDuration := by
  obtain ⟨p1, p2⟩ := purge_spec tw
  cases he : tw.expired with
  | nil => rw [p1 he]; exact ⟨h, hp, rfl, rfl, rfl⟩
  | cons v rest =>
    obtain ⟨_, _, q3, q4, q5, q6, q7, q8⟩ := p2 v rest he
    exact ⟨⟨by rw [q3, q4]; exact h.1, by rw [q4, q5]; exact h.2⟩, by unfold Params; rw [q4, q7, q8]; exact hp, q6, q7, q8⟩

/-- The invariant carried through a history for the tracked item `x` with due time `D`:
still pending (and then no `Advance` has reached `D`), or on the expired list, or returned — exactly once. -/
def Inv (tick span D : Int) (x : Nat) (st : TW Nat × List Nat) (lastNow : Int) : Prop :=
  WF st.1 ∧ Params st.1 ∧ st.1.tickDuration = tick ∧ st.1.wheelDuration = span ∧
  ∃ T, st.1.lastTick = some T ∧ T ≤ lastNow ∧
    ((st.2.count x = 0 ∧ lastNow < D ∧ ∃ r, At st.1 x r ∧ T + r * tick = D) ∨
     (st.2.count x = 0 ∧ D ≤ lastNow ∧ Fired st.1 x) ∨
     (st.2.count x = 1 ∧ D ≤ lastNow ∧ Gone st.1 x))

theorem inv_step (tick span D : Int) (x : Nat) (st : TW Nat × List Nat) (lastNow : Int) (op : Op)
    (hinv : Inv tick span D x st lastNow)
    (hno : ∀ v t, op = .add v t → v ≠ x)
    (hm : ∀ now, op = .advance now → lastNow ≤ now) :
    Inv tick span D x (runOp st op) (lastAdvance lastNow [op]) := by
  obtain ⟨hwf, hp, htk, hsp, T, hl, hT, hcase⟩ := hinv
  have ht1 : 1 ≤ st.1.tickDuration := hp.1
  cases op with
  | add v t =>
    have hne := hno v t rfl
    obtain ⟨tw', hadd, w', p', l', td', wd', f1, f2, f3⟩ := add_other st.1 hwf hp v t x hne
    simp only [runOp, hadd, lastAdvance]
    refine ⟨w', p', by rw [td', htk], by rw [wd', hsp], T, by rw [l', hl], hT, ?_⟩
    rcases hcase with ⟨c1, c2, r, c3, c4⟩ | ⟨c1, c2, c3⟩ | ⟨c1, c2, c3⟩
    · exact Or.inl ⟨c1, c2, r, f1 r c3, c4⟩
    · exact Or.inr (Or.inl ⟨c1, c2, f2 c3⟩)
    · exact Or.inr (Or.inr ⟨c1, c2, f3 c3⟩)
  | purge =>
    obtain ⟨w', p', l', td', wd'⟩ := purge_params st.1 hwf hp
    obtain ⟨g1, g2, g3⟩ := purge_tracked st.1 x
    have hout : (runOp st .purge).1 = (purge st.1).2 ∧
        (runOp st .purge).2.count x = st.2.count x + (if (purge st.1).1 = some x then 1 else 0) := by
      simp only [runOp]
      cases hpu : purge st.1 with
      | mk o tw2 =>
        cases o with
        | none => simp
        | some v =>
          simp only [List.count_append]
          by_cases hv : v = x
          · subst hv; simp
          · have : ¬ (some v = some x) := fun e => hv (Option.some.inj e)
            simp [hv, this]
    simp only [lastAdvance]
    refine ⟨by rw [hout.1]; exact w', by rw [hout.1]; exact p', by rw [hout.1, td', htk], by rw [hout.1, wd', hsp],
      T, by rw [hout.1, l', hl], hT, ?_⟩
    rw [hout.2, hout.1]
    rcases hcase with ⟨c1, c2, r, c3, c4⟩ | ⟨c1, c2, c3⟩ | ⟨c1, c2, c3⟩
    · obtain ⟨a, b⟩ := g1 r c3
      exact Or.inl ⟨by simp [c1, b], c2, r, a, c4⟩
    · rcases g3 c3 with ⟨a, b⟩ | ⟨a, b⟩
      · exact Or.inr (Or.inr ⟨by simp [c1, a], c2, b⟩)
      · exact Or.inr (Or.inl ⟨by simp [c1, a], c2, b⟩)
    · obtain ⟨a, b⟩ := g2 c3
      exact Or.inr (Or.inr ⟨by simp [c1, b], c2, a⟩)
  | advance now =>
    have hmn := hm now rfl
    obtain ⟨w', p'⟩ := advance_wf st.1 hwf hp now
    obtain ⟨adv, hadv, hadvance, hle, _⟩ := advance_spec st.1 T now hl ht1 (by omega)
    have hparams : (advance st.1 now).tickDuration = st.1.tickDuration ∧
        (advance st.1 now).wheelDuration = st.1.wheelDuration := by
      rw [hadvance]
      have hwd : ∀ (m : Nat) (t : TW Nat), (tickSteps m t).wheelDuration = t.wheelDuration := by
        intro m; induction m with
        | zero => intro t; rfl
        | succ m ih => intro t; simp only [tickSteps]; rw [ih]; rfl
      exact ⟨(tickSteps_params _ st.1 hwf).2.2.2, hwd _ _⟩
    simp only [runOp, lastAdvance]
    refine ⟨w', p', by rw [hparams.1, htk], by rw [hparams.2, hsp], ?_⟩
    rcases hcase with ⟨c1, c2, r, c3, c4⟩ | ⟨c1, c2, c3⟩ | ⟨c1, c2, c3⟩
    · obtain ⟨e1, e2⟩ := advance_at st.1 hwf T now hl ht1 (by omega) x r c3
      rw [htk] at e1 e2
      by_cases hd : now < D
      · obtain ⟨r', T', a1, a2, a3, a4⟩ := e1 (by omega)
        exact ⟨T', a2, a4, Or.inl ⟨c1, hd, r', a1, by omega⟩⟩
      · have hf := e2 (by omega)
        exact ⟨T + st.1.tickDuration * adv, by rw [hadvance], hle, Or.inr (Or.inl ⟨c1, by omega, hf⟩)⟩
    · refine ⟨T + st.1.tickDuration * adv, by rw [hadvance], hle, Or.inr (Or.inl ⟨c1, by omega, ?_⟩)⟩
      rw [hadvance]
      exact fired_congr (tickSteps (min adv st.1.wheelLen) st.1) _ x rfl rfl rfl (tickSteps_fired _ st.1 hwf x c3)
    · refine ⟨T + st.1.tickDuration * adv, by rw [hadvance], hle, Or.inr (Or.inr ⟨c1, by omega, ?_⟩)⟩
      rw [hadvance]
      exact gone_congr (tickSteps (min adv st.1.wheelLen) st.1) _ x rfl rfl rfl (tickSteps_gone _ st.1 hwf x c3)

theorem inv_run (tick span D : Int) (x : Nat) (ops : List Op) (st : TW Nat × List Nat) (lastNow : Int)
    (hinv : Inv tick span D x st lastNow)
    (hno : ∀ v t, Op.add v t ∈ ops → v ≠ x) (hm : Mono lastNow ops) :
    Inv tick span D x (run st ops) (lastAdvance lastNow ops) := by
  induction ops generalizing st lastNow with
  | nil => exact hinv
  | cons op rest ih =>
    have hstep := inv_step tick span D x st lastNow op hinv
      (fun v t e => hno v t (by rw [e]; exact List.mem_cons_self))
      (fun now e => by subst e; exact hm.1)
    have hrest : ∀ v t, Op.add v t ∈ rest → v ≠ x := fun v t hmem => hno v t (List.mem_cons_of_mem _ hmem)
    cases op with
    | add v t => exact ih (runOp st (.add v t)) lastNow hstep hrest hm
    | purge => exact ih (runOp st .purge) lastNow hstep hrest hm
    | advance now => exact ih (runOp st (.advance now)) now hstep hrest hm.2

end Nebula.Lemmas.Wheel
