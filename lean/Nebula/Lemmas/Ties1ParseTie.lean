/-
Tie of the IPv4 classification model (C20) to `parseV4` regenerated from outside.go: header length, the two fragment
tests, the stored header length and protocol byte.
-/
import Nebula.Lemmas.PktParse
import Nebula.Gen.tie_ties1_parse
import Nebula.Lemmas.Ties1Bytes

namespace Nebula.Lemmas.Ties1ParseTie
open Nebula.Gen Nebula.Pkt Nebula.Lemmas.Ties1Bytes

theorem ihl_formula (b0 : BitVec 8) : (tie_ties1_v4_ihl b0).toNat = (b0.toNat &&& 0x0f) * 4 := by
  have h : b0.toNat &&& 15 ≤ 15 := Nat.and_le_right
  simp only [tie_ties1_v4_ihl, BitVec.toNat_shiftLeft, BitVec.toNat_setWidth, BitVec.toNat_and, BitVec.toNat_ofNat,
    Nat.shiftLeft_eq, Nat.reducePow, Nat.reduceMod]
  omega

theorem bne_zero16 (x : BitVec 16) : (x != 0#16) = (x.toNat != 0) := by
  rw [Bool.eq_iff_iff]; simp [bne_iff_ne, BitVec.toNat_eq]

theorem ff_toNat (b6 b7 : BitVec 8) :
    (((BitVec.setWidth 16 b6) <<< (8 : Nat)) ||| ((BitVec.setWidth 16 b7) <<< (0 : Nat))).toNat
      = b6.toNat * 256 + b7.toNat := by
  rw [BitVec.toNat_or, toNat_byte_shl _ _ (by decide : 8 + 8 ≤ 16), toNat_byte_shl _ _ (by decide : 0 + 8 ≤ 16),
    be2 _ _ b6.isLt b7.isLt]

theorem fragment_formula (b0 b6 b7 : BitVec 8) :
    tie_ties1_v4_fragment b0 b6 b7 = ((b6.toNat * 256 + b7.toNat) &&& 0x1fff != 0) := by
  simp only [tie_ties1_v4_fragment, bne_zero16, BitVec.toNat_and, ff_toNat, BitVec.toNat_ofNat]

theorem fragAny_formula (b0 b6 b7 : BitVec 8) :
    tie_ties1_v4_fragAny b0 b6 b7 = ((b6.toNat * 256 + b7.toNat) &&& 0x3fff != 0) := by
  simp only [tie_ties1_v4_fragAny, bne_zero16, BitVec.toNat_and, ff_toNat, BitVec.toNat_ofNat]

theorem ipHdrLen_formula (b0 b6 b7 : BitVec 8) :
    (tie_ties1_v4_ipHdrLen b0 b6 b7).toNat = (b0.toNat &&& 0x0f) * 4 := ihl_formula b0

theorem proto_formula (b0 b6 b7 b9 : BitVec 8) : (tie_ties1_v4_proto b0 b6 b7 b9).toNat = b9.toNat := rfl

theorem bind_ok_inv {α β : Type} (x : Res α) (f : α → Res β) (r : β) (h : (x >>= f) = .ok r) :
    ∃ a, x = .ok a ∧ f a = .ok r := by
  cases x with
  | ok a => exact ⟨a, rfl, h⟩
  | err e => cases h
  | panic => cases h

open Nebula.Lemmas.PktParse Nebula.Spec.IP in
/-- the four header-derived fields of every packet the model's `parseV4` accepts, as the model computes them -/
theorem parseV4_ok_fields (d : List UInt8) (inc : Bool) (fp : Parsed) (h : parseV4 d inc = .ok fp) :
    fp.ipHdrLen = (byte d 0 &&& 0x0f) * 4 ∧ fp.fragment = (be16 d 6 &&& 0x1fff != 0)
      ∧ fp.fragAny = (be16 d 6 &&& 0x3fff != 0) ∧ fp.proto = byte d 9 := by
  simp only [parseV4] at h
  by_cases hlen : d.length < 20
  · simp [hlen] at h
  · simp only [if_neg hlen, idx_eq d 0 (by omega), ok_bind] at h
    by_cases hihl : (byte d 0 &&& 0x0f) * 4 < 20
    · rw [if_pos hihl] at h; simp at h
    · simp only [if_neg hihl, u16At_eq d 6 (by omega), idx_eq d 9 (by omega), ok_bind] at h
      have hs1 := slice_eq d 12 16 (by omega) (by omega)
      have hs2 := slice_eq d 16 20 (by omega) (by omega)
      rw [hs1, hs2] at h
      simp only [ok_bind] at h
      repeat' split at h
      all_goals first
        | (cases h; simp; done)
        | (simp at h; done)
        | (obtain ⟨a, _, h⟩ := bind_ok_inv _ _ _ h
           first
           | (cases h; simp; done)
           | (obtain ⟨b, _, h⟩ := bind_ok_inv _ _ _ h
              first | (cases h; simp; done) | (split at h <;> (cases h; simp))))

open Nebula.Lemmas.PktParse Nebula.Spec.IP in
theorem parseV4_translated (d : List UInt8) (inc : Bool) (fp : Parsed) (h : parseV4 d inc = .ok fp) :
    fp.ipHdrLen = (tie_ties1_v4_ipHdrLen (BitVec.ofNat 8 (byte d 0)) (BitVec.ofNat 8 (byte d 6))
        (BitVec.ofNat 8 (byte d 7))).toNat
    ∧ fp.fragment = tie_ties1_v4_fragment (BitVec.ofNat 8 (byte d 0)) (BitVec.ofNat 8 (byte d 6))
        (BitVec.ofNat 8 (byte d 7))
    ∧ fp.fragAny = tie_ties1_v4_fragAny (BitVec.ofNat 8 (byte d 0)) (BitVec.ofNat 8 (byte d 6))
        (BitVec.ofNat 8 (byte d 7))
    ∧ fp.proto = (tie_ties1_v4_proto (BitVec.ofNat 8 (byte d 0)) (BitVec.ofNat 8 (byte d 6))
        (BitVec.ofNat 8 (byte d 7)) (BitVec.ofNat 8 (byte d 9))).toNat := by
  obtain ⟨h1, h2, h3, h4⟩ := parseV4_ok_fields d inc fp h
  have e0 : (BitVec.ofNat 8 (byte d 0)).toNat = byte d 0 := by
    simpa using Nat.mod_eq_of_lt (byte_lt d 0)
  have e6 : (BitVec.ofNat 8 (byte d 6)).toNat = byte d 6 := by
    simpa using Nat.mod_eq_of_lt (byte_lt d 6)
  have e7 : (BitVec.ofNat 8 (byte d 7)).toNat = byte d 7 := by
    simpa using Nat.mod_eq_of_lt (byte_lt d 7)
  have e9 : (BitVec.ofNat 8 (byte d 9)).toNat = byte d 9 := by
    simpa using Nat.mod_eq_of_lt (byte_lt d 9)
  rw [ipHdrLen_formula, fragment_formula, fragAny_formula, proto_formula, e0, e6, e7, e9]
  exact ⟨h1, h2, h3, h4⟩

/-! ### `minLen` of `parseV4` and the offset arithmetic of `iputil.IPv6FindUpperProtocol` -/

theorem minLen_formula (b0 b6 b7 : BitVec 8) (frag : Bool) (proto : BitVec 8) :
    (tie_ties1_v4_minLen b0 b6 b7 frag proto (BitVec.ofNat 8 Gen.firewall_ProtoICMP)).toNat
      = (if !frag then
          (if proto.toNat = Gen.firewall_ProtoICMP then (b0.toNat &&& 0x0f) * 4 + Gen.nebula_minFwPacketLen + 2
           else (b0.toNat &&& 0x0f) * 4 + Gen.nebula_minFwPacketLen)
         else (b0.toNat &&& 0x0f) * 4) := by
  have h := ihl_formula b0
  have hb : b0.toNat &&& 15 ≤ 15 := Nat.and_le_right
  have e : tie_ties1_v4_minLen b0 b6 b7 frag proto (BitVec.ofNat 8 Gen.firewall_ProtoICMP)
      = (if !frag then (if proto == 1#8 then tie_ties1_v4_ihl b0 + 6#64 else tie_ties1_v4_ihl b0 + 4#64)
         else tie_ties1_v4_ihl b0) := by
    cases frag <;> rfl
  rw [e]
  simp only [Gen.firewall_ProtoICMP, Gen.nebula_minFwPacketLen]
  cases frag
  · by_cases hp : proto = 1#8
    · subst hp
      simp only [Bool.not_false, if_true, beq_self_eq_true, BitVec.toNat_add, h, BitVec.toNat_ofNat]
      simp; omega
    · have hp' : ¬ proto.toNat = 1 := fun e => hp (BitVec.eq_of_toNat_eq (by simpa using e))
      have hb' : (proto == 1#8) = false := by simpa using hp
      simp only [Bool.not_false, if_true, hb', Bool.false_eq_true, if_false, hp', BitVec.toNat_add, h,
        BitVec.toNat_ofNat]
      simp; omega
  · simpa using h

theorem toNat64 (a : Nat) (ha : a < 2 ^ 62) : (BitVec.ofNat 64 a).toNat = a := by
  simp only [BitVec.toNat_ofNat]; omega

theorem toInt64 (a : Nat) (ha : a < 2 ^ 62) : (BitVec.ofNat 64 a).toInt = a := by
  rw [BitVec.toInt_eq_toNat_cond]; simp only [BitVec.toNat_ofNat]; omega

theorem toInt64_add (a k : Nat) (ha : a < 2 ^ 62) (hk : k < 2 ^ 61) :
    (BitVec.ofNat 64 a + BitVec.ofNat 64 k).toInt = a + k := by
  rw [BitVec.toInt_eq_toNat_cond]; simp only [BitVec.toNat_add, BitVec.toNat_ofNat]; omega

theorem tlv_next_formula (off : Nat) (l : BitVec 8) (ho : off < 2 ^ 62) :
    (tie_ties1_v6_tlv_next (BitVec.ofNat 64 off) l).toNat = off + (l.toNat + 1) * 8 := by
  have hl := l.isLt
  simp only [tie_ties1_v6_tlv_next, BitVec.toNat_add, BitVec.toNat_shiftLeft, BitVec.toNat_setWidth,
    BitVec.toNat_ofNat, Nat.shiftLeft_eq]
  omega

theorem ah_next_formula (off : Nat) (l : BitVec 8) (ho : off < 2 ^ 62) :
    (tie_ties1_v6_ah_next (BitVec.ofNat 64 off) l).toNat = off + (l.toNat + 2) * 4 := by
  have hl := l.isLt
  simp only [tie_ties1_v6_ah_next, BitVec.toNat_add, BitVec.toNat_shiftLeft, BitVec.toNat_setWidth,
    BitVec.toNat_ofNat, Nat.shiftLeft_eq]
  omega

theorem frag_next_formula (off : Nat) (ho : off < 2 ^ 62) :
    (tie_ties1_v6_frag_next (BitVec.ofNat 64 off)).toNat = off + 8 := by
  simp only [tie_ties1_v6_frag_next, BitVec.toNat_add, BitVec.toNat_ofNat]
  omega

theorem nonfirst_formula (b2 b3 : BitVec 8) :
    tie_ties1_v6_nonfirst b2 b3 = decide (b2.toNat ≠ 0 ∨ b3.toNat &&& 0xf8 ≠ 0) := by
  rw [Bool.eq_iff_iff]
  simp [tie_ties1_v6_nonfirst, bne_iff_ne, BitVec.toNat_eq]

theorem short2_formula (n off : Nat) (hn : n < 2 ^ 62) (ho : off < 2 ^ 62) :
    tie_ties1_v6_short2 (BitVec.ofNat 64 n) (BitVec.ofNat 64 off) = decide (n < off + 2) := by
  have := toInt64_add off 2 ho (by decide)
  simp only [tie_ties1_v6_short2, BitVec.slt, toInt64 n hn]
  rw [show (2#64 : BitVec 64) = BitVec.ofNat 64 2 from rfl, this]
  simp; omega

theorem short8_formula (n off : Nat) (hn : n < 2 ^ 62) (ho : off < 2 ^ 62) :
    tie_ties1_v6_short8 (BitVec.ofNat 64 n) (BitVec.ofNat 64 off) = decide (n < off + 8) := by
  have := toInt64_add off 8 ho (by decide)
  simp only [tie_ties1_v6_short8, BitVec.slt, toInt64 n hn]
  rw [show (8#64 : BitVec 64) = BitVec.ofNat 64 8 from rfl, this]
  simp; omega

theorem past_end_formula (n off : Nat) (hn : n < 2 ^ 62) (ho : off < 2 ^ 62) :
    tie_ties1_v6_past_end (BitVec.ofNat 64 n) (BitVec.ofNat 64 off) = decide (off > n) := by
  simp only [tie_ties1_v6_past_end, BitVec.slt, toInt64 n hn, toInt64 off ho]
  simp

theorem idx_bind_congr {β : Type} (d : Bytes) (i : Nat) (f g : Nat → Res β)
    (h : ∀ b : BitVec 8, f b.toNat = g b.toNat) : (idx d i >>= f) = (idx d i >>= g) := by
  unfold idx
  cases d[i]? with
  | none => rfl
  | some b =>
    have := h (BitVec.ofNat 8 b.toNat)
    have e : (BitVec.ofNat 8 b.toNat).toNat = b.toNat := by
      simpa using Nat.mod_eq_of_lt (UInt8.toNat_lt b)
    rw [e] at this
    exact this

theorem bind_congr' {α β : Type} (x : Res α) (f g : α → Res β) (h : ∀ a, f a = g a) : (x >>= f) = (x >>= g) := by
  have : f = g := funext h
  rw [this]

/-- One iteration of the extension-header walk: the model's step with every bounds test and every offset update
replaced by the regenerated one. -/
theorem findUpperLoop_step (d : Bytes) (fuel nh off : Nat) (af : Bool) (hd : d.length < 2 ^ 62) (ho : off < 2 ^ 62) :
    findUpperLoop d (fuel + 1) nh off af =
      if nh ∈ tlvTypes then
        if tie_ties1_v6_short2 (BitVec.ofNat 64 d.length) (BitVec.ofNat 64 off) then .err .v6NoPayload
        else idx d off >>= fun n => idx d (off + 1) >>= fun l =>
          findUpperLoop d fuel n (tie_ties1_v6_tlv_next (BitVec.ofNat 64 off) (BitVec.ofNat 8 l)).toNat af
      else if nh ∈ fragTypes then
        if tie_ties1_v6_short8 (BitVec.ofNat 64 d.length) (BitVec.ofNat 64 off) then .err .v6NoPayload
        else idx d (off + 2) >>= fun b2 => idx d (off + 3) >>= fun b3 =>
          if tie_ties1_v6_nonfirst (BitVec.ofNat 8 b2) (BitVec.ofNat 8 b3) then
            idx d off >>= fun n => .ok ⟨n, off, true, true⟩
          else idx d off >>= fun n =>
            findUpperLoop d fuel n (tie_ties1_v6_frag_next (BitVec.ofNat 64 off)).toNat true
      else if nh ∈ ahTypes then
        if tie_ties1_v6_short2 (BitVec.ofNat 64 d.length) (BitVec.ofNat 64 off) then .err .v6NoPayload
        else idx d off >>= fun n => idx d (off + 1) >>= fun l =>
          findUpperLoop d fuel n (tie_ties1_v6_ah_next (BitVec.ofNat 64 off) (BitVec.ofNat 8 l)).toNat af
      else
        if tie_ties1_v6_past_end (BitVec.ofNat 64 d.length) (BitVec.ofNat 64 off) then .err .v6NoPayload
        else .ok ⟨nh, off, false, af⟩ := by
  rw [findUpperLoop]
  simp only [short2_formula _ _ hd ho, short8_formula _ _ hd ho, past_end_formula _ _ hd ho, decide_eq_true_eq,
    frag_next_formula off ho]
  split
  · split
    · rfl
    · apply bind_congr'; intro n
      apply idx_bind_congr; intro l
      simp only [BitVec.ofNat_toNat, BitVec.setWidth_eq, tlv_next_formula off l ho]
  · split
    · split
      · rfl
      · apply idx_bind_congr; intro b2
        apply idx_bind_congr; intro b3
        simp only [BitVec.ofNat_toNat, BitVec.setWidth_eq, nonfirst_formula, decide_eq_true_eq]
    · split
      · split
        · rfl
        · apply bind_congr'; intro n
          apply idx_bind_congr; intro l
          simp only [BitVec.ofNat_toNat, BitVec.setWidth_eq, ah_next_formula off l ho]
      · rfl

end Nebula.Lemmas.Ties1ParseTie
