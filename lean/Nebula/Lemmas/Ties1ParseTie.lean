/-
Tie of the IPv4 classification model (C20) to `parseV4` regenerated from outside.go: header length, the two fragment
tests, the stored header length and protocol byte.
-/
import Nebula.Lemmas.PktParse
import Nebula.Gen.tie_ties1_parse
import Nebula.Lemmas.Ties1Bytes

namespace Nebula.Lemmas.Ties1ParseTie
open Nebula.Gen Nebula.Pkt Nebula.Lemmas.Ties1Bytes

theorem ihl_formula (b0 : BitVec 8) : (tie_ties1_v4_ihl b0).toNat = (b0.toNat &&& 0x0f) * 4 := by
  have h : b0.toNat &&& 15 ≤ 15 := Nat.and_le_right
  simp only [tie_ties1_v4_ihl, BitVec.toNat_shiftLeft, BitVec.toNat_setWidth, BitVec.toNat_and, BitVec.toNat_ofNat,
    Nat.shiftLeft_eq, Nat.reducePow, Nat.reduceMod]
  omega

theorem bne_zero16 (x : BitVec 16) : (x != 0#16) = (x.toNat != 0) := by
  rw [Bool.eq_iff_iff]; simp [bne_iff_ne, BitVec.toNat_eq]

theorem ff_toNat (b6 b7 : BitVec 8) :
    (((BitVec.setWidth 16 b6) <<< (8 : Nat)) ||| ((BitVec.setWidth 16 b7) <<< (0 : Nat))).toNat
      = b6.toNat * 256 + b7.toNat := by
  rw [BitVec.toNat_or, toNat_byte_shl _ _ (by decide : 8 + 8 ≤ 16), toNat_byte_shl _ _ (by decide : 0 + 8 ≤ 16),
    be2 _ _ b6.isLt b7.isLt]

theorem fragment_formula (b0 b6 b7 : BitVec 8) :
    tie_ties1_v4_fragment b0 b6 b7 = ((b6.toNat * 256 + b7.toNat) &&& 0x1fff != 0) := by
  simp only [tie_ties1_v4_fragment, bne_zero16, BitVec.toNat_and, ff_toNat, BitVec.toNat_ofNat]

theorem fragAny_formula (b0 b6 b7 : BitVec 8) :
    tie_ties1_v4_fragAny b0 b6 b7 = ((b6.toNat * 256 + b7.toNat) &&& 0x3fff != 0) := by
  simp only [tie_ties1_v4_fragAny, bne_zero16, BitVec.toNat_and, ff_toNat, BitVec.toNat_ofNat]

theorem ipHdrLen_formula (b0 b6 b7 : BitVec 8) :
    (tie_ties1_v4_ipHdrLen b0 b6 b7).toNat = (b0.toNat &&& 0x0f) * 4 := ihl_formula b0

theorem proto_formula (b0 b6 b7 b9 : BitVec 8) : (tie_ties1_v4_proto b0 b6 b7 b9).toNat = b9.toNat := rfl

theorem bind_ok_inv {α β : Type} (x : Res α) (f : α → Res β) (r : β) (h : (x >>= f) = .ok r) :
    ∃ a, x = .ok a ∧ f a = .ok r := by
  cases x with
  | ok a => exact ⟨a, rfl, h⟩
  | err e => cases h
  | panic => cases h

open Nebula.Lemmas.PktParse Nebula.Spec.IP in
/-- the four header-derived fields of every packet the model's `parseV4` accepts, as the model computes them -/
theorem parseV4_ok_fields (d : List UInt8) (inc : Bool) (fp : Parsed) (h : parseV4 d inc = .ok fp) :
    fp.ipHdrLen = (byte d 0 &&& 0x0f) * 4 ∧ fp.fragment = (be16 d 6 &&& 0x1fff != 0)
      ∧ fp.fragAny = (be16 d 6 &&& 0x3fff != 0) ∧ fp.proto = byte d 9 := by
  simp only [parseV4] at h
  by_cases hlen : d.length < 20
  · simp [hlen] at h
  · simp only [if_neg hlen, idx_eq d 0 (by omega), ok_bind] at h
    by_cases hihl : (byte d 0 &&& 0x0f) * 4 < 20
    · rw [if_pos hihl] at h; simp at h
    · simp only [if_neg hihl, u16At_eq d 6 (by omega), idx_eq d 9 (by omega), ok_bind] at h
      have hs1 := slice_eq d 12 16 (by omega) (by omega)
      have hs2 := slice_eq d 16 20 (by omega) (by omega)
      rw [hs1, hs2] at h
      simp only [ok_bind] at h
      repeat' split at h
      all_goals first
        | (cases h; simp; done)
        | (simp at h; done)
        | (obtain ⟨a, _, h⟩ := bind_ok_inv _ _ _ h
           first
           | (cases h; simp; done)
           | (obtain ⟨b, _, h⟩ := bind_ok_inv _ _ _ h
              first | (cases h; simp; done) | (split at h <;> (cases h; simp))))

open Nebula.Lemmas.PktParse Nebula.Spec.IP in
theorem parseV4_translated (d : List UInt8) (inc : Bool) (fp : Parsed) (h : parseV4 d inc = .ok fp) :
    fp.ipHdrLen = (tie_ties1_v4_ipHdrLen (BitVec.ofNat 8 (byte d 0)) (BitVec.ofNat 8 (byte d 6))
        (BitVec.ofNat 8 (byte d 7))).toNat
    ∧ fp.fragment = tie_ties1_v4_fragment (BitVec.ofNat 8 (byte d 0)) (BitVec.ofNat 8 (byte d 6))
        (BitVec.ofNat 8 (byte d 7))
    ∧ fp.fragAny = tie_ties1_v4_fragAny (BitVec.ofNat 8 (byte d 0)) (BitVec.ofNat 8 (byte d 6))
        (BitVec.ofNat 8 (byte d 7))
    ∧ fp.proto = (tie_ties1_v4_proto (BitVec.ofNat 8 (byte d 0)) (BitVec.ofNat 8 (byte d 6))
        (BitVec.ofNat 8 (byte d 7)) (BitVec.ofNat 8 (byte d 9))).toNat := by
  obtain ⟨h1, h2, h3, h4⟩ := parseV4_ok_fields d inc fp h
  have e0 : (BitVec.ofNat 8 (byte d 0)).toNat = byte d 0 := by
    simpa using Nat.mod_eq_of_lt (byte_lt d 0)
  have e6 : (BitVec.ofNat 8 (byte d 6)).toNat = byte d 6 := by
    simpa using Nat.mod_eq_of_lt (byte_lt d 6)
  have e7 : (BitVec.ofNat 8 (byte d 7)).toNat = byte d 7 := by
    simpa using Nat.mod_eq_of_lt (byte_lt d 7)
  have e9 : (BitVec.ofNat 8 (byte d 9)).toNat = byte d 9 := by
    simpa using Nat.mod_eq_of_lt (byte_lt d 9)
  rw [ipHdrLen_formula, fragment_formula, fragAny_formula, proto_formula, e0, e6, e7, e9]
  exact ⟨h1, h2, h3, h4⟩

end Nebula.Lemmas.Ties1ParseTie
