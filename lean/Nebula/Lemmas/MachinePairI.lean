/-
The initiator side of `Model/MachinePair`: invariant under every event.
-/
import Nebula.Lemmas.MachinePair

namespace Nebula.MachinePair
open Nebula.Wire Nebula.Machine Nebula.Spec.NoiseSession

variable {σ κ β : Type}

/-- What is always true of the initiator side. -/
def InvI (N : Noise σ κ β) (E : Env) (li : Nat) (x : Side σ) : Prop :=
  N.isInit x.n = true ∧
  (x.st.failed = false → x.st.msgIdx = N.total x.n) ∧
  (N.total x.n = 0 → x.res = none ∧ (x.st.failed = false → x.st.indexAllocated = false)) ∧
  (1 ≤ N.total x.n → N.total x.n ≤ 2 ∧ ∃ s1, N.writes x.n = [plaintext E s1] ∧ s1.initiatorIndex = li ∧
      s1.responderIndex = 0 ∧ s1.time < 2 ^ 64 ∧ s1.certVersion < 2 ^ 32 ∧
      (x.st.failed = false → x.st.localIndex = li)) ∧
  (N.total x.n = 1 → x.res = none) ∧
  (∀ r, x.res = some r → ∃ m2 p2, N.reads x.n = [m2] ∧ Payload.unmarshalPayload m2 = .ok p2 ∧
      r.remoteIndex = p2.responderIndex ∧ r.remoteIndex ≠ 0 ∧ r.localIndex = li ∧ r.messageIndex = 2 ∧
      r.eKey = .cs1 ∧ r.dKey = .cs2)

/-- replacing the Machine state by itself or by a failed one keeps the invariant. -/
theorem InvI.st_change {N : Noise σ κ β} {E : Env} {li : Nat} {x : Side σ} (h : InvI N E li x) (s' : St)
    (hs : s' = x.st ∨ s'.failed = true) : InvI N E li { x with st := s' } := by
  rcases hs with rfl | hf
  · exact h
  · obtain ⟨h1, _, h3, h4, h5, h6⟩ := h
    refine ⟨h1, ?_, ?_, ?_, h5, h6⟩
    · intro hh; simp [hf] at hh
    · intro ht; exact ⟨(h3 ht).1, by intro hh; simp [hf] at hh⟩
    · intro ht
      obtain ⟨a, s1, b1, b2, b3, b4, b5, _⟩ := h4 ht
      exact ⟨a, s1, b1, b2, b3, b4, b5, by intro hh; simp [hf] at hh⟩

theorem total_zero {N : Noise σ κ β} {n : σ} (h : N.total n = 0) : N.reads n = [] ∧ N.writes n = [] := by
  unfold Noise.total at h
  exact ⟨List.length_eq_zero_iff.mp (by omega), List.length_eq_zero_iff.mp (by omega)⟩

theorem invI_initiate {N : Noise σ κ β} (hN : Lawful N) {E : Env} {li : Nat} (hE : GoodEnv E true li)
    {x : Side σ} (h : InvI N E li x) (now : Nat) : InvI N E li (x.initiate N E now) := by
  unfold Side.initiate
  cases ho : (Machine.initiate E.cfg x.st (clock now) (N.writeOut x.n)).2 with
  | err e =>
    simp only [ho]
    exact h.st_change _ (initiate_err_inv (by rw [← ho]))
  | ok sent res =>
    obtain ⟨hf, _, hm, rfl, xs, dk, ek, rfl, hbr⟩ := initiate_ok_inv (Prod.ext rfl ho :
      Machine.initiate E.cfg x.st (clock now) (N.writeOut x.n) = (_, .ok sent res))
    simp only [ho]
    obtain ⟨h1, h2, h3, _, _, _⟩ := h
    have ht : N.total x.n = 0 := by rw [← h2 hf]; exact hm
    obtain ⟨hres, hia⟩ := h3 ht
    have hfl : myMsgFlags E.cfg x.st = ⟨true, true⟩ := by
      simp [myMsgFlags, hE.msgs, hm, flagsAt_ix0]
    obtain ⟨_, b2, b3, _, _, b6, b7, b8, b9, _, b11⟩ := buildResponse_ix hfl hbr
    obtain ⟨hr0, hw0⟩ := total_zero ht
    obtain ⟨w1, w2, w3⟩ := hN.write_log x.n (plaintext E xs)
    have hli : (Machine.initiate E.cfg x.st (clock now) (N.writeOut x.n)).1.localIndex = li := by
      rw [hia hf] at b6
      simp only [Bool.false_eq_true, if_false] at b6
      rw [hE.alloc] at b6
      exact (Option.some.inj b6).symm
    have htot : N.total (N.write x.n (plaintext E xs)).2 = 1 := by
      simp [Noise.total, w1, w2, hr0, hw0]
    refine ⟨by rw [w3]; exact h1, ?_, ?_, ?_, ?_, ?_⟩
    · intro _; rw [htot, b2, hm]
    · intro hz; rw [htot] at hz; omega
    · intro _
      refine ⟨by rw [htot]; omega, xs, by rw [w1, hw0]; rfl, ?_, ?_, ?_, ?_, fun _ => hli⟩
      · rw [b7, hE.role]; simpa using hli
      · rw [b8, hE.role]; rfl
      · rw [b9]; exact clock_lt now
      · rw [b11]; exact hE.cv _
    · intro _; exact hres
    · intro r hr; rw [hres] at hr; simp at hr

theorem invI_deliver {N : Noise σ κ β} (hN : Lawful N) {E : Env} {li : Nat} (hE : GoodEnv E true li)
    {x : Side σ} (h : InvI N E li x) (len sub : Nat) (body : Bytes) (now : Nat) :
    InvI N E li (x.deliver N E len sub body now) := by
  unfold Side.deliver
  by_cases hreach : reachesNoise E.cfg x.st len sub = true
  · simp only [hreach, if_true]
    obtain ⟨h1, h2, h3, h4, h5, h6⟩ := h
    -- the pre-checks passed: not failed, and Initiate has been called
    have hf : x.st.failed = false := by
      simp only [reachesNoise, Bool.and_eq_true, Bool.not_eq_true'] at hreach; exact hreach.1.1.1
    have hm0 : x.st.msgIdx ≠ 0 := by
      intro hz
      simp [reachesNoise, hE.role, hz] at hreach
    have ht1 : 1 ≤ N.total x.n := by rw [← h2 hf]; omega
    obtain ⟨ht2, s1, hw, c1, c2, c3, c4, hli⟩ := h4 ht1
    cases hrd : (N.read x.n body).1 with
    | err m =>
      obtain ⟨r1, r2, r3, _⟩ := hN.read_err x.n body m (N.read x.n body).2 (Prod.ext hrd rfl)
      obtain ⟨⟨e, he⟩, hst⟩ := @pp_read_err E.cfg x.st len sub m ⟨none, none⟩ (clock now) (N.writeOut (N.read x.n body).2)
      simp only [he]
      have htot : N.total (N.read x.n body).2 = N.total x.n := by simp [Noise.total, r1, r2]
      have base : InvI N E li { x with n := (N.read x.n body).2 } := by
        refine ⟨by rw [r3]; exact h1, ?_, ?_, ?_, ?_, ?_⟩
        · intro hh; rw [htot]; exact h2 hh
        · intro hz; rw [htot] at hz; exact h3 hz
        · intro _; rw [htot]; exact ⟨ht2, s1, by rw [r2]; exact hw, c1, c2, c3, c4, hli⟩
        · intro hz; rw [htot] at hz; exact h5 hz
        · intro r hr; obtain ⟨m2, p2, a, b⟩ := h6 r hr; exact ⟨m2, p2, by rw [r1]; exact a, b⟩
      exact base.st_change _ hst
    | ok msg k1 k2 ps =>
      obtain ⟨r1, r2, r3, hk, hk1⟩ := hN.read_ok x.n body msg k1 k2 ps (N.read x.n body).2 (Prod.ext hrd rfl)
      -- a successful read is only possible for the second message
      have ht : N.total x.n = 1 := by
        rcases Nat.lt_or_ge (N.total x.n) 2 with hlt | hge
        · omega
        · have := hN.read_done x.n body hge
          rw [this] at hrd; simp at hrd
      have hk1t : k1 = true := hk1.mpr (by omega)
      have hk2t : k2 = true := by rw [← hk]; exact hk1t
      have hreads : N.reads x.n = [] := by
        have : (N.writes x.n).length = 1 := by rw [hw]; rfl
        unfold Noise.total at ht
        exact List.length_eq_zero_iff.mp (by omega)
      have htot : N.total (N.read x.n body).2 = 2 := by
        simp [Noise.total, r1, r2, hreads, hw]
      have hres0 := h5 ht
      cases ho : (processPacket E.cfg x.st len sub (.ok msg k1 k2 ps) (E.certOracle msg ps) (clock now)
          (N.writeOut (N.read x.n body).2)).2 with
      | err e =>
        simp only [ho]
        have hfail := pp_err_after_read hreach (Prod.ext rfl ho :
          processPacket E.cfg x.st len sub (.ok msg k1 k2 ps) (E.certOracle msg ps) (clock now)
            (N.writeOut (N.read x.n body).2) = (_, .err e))
        refine ⟨by rw [r3]; exact h1, ?_, ?_, ?_, ?_, ?_⟩
        · intro hh; rw [hfail] at hh; simp at hh
        · intro hz; rw [htot] at hz; omega
        · intro _; rw [htot]
          exact ⟨by omega, s1, by rw [r2]; exact hw, c1, c2, c3, c4, by intro hh; rw [hfail] at hh; simp at hh⟩
        · intro hz; rw [htot] at hz; omega
        · intro r hr; rw [hres0] at hr; simp at hr
      | ok sent res =>
        obtain ⟨_, _, msg', k1', k2', ps', sP, hrdeq, hpp, hcase⟩ := pp_ok_inv true E.cfg x.st _ len sub _ _ _ _ sent res
          (Prod.ext rfl ho : processPacketG true E.cfg x.st len sub (.ok msg k1 k2 ps) (E.certOracle msg ps) (clock now)
            (N.writeOut (N.read x.n body).2) = (_, .ok sent res))
        simp only [ReadOut.ok.injEq] at hrdeq
        obtain ⟨rfl, rfl, rfl, rfl⟩ := hrdeq
        rcases hcase with ⟨_, _, rfl, hs', rfl, _, _⟩ | ⟨hkf, _⟩
        · simp only [ho]
          have hfl : peerMsgFlags E.cfg { x.st with msgIdx := x.st.msgIdx + 1 } = ⟨true, true⟩ := by
            have : x.st.msgIdx = 1 := by rw [h2 hf, ht]
            simp [peerMsgFlags, hE.msgs, this, flagsAt_ix1]
          rw [hfl] at hpp
          obtain ⟨p, hp, q1, q2, q3, q4, _, q6⟩ := processPayload_ok_fields hpp
          simp only at q3 q4 q6
          have hs2 : (processPacket E.cfg x.st len sub (.ok msg k1 k2 ps) (E.certOracle msg ps) (clock now)
              (N.writeOut (N.read x.n body).2)).1 = sP := hs'
          rw [hs2]
          refine ⟨by rw [r3]; exact h1, ?_, ?_, ?_, ?_, ?_⟩
          · intro _; rw [htot, q4, h2 hf, ht]
          · intro hz; rw [htot] at hz; omega
          · intro _; rw [htot]
            exact ⟨by omega, s1, by rw [r2]; exact hw, c1, c2, c3, c4, fun _ => by rw [q3]; exact hli hf⟩
          · intro hz; rw [htot] at hz; omega
          · intro r hr
            simp only [Option.some.injEq] at hr
            subst hr
            refine ⟨msg, p, by rw [r1, hreads]; rfl, hp, ?_, ?_, ?_, ?_, rfl, rfl⟩
            · simp only [completed]; rw [q1, hE.role]; rfl
            · simp only [completed]; exact q2
            · simp only [completed]; rw [q3]; exact hli hf
            · simp only [completed]; rw [q4, h2 hf, ht]
        · rw [hk1t] at hkf; simp at hkf
  · simp only [hreach, if_false]
    exact h.st_change _ (pp_unreached (by simpa using hreach))

end Nebula.MachinePair
