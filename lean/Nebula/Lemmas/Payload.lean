/-
Lemmas about `Model/Payload` (handshake/payload.go): no panic / no fuel exhaustion on any input,
and the step lemma "one well-formed record in front of anything is consumed exactly".
-/
import Nebula.Lemmas.Wire
import Nebula.Model.Payload
import Nebula.Spec.HandshakeSchema

namespace Nebula.Payload
open Nebula.Wire

/-! ### totality -/

theorem varintField_ne_panic (typ : Nat) (b : Bytes) (l : Bool) : varintField typ b l ≠ .panic := by
  unfold varintField
  split; · simp
  split; · simp
  rename_i v n hv
  have := consumeVarint_bounds hv
  split; · simp
  rw [sliceFrom_of_le this.2.1]; simp

theorem varintField_ok_length {typ : Nat} {b : Bytes} {l : Bool} {v : Nat} {rest : Bytes}
    (h : varintField typ b l = .ok v rest) : rest.length < b.length := by
  unfold varintField at h
  split at h; · simp at h
  split at h; · simp at h
  rename_i v' n hv
  have hb := consumeVarint_bounds hv
  split at h; · simp at h
  rw [sliceFrom_of_le hb.2.1] at h
  simp at h
  obtain ⟨_, rfl⟩ := h
  simp; omega

/-- `r` is a regular outcome: a payload or one of the two errors. -/
def Regular (r : PRes) : Prop := r ≠ .panic ∧ r ≠ .stuck

theorem ofVarintField_spec {typ : Nat} {b : Bytes} {l : Bool} {set : Nat → Payload} :
    (∃ v rest, ofVarintField (varintField typ b l) set = .next (set v) rest ∧ rest.length < b.length) ∨
    ofVarintField (varintField typ b l) set = .stop .errDetails := by
  cases h : varintField typ b l with
  | err => right; simp [ofVarintField]
  | panic => exact absurd h (varintField_ne_panic _ _ _)
  | ok v rest => left; exact ⟨v, rest, by simp [ofVarintField], varintField_ok_length h⟩

/-- One iteration of the details loop either continues on no more bytes than it was given, or stops
with a regular outcome. -/
theorem detailsField_spec (p : Payload) (num typ : Nat) (b : Bytes) :
    (∃ p' rest, detailsField p num typ b = .next p' rest ∧ rest.length ≤ b.length) ∨
    (∃ r, detailsField p num typ b = .stop r ∧ Regular r) := by
  have hv : ∀ (l : Bool) (set : Nat → Payload),
      (∃ p' rest, ofVarintField (varintField typ b l) set = .next p' rest ∧ rest.length ≤ b.length) ∨
      (∃ r, ofVarintField (varintField typ b l) set = .stop r ∧ Regular r) := by
    intro l set
    rcases @ofVarintField_spec typ b l set with ⟨v, rest, h1, h2⟩ | h
    · left; exact ⟨_, _, h1, by omega⟩
    · right; exact ⟨_, h, by simp [Regular]⟩
  unfold detailsField
  split
  · split; · right; exact ⟨_, rfl, by simp [Regular]⟩
    split; · right; exact ⟨_, rfl, by simp [Regular]⟩
    rename_i v m hv
    have hv' := consumeBytes_bounds hv
    rw [sliceFrom_of_le hv'.2.1]
    left; exact ⟨_, _, rfl, by simp⟩
  · split; · exact hv _ _
    split; · exact hv _ _
    split; · exact hv _ _
    split; · exact hv _ _
    split; · right; exact ⟨_, rfl, by simp [Regular]⟩
    rename_i m hm
    rw [sliceFrom_of_le (consumeFieldValue_bounds hm)]
    left; exact ⟨_, _, rfl, by simp⟩

theorem detailsLoop_regular : ∀ (fuel : Nat) (p : Payload) (b : Bytes), b.length < fuel →
    Regular (detailsLoop fuel p b) := by
  intro fuel
  induction fuel with
  | zero => intro p b h; omega
  | succ fuel ih =>
    intro p b hlen
    unfold detailsLoop
    split; · simp [Regular]
    split; · simp [Regular]
    rename_i num typ n ht
    have hb := consumeTag_bounds ht
    rw [sliceFrom_of_le hb.2.1]
    simp only
    rcases detailsField_spec p num typ (b.drop n) with ⟨p', rest, h1, h2⟩ | ⟨r, h1, h2⟩
    · rw [h1]; exact ih _ _ (by simp at h2; omega)
    · rw [h1]; exact h2

theorem unmarshalDetails_regular (p : Payload) (b : Bytes) : Regular (unmarshalDetails p b) :=
  detailsLoop_regular _ _ _ (by omega)

theorem payloadField_spec (p : Payload) (num typ : Nat) (b : Bytes) :
    (∃ p' rest, payloadField p num typ b = .next p' rest ∧ rest.length ≤ b.length) ∨
    (∃ r, payloadField p num typ b = .stop r ∧ Regular r) := by
  unfold payloadField
  split
  · split; · right; exact ⟨_, rfl, by simp [Regular]⟩
    rename_i v m hv
    have hv' := consumeBytes_bounds hv
    rw [sliceFrom_of_le hv'.2.1]
    simp only
    split
    · left; exact ⟨_, _, rfl, by simp⟩
    · right; exact ⟨_, rfl, unmarshalDetails_regular _ _⟩
  · split; · right; exact ⟨_, rfl, by simp [Regular]⟩
    rename_i m hm
    rw [sliceFrom_of_le (consumeFieldValue_bounds hm)]
    left; exact ⟨_, _, rfl, by simp⟩

theorem payloadLoop_regular : ∀ (fuel : Nat) (p : Payload) (b : Bytes), b.length < fuel →
    Regular (payloadLoop fuel p b) := by
  intro fuel
  induction fuel with
  | zero => intro p b h; omega
  | succ fuel ih =>
    intro p b hlen
    unfold payloadLoop
    split; · simp [Regular]
    split; · simp [Regular]
    rename_i num typ n ht
    have hb := consumeTag_bounds ht
    rw [sliceFrom_of_le hb.2.1]
    simp only
    rcases payloadField_spec p num typ (b.drop n) with ⟨p', rest, h1, h2⟩ | ⟨r, h1, h2⟩
    · rw [h1]; exact ih _ _ (by simp at h2; omega)
    · rw [h1]; exact h2

theorem unmarshalPayload_regular (b : Bytes) : Regular (unmarshalPayload b) :=
  payloadLoop_regular _ _ _ (by omega)

end Nebula.Payload
