/-
Lemmas for C20: the model of newPacket / IPv6FindUpperProtocol (Model/PktParse.lean) never panics and,
whenever it accepts, the independent parser of Spec/IP.lean parses the same bytes to the same findings.
-/
import Nebula.Model.PktParse
import Nebula.Spec.IP
namespace Nebula.Lemmas.PktParse
open Nebula.Pkt Nebula.Spec.IP

/-- the regenerated case lists are the ones the proofs are about (fails to elaborate if the source changes them) -/
theorem mem_tlv (nh : Nat) : nh ∈ tlvTypes ↔ (nh = 0 ∨ nh = 43 ∨ nh = 60) := by
  simp [tlvTypes, Gen.iputil_extHeaderWalkCases]
theorem mem_frag (nh : Nat) : nh ∈ fragTypes ↔ nh = 44 := by
  simp [fragTypes, Gen.iputil_extHeaderWalkCases]
theorem mem_ah (nh : Nat) : nh ∈ ahTypes ↔ nh = 51 := by
  simp [ahTypes, Gen.iputil_extHeaderWalkCases]
theorem mem_after (nh : Nat) : nh ∈ afterLoopTypes ↔ (nh = 0 ∨ nh = 43 ∨ nh = 44 ∨ nh = 51 ∨ nh = 60) := by
  simp [afterLoopTypes, Gen.iputil_extHeaderAfterLoopCases]

@[simp] theorem ok_bind {α β : Type} (a : α) (f : α → Res β) : (Res.ok a >>= f) = f a := rfl
@[simp] theorem err_bind {α β : Type} (e : Err) (f : α → Res β) : (Res.err e >>= f) = Res.err e := rfl
@[simp] theorem panic_bind {α β : Type} (f : α → Res β) : (Res.panic >>= f) = Res.panic := rfl
@[simp] theorem pure_eq {α : Type} (a : α) : (pure a : Res α) = Res.ok a := rfl

theorem idx_eq (d : List UInt8) (i : Nat) (h : i < d.length) : idx d i = .ok (byte d i) := by
  simp [idx, byte, List.getD, h]

theorem slice_eq (d : List UInt8) (a b : Nat) (h1 : a ≤ b) (h2 : b ≤ d.length) :
    slice d a b = .ok ((d.drop a).take (b - a)) := by
  simp [slice, h1, h2]

theorem byte_drop (d : List UInt8) (o i : Nat) : byte (d.drop o) i = byte d (o + i) := by
  simp [byte, List.getD]

theorem u16At_eq (d : List UInt8) (a : Nat) (h : a + 2 ≤ d.length) : u16At d a = .ok (be16 d a) := by
  have h1 : a ≤ a + 2 := by omega
  simp only [u16At, slice_eq d a (a+2) h1 h, ok_bind]
  rw [idx_eq, idx_eq]
  · simp [be16, byte, List.getD]
  · simp; omega
  · simp; omega

theorem drop_cons (d : List UInt8) (i : Nat) (h : i < d.length) : d.drop i = d[i] :: d.drop (i + 1) := by
  simp

theorem loop_no_panic (d : List UInt8) : ∀ fuel nh off af, findUpperLoop d fuel nh off af ≠ .panic := by
  intro fuel
  induction fuel with
  | zero =>
    intro nh off af
    simp only [findUpperLoop, mem_tlv, mem_frag, mem_ah, mem_after]
    split
    · simp
    · split <;> simp
  | succ n ih =>
    intro nh off af
    simp only [findUpperLoop, mem_tlv, mem_frag, mem_ah, mem_after]
    split
    · split
      · simp
      · rw [idx_eq d off (by omega), idx_eq d (off+1) (by omega)]; simp only [ok_bind]; apply ih
    · split
      · split
        · simp
        · rw [idx_eq d (off+2) (by omega), idx_eq d (off+3) (by omega), idx_eq d off (by omega)]
          simp only [ok_bind]
          split
          · simp
          · apply ih
      · split
        · split
          · simp
          · rw [idx_eq d off (by omega), idx_eq d (off+1) (by omega)]; simp only [ok_bind]; apply ih
        · split <;> simp

theorem loop_ok_off_le (d : List UInt8) (fuel nh off : Nat) (af : Bool) (w : V6Walk)
    (h : findUpperLoop d fuel nh off af = .ok w) : off ≤ d.length := by
  cases fuel with
  | zero =>
    simp only [findUpperLoop, mem_tlv, mem_frag, mem_ah, mem_after] at h
    split at h
    · simp at h
    · split at h
      · simp at h
      · omega
  | succ n =>
    simp only [findUpperLoop, mem_tlv, mem_frag, mem_ah, mem_after] at h
    split at h
    · split at h
      · simp at h
      · omega
    · split at h
      · split at h
        · simp at h
        · omega
      · split at h
        · split at h
          · simp at h
          · omega
        · split at h
          · simp at h
          · omega

set_option maxRecDepth 100000 in
theorem and_f8 (b : UInt8) : (b.toNat &&& 0xf8 = 0) ↔ b.toNat / 8 = 0 := by
  have : ∀ n : Fin 256, (n.val &&& 0xf8 = 0) ↔ n.val / 8 = 0 := by decide
  exact this ⟨b.toNat, b.toNat_lt⟩

theorem byte_lt (d : List UInt8) (i : Nat) : byte d i < 256 := by
  simp only [byte]; exact UInt8.toNat_lt _

theorem byte_eq_getElem (d : List UInt8) (i : Nat) (h : i < d.length) : byte d i = d[i].toNat := by
  simp [byte, List.getD, h]


theorem walk_tlv (sf nh : Nat) (rest : List UInt8) (off : Nat) (af : Bool) (k : Nat)
    (hA : nh = 0 ∨ nh = 43 ∨ nh = 60) (a b : UInt8) (tl : List UInt8) (hr : rest = a :: b :: tl)
    (hn : (b.toNat + 1) * 8 ≤ rest.length) :
    walk (sf + 1) nh rest off af k =
      walk sf a.toNat (rest.drop ((b.toNat + 1) * 8)) (off + (b.toNat + 1) * 8) af (k + 1) := by
  subst hr
  simp only [walk, if_pos hA]
  rw [if_pos hn]

theorem walk_ah (sf nh : Nat) (rest : List UInt8) (off : Nat) (af : Bool) (k : Nat)
    (hA : nh = 51) (a b : UInt8) (tl : List UInt8) (hr : rest = a :: b :: tl)
    (hn : (b.toNat + 2) * 4 ≤ rest.length) :
    walk (sf + 1) nh rest off af k =
      walk sf a.toNat (rest.drop ((b.toNat + 2) * 4)) (off + (b.toNat + 2) * 4) af (k + 1) := by
  subst hr; subst hA
  simp only [walk]
  simp only [show ¬ ((51:Nat) = 0 ∨ (51:Nat) = 43 ∨ (51:Nat) = 60) by decide, show ¬ ((51:Nat) = 44) by decide, if_false, if_true]
  rw [if_pos hn]

theorem walk_frag (sf : Nat) (rest : List UInt8) (off : Nat) (af : Bool) (k : Nat)
    (b0 b1 b2 b3 b4 b5 b6 b7 : UInt8) (tl : List UInt8)
    (hr : rest = b0 :: b1 :: b2 :: b3 :: b4 :: b5 :: b6 :: b7 :: tl) :
    walk (sf + 1) 44 rest off af k =
      if b2.toNat * 32 + b3.toNat / 8 ≠ 0 then .resolved b0.toNat off true true rest (k + 1)
      else walk sf b0.toNat tl (off + 8) true (k + 1) := by
  subst hr
  simp only [walk]
  simp only [show ¬ ((44:Nat) = 0 ∨ (44:Nat) = 43 ∨ (44:Nat) = 60) by decide, if_false, if_true]

theorem walk_term (sf nh : Nat) (rest : List UInt8) (off : Nat) (af : Bool) (k : Nat)
    (h1 : ¬ (nh = 0 ∨ nh = 43 ∨ nh = 60)) (h2 : ¬ nh = 44) (h3 : ¬ nh = 51) :
    walk (sf + 1) nh rest off af k = .resolved nh off false af rest k := by
  simp only [walk, if_neg h1, if_neg h2, if_neg h3]

theorem loop_walk (d : List UInt8) : ∀ (fuel nh off : Nat) (af : Bool) (k sf : Nat) (w : V6Walk),
    d.length - off < sf →
    findUpperLoop d fuel nh off af = .ok w →
    ∃ k', walk sf nh (d.drop off) off af k = .resolved w.nh w.off w.isFrag w.anyFrag (d.drop w.off) k' ∧ k' ≤ k + fuel := by
  intro fuel
  induction fuel with
  | zero =>
    intro nh off af k sf w hsf h
    obtain ⟨sf', rfl⟩ : ∃ s, sf = s + 1 := ⟨sf - 1, by omega⟩
    simp only [findUpperLoop, mem_tlv, mem_frag, mem_ah, mem_after] at h
    split at h
    · simp at h
    · split at h
      · simp at h
      · rename_i hne _
        simp only [Res.ok.injEq] at h
        subst h
        exact ⟨k, walk_term _ _ _ _ _ _ (by omega) (by omega) (by omega), by omega⟩
  | succ n ih =>
    intro nh off af k sf w hsf h
    obtain ⟨sf', rfl⟩ : ∃ s, sf = s + 1 := ⟨sf - 1, by omega⟩
    simp only [findUpperLoop, mem_tlv, mem_frag, mem_ah, mem_after] at h
    split at h
    · rename_i hA
      split at h
      · simp at h
      · rename_i hlen
        rw [idx_eq d off (by omega), idx_eq d (off+1) (by omega)] at h
        simp only [ok_bind] at h
        have hle := loop_ok_off_le _ _ _ _ _ _ h
        have hr : d.drop off = d[off]'(by omega) :: d[off+1]'(by omega) :: d.drop (off + 2) := by
          rw [drop_cons d off (by omega), drop_cons d (off+1) (by omega)]
        simp only [byte_eq_getElem d off (by omega), byte_eq_getElem d (off+1) (by omega)] at h hle
        rw [walk_tlv sf' nh _ off af k hA _ _ _ hr (by simp; omega), List.drop_drop]
        (obtain ⟨k', e1, e2⟩ := ih _ _ _ (k + 1) sf' _ (by omega) h; exact ⟨k', e1, by omega⟩)
    · split at h
      · rename_i hA
        subst hA
        split at h
        · simp at h
        · rename_i hlen
          rw [idx_eq d (off+2) (by omega), idx_eq d (off+3) (by omega), idx_eq d off (by omega)] at h
          simp only [ok_bind] at h
          have hr : d.drop off = d[off]'(by omega) :: d[off+1]'(by omega) :: d[off+2]'(by omega) :: d[off+3]'(by omega)
              :: d[off+4]'(by omega) :: d[off+5]'(by omega) :: d[off+6]'(by omega) :: d[off+7]'(by omega) :: d.drop (off + 8) := by
            rw [drop_cons d off (by omega), drop_cons d (off+1) (by omega), drop_cons d (off+2) (by omega),
              drop_cons d (off+3) (by omega), drop_cons d (off+4) (by omega), drop_cons d (off+5) (by omega),
              drop_cons d (off+6) (by omega), drop_cons d (off+7) (by omega)]
          rw [walk_frag sf' _ off af k _ _ _ _ _ _ _ _ _ hr]
          rw [byte_eq_getElem d (off+2) (by omega), byte_eq_getElem d (off+3) (by omega), byte_eq_getElem d off (by omega)] at h
          have hf8 := and_f8 (d[off+3]'(by omega))
          split at h
          · rename_i hfr
            simp only [Res.ok.injEq] at h
            subst h
            have : (d[off+2]'(by omega)).toNat * 32 + (d[off+3]'(by omega)).toNat / 8 ≠ 0 := by
              rcases hfr with h1 | h1
              · omega
              · have := mt hf8.2 h1; omega
            rw [if_pos this]
            exact ⟨_, rfl, by omega⟩
          · rename_i hfr
            have : ¬ ((d[off+2]'(by omega)).toNat * 32 + (d[off+3]'(by omega)).toNat / 8 ≠ 0) := by
              have h1 : (d[off+2]'(by omega)).toNat = 0 := by
                apply Classical.byContradiction; intro hc; exact hfr (Or.inl hc)
              have h2 : (d[off+3]'(by omega)).toNat &&& 0xf8 = 0 := by
                apply Classical.byContradiction; intro hc; exact hfr (Or.inr hc)
              have := hf8.1 h2
              omega
            rw [if_neg this]
            have hle := loop_ok_off_le _ _ _ _ _ _ h
            (obtain ⟨k', e1, e2⟩ := ih _ _ _ (k + 1) sf' _ (by omega) h; exact ⟨k', e1, by omega⟩)
      · split at h
        · rename_i hA
          split at h
          · simp at h
          · rename_i hlen
            rw [idx_eq d off (by omega), idx_eq d (off+1) (by omega)] at h
            simp only [ok_bind] at h
            have hle := loop_ok_off_le _ _ _ _ _ _ h
            have hr : d.drop off = d[off]'(by omega) :: d[off+1]'(by omega) :: d.drop (off + 2) := by
              rw [drop_cons d off (by omega), drop_cons d (off+1) (by omega)]
            simp only [byte_eq_getElem d off (by omega), byte_eq_getElem d (off+1) (by omega)] at h hle
            rw [walk_ah sf' nh _ off af k hA _ _ _ hr (by simp; omega), List.drop_drop]
            (obtain ⟨k', e1, e2⟩ := ih _ _ _ (k + 1) sf' _ (by omega) h; exact ⟨k', e1, by omega⟩)
        · split at h
          · simp at h
          · simp only [Res.ok.injEq] at h
            subst h
            rename_i h1 h2 h3 _
            exact ⟨k, walk_term _ _ _ _ _ _ h1 h2 h3, by omega⟩


/-- the classification reported by the model, as the specification's record -/
def toClass (p : Parsed) : Class :=
  { localAddr := p.localAddr, remoteAddr := p.remoteAddr, localPort := p.localPort, remotePort := p.remotePort,
    proto := p.proto, fragment := p.fragment, ipHdrLen := p.ipHdrLen, fragAny := p.fragAny }

/-- What the walker's answer means, read off the model alone. -/
theorem loop_ok_shape (d : List UInt8) : ∀ (fuel nh off : Nat) (af : Bool) (w : V6Walk),
    findUpperLoop d fuel nh off af = .ok w →
    (w.isFrag = false → isExtHeader w.nh = false) ∧
    (w.isFrag = true → w.nh = byte d w.off ∧ w.off + 8 ≤ d.length ∧ w.anyFrag = true) := by
  intro fuel
  induction fuel with
  | zero =>
    intro nh off af w h
    simp only [findUpperLoop, mem_tlv, mem_frag, mem_ah, mem_after] at h
    split at h
    · simp at h
    · split at h
      · simp at h
      · rename_i hne _
        simp only [Res.ok.injEq] at h
        subst h
        simp [isExtHeader]; omega
  | succ n ih =>
    intro nh off af w h
    simp only [findUpperLoop, mem_tlv, mem_frag, mem_ah, mem_after] at h
    split at h
    · split at h
      · simp at h
      · rw [idx_eq d off (by omega), idx_eq d (off+1) (by omega)] at h
        exact ih _ _ _ _ h
    · split at h
      · split at h
        · simp at h
        · rw [idx_eq d (off+2) (by omega), idx_eq d (off+3) (by omega), idx_eq d off (by omega)] at h
          simp only [ok_bind] at h
          split at h
          · simp only [Res.ok.injEq] at h
            subst h
            simp; omega
          · exact ih _ _ _ _ h
      · split at h
        · split at h
          · simp at h
          · rw [idx_eq d off (by omega), idx_eq d (off+1) (by omega)] at h
            exact ih _ _ _ _ h
        · split at h
          · simp at h
          · simp only [Res.ok.injEq] at h
            subst h
            simp [isExtHeader]; omega

/-- The specification's fuel is never the reason for `unresolved`: any two fuels above the number of
remaining bytes give the same answer (every extension header consumes at least 8 bytes). -/
theorem walk_fuel : ∀ (f1 f2 nh : Nat) (rest : List UInt8) (off : Nat) (af : Bool) (k : Nat),
    rest.length < f1 → rest.length < f2 → walk f1 nh rest off af k = walk f2 nh rest off af k := by
  intro f1
  induction f1 with
  | zero => intro f2 nh rest off af k h; omega
  | succ n ih =>
    intro f2 nh rest off af k h1 h2
    obtain ⟨m, rfl⟩ : ∃ s, f2 = s + 1 := ⟨f2 - 1, by omega⟩
    simp only [walk]
    repeat' split
    all_goals first
      | rfl
      | (apply ih <;> simp only [List.length_drop, List.length_cons] at * <;> omega)

theorem findUpper_no_panic (d : List UInt8) : findUpper d ≠ .panic := by
  simp only [findUpper]
  split
  · simp
  · rw [idx_eq d 6 (by omega)]; exact loop_no_panic _ _ _ _ _

/-- the IPv6 packet the specification finds when the walker answers `w` -/
def pkt6 (d : List UInt8) (w : V6Walk) (k : Nat) : Spec.IP.Pkt :=
  { version := 6, src := (d.drop 8).take 16, dst := (d.drop 24).take 16, proto := w.nh,
    hdrLen := w.off, nonFirstFrag := w.isFrag, anyFrag := w.anyFrag, upper := d.drop w.off, nExt := k }

theorem findUpper_spec_le (d : List UInt8) (w : V6Walk) (h : findUpper d = .ok w) :
    ∃ k, parse6 d = some (pkt6 d w k) ∧ k ≤ maxIPv6ExtHeaders := by
  simp only [findUpper] at h
  split at h
  · simp at h
  · rename_i hlen
    rw [idx_eq d 6 (by omega)] at h
    simp only [ok_bind] at h
    obtain ⟨k, hk, hle⟩ := loop_walk d _ _ _ _ 0 ((d.drop 40).length + 1) w (by simp) h
    refine ⟨k, ?_, by omega⟩
    simp only [parse6, if_neg hlen, hk, pkt6]

theorem findUpper_spec (d : List UInt8) (w : V6Walk) (h : findUpper d = .ok w) :
    ∃ k, parse6 d = some (pkt6 d w k) := by
  obtain ⟨k, hk, _⟩ := findUpper_spec_le d w h
  exact ⟨k, hk⟩

theorem parseV6_no_panic (d : List UInt8) (inc : Bool) : parseV6 d inc ≠ .panic := by
  simp only [parseV6]
  split
  · simp
  · rename_i hlen
    rw [slice_eq d 8 24 (by omega) (by omega), slice_eq d 24 40 (by omega) (by omega)]
    simp only [ok_bind]
    have hnp := findUpper_no_panic d
    split
    · rename_i h; exact absurd h hnp
    · simp
    · rename_i w hw
      split
      · simp
      · split
        · split
          · simp
          · rw [idx_eq d w.off (by omega)]
            simp only [ok_bind]
            split
            · split
              · simp
              · rw [u16At_eq d (w.off + 4) (by omega)]; simp
            · simp
        · split
          · split
            · simp
            · rw [u16At_eq d w.off (by omega), u16At_eq d (w.off + 2) (by omega)]
              simp only [ok_bind]
              split <;> simp
          · simp

theorem and_0f (b : Nat) : b &&& 15 = b % 16 := Nat.and_two_pow_sub_one_eq_mod b 4

theorem parseV4_no_panic (d : List UInt8) (inc : Bool) : parseV4 d inc ≠ .panic := by
  simp only [parseV4]
  by_cases hlen : d.length < 20
  · simp [hlen]
  · simp only [if_neg hlen, idx_eq d 0 (by omega), ok_bind]
    by_cases hihl : (byte d 0 &&& 15) * 4 < 20
    · simp [hihl]
    · simp only [if_neg hihl, u16At_eq d 6 (by omega), idx_eq d 9 (by omega), ok_bind]
      by_cases hfr : (be16 d 6 &&& 8191 != 0) = true
      · simp only [hfr, Bool.not_true, Bool.false_eq_true, if_false, if_true]
        by_cases hmin : d.length < (byte d 0 &&& 15) * 4
        · simp [hmin]
        · simp [hmin, slice_eq d 12 16 (by omega) (by omega), slice_eq d 16 20 (by omega) (by omega)]
      · simp only [Bool.not_eq_true] at hfr
        simp only [hfr, Bool.not_false, if_true, Bool.false_eq_true, if_false]
        by_cases hic : byte d 9 = Gen.firewall_ProtoICMP
        · simp only [hic, if_true, Gen.nebula_minFwPacketLen]
          by_cases hmin : d.length < (byte d 0 &&& 15) * 4 + 4 + 2
          · simp [hmin]
          · simp [hmin, slice_eq d 12 16 (by omega) (by omega), slice_eq d 16 20 (by omega) (by omega),
              u16At_eq d ((byte d 0 &&& 15) * 4 + 4) (by omega)]
        · simp only [hic, if_false, Gen.nebula_minFwPacketLen]
          by_cases hmin : d.length < (byte d 0 &&& 15) * 4 + 4
          · simp [hmin]
          · simp only [hmin, if_false, slice_eq d 12 16 (by omega) (by omega), slice_eq d 16 20 (by omega) (by omega),
              u16At_eq d ((byte d 0 &&& 15) * 4) (by omega), u16At_eq d ((byte d 0 &&& 15) * 4 + 2) (by omega), ok_bind]
            split <;> simp

theorem newPacket_no_panic (d : List UInt8) (inc : Bool) : newPacket d inc ≠ .panic := by
  simp only [newPacket]
  split
  · simp
  · rw [idx_eq d 0 (by omega)]
    simp only [ok_bind]
    split
    · exact parseV4_no_panic d inc
    · split
      · exact parseV6_no_panic d inc
      · simp


theorem and_1fff (b : Nat) : b &&& 8191 = b % 8192 := Nat.and_two_pow_sub_one_eq_mod b 13
theorem and_3fff (b : Nat) : b &&& 16383 = b % 16384 := Nat.and_two_pow_sub_one_eq_mod b 14

def v4NonFirst (d : List UInt8) : Bool := decide ((byte d 6 % 32) * 256 + byte d 7 ≠ 0)
def v4AnyFrag (d : List UInt8) : Bool :=
  decide ((byte d 6 % 32) * 256 + byte d 7 ≠ 0 ∨ (byte d 6 / 32) % 2 = 1)

/-- the IPv4 packet the specification finds -/
def pkt4 (d : List UInt8) : Spec.IP.Pkt :=
  { version := 4, src := (d.drop 12).take 4, dst := (d.drop 16).take 4, proto := byte d 9,
    hdrLen := (byte d 0 % 16) * 4,
    nonFirstFrag := v4NonFirst d, anyFrag := v4AnyFrag d,
    upper := d.drop ((byte d 0 % 16) * 4), nExt := 0 }

theorem parse4_eq (d : List UInt8) (hlen : ¬ d.length < 20) (hihl : ¬ (byte d 0 % 16) * 4 < 20)
    (hl : (byte d 0 % 16) * 4 ≤ d.length) : parse4 d = some (pkt4 d) := by
  have h1 : ¬ (byte d 0 % 16 < 5 ∨ d.length < byte d 0 % 16 * 4) := by omega
  simp only [parse4, if_neg hlen, if_neg h1, pkt4, v4NonFirst, v4AnyFrag]

theorem v4_frag (d : List UInt8) :
    (be16 d 6 % 8192 != 0) = v4NonFirst d := by
  have h6 := byte_lt d 6
  have h7 := byte_lt d 7
  simp only [be16, Nat.reduceAdd, v4NonFirst]
  rw [Bool.eq_iff_iff]; simp only [bne_iff_ne, decide_eq_true_eq]; omega

theorem v4_fragAny (d : List UInt8) :
    (be16 d 6 % 16384 != 0) = v4AnyFrag d := by
  have h6 := byte_lt d 6
  have h7 := byte_lt d 7
  simp only [be16, Nat.reduceAdd, v4AnyFrag]
  rw [Bool.eq_iff_iff]; simp only [bne_iff_ne, decide_eq_true_eq]; omega

theorem be16_drop (d : List UInt8) (o i : Nat) : be16 (d.drop o) i = be16 d (o + i) := by
  simp only [be16, byte_drop]; rfl

theorem parseV4_agree (d : List UInt8) (inc : Bool) (fp : Parsed) (h : parseV4 d inc = .ok fp) :
    parse4 d = some (pkt4 d) ∧ acceptable (pkt4 d) inc (toClass fp) = true := by
  simp only [parseV4] at h
  by_cases hlen : d.length < 20
  · simp [hlen] at h
  · simp only [if_neg hlen, idx_eq d 0 (by omega), ok_bind, and_0f] at h
    by_cases hihl : (byte d 0 % 16) * 4 < 20
    · rw [if_pos hihl] at h; simp at h
    · simp only [if_neg hihl, u16At_eq d 6 (by omega), idx_eq d 9 (by omega), ok_bind, and_1fff, and_3fff,
        v4_frag, v4_fragAny] at h
      by_cases hfr : v4NonFirst d = true
      · simp only [hfr, Bool.not_true, Bool.false_eq_true, if_false, if_true] at h
        by_cases hmin : d.length < (byte d 0 % 16) * 4
        · simp [hmin] at h
        · simp only [hmin, if_false, slice_eq d 12 16 (by omega) (by omega), slice_eq d 16 20 (by omega) (by omega),
            ok_bind, Res.ok.injEq] at h
          subst h
          refine ⟨parse4_eq d hlen hihl (by omega), ?_⟩
          cases inc <;> simp [acceptable, addrsOK, portsOK, toClass, pkt4, hfr]
      · simp only [Bool.not_eq_true] at hfr
        simp only [hfr, Bool.not_false, if_true, Bool.false_eq_true, if_false] at h
        by_cases hic : byte d 9 = Gen.firewall_ProtoICMP
        · simp only [hic, if_true, Gen.nebula_minFwPacketLen] at h
          by_cases hmin : d.length < (byte d 0 % 16) * 4 + 4 + 2
          · simp [hmin] at h
          · simp only [hmin, if_false, slice_eq d 12 16 (by omega) (by omega), slice_eq d 16 20 (by omega) (by omega),
              u16At_eq d ((byte d 0 % 16) * 4 + 4) (by omega), ok_bind, Res.ok.injEq] at h
            subst h
            refine ⟨parse4_eq d hlen hihl (by omega), ?_⟩
            have hl6 : 6 ≤ d.length - byte d 0 % 16 * 4 := by omega
            cases inc <;> simp [acceptable, addrsOK, portsOK, toClass, pkt4, hfr, hic, Pkt.isIcmp, Pkt.icmpId,
              be16_drop, Gen.firewall_ProtoICMP, hl6] <;>
              (cases hh : icmpHasId 4 (byte (List.drop (byte d 0 % 16 * 4) d) 0) <;> simp)
        · simp only [hic, if_false, Gen.nebula_minFwPacketLen] at h
          by_cases hmin : d.length < (byte d 0 % 16) * 4 + 4
          · simp [hmin] at h
          · simp only [hmin, if_false, slice_eq d 12 16 (by omega) (by omega), slice_eq d 16 20 (by omega) (by omega),
              u16At_eq d ((byte d 0 % 16) * 4) (by omega), u16At_eq d ((byte d 0 % 16) * 4 + 2) (by omega),
              ok_bind] at h
            refine ⟨parse4_eq d hlen hihl (by omega), ?_⟩
            have hl4 : 4 ≤ d.length - byte d 0 % 16 * 4 := by omega
            simp only [Gen.firewall_ProtoICMP] at hic
            cases inc
            · simp only [Bool.false_eq_true, if_false, Res.ok.injEq] at h
              subst h
              by_cases hp : byte d 9 = 6 ∨ byte d 9 = 17
              · simp [acceptable, addrsOK, portsOK, toClass, pkt4, hfr, hp, Pkt.ports, be16_drop, hl4]
              · simp [acceptable, addrsOK, portsOK, toClass, pkt4, hfr, hp, Pkt.isIcmp, hic]
            · simp only [if_true, Res.ok.injEq] at h
              subst h
              by_cases hp : byte d 9 = 6 ∨ byte d 9 = 17
              · simp [acceptable, addrsOK, portsOK, toClass, pkt4, hfr, hp, Pkt.ports, be16_drop, hl4]
              · simp [acceptable, addrsOK, portsOK, toClass, pkt4, hfr, hp, Pkt.isIcmp, hic]




theorem parseV6_agree (d : List UInt8) (inc : Bool) (fp : Parsed) (h : parseV6 d inc = .ok fp) :
    ∃ w k, findUpper d = .ok w ∧ parse6 d = some (pkt6 d w k) ∧ acceptable (pkt6 d w k) inc (toClass fp) = true := by
  simp only [parseV6] at h
  by_cases hlen : d.length < 40
  · simp [hlen] at h
  · simp only [if_neg hlen, slice_eq d 8 24 (by omega) (by omega), slice_eq d 24 40 (by omega) (by omega), ok_bind] at h
    split at h
    · simp at h
    · simp at h
    · rename_i w hw
      obtain ⟨k, hk⟩ := findUpper_spec d w hw
      refine ⟨w, k, hw, hk, ?_⟩
      have hshape : (w.isFrag = false → isExtHeader w.nh = false) := by
        simp only [findUpper, if_neg hlen, idx_eq d 6 (by omega), ok_bind] at hw
        exact (loop_ok_shape d _ _ _ _ _ hw).1
      by_cases hfr : w.isFrag = true
      · simp only [hfr, if_true, Res.ok.injEq] at h
        subst h
        cases inc <;> simp [acceptable, addrsOK, portsOK, toClass, pkt6, hfr]
      · simp only [Bool.not_eq_true] at hfr
        have hne := hshape hfr
        simp only [hfr, Bool.false_eq_true, if_false, Gen.firewall_ProtoICMPv6, Gen.firewall_ProtoTCP, Gen.firewall_ProtoUDP] at h
        by_cases h58 : w.nh = 58
        · simp only [h58, if_true] at h
          by_cases hl4 : d.length < w.off + 4
          · simp [hl4] at h
          · simp only [if_neg hl4, idx_eq d w.off (by omega), ok_bind] at h
            by_cases hecho : byte d w.off = 128 ∨ byte d w.off = 129
            · simp only [hecho, if_true] at h
              by_cases hl6 : d.length < w.off + 6
              · simp [hl6] at h
              · simp only [if_neg hl6, u16At_eq d (w.off + 4) (by omega), ok_bind, Res.ok.injEq] at h
                subst h
                have hl6' : 6 ≤ d.length - w.off := by omega
                have hid : icmpHasId 6 (byte d w.off) = true := by
                  rcases hecho with h1 | h1 <;> simp [icmpHasId, h1]
                cases inc <;> simp [acceptable, addrsOK, portsOK, toClass, pkt6, hfr, h58, Pkt.isIcmp, Pkt.icmpId,
                  be16_drop, byte_drop, hl6', hid]
            · simp only [hecho, if_false, Res.ok.injEq] at h
              subst h
              have hid : icmpHasId 6 (byte d w.off) = false := by
                simp only [not_or] at hecho
                simp [icmpHasId, hecho.1, hecho.2]
              cases inc <;> simp [acceptable, addrsOK, portsOK, toClass, pkt6, hfr, h58, Pkt.isIcmp,
                  byte_drop, hid]
        · simp only [h58, if_false] at h
          by_cases hp : w.nh = 6 ∨ w.nh = 17
          · simp only [hp, if_true] at h
            by_cases hl4 : d.length < w.off + 4
            · simp [hl4] at h
            · simp only [if_neg hl4, u16At_eq d w.off (by omega), u16At_eq d (w.off + 2) (by omega), ok_bind] at h
              have hl4' : 4 ≤ d.length - w.off := by omega
              cases inc
              · simp only [Bool.false_eq_true, if_false, Res.ok.injEq] at h
                subst h
                simp [acceptable, addrsOK, portsOK, toClass, pkt6, hfr, hp, Pkt.ports, be16_drop, hl4']
              · simp only [if_true, Res.ok.injEq] at h
                subst h
                simp [acceptable, addrsOK, portsOK, toClass, pkt6, hfr, hp, Pkt.ports, be16_drop, hl4']
          · simp only [hp, if_false, Res.ok.injEq] at h
            subst h
            cases inc <;> simp [acceptable, addrsOK, portsOK, toClass, pkt6, hfr, hp, Pkt.isIcmp, h58]


theorem version_eq (b : Nat) (h : b < 256) : (b >>> 4) &&& 15 = b / 16 := by
  rw [and_0f, Nat.shiftRight_eq_div_pow]; omega

theorem newPacket_agree (d : List UInt8) (inc : Bool) (fp : Parsed) (h : newPacket d inc = .ok fp) :
    ∃ sp, parse d = some sp ∧ acceptable sp inc (toClass fp) = true := by
  simp only [newPacket] at h
  by_cases hlen : d.length < 1
  · simp [hlen] at h
  · simp only [if_neg hlen, idx_eq d 0 (by omega), ok_bind, version_eq _ (byte_lt d 0)] at h
    match d, hlen with
    | b :: tl, _ =>
      have hb : byte (b :: tl) 0 = b.toNat := by simp [byte]
      simp only [hb] at h
      simp only [parse]
      by_cases h4 : b.toNat / 16 = 4
      · simp only [h4, if_true] at h ⊢
        exact ⟨_, parseV4_agree _ _ _ h⟩
      · by_cases h6 : b.toNat / 16 = 6
        · simp only [h6, if_true, show ¬ ((6:Nat) = 4) by decide, if_false] at h ⊢
          obtain ⟨w, k, _, h1, h2⟩ := parseV6_agree _ _ _ h
          exact ⟨_, h1, h2⟩
        · simp [h4, h6] at h

/-- An accepted IPv6 packet that is not a non-first fragment never reports a walked extension header
type as its protocol; a non-first fragment reports the next-header byte of its fragment header. -/
theorem parseV6_proto (d : List UInt8) (inc : Bool) (fp : Parsed) (h : parseV6 d inc = .ok fp) :
    (fp.fragment = false → isExtHeader fp.proto = false) ∧
    (fp.fragment = true → fp.proto = byte d fp.ipHdrLen ∧ fp.ipHdrLen + 8 ≤ d.length ∧ fp.fragAny = true) := by
  obtain ⟨w, k, hw, _, hacc⟩ := parseV6_agree d inc fp h
  have hlen : ¬ d.length < 40 := by
    intro hl; simp [findUpper, hl] at hw
  have hshape := by
    simp only [findUpper, if_neg hlen, idx_eq d 6 (by omega), ok_bind] at hw
    exact loop_ok_shape d _ _ _ _ _ hw
  simp only [acceptable, toClass, pkt6, Bool.and_eq_true, beq_iff_eq] at hacc
  obtain ⟨⟨⟨⟨⟨_, k1⟩, k2⟩, k4⟩, k3⟩, _⟩ := hacc
  rw [k1, k2, k3, k4]
  exact hshape

end Nebula.Lemmas.PktParse
