/-
Frame and lookup characterisations of the hostmap model functions that hold in *every* state (no invariant needed):
which maps a function can touch, and what it does to each entry.
-/
import Nebula.Lemmas.HostMapFMap

namespace Nebula.HostMap
open FMap

theorem genIndex_nonzero {st : List Nat} {i : Nat} {r : List Nat} (h : genIndex st = some (i, r)) : i ≠ 0 := by
  induction st with
  | nil => simp [genIndex] at h
  | cons v t ih =>
    simp only [genIndex] at h
    by_cases hv : v = 0
    · simp [hv] at h; exact ih h
    · simp [hv] at h; omega

/-! ### `unlockedSetHostsForAddr` -/

section setHosts
variable (s : State) (a : Nat) (l : List Nat)

@[simp] theorem setHosts_indexes : (setHostsForAddr s a l).indexes = s.indexes := by
  unfold setHostsForAddr; split <;> first | rfl | (split <;> rfl)
@[simp] theorem setHosts_rindexes : (setHostsForAddr s a l).rindexes = s.rindexes := by
  unfold setHostsForAddr; split <;> first | rfl | (split <;> rfl)
@[simp] theorem setHosts_relays : (setHostsForAddr s a l).relays = s.relays := by
  unfold setHostsForAddr; split <;> first | rfl | (split <;> rfl)
@[simp] theorem setHosts_objs : (setHostsForAddr s a l).objs = s.objs := by
  unfold setHostsForAddr; split <;> first | rfl | (split <;> rfl)
@[simp] theorem setHosts_vpnIps : (setHostsForAddr s a l).vpnIps = s.vpnIps := by
  unfold setHostsForAddr; split <;> first | rfl | (split <;> rfl)
@[simp] theorem setHosts_pidx : (setHostsForAddr s a l).pidx = s.pidx := by
  unfold setHostsForAddr; split <;> first | rfl | (split <;> rfl)
@[simp] theorem setHosts_rs : (setHostsForAddr s a l).rs = s.rs := by
  unfold setHostsForAddr; split <;> first | rfl | (split <;> rfl)
@[simp] theorem setHosts_rstate (h : Nat) : (setHostsForAddr s a l).rstate h = s.rstate h := by
  simp [State.rstate]
@[simp] theorem setHosts_next : (setHostsForAddr s a l).next = s.next := by
  unfold setHostsForAddr; split <;> first | rfl | (split <;> rfl)
@[simp] theorem setHosts_obj (h : Nat) : (setHostsForAddr s a l).obj h = s.obj h := by
  simp [State.obj]

/-- the per-address view after `unlockedSetHostsForAddr(a, l)` -/
theorem setHosts_hostList (a' : Nat) :
    hostList (setHostsForAddr s a l) a' = if a' = a then l else hostList s a' := by
  unfold setHostsForAddr hostList
  match l with
  | [] =>
    simp only [get_del]
    by_cases h : a' = a
    · subst h; simp
    · simp [h, Ne.symm h]
  | [x] =>
    simp only [List.length_nil, ge_iff_le, Nat.le_zero_eq, Nat.one_ne_zero, ↓reduceIte, get_del, get_set]
    by_cases h : a' = a
    · subst h; simp
    · simp [h, Ne.symm h]
  | x :: y :: t =>
    simp only [List.length_cons, ge_iff_le, Nat.le_add_left, ↓reduceIte, get_set]
    by_cases h : a' = a
    · subst h; simp
    · simp [h, Ne.symm h]

end setHosts

/-- `Hosts` / `moreHosts` sync contract -/
def Rep (s : State) : Prop := ∀ a l, s.more.get a = some l → 2 ≤ l.length ∧ s.hosts.get a = l.head?

theorem setHosts_rep {s : State} (hr : Rep s) (a : Nat) (l : List Nat) : Rep (setHostsForAddr s a l) := by
  intro a' l' h
  unfold setHostsForAddr at h ⊢
  match l with
  | [] =>
    simp only [get_del] at h ⊢
    by_cases e : a = a'
    · simp [e] at h
    · simp only [e, ↓reduceIte] at h ⊢; exact hr a' l' h
  | [x] =>
    simp only [List.length_nil, ge_iff_le, Nat.le_zero_eq, Nat.one_ne_zero, ↓reduceIte, get_del, get_set] at h ⊢
    by_cases e : a = a'
    · simp [e] at h
    · simp only [e, ↓reduceIte] at h ⊢; exact hr a' l' h
  | x :: y :: t =>
    simp only [List.length_cons, ge_iff_le, Nat.le_add_left, ↓reduceIte, get_set] at h ⊢
    by_cases e : a = a'
    · simp only [e, ↓reduceIte, Option.some.injEq] at h ⊢; subst h; simp
    · simp only [e, ↓reduceIte] at h ⊢; exact hr a' l' h

theorem rep_more_none {s : State} (hr : Rep s) {a : Nat} (h : s.hosts.get a = none) : s.more.get a = none := by
  cases hm : s.more.get a with
  | none => rfl
  | some l =>
    have := hr a l hm
    rw [h] at this
    match l, this with
    | [], ⟨h2, _⟩ => simp at h2
    | x :: t, ⟨_, h3⟩ => simp at h3

end Nebula.HostMap
