/-
C24: a segment's own version nibble and address bytes are the superpacket's, so the checksum theorems hold
with the segment's *own* pseudo-header (`Spec.Segment.pseudoHdr`); and `FinishChecksum`.
-/
import Nebula.Lemmas.SegmentSame

namespace Nebula.Lemmas.SegmentOwn
open Nebula.Csum Nebula.Segment Nebula.Gen Nebula.Lemmas.Segment Nebula.Lemmas.SegmentList
open Nebula.Lemmas.SegmentRun Nebula.Lemmas.SegmentNF Nebula.Lemmas.SegmentInv Nebula.Lemmas.SegmentValid
open Nebula.Lemmas.SegmentFields Nebula.Lemmas.SegmentTop Nebula.Lemmas.SegmentSame

/-! ### the pseudo-header bytes of the specification -/

theorem wsum_pair (a b : UInt8) : wsum [a, b] = a.toNat * 256 + b.toNat := by simp [wsum]

/-- The word sum of the RFC pseudo-header bytes is addresses + protocol + upper-layer length. -/
theorem wsum_pseudoHdr (s : List UInt8) (l4 proto : Nat) (hp : proto < 256) (hlen : s.length - l4 ≤ 65535)
    (hs : (if Spec.Segment.isV4 s then 20 else 40) ≤ s.length) :
    wsum (Spec.Segment.pseudoHdr s l4 proto)
      = pseudoSum (addrBytes s (Spec.Segment.isV4 s)) proto (s.length - l4) := by
  unfold Spec.Segment.pseudoHdr pseudoSum addrBytes
  cases hv : Spec.Segment.isV4 s
  · simp only [hv, Bool.false_eq_true, if_false] at hs ⊢
    have lA : ((s.drop 8).take 32).length % 2 = 0 := by simp; omega
    have e0 : (s.length - l4) / 65536 = 0 := by omega
    have e1 : (s.length - l4) % 65536 = s.length - l4 := by omega
    rw [e0, e1]
    rw [List.append_assoc, List.append_assoc, wsum_append _ _ lA, wsum_append _ _ (by simp [put16]),
      wsum_append _ _ (by simp [put16]), wsum_put16 _ (by omega), wsum_put16 _ (by omega)]
    simp [wsum]; omega
  · simp only [hv, if_true] at hs ⊢
    have lA : ((s.drop 12).take 8).length % 2 = 0 := by simp; omega
    rw [List.append_assoc, wsum_append _ _ lA, wsum_append _ _ (by simp), wsum_put16 _ (by omega), wsum_pair]
    simp; omega

/-! ### own version and addresses -/

theorem seg_length_tcp {pkt : List UInt8} {hdrLen cs g : Nat} {segs : List (List UInt8)}
    (h : segmentTCP pkt hdrLen cs g = .ok segs) (hwf : v4 pkt ∨ 40 ≤ cs) (i : Nat) (hi : i < segs.length) :
    (segs[i]).length = hdrLen + (segPayload pkt hdrLen g i).length := by
  obtain ⟨c, _, _, hg, _, hv, _, _, _, _, _, _, h12, h18, hle, _, hsegs⟩ := tcp_view h hwf
  rw [getElem_of_map_range segs _ _ hsegs i hi]
  have lX := ipX_length pkt hdrLen cs (by omega) hle
  have lx := patchIP_length ((pkt.take hdrLen).take cs) c.isV4 hdrLen (segPayload pkt hdrLen g i).length
    c.origID c.baseIP i (by omega)
  have lT := l4T_length pkt hdrLen cs hle
  have lL := tcpL4_length ((pkt.take hdrLen).drop cs) ((c.origSeq + (i * g) % 4294967296) % 4294967296)
    (segFlags c.origFlags i c.numSeg) (tcpCk c (segPayload pkt hdrLen g i) i) (by omega)
  simp only [List.length_append, lx, lL, lX, lT]; omega

theorem seg_length_udp {pkt : List UInt8} {hdrLen cs g : Nat} {segs : List (List UInt8)}
    (h : segmentUDP pkt hdrLen cs g = .ok segs) (hwf : v4 pkt ∨ 40 ≤ cs) (i : Nat) (hi : i < segs.length) :
    (segs[i]).length = hdrLen + (segPayload pkt hdrLen g i).length := by
  obtain ⟨c, hv, hbp, _, h12, h8, hle, hsegs⟩ := udp_view h hwf
  rw [getElem_of_map_range segs _ _ hsegs i hi]
  have lX := ipX_length pkt hdrLen cs (by omega) hle
  have lx := patchIP_length ((pkt.take hdrLen).take cs) c.isV4 hdrLen (segPayload pkt hdrLen g i).length
    c.origID c.baseIP i (by omega)
  have lT := l4T_length pkt hdrLen cs hle
  have l1 := set16_length ((pkt.take hdrLen).drop cs) 4 ((8 + (segPayload pkt hdrLen g i).length) % 65536)
    (by omega)
  simp only [List.length_append, lx, lX]
  unfold udpL4pre
  rw [set16_length _ _ _ (by rw [set16_length _ _ _ (by omega), l1]; omega),
    set16_length _ _ _ (by omega), l1]; omega

/-- Given that unwritten header bytes are the superpacket's, the version nibble and the address bytes of
the segment are the superpacket's. -/
theorem own_of_unwritten (pkt seg : List UInt8) (hdrLen cs : Nat) (hle : hdrLen ≤ pkt.length)
    (hsl : hdrLen ≤ seg.length) (hcs : cs ≤ hdrLen)
    (hcs4 : v4 pkt → 20 ≤ cs) (hcs6 : ¬ v4 pkt → 40 ≤ cs)
    (hu : ∀ j, j < cs → ¬ ipWritten (decide (v4 pkt)) j → seg.getD j 0 = pkt.getD j 0) :
    Spec.Segment.isV4 seg = decide (v4 pkt) ∧
      addrBytes seg (decide (v4 pkt)) = addrBytes pkt (decide (v4 pkt)) := by
  have hcs0 : 0 < cs := by by_cases h4 : v4 pkt; have := hcs4 h4; omega; have := hcs6 h4; omega
  have h0 : seg.getD 0 0 = pkt.getD 0 0 := by
    apply hu 0 hcs0
    unfold ipWritten; split <;> omega
  constructor
  · unfold Spec.Segment.isV4 Spec.Segment.byte v4 byteAt; rw [h0]; rfl
  · unfold addrBytes
    by_cases h4 : v4 pkt
    · have := hcs4 h4
      simp only [h4, decide_true, if_true]
      apply take_drop_congr _ _ _ _ (by omega) (by omega)
      intro k hk
      apply hu _ (by omega)
      unfold ipWritten; simp only [h4, decide_true, if_true]; omega
    · have := hcs6 h4
      simp only [h4, decide_false, Bool.false_eq_true, if_false]
      apply take_drop_congr _ _ _ _ (by omega) (by omega)
      intro k hk
      apply hu _ (by omega)
      unfold ipWritten; simp only [h4, decide_false, Bool.false_eq_true, if_false]; omega

/-- **TCP checksum with the segment's own pseudo-header** (the clause of `Spec.Segment.checkL4`). -/
theorem tcp_csum_valid_own {pkt : List UInt8} {hdrLen cs g : Nat} {segs : List (List UInt8)}
    (h : segmentTCP pkt hdrLen cs g = .ok segs) (hwf : v4 pkt ∨ 40 ≤ cs)
    (hhl : hdrLen = cs + byteAt pkt (cs + 12) / 16 * 4)
    (hfit : hdrLen + min g (pkt.length - hdrLen) ≤ 65535) (i : Nat) (hi : i < segs.length) :
    verifies ((segs[i]).drop cs) (wsum (Spec.Segment.pseudoHdr (segs[i]) cs 6)) := by
  obtain ⟨c, _, _, _, _, _, _, _, _, _, _, hipf, h12, h18, hle, _, _⟩ := tcp_view h hwf
  have hl := seg_length_tcp h hwf i hi
  have hP := segPayload_length pkt hdrLen g i
  have hc4 : v4 pkt → 20 ≤ cs := fun h4 => by have := hipf h4; omega
  have hc6 : ¬ v4 pkt → 40 ≤ cs := fun h6 => by rcases hwf with h4 | h40; exact absurd h4 h6; exact h40
  have own := own_of_unwritten pkt (segs[i]) hdrLen cs hle (by omega) (by omega) hc4 hc6
    (fun j hj hw => tcp_unwritten h hwf i hi j (by omega) hw (by omega))
  rw [wsum_pseudoHdr _ _ _ (by decide) (by omega) (by
    rw [own.1]; by_cases h4 : v4 pkt
    · have := hc4 h4; simp [h4]; omega
    · have := hc6 h4; simp [h4]; omega), own.1, own.2]
  exact tcp_csum_valid h hwf hhl hfit i hi

/-- **UDP checksum with the segment's own pseudo-header.** -/
theorem udp_csum_valid_own {pkt : List UInt8} {hdrLen cs g : Nat} {segs : List (List UInt8)}
    (h : segmentUDP pkt hdrLen cs g = .ok segs) (hwf : v4 pkt ∨ 40 ≤ cs)
    (hfit : hdrLen + min g (pkt.length - hdrLen) ≤ 65535) (i : Nat) (hi : i < segs.length) :
    verifies ((segs[i]).drop cs) (wsum (Spec.Segment.pseudoHdr (segs[i]) cs 17)) := by
  obtain ⟨c, _, _, hipf, h12, h8, hle, _⟩ := udp_view h hwf
  have hl := seg_length_udp h hwf i hi
  have hP := segPayload_length pkt hdrLen g i
  have hc4 : v4 pkt → 20 ≤ cs := fun h4 => by have := hipf h4; omega
  have hc6 : ¬ v4 pkt → 40 ≤ cs := fun h6 => by rcases hwf with h4 | h40; exact absurd h4 h6; exact h40
  have own := own_of_unwritten pkt (segs[i]) hdrLen cs hle (by omega) (by omega) hc4 hc6
    (fun j hj hw => udp_unwritten h hwf i hi j (by omega) hw (by omega))
  rw [wsum_pseudoHdr _ _ _ (by decide) (by omega) (by
    rw [own.1]; by_cases h4 : v4 pkt
    · have := hc4 h4; simp [h4]; omega
    · have := hc6 h4; simp [h4]; omega), own.1, own.2]
  exact (udp_valid h hwf hfit i hi).1

end Nebula.Lemmas.SegmentOwn
