/-
The responder side of `Model/MachinePair`: invariant under every delivery.
-/
import Nebula.Lemmas.MachinePairI

namespace Nebula.MachinePair
open Nebula.Wire Nebula.Machine Nebula.Spec.NoiseSession

variable {σ κ β : Type}

/-- What is always true of the responder side. -/
def InvR (N : Noise σ κ β) (E : Env) (lr : Nat) (x : Side σ) : Prop :=
  N.isInit x.n = false ∧
  (x.st.failed = false →
    (N.total x.n = 0 ∧ x.st.msgIdx = 0 ∧ x.st.indexAllocated = false) ∨ N.total x.n = 2) ∧
  N.total x.n ≤ 2 ∧
  (N.total x.n < 2 → x.res = none) ∧
  (∀ r, x.res = some r → ∃ m1 p1 s2, N.reads x.n = [m1] ∧ N.writes x.n = [plaintext E s2] ∧
      Payload.unmarshalPayload m1 = .ok p1 ∧ r.remoteIndex = p1.initiatorIndex ∧ r.remoteIndex ≠ 0 ∧
      s2.initiatorIndex = r.remoteIndex ∧ s2.responderIndex = lr ∧ s2.time < 2 ^ 64 ∧ s2.certVersion < 2 ^ 32 ∧
      r.localIndex = lr ∧ r.messageIndex = 2 ∧ r.eKey = .cs2 ∧ r.dKey = .cs1)

theorem InvR.st_change {N : Noise σ κ β} {E : Env} {lr : Nat} {x : Side σ} (h : InvR N E lr x) (s' : St)
    (hs : s' = x.st ∨ s'.failed = true) : InvR N E lr { x with st := s' } := by
  rcases hs with rfl | hf
  · exact h
  · obtain ⟨h1, _, h3, h4, h5⟩ := h
    exact ⟨h1, by intro hh; simp [hf] at hh, h3, h4, h5⟩

theorem invR_deliver {N : Noise σ κ β} (hN : Lawful N) {E : Env} {lr : Nat} (hE : GoodEnv E false lr)
    {x : Side σ} (h : InvR N E lr x) (len sub : Nat) (body : Bytes) (now : Nat) :
    InvR N E lr (x.deliver N E len sub body now) := by
  unfold Side.deliver
  by_cases hreach : reachesNoise E.cfg x.st len sub = true
  · simp only [hreach, if_true]
    obtain ⟨h1, h2, h3, h4, h5⟩ := h
    have hf : x.st.failed = false := by
      simp only [reachesNoise, Bool.and_eq_true, Bool.not_eq_true'] at hreach; exact hreach.1.1.1
    cases hrd : (N.read x.n body).1 with
    | err m =>
      obtain ⟨r1, r2, r3, _⟩ := hN.read_err x.n body m (N.read x.n body).2 (Prod.ext hrd rfl)
      obtain ⟨⟨e, he⟩, hst⟩ := @pp_read_err E.cfg x.st len sub m ⟨none, none⟩ (clock now) (N.writeOut (N.read x.n body).2)
      simp only [he]
      have htot : N.total (N.read x.n body).2 = N.total x.n := by simp [Noise.total, r1, r2]
      have base : InvR N E lr { x with n := (N.read x.n body).2 } := by
        refine ⟨by rw [r3]; exact h1, ?_, by rw [htot]; exact h3, ?_, ?_⟩
        · intro hh; rw [htot]; exact h2 hh
        · intro hz; rw [htot] at hz; exact h4 hz
        · intro r hr
          obtain ⟨m1, p1, s2, a, b, c⟩ := h5 r hr
          exact ⟨m1, p1, s2, by rw [r1]; exact a, by rw [r2]; exact b, c⟩
      exact base.st_change _ hst
    | ok msg k1 k2 ps =>
      obtain ⟨r1, r2, r3, hk, hk1⟩ := hN.read_ok x.n body msg k1 k2 ps (N.read x.n body).2 (Prod.ext hrd rfl)
      -- a successful read is only possible as the very first thing
      have ht : N.total x.n = 0 ∧ x.st.msgIdx = 0 ∧ x.st.indexAllocated = false := by
        rcases h2 hf with hz | h2'
        · exact hz
        · have := hN.read_done x.n body (by omega)
          rw [this] at hrd; simp at hrd
      obtain ⟨ht0, hm0, hia⟩ := ht
      have hk1f : k1 = false := by
        cases k1 with
        | false => rfl
        | true => have := hk1.mp rfl; omega
      obtain ⟨hreads, hwrites⟩ := total_zero ht0
      have htot : N.total (N.read x.n body).2 = 1 := by simp [Noise.total, r1, r2, hreads, hwrites]
      have hres0 := h4 (by omega)
      cases ho : (processPacket E.cfg x.st len sub (.ok msg k1 k2 ps) (E.certOracle msg ps) (clock now)
          (N.writeOut (N.read x.n body).2)).2 with
      | err e =>
        simp only [ho]
        have hfail := pp_err_after_read hreach (Prod.ext rfl ho :
          processPacket E.cfg x.st len sub (.ok msg k1 k2 ps) (E.certOracle msg ps) (clock now)
            (N.writeOut (N.read x.n body).2) = (_, .err e))
        refine ⟨by rw [r3]; exact h1, by intro hh; rw [hfail] at hh; simp at hh, by rw [htot]; omega, fun _ => hres0, ?_⟩
        intro r hr; rw [hres0] at hr; simp at hr
      | ok sent res =>
        obtain ⟨_, _, msg', k1', k2', ps', sP, hrdeq, hpp, hcase⟩ := pp_ok_inv true E.cfg x.st _ len sub _ _ _ _ sent res
          (Prod.ext rfl ho : processPacketG true E.cfg x.st len sub (.ok msg k1 k2 ps) (E.certOracle msg ps) (clock now)
            (N.writeOut (N.read x.n body).2) = (_, .ok sent res))
        simp only [ReadOut.ok.injEq] at hrdeq
        obtain ⟨rfl, rfl, rfl, rfl⟩ := hrdeq
        rcases hcase with ⟨hkt, _⟩ | ⟨_, _, xs, dk, ek, hbr, rfl, hres⟩
        · rw [hk1f] at hkt; simp at hkt
        · simp only [ho]
          have hfl : peerMsgFlags E.cfg { x.st with msgIdx := x.st.msgIdx + 1 } = ⟨true, true⟩ := by
            simp [peerMsgFlags, hE.msgs, hm0, flagsAt_ix0]
          rw [hfl] at hpp
          obtain ⟨p, hp, q1, q2, q3, q4, q5, q6⟩ := processPayload_ok_fields hpp
          simp only at q3 q4 q5 q6
          have hfl2 : myMsgFlags E.cfg sP = ⟨true, true⟩ := by
            simp [myMsgFlags, hE.msgs, q4, hm0, flagsAt_ix1]
          obtain ⟨b1, b2, b3, b4, _, b6, b7, b8, b9, _, b11⟩ := buildResponse_ix hfl2 hbr
          -- the write returns the cipher states: this is the second message
          obtain ⟨hdk, hdk1⟩ := hN.write_out _ dk ek b1
          have hdkt : dk = true := hdk1.mpr (by omega)
          have hres' : res = some (completed E.cfg
              (processPacketG true E.cfg x.st len sub (.ok msg k1 k2 ps) (E.certOracle msg ps) (clock now)
                (N.writeOut (N.read x.n body).2)).1 .cs2 .cs1) := by
            rcases hres with ⟨_, _, h⟩ | ⟨hd, _⟩
            · exact h
            · rw [hdkt] at hd; simp at hd
          obtain ⟨w1, w2, w3⟩ := hN.write_log (N.read x.n body).2 (plaintext E xs)
          have hlr : (processPacketG true E.cfg x.st len sub (.ok msg k1 k2 ps) (E.certOracle msg ps) (clock now)
                (N.writeOut (N.read x.n body).2)).1.localIndex = lr := by
            rw [q5, hia] at b6
            simp only [Bool.false_eq_true, if_false] at b6
            rw [hE.alloc] at b6
            exact (Option.some.inj b6).symm
          have htot2 : N.total (N.write (N.read x.n body).2 (plaintext E xs)).2 = 2 := by
            simp [Noise.total, w1, w2, r1, r2, hreads, hwrites]
          refine ⟨by rw [w3, r3]; exact h1, fun _ => Or.inr htot2,
            (by show N.total (N.write (N.read x.n body).2 (plaintext E xs)).2 ≤ 2; rw [htot2]; omega),
            (by intro hz; change N.total (N.write (N.read x.n body).2 (plaintext E xs)).2 < 2 at hz; rw [htot2] at hz; omega), ?_⟩
          intro r hr
          rw [hres'] at hr
          simp only [Option.some.injEq] at hr
          subst hr
          refine ⟨msg, p, xs, by rw [w2, r1, hreads]; rfl, by rw [w1, r2, hwrites]; rfl, hp, ?_, ?_, ?_, ?_, ?_, ?_,
            ?_, ?_, rfl, rfl⟩
          · simp only [completed]; rw [b4, q1, hE.role]; rfl
          · simp only [completed]; rw [b4]; exact q2
          · simp only [completed]; rw [b7, hE.role]; rfl
          · rw [b8, hE.role]; simpa using hlr
          · rw [b9]; exact clock_lt now
          · rw [b11]; exact hE.cv _
          · simp only [completed]; exact hlr
          · simp only [completed]; rw [b2, q4, hm0]
  · simp only [hreach, if_false]
    exact h.st_change _ (pp_unreached (by simpa using hreach))

end Nebula.MachinePair
