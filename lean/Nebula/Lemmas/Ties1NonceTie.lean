/-
Tie of the AEAD nonce construction (C13) to the source: the twelve bytes `EncryptDanger` / `DecryptDanger` of
noiseutil/aesgcm.go (big-endian) and noiseutil/chachapoly.go (little-endian) store into `nb` are regenerated, one
definition per byte, and proved to be four zero bytes followed by the eight base-256 digits of the counter. The
nonce is therefore injective in the counter. The ceiling comparisons are regenerated as well.
-/
import Nebula.Model.Counter
import Nebula.Lemmas.Header
import Nebula.Gen.tie_ties1_nonce
import Nebula.Lemmas.Ties1Bytes

namespace Nebula.Lemmas.Ties1NonceTie
open Nebula.Gen Nebula.Header Nebula.Lemmas.Ties1Bytes

/-- the Noise nonce of AES-GCM: 4 zero bytes, then the counter big-endian -/
def nonceBE (n : Nat) : List Nat := [0, 0, 0, 0] ++ beBytes 8 n
/-- the Noise nonce of ChaCha20-Poly1305: 4 zero bytes, then the counter little-endian -/
def nonceLE (n : Nat) : List Nat := [0, 0, 0, 0] ++ (beBytes 8 n).reverse

def aesEnc (n : BitVec 64) : List (BitVec 8) := [tie_ties1_nonce_aes_enc0 n, tie_ties1_nonce_aes_enc1 n, tie_ties1_nonce_aes_enc2 n, tie_ties1_nonce_aes_enc3 n, tie_ties1_nonce_aes_enc4 n, tie_ties1_nonce_aes_enc5 n, tie_ties1_nonce_aes_enc6 n, tie_ties1_nonce_aes_enc7 n, tie_ties1_nonce_aes_enc8 n, tie_ties1_nonce_aes_enc9 n, tie_ties1_nonce_aes_enc10 n, tie_ties1_nonce_aes_enc11 n]
def aesDec (n : BitVec 64) : List (BitVec 8) := [tie_ties1_nonce_aes_dec0 n, tie_ties1_nonce_aes_dec1 n, tie_ties1_nonce_aes_dec2 n, tie_ties1_nonce_aes_dec3 n, tie_ties1_nonce_aes_dec4 n, tie_ties1_nonce_aes_dec5 n, tie_ties1_nonce_aes_dec6 n, tie_ties1_nonce_aes_dec7 n, tie_ties1_nonce_aes_dec8 n, tie_ties1_nonce_aes_dec9 n, tie_ties1_nonce_aes_dec10 n, tie_ties1_nonce_aes_dec11 n]
def chachaEnc (n : BitVec 64) : List (BitVec 8) := [tie_ties1_nonce_chacha_enc0 n, tie_ties1_nonce_chacha_enc1 n, tie_ties1_nonce_chacha_enc2 n, tie_ties1_nonce_chacha_enc3 n, tie_ties1_nonce_chacha_enc4 n, tie_ties1_nonce_chacha_enc5 n, tie_ties1_nonce_chacha_enc6 n, tie_ties1_nonce_chacha_enc7 n, tie_ties1_nonce_chacha_enc8 n, tie_ties1_nonce_chacha_enc9 n, tie_ties1_nonce_chacha_enc10 n, tie_ties1_nonce_chacha_enc11 n]
def chachaDec (n : BitVec 64) : List (BitVec 8) := [tie_ties1_nonce_chacha_dec0 n, tie_ties1_nonce_chacha_dec1 n, tie_ties1_nonce_chacha_dec2 n, tie_ties1_nonce_chacha_dec3 n, tie_ties1_nonce_chacha_dec4 n, tie_ties1_nonce_chacha_dec5 n, tie_ties1_nonce_chacha_dec6 n, tie_ties1_nonce_chacha_dec7 n, tie_ties1_nonce_chacha_dec8 n, tie_ties1_nonce_chacha_dec9 n, tie_ties1_nonce_chacha_dec10 n, tie_ties1_nonce_chacha_dec11 n]

theorem aesEnc_eq (n : BitVec 64) : (aesEnc n).map BitVec.toNat = nonceBE n.toNat := by
  simp only [aesEnc, tie_ties1_nonce_aes_enc0, tie_ties1_nonce_aes_enc1, tie_ties1_nonce_aes_enc2, tie_ties1_nonce_aes_enc3, tie_ties1_nonce_aes_enc4, tie_ties1_nonce_aes_enc5, tie_ties1_nonce_aes_enc6, tie_ties1_nonce_aes_enc7, tie_ties1_nonce_aes_enc8, tie_ties1_nonce_aes_enc9, tie_ties1_nonce_aes_enc10, tie_ties1_nonce_aes_enc11, List.map_cons, List.map_nil, byte_of_shift, nonceBE, beBytes,
    List.cons_append, List.nil_append]
  simp

theorem aesDec_eq (n : BitVec 64) : (aesDec n).map BitVec.toNat = nonceBE n.toNat := by
  simp only [aesDec, tie_ties1_nonce_aes_dec0, tie_ties1_nonce_aes_dec1, tie_ties1_nonce_aes_dec2, tie_ties1_nonce_aes_dec3, tie_ties1_nonce_aes_dec4, tie_ties1_nonce_aes_dec5, tie_ties1_nonce_aes_dec6, tie_ties1_nonce_aes_dec7, tie_ties1_nonce_aes_dec8, tie_ties1_nonce_aes_dec9, tie_ties1_nonce_aes_dec10, tie_ties1_nonce_aes_dec11, List.map_cons, List.map_nil, byte_of_shift, nonceBE, beBytes,
    List.cons_append, List.nil_append]
  simp

theorem chachaEnc_eq (n : BitVec 64) : (chachaEnc n).map BitVec.toNat = nonceLE n.toNat := by
  simp only [chachaEnc, tie_ties1_nonce_chacha_enc0, tie_ties1_nonce_chacha_enc1, tie_ties1_nonce_chacha_enc2, tie_ties1_nonce_chacha_enc3, tie_ties1_nonce_chacha_enc4, tie_ties1_nonce_chacha_enc5, tie_ties1_nonce_chacha_enc6, tie_ties1_nonce_chacha_enc7, tie_ties1_nonce_chacha_enc8, tie_ties1_nonce_chacha_enc9, tie_ties1_nonce_chacha_enc10, tie_ties1_nonce_chacha_enc11, List.map_cons, List.map_nil, byte_of_shift, nonceLE, beBytes,
    List.cons_append, List.nil_append, List.reverse_cons, List.reverse_nil]
  simp

theorem chachaDec_eq (n : BitVec 64) : (chachaDec n).map BitVec.toNat = nonceLE n.toNat := by
  simp only [chachaDec, tie_ties1_nonce_chacha_dec0, tie_ties1_nonce_chacha_dec1, tie_ties1_nonce_chacha_dec2, tie_ties1_nonce_chacha_dec3, tie_ties1_nonce_chacha_dec4, tie_ties1_nonce_chacha_dec5, tie_ties1_nonce_chacha_dec6, tie_ties1_nonce_chacha_dec7, tie_ties1_nonce_chacha_dec8, tie_ties1_nonce_chacha_dec9, tie_ties1_nonce_chacha_dec10, tie_ties1_nonce_chacha_dec11, List.map_cons, List.map_nil, byte_of_shift, nonceLE, beBytes,
    List.cons_append, List.nil_append, List.reverse_cons, List.reverse_nil]
  simp

theorem nonceBE_inj (n m : Nat) (hn : n < 2 ^ 64) (hm : m < 2 ^ 64) (h : nonceBE n = nonceBE m) : n = m := by
  have h' : beBytes 8 n = beBytes 8 m := List.append_cancel_left h
  have e1 := Nebula.Lemmas.Header.beVal_beBytes 8 n (by simpa using hn)
  have e2 := Nebula.Lemmas.Header.beVal_beBytes 8 m (by simpa using hm)
  rw [← e1, ← e2, h']

theorem nonceLE_inj (n m : Nat) (hn : n < 2 ^ 64) (hm : m < 2 ^ 64) (h : nonceLE n = nonceLE m) : n = m := by
  have h' : (beBytes 8 n).reverse = (beBytes 8 m).reverse := List.append_cancel_left h
  have h'' : beBytes 8 n = beBytes 8 m := List.reverse_inj.mp h'
  have e1 := Nebula.Lemmas.Header.beVal_beBytes 8 n (by simpa using hn)
  have e2 := Nebula.Lemmas.Header.beVal_beBytes 8 m (by simpa using hm)
  rw [← e1, ← e2, h'']

theorem aesEnc_inj (n m : BitVec 64) (h : aesEnc n = aesEnc m) : n = m := by
  apply BitVec.eq_of_toNat_eq
  apply nonceBE_inj _ _ n.isLt m.isLt
  rw [← aesEnc_eq, ← aesEnc_eq, h]

theorem chachaEnc_inj (n m : BitVec 64) (h : chachaEnc n = chachaEnc m) : n = m := by
  apply BitVec.eq_of_toNat_eq
  apply nonceLE_inj _ _ n.isLt m.isLt
  rw [← chachaEnc_eq, ← chachaEnc_eq, h]

/-- `if n >= RejectAfterMessages` of both `EncryptDanger`s is the model's refusal test `¬ (c < reject)`. -/
theorem reject_eq (n : BitVec 64) :
    tie_ties1_nonce_aes_reject n = !decide (n < Nebula.Counter.reject)
    ∧ tie_ties1_nonce_chacha_reject n = !decide (n < Nebula.Counter.reject) := by
  simp only [tie_ties1_nonce_aes_reject, tie_ties1_nonce_chacha_reject, Nebula.Counter.reject,
    Gen.noiseutil_RejectAfterMessages, BitVec.ule, BitVec.lt_def, BitVec.toNat_ofNat]
  constructor <;> (by_cases h : n.toNat < 18446742974197923839 <;> simp [h] <;> omega)

/-- `if c >= RejectAfterMessages` of `NextMessageCounter` is the model's pinning test `reject ≤ c`. -/
theorem next_pinned_eq (c rej : BitVec 64) : tie_ties1_nonce_next_pinned c rej = decide (rej ≤ c) := by
  simp [tie_ties1_nonce_next_pinned, BitVec.ule, BitVec.le_def]

end Nebula.Lemmas.Ties1NonceTie
