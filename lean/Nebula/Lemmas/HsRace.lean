import Nebula.Model.HsRace

namespace Nebula.Lemmas.HsRace
open Nebula.HsRace

theorem dropLast_getLast (l : List Tun) (t : Tun) : t ∈ l → t ∈ l.dropLast ++ l.getLast?.toList := by
  intro h
  cases l with
  | nil => simp at h
  | cons a as =>
    have e : (a :: as).dropLast ++ (a :: as).getLast?.toList = a :: as := by
      rw [List.getLast?_eq_some_getLast (by simp : a :: as ≠ [])]
      simpa using List.dropLast_concat_getLast (by simp : a :: as ≠ [])
    rw [e]; exact h

theorem mem_dropLast {l : List Tun} {t : Tun} (h : t ∈ l.dropLast) : t ∈ l := List.dropLast_subset l h

/-- install: the new tunnel is held, everything held stays held, listed tunnels are old ones or the new one -/
theorem held_install_new (s : Side) (t : Tun) : t ∈ (s.install t).held := by
  unfold Side.install Side.held
  dsimp only
  split
  · have := dropLast_getLast (t :: s.tunnels) t (by simp)
    simp only [List.mem_append] at this ⊢
    rcases this with h | h
    · left; exact h
    · right; right; exact h
  · simp

theorem held_install_mono (s : Side) (t t' : Tun) (h : t' ∈ s.held) : t' ∈ (s.install t).held := by
  unfold Side.install Side.held at *
  dsimp only
  split
  · simp only [List.mem_append] at h ⊢
    rcases h with h | h
    · have := dropLast_getLast (t :: s.tunnels) t' (by simp [h])
      simp only [List.mem_append] at this
      rcases this with h | h
      · left; exact h
      · right; right; exact h
    · right; left; exact h
  · simp only [List.mem_append, List.mem_cons] at h ⊢
    rcases h with h | h
    · left; right; exact h
    · right; exact h

theorem tunnels_install (s : Side) (t t' : Tun) (h : t' ∈ (s.install t).tunnels) : t' = t ∨ t' ∈ s.tunnels := by
  unfold Side.install at h
  dsimp only at h
  split at h
  · have := mem_dropLast h; simpa using this
  · simpa using h

@[simp] theorem install_inbox (s : Side) (t : Tun) : (s.install t).inbox = s.inbox := by
  unfold Side.install; dsimp only; split <;> rfl
@[simp] theorem install_addr (s : Side) (t : Tun) : (s.install t).addr = s.addr := by
  unfold Side.install; dsimp only; split <;> rfl
@[simp] theorem install_swaps (s : Side) (t : Tun) : (s.install t).swaps = s.swaps := by
  unfold Side.install; dsimp only; split <;> rfl

/-- what a reply in flight promises: its sender installed the responder tunnel it describes -/
def msgOk (sender : Side) : Msg → Prop
  | .m2 hs r i => ({ loc := r, rem := i, hs := hs, init := false } : Tun) ∈ sender.held
  | .m1 _ _ => True

/-- pairing invariant for the side `me` against `peer` -/
def Paired (me peer : Side) : Prop :=
  (∀ t ∈ me.tunnels, t.init = true → t.mirror ∈ peer.held) ∧ (∀ m ∈ me.inbox, msgOk peer m)

def Inv (s : St) : Prop := Paired s.x s.y ∧ Paired s.y s.x

theorem msgOk_mono {a b : Side} (h : ∀ t, t ∈ a.held → t ∈ b.held) {m : Msg} (hm : msgOk a m) : msgOk b m := by
  cases m with
  | m1 => trivial
  | m2 hs r i => exact h _ hm

theorem Paired.mono_peer {me peer peer' : Side} (h : ∀ t, t ∈ peer.held → t ∈ peer'.held) (p : Paired me peer) :
    Paired me peer' :=
  ⟨fun t ht hi => h _ (p.1 t ht hi), fun m hm => msgOk_mono h (p.2 m hm)⟩

/-- receiving a message: held only grows; listed tunnels are old or (for an accepted reply) the initiator
tunnel whose mirror the reply promises; everything sent out is promised by the new state -/
theorem receive_spec (me peer : Side) (ridx : Nat) (m : Msg) (hm : msgOk peer m)
    (hp : ∀ t ∈ me.tunnels, t.init = true → t.mirror ∈ peer.held) :
    let r := me.receive ridx m
    (∀ t, t ∈ me.held → t ∈ r.1.held) ∧
    (∀ t ∈ r.1.tunnels, t.init = true → t.mirror ∈ peer.held) ∧
    (∀ o ∈ r.2, msgOk r.1 o) ∧ r.1.inbox = me.inbox ∧ r.1.addr = me.addr ∧ r.1.swaps = me.swaps := by
  cases m with
  | m1 hs idx =>
    simp only [Side.receive]
    split
    · rename_i t ht
      refine ⟨fun t h => h, hp, ?_, rfl, rfl, rfl⟩
      intro o ho
      by_cases hinit : t.init = true
      · simp [hinit] at ho
      · simp [hinit] at ho; subst ho
        have hmem := List.mem_of_find?_eq_some ht
        have hprop := List.find?_some ht
        simp at hprop
        have : ({ loc := t.loc, rem := t.rem, hs := hs, init := false } : Tun) = t := by
          cases t; simp_all
        simp only [msgOk, this, Side.held, List.mem_append]; left; exact hmem
    · have inst : ∀ (t0 : Tun), t0.init = false →
          (∀ t, t ∈ me.held → t ∈ (me.install t0).held) ∧
          (∀ t ∈ (me.install t0).tunnels, t.init = true → t.mirror ∈ peer.held) := by
        intro t0 h0
        refine ⟨fun t h => held_install_mono me t0 t h, ?_⟩
        intro t ht hi
        rcases tunnels_install me t0 t ht with e | h
        · subst e; simp [h0] at hi
        · exact hp t h hi
      refine ⟨(inst _ rfl).1, (inst _ rfl).2, ?_, by simp, by simp, by simp⟩
      intro o ho; simp at ho; subst ho
      exact held_install_new me _
  | m2 hs r i =>
    simp only [Side.receive]
    split
    · rename_i ph pi _
      split
      · rename_i hc
        simp at hc
        refine ⟨?_, ?_, by simp, by simp, by simp, by simp⟩
        · intro t h
          have := held_install_mono me { loc := i, rem := r, hs := hs, init := true } t h
          simpa [Side.held] using this
        · intro t ht hi
          rcases tunnels_install me _ t ht with e | h
          · subst e; simpa [Tun.mirror, msgOk] using hm
          · exact hp t h hi
      · exact ⟨fun t h => h, hp, by simp, rfl, rfl, rfl⟩
    · exact ⟨fun t h => h, hp, by simp, rfl, rfl, rfl⟩

end Nebula.Lemmas.HsRace

namespace Nebula.Lemmas.HsRace
open Nebula.HsRace

theorem mem_eraseIdx {l : List Tun} {k : Nat} {t : Tun} (h : t ∈ l.eraseIdx k) : t ∈ l :=
  List.mem_of_mem_eraseIdx h

theorem mem_eraseIdx_msg {l : List Msg} {k : Nat} {t : Msg} (h : t ∈ l.eraseIdx k) : t ∈ l :=
  List.mem_of_mem_eraseIdx h

theorem mem_eraseIdx_of_ne {l : List Tun} {j : Nat} {t t' : Tun} (ht : l[j]? = some t) (h' : t' ∈ l)
    (e : t' ≠ t) : t' ∈ l.eraseIdx j := by
  rw [List.mem_eraseIdx_iff_getElem?]
  obtain ⟨i, hi⟩ := List.getElem?_of_mem h'
  refine ⟨i, ?_, hi⟩
  intro hij; subst hij; rw [ht] at hi; simp at hi; exact e hi.symm

/-- a change of one side that only shrinks its listed tunnels and inbox and only grows what it holds -/
theorem paired_shrink (me me' peer : Side) (htun : ∀ t, t ∈ me'.tunnels → t ∈ me.tunnels)
    (hheld : ∀ t, t ∈ me.held → t ∈ me'.held) (hin : ∀ m, m ∈ me'.inbox → m ∈ me.inbox)
    (pm : Paired me peer) (pp : Paired peer me) : Paired me' peer ∧ Paired peer me' :=
  ⟨⟨fun t ht hi => pm.1 t (htun t ht) hi, fun m hm => pm.2 m (hin m hm)⟩, pp.mono_peer hheld⟩

/-- a message appended to one side's inbox that the peer's state promises -/
theorem paired_inbox (me peer : Side) (m : Msg) (hm : msgOk peer m) (pm : Paired me peer) (pp : Paired peer me) :
    Paired { me with inbox := me.inbox ++ [m] } peer ∧ Paired peer { me with inbox := me.inbox ++ [m] } := by
  refine ⟨⟨pm.1, ?_⟩, ⟨pp.1, pp.2⟩⟩
  intro m' hm'
  simp only [List.mem_append, List.mem_singleton] at hm'
  rcases hm' with h | h
  · exact pm.2 m' h
  · subst h; exact hm

/-- delivery of message `k` of `me`'s inbox -/
theorem step_inv_side (me peer : Side) (fresh : Nat) (pm : Paired me peer) (pp : Paired peer me)
    (k : Nat) (m : Msg) (hk : me.inbox[k]? = some m) :
    Paired (me.receive fresh m).1 { peer with inbox := peer.inbox ++ (me.receive fresh m).2 } ∧
    Paired { peer with inbox := peer.inbox ++ (me.receive fresh m).2 } (me.receive fresh m).1 := by
  have hm : msgOk peer m := pm.2 m (List.mem_of_getElem? hk)
  have sp := receive_spec me peer fresh m hm pm.1
  dsimp only at sp
  obtain ⟨hmono, htun, hout, hin, _, _⟩ := sp
  constructor
  · constructor
    · intro t ht hi; simpa [Side.held] using htun t ht hi
    · intro m' hm'
      rw [hin] at hm'
      have := pm.2 m' hm'
      cases m' with
      | m1 => trivial
      | m2 hs r i => simpa [msgOk, Side.held] using this
  · constructor
    · intro t ht hi; exact hmono _ (pp.1 t ht hi)
    · intro m' hm'
      simp only [List.mem_append] at hm'
      rcases hm' with h | h
      · exact msgOk_mono hmono (pp.2 m' h)
      · exact hout m' h

/-- one step of the acting side `me` (the other side is `peer`), as a relation on the pair -/
theorem step_inv (s : St) (st : Step) (h : Inv s) : Inv (s.step st) := by
  obtain ⟨hx, hy⟩ := h
  cases st with
  | start onX hs idx =>
    cases onX <;> simp only [St.step, St.get, St.set, Bool.not_true, Bool.not_false, if_true, if_false, Bool.false_eq_true]
    · split
      · exact ⟨hx, hy⟩
      · have := paired_inbox s.x s.y (.m1 hs idx) trivial hx hy
        exact ⟨⟨this.1.1, this.1.2⟩, ⟨this.2.1, this.2.2⟩⟩
    · split
      · exact ⟨hx, hy⟩
      · have := paired_inbox s.y s.x (.m1 hs idx) trivial hy hx
        exact ⟨⟨this.2.1, this.2.2⟩, ⟨this.1.1, this.1.2⟩⟩
  | resend onX =>
    cases onX <;> simp only [St.step, St.get, St.set, Bool.not_true, Bool.not_false, if_true, if_false, Bool.false_eq_true]
    · split
      · rename_i hh ii _
        have := paired_inbox s.x s.y (.m1 hh ii) trivial hx hy
        exact ⟨this.1, this.2⟩
      · exact ⟨hx, hy⟩
    · split
      · rename_i hh ii _
        have := paired_inbox s.y s.x (.m1 hh ii) trivial hy hx
        exact ⟨this.2, this.1⟩
      · exact ⟨hx, hy⟩
  | giveUp onX =>
    cases onX <;> simp only [St.step, St.get, St.set, if_true, if_false, Bool.false_eq_true]
    · exact ⟨⟨hx.1, hx.2⟩, ⟨hy.1, hy.2⟩⟩
    · exact ⟨⟨hx.1, hx.2⟩, ⟨hy.1, hy.2⟩⟩
  | deliver toX k ridx =>
    cases toX <;> simp only [St.step, St.get, St.set, Bool.not_true, Bool.not_false, if_true, if_false, Bool.false_eq_true]
    · split
      · exact ⟨hx, hy⟩
      · rename_i m hk
        have := step_inv_side s.y s.x ridx hy hx k m hk
        exact ⟨this.2, this.1⟩
    · split
      · exact ⟨hx, hy⟩
      · rename_i m hk
        have := step_inv_side s.x s.y ridx hx hy k m hk
        exact ⟨this.1, this.2⟩
  | drop toX k =>
    cases toX <;> simp only [St.step, St.get, St.set, if_true, if_false, Bool.false_eq_true]
    · have := paired_shrink s.y { s.y with inbox := s.y.inbox.eraseIdx k } s.x (fun t h => h) (fun t h => h)
        (fun m hm => mem_eraseIdx_msg hm) hy hx
      exact ⟨this.2, this.1⟩
    · have := paired_shrink s.x { s.x with inbox := s.x.inbox.eraseIdx k } s.y (fun t h => h) (fun t h => h)
        (fun m hm => mem_eraseIdx_msg hm) hx hy
      exact ⟨this.1, this.2⟩
  | swap onX j =>
    have key : ∀ (me peer : Side) (t : Tun), me.tunnels[j]? = some t → Paired me peer → Paired peer me →
        Paired { me with tunnels := t :: me.tunnels.eraseIdx j, swaps := me.swaps + 1 } peer ∧
        Paired peer { me with tunnels := t :: me.tunnels.eraseIdx j, swaps := me.swaps + 1 } := by
      intro me peer t ht pm pp
      refine paired_shrink me { me with tunnels := t :: me.tunnels.eraseIdx j, swaps := me.swaps + 1 } peer
        ?_ ?_ (fun m hm => hm) pm pp
      · intro t' h'
        rcases List.mem_cons.mp h' with e | e
        · subst e; exact List.mem_of_getElem? ht
        · exact mem_eraseIdx e
      · intro t' h'
        simp only [Side.held, List.mem_append, List.mem_cons] at h' ⊢
        rcases h' with h' | h'
        · by_cases e : t' = t
          · left; left; exact e
          · left; right; exact mem_eraseIdx_of_ne ht h' e
        · right; exact h'
    cases onX <;> simp only [St.step, St.get, St.set, Bool.not_true, Bool.not_false, if_true, if_false, Bool.false_eq_true]
    · split
      · exact ⟨hx, hy⟩
      · rename_i t ht
        split
        · exact ⟨hx, hy⟩
        · split
          · have := key s.y s.x t ht hy hx; exact ⟨this.2, this.1⟩
          · exact ⟨hx, hy⟩
    · split
      · exact ⟨hx, hy⟩
      · rename_i t ht
        split
        · exact ⟨hx, hy⟩
        · split
          · have := key s.x s.y t ht hx hy; exact ⟨this.1, this.2⟩
          · exact ⟨hx, hy⟩
  | del onX j =>
    have key : ∀ (me peer : Side) (t : Tun), me.tunnels[j]? = some t → Paired me peer → Paired peer me →
        Paired { me with tunnels := me.tunnels.eraseIdx j, removed := me.removed ++ [t] } peer ∧
        Paired peer { me with tunnels := me.tunnels.eraseIdx j, removed := me.removed ++ [t] } := by
      intro me peer t ht pm pp
      refine paired_shrink me { me with tunnels := me.tunnels.eraseIdx j, removed := me.removed ++ [t] } peer
        ?_ ?_ (fun m hm => hm) pm pp
      · intro t' h'; exact mem_eraseIdx h'
      · intro t' h'
        simp only [Side.held, List.mem_append, List.mem_singleton] at h' ⊢
        rcases h' with h' | h'
        · by_cases e : t' = t
          · right; right; exact e
          · left; exact mem_eraseIdx_of_ne ht h' e
        · right; left; exact h'
    cases onX <;> simp only [St.step, St.get, St.set, if_true, if_false, Bool.false_eq_true]
    · split
      · exact ⟨hx, hy⟩
      · rename_i t ht
        have := key s.y s.x t ht hy hx; exact ⟨this.2, this.1⟩
    · split
      · exact ⟨hx, hy⟩
      · rename_i t ht
        have := key s.x s.y t ht hx hy; exact ⟨this.1, this.2⟩

  | check onX j i o => exact ⟨hx, hy⟩

theorem decision_swap (i : Nebula.ConnMgr.In) (h : (Nebula.ConnMgr.trafficDecision i).decision = .swapPrimary) :
    i.swap = true := by
  unfold Nebula.ConnMgr.trafficDecision at h
  repeat' split at h
  all_goals first | assumption | (simp at h; done) | (dsimp only at h; simp_all)

/-- a traffic check only deletes or reorders tunnels -/
theorem check_shrink (me peer : Side) (j : Nat) (inT outT : Bool) :
    (∀ t, t ∈ (me.check peer j inT outT).tunnels → t ∈ me.tunnels) ∧
    (∀ t, t ∈ me.held → t ∈ (me.check peer j inT outT).held) ∧
    (me.check peer j inT outT).inbox = me.inbox ∧ (me.check peer j inT outT).addr = me.addr ∧
    ((me.check peer j inT outT).swaps = me.swaps ∨
      ((me.check peer j inT outT).swaps = me.swaps + 1 ∧ shouldSwap me peer = true)) ∧
    (me.check peer j inT outT).tunnels.length ≤ me.tunnels.length := by
  unfold Side.check
  split
  · exact ⟨fun _ h => h, fun _ h => h, rfl, rfl, Or.inl rfl, Nat.le_refl _⟩
  · rename_i t ht
    dsimp only
    split
    · refine ⟨fun t' h' => mem_eraseIdx h', ?_, rfl, rfl, Or.inl rfl, ?_⟩
      · intro t' h'
        simp only [Side.held, List.mem_append, List.mem_singleton] at h' ⊢
        rcases h' with h' | h'
        · by_cases e : t' = t
          · right; right; exact e
          · left; exact mem_eraseIdx_of_ne ht h' e
        · right; left; exact h'
      · rw [List.length_eraseIdx]; split <;> omega
    · rename_i hd
      refine ⟨?_, ?_, rfl, rfl, Or.inr ⟨rfl, ?_⟩, ?_⟩
      · intro t' h'
        rcases List.mem_cons.mp h' with e | e
        · subst e; exact List.mem_of_getElem? ht
        · exact mem_eraseIdx e
      · intro t' h'
        simp only [Side.held, List.mem_append, List.mem_cons] at h' ⊢
        rcases h' with h' | h'
        · by_cases e : t' = t
          · left; left; exact e
          · left; right; exact mem_eraseIdx_of_ne ht h' e
        · right; exact h'
      · have := decision_swap _ hd; simpa [checkIn] using this
      · have hj : j < me.tunnels.length := by
          have := List.getElem?_eq_some_iff.mp ht; exact this.1
        simp [List.length_eraseIdx, hj]; omega
    · exact ⟨fun _ h => h, fun _ h => h, rfl, rfl, Or.inl rfl, Nat.le_refl _⟩

theorem stepAll_inv (s : St) (st : Step) (h : Inv s) : Inv (s.stepAll st) := by
  cases st with
  | check onX j i o =>
    obtain ⟨hx, hy⟩ := h
    cases onX <;> simp only [St.stepAll, St.get, St.set, Bool.not_true, Bool.not_false, if_true, if_false, Bool.false_eq_true]
    · have c := check_shrink s.y s.x j i o
      have := paired_shrink s.y (s.y.check s.x j i o) s.x c.1 c.2.1 (fun m hm => c.2.2.1 ▸ hm) hy hx
      exact ⟨this.2, this.1⟩
    · have c := check_shrink s.x s.y j i o
      have := paired_shrink s.x (s.x.check s.y j i o) s.y c.1 c.2.1 (fun m hm => c.2.2.1 ▸ hm) hx hy
      exact ⟨this.1, this.2⟩
  | start onX hs idx => exact step_inv s _ h
  | resend onX => exact step_inv s _ h
  | giveUp onX => exact step_inv s _ h
  | deliver toX k r => exact step_inv s _ h
  | drop toX k => exact step_inv s _ h
  | swap onX j => exact step_inv s _ h
  | del onX j => exact step_inv s _ h

theorem init_inv (ax ay : Nat) : Inv (St.init ax ay) := by
  simp [Inv, Paired, St.init]

theorem run_inv (s : St) (steps : List Step) (h : Inv s) : Inv (s.run steps) := by
  induction steps generalizing s with
  | nil => exact h
  | cons st rest ih => exact ih _ (stepAll_inv s st h)

end Nebula.Lemmas.HsRace
