/-
C23: `mask` does not change what flow a packet belongs to nor whether it is a pure ACK, so the ordering
clause can be stated on the delivered (kernel-built) segments themselves.
-/
import Nebula.Lemmas.CoalesceOrder
import Nebula.Lemmas.CoalesceSeed

namespace Nebula.Lemmas.Coalesce
open Nebula.Coalesce Nebula.Gen
open Nebula.Spec
open Nebula.Spec.KernelGSO (trim classify flowOf pureAck Flow mask zero2 kernelSeg)

/-- `trim x = x` only depends on the length and on the version / length fields -/
theorem trim_fix_congr {a b : Bytes} (hl : a.length = b.length) (h0 : byteAt a 0 = byteAt b 0)
    (h2 : byteAt a 0 / 16 = 4 → u16At a 2 = u16At b 2) (h4 : byteAt a 0 / 16 = 6 → u16At a 4 = u16At b 4)
    (ha : trim a = a) : trim b = b := by
  unfold trim at ha ⊢
  simp only [get_eq, be16_eq] at ha ⊢
  simp only [← hl, ← h0]
  by_cases h20 : a.length < 20
  · simp [h20]
  · simp only [h20, ↓reduceIte] at ha ⊢
    by_cases hv4 : byteAt a 0 / 16 = 4
    · simp only [hv4, ↓reduceIte, ← h2 hv4] at ha ⊢
      by_cases hc : 20 ≤ u16At a 2 ∧ u16At a 2 ≤ a.length
      · simp only [hc, and_self, ↓reduceIte] at ha ⊢
        have : (a.take (u16At a 2)).length = a.length := by rw [ha]
        simp at this
        apply List.take_of_length_le; omega
      · simp only [hc, ↓reduceIte]
    · simp only [hv4, ↓reduceIte] at ha ⊢
      by_cases hv6 : byteAt a 0 / 16 = 6
      · simp only [hv6, ↓reduceIte, ← h4 hv6] at ha ⊢
        by_cases hc : 40 ≤ a.length ∧ 40 + u16At a 4 ≤ a.length
        · simp only [hc, and_self, ↓reduceIte] at ha ⊢
          have : (a.take (40 + u16At a 4)).length = a.length := by rw [ha]
          simp at this
          apply List.take_of_length_le; omega
        · simp only [hc, ↓reduceIte]
      · simp only [hv6, ↓reduceIte]

theorem classify_l4 {t : Bytes} {v6 tcp : Bool} {l4 : Nat} (h : classify t = some (v6, l4, tcp)) :
    l4 = (if v6 then 40 else 20) ∧ l4 + (if tcp then 20 else 8) ≤ t.length ∧
      (v6 = false → byteAt t 0 = 0x45) ∧ (v6 = true → byteAt t 0 / 16 = 6) := by
  unfold classify at h
  simp only [get_eq, be16_eq] at h
  by_cases h20 : t.length < 20
  · simp [h20] at h
  · simp only [h20, ↓reduceIte] at h
    by_cases h45 : byteAt t 0 = 69
    · simp only [h45, ↓reduceIte] at h
      by_cases hf : u16At t 6 % 16384 ≠ 0
      · simp [hf] at h
      · simp only [hf, ↓reduceIte] at h
        by_cases h6 : byteAt t 9 = 6 ∧ 40 ≤ t.length
        · simp only [h6, and_self, ↓reduceIte, Option.some.injEq, Prod.mk.injEq] at h
          obtain ⟨a, b, c⟩ := h; subst a b c
          simp; omega
        · simp only [h6, ↓reduceIte] at h
          by_cases h17 : byteAt t 9 = 17 ∧ 28 ≤ t.length
          · simp only [h17, and_self, ↓reduceIte, Option.some.injEq, Prod.mk.injEq] at h
            obtain ⟨a, b, c⟩ := h; subst a b c
            simp; omega
          · simp [h17] at h
    · simp only [h45, ↓reduceIte] at h
      by_cases hv6 : byteAt t 0 / 16 = 6
      · simp only [hv6, ↓reduceIte] at h
        by_cases h6 : byteAt t 6 = 6 ∧ 60 ≤ t.length
        · simp only [h6, and_self, ↓reduceIte, Option.some.injEq, Prod.mk.injEq] at h
          obtain ⟨a, b, c⟩ := h; subst a b c
          simp; omega
        · simp only [h6, ↓reduceIte] at h
          by_cases h17 : byteAt t 6 = 17 ∧ 48 ≤ t.length
          · simp only [h17, and_self, ↓reduceIte, Option.some.injEq, Prod.mk.injEq] at h
            obtain ⟨a, b, c⟩ := h; subst a b c
            simp; omega
          · simp [h17] at h
      · simp [hv6] at h

/-- what `mask` does to a classified (plain TCP/UDP) packet, read pointwise -/
theorem mask_classified {p : Bytes} {v6 tcp : Bool} {l4 : Nat} (h : classify (trim p) = some (v6, l4, tcp)) :
    (mask p).length = (trim p).length ∧
    ∀ k, (v6 = false → k ≠ 4 ∧ k ≠ 5 ∧ k ≠ 10 ∧ k ≠ 11) → k ≠ l4 + (if tcp then 16 else 6) →
      k ≠ l4 + (if tcp then 16 else 6) + 1 → rd (mask p) k = rd (trim p) k := by
  unfold mask
  simp only [h]
  cases v6 with
  | true =>
    simp only [↓reduceIte]
    refine ⟨by rw [length_zero2], ?_⟩
    intro k _ h1 h2
    rw [rd_zero2_ne _ _ _ (by omega) (by omega)]
  | false =>
    simp only [Bool.false_eq_true, ↓reduceIte]
    constructor
    · split <;> simp [length_zero2]
    · intro k hk h1 h2
      obtain ⟨a, b, c, d⟩ := hk (by simp)
      rw [rd_zero2_ne _ _ _ (by omega) (by omega)]
      split
      · rw [rd_zero2_ne _ _ _ (by omega) (by omega), rd_zero2_ne _ _ _ (by omega) (by omega)]
      · rw [rd_zero2_ne _ _ _ (by omega) (by omega)]

theorem byteAt_eq_of_rd {a b : Bytes} {k : Nat} (h : rd a k = rd b k) : byteAt a k = byteAt b k := by
  simp only [byteAt_rd, h]

/-- on a masked classified packet: it is its own trim, classifies the same, and reads the same outside
the masked fields -/
theorem mask_facts {p : Bytes} {v6 tcp : Bool} {l4 : Nat} (h : classify (trim p) = some (v6, l4, tcp)) :
    trim (mask p) = mask p ∧ classify (mask p) = some (v6, l4, tcp) := by
  obtain ⟨hlen, hrd⟩ := mask_classified h
  obtain ⟨hl4, hmin, hv4, hv6⟩ := classify_l4 h
  have hco : (if tcp = true then 16 else 6) ≥ 6 := by cases tcp <;> simp
  have r : ∀ k, k < 10 → k ≠ 4 → k ≠ 5 → rd (mask p) k = rd (trim p) k := by
    intro k h1 h2 h3
    apply hrd k (fun _ => ⟨h2, h3, by omega, by omega⟩) <;> (cases v6 <;> simp at hl4 <;> omega)
  have b0 := byteAt_eq_of_rd (r 0 (by omega) (by omega) (by omega))
  have b6 := byteAt_eq_of_rd (r 6 (by omega) (by omega) (by omega))
  have b9 := byteAt_eq_of_rd (r 9 (by omega) (by omega) (by omega))
  have u2 : u16At (mask p) 2 = u16At (trim p) 2 :=
    u16At_congr (r 2 (by omega) (by omega) (by omega)) (r 3 (by omega) (by omega) (by omega))
  have u6 : u16At (mask p) 6 = u16At (trim p) 6 :=
    u16At_congr (r 6 (by omega) (by omega) (by omega)) (r 7 (by omega) (by omega) (by omega))
  constructor
  · -- trim
    cases v6 with
    | true =>
      have u4 : u16At (mask p) 4 = u16At (trim p) 4 := by
        apply u16At_congr <;> (apply hrd _ (fun e => by cases e) <;> (simp at hl4; omega))
      exact trim_fix_congr hlen.symm b0.symm (fun _ => u2.symm) (fun _ => u4.symm) (trim_idem p)
    | false =>
      -- IPv4: bytes 4,5 may be masked, but an IPv4 trim does not read them
      have hv := hv4 rfl
      exact trim_fix_congr hlen.symm b0.symm (fun _ => u2.symm) (fun e => by rw [hv] at e; omega) (trim_idem p)
  · -- classify
    have hcl := h
    unfold classify at hcl ⊢
    simp only [get_eq, be16_eq] at hcl ⊢
    simp only [hlen, b0, u6, b9, b6]
    exact hcl

theorem flowOf_mask (p : Bytes) : flowOf (mask p) = flowOf p := by
  cases hc : classify (trim p) with
  | none =>
    have hm : mask p = trim p := by unfold mask; simp only [hc]
    unfold flowOf
    simp only [hm, trim_idem, hc]
  | some c =>
    obtain ⟨v6, l4, tcp⟩ := c
    obtain ⟨htrim, hcls⟩ := mask_facts hc
    obtain ⟨hlen, hrd⟩ := mask_classified hc
    obtain ⟨hl4, hmin, _, _⟩ := classify_l4 hc
    have hco : 6 ≤ (if tcp = true then 16 else 6) := by cases tcp <;> simp
    have hmin8 : l4 + 8 ≤ (trim p).length := by cases tcp <;> simp at hmin <;> omega
    unfold flowOf
    simp only [htrim, hcls, hc, be16_eq]
    cases v6 with
    | true =>
      simp only [↓reduceIte] at hl4
      subst hl4
      have r : ∀ k, k < 44 → rd (mask p) k = rd (trim p) k := by
        intro k h2
        apply hrd k (fun e => by cases e) <;> omega
      have e1 : ((mask p).take 24).drop 8 = ((trim p).take 24).drop 8 :=
        slice_congr (a := mask p) (b := trim p) (lo := 8) (hi := 24) (by omega) (by omega)
          (fun k h1 h2 => r k (by omega))
      have e2 : ((mask p).take 40).drop 24 = ((trim p).take 40).drop 24 :=
        slice_congr (a := mask p) (b := trim p) (lo := 24) (hi := 40) (by omega) (by omega)
          (fun k h1 h2 => r k (by omega))
      simp only [↓reduceIte, e1, e2, u16At_congr (r 40 (by omega)) (r 41 (by omega)),
        u16At_congr (r 42 (by omega)) (r 43 (by omega))]
    | false =>
      simp only [Bool.false_eq_true, ↓reduceIte] at hl4
      subst hl4
      have r : ∀ k, 12 ≤ k → k < 24 → rd (mask p) k = rd (trim p) k := by
        intro k h1 h2
        apply hrd k (fun _ => ⟨by omega, by omega, by omega, by omega⟩) <;> omega
      have e1 : ((mask p).take 16).drop 12 = ((trim p).take 16).drop 12 :=
        slice_congr (a := mask p) (b := trim p) (lo := 12) (hi := 16) (by omega) (by omega)
          (fun k h1 h2 => r k h1 (by omega))
      have e2 : ((mask p).take 20).drop 16 = ((trim p).take 20).drop 16 :=
        slice_congr (a := mask p) (b := trim p) (lo := 16) (hi := 20) (by omega) (by omega)
          (fun k h1 h2 => r k (by omega) (by omega))
      simp only [Bool.false_eq_true, ↓reduceIte, e1, e2, u16At_congr (r 20 (by omega) (by omega)) (r 21 (by omega) (by omega)),
        u16At_congr (r 22 (by omega) (by omega)) (r 23 (by omega) (by omega))]

theorem pureAck_mask (p : Bytes) : pureAck (mask p) = pureAck p := by
  cases hc : classify (trim p) with
  | none =>
    have hm : mask p = trim p := by unfold mask; simp only [hc]
    unfold pureAck
    simp only [hm, trim_idem, hc]
  | some c =>
    obtain ⟨v6, l4, tcp⟩ := c
    obtain ⟨htrim, hcls⟩ := mask_facts hc
    obtain ⟨hlen, hrd⟩ := mask_classified hc
    obtain ⟨hl4, hmin, _, _⟩ := classify_l4 hc
    unfold pureAck
    simp only [htrim, hcls, hc]
    cases tcp with
    | false => rfl
    | true =>
      simp only [↓reduceIte] at hmin hrd
      have h20 : 20 ≤ l4 := by cases v6 <;> simp at hl4 <;> omega
      have r : ∀ k, k = l4 + 12 ∨ k = l4 + 13 → rd (mask p) k = rd (trim p) k := by
        intro k hk
        apply hrd k (fun _ => ⟨by omega, by omega, by omega, by omega⟩) <;> omega
      simp only [get_eq, byteAt_eq_of_rd (r _ (Or.inl rfl)), byteAt_eq_of_rd (r _ (Or.inr rfl)), hlen]
      try rfl

theorem qf_mask (f : Flow) (p : Bytes) : qf f (mask p) = qf f p := by
  simp only [qf, flowOf_mask, pureAck_mask]

/-- position-wise mask-equal sequences have mask-equal `qf`-subsequences -/
theorem filter_qf_of_map_mask_eq {a b : List Bytes} (f : Flow) (h : a.map mask = b.map mask) :
    (a.filter (qf f)).map mask = (b.filter (qf f)).map mask := by
  have key : ∀ l : List Bytes, (l.filter (qf f)).map mask = (l.map mask).filter (qf f) := by
    intro l
    induction l with
    | nil => rfl
    | cons x t ih =>
      simp only [List.filter_cons, List.map_cons, qf_mask]
      split <;> simp [ih]
  rw [key a, key b, h]

end Nebula.Lemmas.Coalesce
