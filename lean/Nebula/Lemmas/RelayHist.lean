/-
C39 helper lemmas: the invariants `NS` (no Forwarding record points at the node itself) and `RO` (every
`hm.Relays` entry is owned by a live hostinfo that holds the record) are preserved by every operation
(`step`), hence hold after every history.
-/
import Nebula.Lemmas.RelayCtl

namespace Nebula.Lemmas.Relay
open Nebula.Relay Nebula.Gen Nebula.Spec.Relay

theorem ext_disestablish {am : Bool} {n : Node} (hi : Host) {m : Node} (e : Ext am n m) :
    Ext am n (disestablish m hi) := by
  unfold disestablish
  have step1 : ∀ (l : List Addr) (m : Node), Ext am n m →
      Ext am n (l.foldl (fun n ip => n.modHostsFor ip (·.mapRecs (setStateF (hi.vpnAddrs.headD 0) nebula_Disestablished))) m) := by
    intro l
    induction l with
    | nil => intro m e; exact e
    | cons a l ih => intro m e; exact ih _ (ext_modHostsFor_map _ _ (keyPres_setState _ _) e)
  have step2 : ∀ (l : List Relay) (m : Node), Ext am n m →
      Ext am n (l.foldl (fun n rs => if rs.type == nebula_ForwardingType then
          n.modHostsFor rs.peerAddr (·.mapRecs (setStateF (hi.vpnAddrs.headD 0) nebula_Disestablished)) else n) m) := by
    intro l
    induction l with
    | nil => intro m e; exact e
    | cons a l ih =>
      intro m e
      simp only [List.foldl_cons]
      split
      · exact ih _ (ext_modHostsFor_map _ _ (keyPres_setState _ _) e)
      · exact ih _ e
  exact step2 _ _ (step1 _ _ e)

/-- node state right after unlinking hostinfo `hid` (hosts and `hm.Relays` filtered). -/
def unlinked (n : Node) (hid : Nat) : Node :=
  { n with
    hosts := n.hosts.filter (fun h => !(h.id == hid))
    relays := n.relays.filter (fun p =>
      !(((n.hosts.filter (fun h => h.id == hid)).flatMap (fun h => h.recs.map (·.localIndex))).contains p.1)) }

theorem ns_unlinked {n : Node} (hid : Nat) (h : NS n) : NS (unlinked n hid) := by
  intro h' hh' r' hr' hty
  simp only [unlinked, List.mem_filter] at hh'
  exact h h' hh'.1 r' hr' hty

theorem ro_unlinked {n : Node} (hid : Nat) (h : RO n) : RO (unlinked n hid) := by
  intro p hp
  simp only [unlinked, List.mem_filter] at hp
  obtain ⟨h0, hh0, hid0, r0, hr0, hi0⟩ := h p hp.1
  refine ⟨h0, ?_, hid0, r0, hr0, hi0⟩
  simp only [unlinked, List.mem_filter]
  refine ⟨hh0, ?_⟩
  -- if the owner were the deleted hostinfo, the entry would have been filtered out
  cases c : (h0.id == hid)
  · rfl
  · exfalso
    have hdead : (((n.hosts.filter (fun h => h.id == hid)).flatMap (fun h => h.recs.map (·.localIndex))).contains p.1) = true := by
      simp only [List.contains_eq_mem, List.mem_flatMap, List.mem_filter, List.mem_map, decide_eq_true_eq]
      exact ⟨h0, ⟨hh0, c⟩, r0, hr0, hi0⟩
    simp at hp
    exact hp.2 h0 hh0 (by simpa using c) r0 hr0 hi0

/-- no `hm.Relays` entry is owned by the unlinked hostinfo any more. -/
theorem noIndex_unlinked {n : Node} (hid : Nat) (h : RO n) : ∀ p ∈ (unlinked n hid).relays, p.2 ≠ hid := by
  intro p hp heq
  simp only [unlinked, List.mem_filter] at hp
  obtain ⟨h0, hh0, hid0, r0, hr0, hi0⟩ := h p hp.1
  have hdead : (((n.hosts.filter (fun h => h.id == hid)).flatMap (fun h => h.recs.map (·.localIndex))).contains p.1) = true := by
    simp only [List.contains_eq_mem, List.mem_flatMap, List.mem_filter, List.mem_map, decide_eq_true_eq]
    exact ⟨h0, ⟨hh0, by simp [hid0, heq]⟩, r0, hr0, hi0⟩
  simp at hp
  exact hp.2 h0 hh0 (by rw [hid0, heq]) r0 hr0 hi0

theorem deleteHost_eq (n : Node) (hid : Nat) :
    deleteHost n hid = n ∨ deleteHost n hid = unlinked n hid ∨
      ∃ hi, deleteHost n hid = disestablish (unlinked n hid) hi := by
  unfold deleteHost
  split
  · exact Or.inl rfl
  · rename_i hi _
    simp only
    split
    · exact Or.inr (Or.inr ⟨hi, rfl⟩)
    · exact Or.inr (Or.inl rfl)

theorem deleteHost_live {n : Node} {hid : Nat} {hi : Host} (hf : n.findHost hid = some hi) :
    deleteHost n hid = unlinked n hid ∨ deleteHost n hid = disestablish (unlinked n hid) hi := by
  unfold deleteHost
  rw [hf]
  simp only
  split
  · exact Or.inr rfl
  · exact Or.inl rfl

theorem disestablish_relays (m : Node) (hi : Host) : (disestablish m hi).relays = m.relays := by
  unfold disestablish
  have step1 : ∀ (l : List Addr) (m : Node) (f : Host → Host),
      (l.foldl (fun n ip => n.modHostsFor ip f) m).relays = m.relays := by
    intro l
    induction l with
    | nil => intro m f; rfl
    | cons a l ih => intro m f; simp only [List.foldl_cons]; rw [ih]; rfl
  have step2 : ∀ (l : List Relay) (m : Node) (f : Host → Host),
      (l.foldl (fun n rs => if rs.type == nebula_ForwardingType then n.modHostsFor rs.peerAddr f else n) m).relays = m.relays := by
    intro l
    induction l with
    | nil => intro m f; rfl
    | cons a l ih =>
      intro m f
      simp only [List.foldl_cons]
      rw [ih]
      split <;> rfl
  rw [step2, step1]

theorem ns_deleteHost {n : Node} (hid : Nat) (h : NS n) : NS (deleteHost n hid) := by
  rcases deleteHost_eq n hid with e | e | ⟨hi, e⟩ <;> rw [e]
  · exact h
  · exact ns_unlinked hid h
  · exact (ext_disestablish (am := false) hi (Ext.refl _ _)).ns (ns_unlinked hid h)

theorem ro_deleteHost {n : Node} (hid : Nat) (h : RO n) : RO (deleteHost n hid) := by
  rcases deleteHost_eq n hid with e | e | ⟨hi, e⟩ <;> rw [e]
  · exact h
  · exact ro_unlinked hid h
  · exact (ext_disestablish (am := false) hi (Ext.refl _ _)).ro (ro_unlinked hid h)

theorem ns_tunnelUp {n : Node} (id rid : Nat) (addrs : List Addr) (h : NS n) : NS (tunnelUp n id rid addrs) := by
  unfold tunnelUp
  split
  · exact h
  · intro h' hh' r' hr' hty
    simp only [List.mem_cons] at hh'
    rcases hh' with rfl | hh'
    · simp at hr'
    · exact h h' hh' r' hr' hty

theorem ro_tunnelUp {n : Node} (id rid : Nat) (addrs : List Addr) (h : RO n) : RO (tunnelUp n id rid addrs) := by
  unfold tunnelUp
  split
  · exact h
  · intro p hp
    obtain ⟨h0, hh0, r⟩ := h p hp
    exact ⟨h0, List.mem_cons_of_mem _ hh0, r⟩

def Inv (n : Node) : Prop := NS n ∧ RO n

theorem inv_step {s : Node × Nat} (op : Op) (h : Inv s.1) : Inv (step s op).1 := by
  cases op with
  | up id rid addrs => exact ⟨ns_tunnelUp _ _ _ h.1, ro_tunnelUp _ _ _ h.2⟩
  | down hid => exact ⟨ns_deleteHost _ h.1, ro_deleteHost _ h.2⟩
  | ctl hid m =>
    have e := ext_handleControl s.1 s.2 hid m
    exact ⟨e.ns h.1, e.ro h.2⟩
  | reload b => exact h
  | setRemote hid v =>
    have e : Ext false s.1 (s.1.modHost hid (fun h => { h with remoteValid := v })) :=
      ext_modHost_other hid _ (fun h => ⟨rfl, rfl⟩) (Ext.refl _ _)
    exact ⟨e.ns h.1, e.ro h.2⟩

theorem inv_run (ops : List Op) : ∀ s : Node × Nat, Inv s.1 → Inv (run s ops).1 := by
  induction ops with
  | nil => intro s h; exact h
  | cons op ops ih => intro s h; exact ih _ (inv_step op h)

theorem inv_init (my : List Addr) (am : Bool) : Inv (init my am) :=
  ⟨fun h hh => by simp [init] at hh, fun p hp => by simp [init] at hp⟩

end Nebula.Lemmas.Relay
