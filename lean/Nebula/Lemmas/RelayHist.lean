/-
C39 helper lemmas: the invariants `NS` (no Forwarding record points at the node itself) and `RO` (every
`hm.Relays` entry is owned by a live hostinfo that holds the record) are preserved by every operation
(`step`), hence hold after every history.
-/
import Nebula.Lemmas.RelayCtl

namespace Nebula.Lemmas.Relay
open Nebula.Relay Nebula.Gen Nebula.Spec.Relay

theorem ext_disestablish {am : Bool} {n : Node} (hi : Host) {m : Node} (e : Ext am n m) :
    Ext am n (disestablish m hi) := by
  unfold disestablish
  have step1 : ∀ (l : List Addr) (m : Node), Ext am n m →
      Ext am n (l.foldl (fun n ip => n.modHostsFor ip (·.mapRecs (setStateF (hi.vpnAddrs.headD 0) nebula_Disestablished))) m) := by
    intro l
    induction l with
    | nil => intro m e; exact e
    | cons a l ih => intro m e; exact ih _ (ext_modHostsFor_map _ _ (keyPres_setState _ _) (stOK_setState _ _ (by decide) (by decide)) e)
  have step2 : ∀ (l : List Relay) (m : Node), Ext am n m →
      Ext am n (l.foldl (fun n rs => if rs.type == nebula_ForwardingType then
          n.modHostsFor rs.peerAddr (·.mapRecs (setStateF (hi.vpnAddrs.headD 0) nebula_Disestablished)) else n) m) := by
    intro l
    induction l with
    | nil => intro m e; exact e
    | cons a l ih =>
      intro m e
      simp only [List.foldl_cons]
      split
      · exact ih _ (ext_modHostsFor_map _ _ (keyPres_setState _ _) (stOK_setState _ _ (by decide) (by decide)) e)
      · exact ih _ e
  exact step2 _ _ (step1 _ _ e)

/-- node state right after unlinking hostinfo `hid` (hosts and `hm.Relays` filtered). -/
def unlinked (n : Node) (hid : Nat) : Node :=
  { n with
    hosts := n.hosts.filter (fun h => !(h.id == hid))
    relays := n.relays.filter (fun p =>
      !(((n.hosts.filter (fun h => h.id == hid)).flatMap (fun h => h.recs.map (·.localIndex))).contains p.1)) }

theorem ns_unlinked {n : Node} (hid : Nat) (h : NS n) : NS (unlinked n hid) := by
  intro h' hh' r' hr' hty
  simp only [unlinked, List.mem_filter] at hh'
  exact h h' hh'.1 r' hr' hty

theorem ro_unlinked {n : Node} (hid : Nat) (h : RO n) : RO (unlinked n hid) := by
  intro p hp
  simp only [unlinked, List.mem_filter] at hp
  obtain ⟨h0, hh0, hid0, r0, hr0, hi0⟩ := h p hp.1
  refine ⟨h0, ?_, hid0, r0, hr0, hi0⟩
  simp only [unlinked, List.mem_filter]
  refine ⟨hh0, ?_⟩
  -- if the owner were the deleted hostinfo, the entry would have been filtered out
  cases c : (h0.id == hid)
  · rfl
  · exfalso
    have hdead : (((n.hosts.filter (fun h => h.id == hid)).flatMap (fun h => h.recs.map (·.localIndex))).contains p.1) = true := by
      simp only [List.contains_eq_mem, List.mem_flatMap, List.mem_filter, List.mem_map, decide_eq_true_eq]
      exact ⟨h0, ⟨hh0, c⟩, r0, hr0, hi0⟩
    simp at hp
    exact hp.2 h0 hh0 (by simpa using c) r0 hr0 hi0

/-- no `hm.Relays` entry is owned by the unlinked hostinfo any more. -/
theorem noIndex_unlinked {n : Node} (hid : Nat) (h : RO n) : ∀ p ∈ (unlinked n hid).relays, p.2 ≠ hid := by
  intro p hp heq
  simp only [unlinked, List.mem_filter] at hp
  obtain ⟨h0, hh0, hid0, r0, hr0, hi0⟩ := h p hp.1
  have hdead : (((n.hosts.filter (fun h => h.id == hid)).flatMap (fun h => h.recs.map (·.localIndex))).contains p.1) = true := by
    simp only [List.contains_eq_mem, List.mem_flatMap, List.mem_filter, List.mem_map, decide_eq_true_eq]
    exact ⟨h0, ⟨hh0, by simp [hid0, heq]⟩, r0, hr0, hi0⟩
  simp at hp
  exact hp.2 h0 hh0 (by rw [hid0, heq]) r0 hr0 hi0

theorem deleteHost_eq (n : Node) (hid : Nat) :
    deleteHost n hid = n ∨ deleteHost n hid = unlinked n hid ∨
      ∃ hi, deleteHost n hid = disestablish (unlinked n hid) hi := by
  unfold deleteHost
  split
  · exact Or.inl rfl
  · rename_i hi _
    simp only
    split
    · exact Or.inr (Or.inr ⟨hi, rfl⟩)
    · exact Or.inr (Or.inl rfl)

theorem deleteHost_live {n : Node} {hid : Nat} {hi : Host} (hf : n.findHost hid = some hi) :
    deleteHost n hid = unlinked n hid ∨ deleteHost n hid = disestablish (unlinked n hid) hi := by
  unfold deleteHost
  rw [hf]
  simp only
  split
  · exact Or.inr rfl
  · exact Or.inl rfl

theorem disestablish_relays (m : Node) (hi : Host) : (disestablish m hi).relays = m.relays := by
  unfold disestablish
  have step1 : ∀ (l : List Addr) (m : Node) (f : Host → Host),
      (l.foldl (fun n ip => n.modHostsFor ip f) m).relays = m.relays := by
    intro l
    induction l with
    | nil => intro m f; rfl
    | cons a l ih => intro m f; simp only [List.foldl_cons]; rw [ih]; rfl
  have step2 : ∀ (l : List Relay) (m : Node) (f : Host → Host),
      (l.foldl (fun n rs => if rs.type == nebula_ForwardingType then n.modHostsFor rs.peerAddr f else n) m).relays = m.relays := by
    intro l
    induction l with
    | nil => intro m f; rfl
    | cons a l ih =>
      intro m f
      simp only [List.foldl_cons]
      rw [ih]
      split <;> rfl
  rw [step2, step1]

theorem ns_deleteHost {n : Node} (hid : Nat) (h : NS n) : NS (deleteHost n hid) := by
  rcases deleteHost_eq n hid with e | e | ⟨hi, e⟩ <;> rw [e]
  · exact h
  · exact ns_unlinked hid h
  · exact (ext_disestablish (am := false) hi (Ext.refl _ _)).ns (ns_unlinked hid h)

theorem ro_deleteHost {n : Node} (hid : Nat) (h : RO n) : RO (deleteHost n hid) := by
  rcases deleteHost_eq n hid with e | e | ⟨hi, e⟩ <;> rw [e]
  · exact h
  · exact ro_unlinked hid h
  · exact (ext_disestablish (am := false) hi (Ext.refl _ _)).ro (ro_unlinked hid h)

-- ---- well-formedness (index uniqueness) through tunnel churn

theorem wf_unlinked {n : Node} (hid : Nat) (w : WF n) : WF (unlinked n hid) := by
  obtain ⟨uh, gi, rc, sv⟩ := w
  have sub : ∀ h, h ∈ (unlinked n hid).hosts → h ∈ n.hosts ∧ (h.id == hid) = false := by
    intro h hh
    simp only [unlinked, List.mem_filter] at hh
    exact ⟨hh.1, by simpa using hh.2⟩
  refine ⟨fun a ha b hb => uh a (sub a ha).1 b (sub b hb).1,
    fun a ha b hb => gi a (sub a ha).1 b (sub b hb).1, ?_, fun a ha => sv a (sub a ha).1⟩
  intro h hh r hr
  obtain ⟨p, hp, hpe⟩ := rc h (sub h hh).1 r hr
  refine ⟨p, ?_, hpe⟩
  simp only [unlinked, List.mem_filter]
  refine ⟨hp, ?_⟩
  -- the entry would only be dropped if a hostinfo with id `hid` held a record with this index
  cases hd : (((n.hosts.filter (fun h => h.id == hid)).flatMap (fun h => h.recs.map (·.localIndex))).contains p.1)
  · rfl
  · exfalso
    simp only [List.contains_eq_mem, List.mem_flatMap, List.mem_filter, List.mem_map, decide_eq_true_eq] at hd
    obtain ⟨d, ⟨hdm, hdid⟩, rd, hrd, hrde⟩ := hd
    have := (gi h (sub h hh).1 d hdm r hr rd hrd (by rw [hrde, hpe])).1
    have h2 := (sub h hh).2
    rw [this] at h2
    simp [h2] at hdid

theorem wf_deleteHost {n : Node} (hid : Nat) (w : WF n) : WF (deleteHost n hid) := by
  rcases deleteHost_eq n hid with e | e | ⟨hi, e⟩ <;> rw [e]
  · exact w
  · exact wf_unlinked hid w
  · exact (ext_disestablish (am := false) hi (Ext.refl _ _)).wf (wf_unlinked hid w)

/-- every record of `m` is a record of `n` (same hostinfo id, same identity; state kept or moved to a state
other than PeerRequested). -/
def MapOnly (n m : Node) : Prop :=
  ∀ h' ∈ m.hosts, ∀ r' ∈ h'.recs, ∃ h ∈ n.hosts, h.id = h'.id ∧ ∃ r ∈ h.recs, r.type = r'.type ∧
    r.peerAddr = r'.peerAddr ∧ r.localIndex = r'.localIndex ∧ (r.state = r'.state ∨ r'.state ≠ nebula_PeerRequested)

theorem MapOnly.refl (n : Node) : MapOnly n n :=
  fun h' hh' r' hr' => ⟨h', hh', rfl, r', hr', rfl, rfl, rfl, Or.inl rfl⟩

theorem MapOnly.trans {a b c : Node} (h1 : MapOnly a b) (h2 : MapOnly b c) : MapOnly a c := by
  intro h' hh' r' hr'
  obtain ⟨hb, hhb, idb, rb, hrb, k1, k2, k3, st2⟩ := h2 h' hh' r' hr'
  obtain ⟨ha, hha, ida, ra, hra, j1, j2, j3, st1⟩ := h1 hb hhb rb hrb
  refine ⟨ha, hha, by rw [ida, idb], ra, hra, by rw [j1, k1], by rw [j2, k2], by rw [j3, k3], ?_⟩
  rcases st2 with q | q
  · rcases st1 with p | p
    · exact Or.inl (by rw [p, q])
    · exact Or.inr (by rw [← q]; exact p)
  · exact Or.inr q

/-- from an extension step with no fresh records. -/
theorem mapOnly_of_ext_from {am : Bool} {n m : Node} (e : Ext am n m)
    (nonew : ∀ h' ∈ m.hosts, ∀ r' ∈ h'.recs, ∃ h ∈ n.hosts, ∃ r ∈ h.recs, r.localIndex = r'.localIndex) (w : WF n) :
    MapOnly n m := by
  intro h' hh' r' hr'
  rcases e.orig h' hh' r' hr' with o | fr
  · exact o
  · obtain ⟨h, hh, r, hr, he⟩ := nonew h' hh' r' hr'
    exact absurd he (fr w h hh r hr)

theorem mapOnly_mapRecs (m : Node) (p : Host → Bool) (f : Relay → Relay) (hf : KeyPres f) (hs : StOK f) :
    MapOnly m { m with hosts := m.hosts.map (fun h => if p h then h.mapRecs f else h) } := by
  intro h' hh' r' hr'
  obtain ⟨h0, hh0, rfl⟩ := List.mem_map.mp hh'
  by_cases c : p h0 = true
  · simp only [c, if_true, Host.mapRecs] at hr' ⊢
    obtain ⟨r0, hr0, rfl⟩ := List.mem_map.mp hr'
    exact ⟨h0, hh0, rfl, r0, hr0, ((hf r0).1).symm, ((hf r0).2.1).symm, ((hf r0).2.2).symm,
      (hs r0).1.elim (fun q => Or.inl q.symm) Or.inr⟩
  · simp only [c] at hr' ⊢
    exact ⟨h0, hh0, by simp, r', by simpa using hr', rfl, rfl, rfl, Or.inl rfl⟩

theorem mapOnly_modHostsFor (m : Node) (a : Addr) (f : Relay → Relay) (hf : KeyPres f) (hs : StOK f) :
    MapOnly m (m.modHostsFor a (·.mapRecs f)) := mapOnly_mapRecs m _ f hf hs

theorem mapOnly_modHost (m : Node) (hid : Nat) (f : Relay → Relay) (hf : KeyPres f) (hs : StOK f) :
    MapOnly m (m.modHost hid (·.mapRecs f)) := mapOnly_mapRecs m (fun h => h.id == hid) f hf hs

theorem mapOnly_disestablish (m : Node) (hi : Host) : MapOnly m (disestablish m hi) := by
  unfold disestablish
  have step1 : ∀ (l : List Addr) (x : Node), MapOnly m x →
      MapOnly m (l.foldl (fun n ip => n.modHostsFor ip (·.mapRecs (setStateF (hi.vpnAddrs.headD 0) nebula_Disestablished))) x) := by
    intro l
    induction l with
    | nil => intro x e; exact e
    | cons a l ih =>
      intro x e
      exact ih _ (e.trans (mapOnly_modHostsFor x a _ (keyPres_setState _ _) (stOK_setState _ _ (by decide) (by decide))))
  have step2 : ∀ (l : List Relay) (x : Node), MapOnly m x →
      MapOnly m (l.foldl (fun n rs => if rs.type == nebula_ForwardingType then
          n.modHostsFor rs.peerAddr (·.mapRecs (setStateF (hi.vpnAddrs.headD 0) nebula_Disestablished)) else n) x) := by
    intro l
    induction l with
    | nil => intro x e; exact e
    | cons a l ih =>
      intro x e
      simp only [List.foldl_cons]
      split
      · exact ih _ (e.trans (mapOnly_modHostsFor x a.peerAddr _ (keyPres_setState _ _) (stOK_setState _ _ (by decide) (by decide))))
      · exact ih _ e
  exact step2 _ _ (step1 _ _ (MapOnly.refl m))

theorem mapOnly_unlinked (n : Node) (hid : Nat) : MapOnly n (unlinked n hid) := by
  intro h' hh' r' hr'
  simp only [unlinked, List.mem_filter] at hh'
  exact ⟨h', hh'.1, rfl, r', hr', rfl, rfl, rfl, Or.inl rfl⟩

theorem mapOnly_deleteHost (n : Node) (hid : Nat) : MapOnly n (deleteHost n hid) := by
  rcases deleteHost_eq n hid with e | e | ⟨hi, e⟩ <;> rw [e]
  · exact MapOnly.refl n
  · exact mapOnly_unlinked n hid
  · exact (mapOnly_unlinked n hid).trans (mapOnly_disestablish _ hi)

/-- a property preserved by `deleteHost` is preserved by the eviction loop of `tunnelUp`. -/
theorem fold_evict {P : Node → Prop} (hdel : ∀ n hid, P n → P (deleteHost n hid)) :
    ∀ (addrs : List Addr) (n : Node), P n → P (addrs.foldl evictFor n) := by
  intro addrs
  induction addrs with
  | nil => intro n h; exact h
  | cons a l ih =>
    intro n h
    simp only [List.foldl_cons]
    apply ih
    unfold evictFor
    split
    · split
      · exact hdel _ _ h
      · exact h
    · exact h

theorem mapOnly_fold_evict (addrs : List Addr) (n : Node) : MapOnly n (addrs.foldl evictFor n) := by
  induction addrs generalizing n with
  | nil => exact MapOnly.refl n
  | cons a l ih =>
    simp only [List.foldl_cons]
    refine MapOnly.trans ?_ (ih _)
    unfold evictFor
    split
    · split
      · exact mapOnly_deleteHost _ _
      · exact MapOnly.refl n
    · exact MapOnly.refl n

theorem tunnelUp_cases (n : Node) (id rid : Nat) (addrs : List Addr) (via : Option Addr) :
    tunnelUp n id rid addrs via = n ∨
      (n.findHost id = none ∧ tunnelUp n id rid addrs via = addrs.foldl evictFor
        { n with hosts := { id := id, remoteId := rid, vpnAddrs := addrs, remoteValid := via.isNone, relayIps := via.toList } :: n.hosts }) := by
  unfold tunnelUp
  split
  · exact Or.inl rfl
  · rename_i hc
    right
    refine ⟨?_, rfl⟩
    cases hf : n.findHost id with
    | none => rfl
    | some x => simp [hf] at hc

theorem fresh_id {n : Node} {id : Nat} (hf : n.findHost id = none) : ∀ h ∈ n.hosts, h.id ≠ id := by
  intro h hh heq
  unfold Node.findHost at hf
  rw [List.find?_eq_none] at hf
  exact hf h hh (by simp [heq])

theorem ns_tunnelUp {n : Node} (id rid : Nat) (addrs : List Addr) (via : Option Addr) (h : NS n) :
    NS (tunnelUp n id rid addrs via) := by
  rcases tunnelUp_cases n id rid addrs via with e | ⟨_, e⟩ <;> rw [e]
  · exact h
  · apply fold_evict (P := NS) (fun n hid => ns_deleteHost hid)
    intro h' hh' r' hr' hty
    simp only [List.mem_cons] at hh'
    rcases hh' with rfl | hh'
    · simp at hr'
    · exact h h' hh' r' hr' hty

theorem ro_tunnelUp {n : Node} (id rid : Nat) (addrs : List Addr) (via : Option Addr) (h : RO n) :
    RO (tunnelUp n id rid addrs via) := by
  rcases tunnelUp_cases n id rid addrs via with e | ⟨_, e⟩ <;> rw [e]
  · exact h
  · apply fold_evict (P := RO) (fun n hid => ro_deleteHost hid)
    intro p hp
    obtain ⟨h0, hh0, r⟩ := h p hp
    exact ⟨h0, List.mem_cons_of_mem _ hh0, r⟩

theorem wf_tunnelUp {n : Node} (id rid : Nat) (addrs : List Addr) (via : Option Addr) (w : WF n) :
    WF (tunnelUp n id rid addrs via) := by
  rcases tunnelUp_cases n id rid addrs via with e | ⟨hf, e⟩ <;> rw [e]
  · exact w
  · apply fold_evict (P := WF) (fun n hid => wf_deleteHost hid)
    obtain ⟨uh, gi, rc, sv⟩ := w
    have fr := fresh_id hf
    refine ⟨?_, ?_, ?_, ?_⟩
    · intro a ha b hb hid
      simp only [List.mem_cons] at ha hb
      rcases ha with rfl | ha <;> rcases hb with rfl | hb
      · rfl
      · exact absurd hid.symm (fr b hb)
      · exact absurd hid (fr a ha)
      · exact uh a ha b hb hid
    · intro a ha b hb r1 hr1 r2 hr2 hidx
      simp only [List.mem_cons] at ha hb
      rcases ha with rfl | ha
      · simp at hr1
      · rcases hb with rfl | hb
        · simp at hr2
        · exact gi a ha b hb r1 hr1 r2 hr2 hidx
    · intro a ha r hr
      simp only [List.mem_cons] at ha
      rcases ha with rfl | ha
      · simp at hr
      · exact rc a ha r hr
    · intro a ha r hr
      simp only [List.mem_cons] at ha
      rcases ha with rfl | ha
      · simp at hr
      · exact sv a ha r hr

theorem mapOnly_tunnelUp (n : Node) (id rid : Nat) (addrs : List Addr) (via : Option Addr) :
    MapOnly n (tunnelUp n id rid addrs via) := by
  rcases tunnelUp_cases n id rid addrs via with e | ⟨_, e⟩ <;> rw [e]
  · exact MapOnly.refl n
  · refine MapOnly.trans ?_ (mapOnly_fold_evict addrs _)
    intro h' hh' r' hr'
    simp only [List.mem_cons] at hh'
    rcases hh' with rfl | hh'
    · simp at hr'
    · exact ⟨h', hh', rfl, r', hr', rfl, rfl, rfl, Or.inl rfl⟩

-- ---- per-step consequences: record identity and state transitions

/-- the `orig` relation of `Ext`, on its own. -/
def Orig (n m : Node) : Prop :=
  ∀ h' ∈ m.hosts, ∀ r' ∈ h'.recs,
    (∃ h ∈ n.hosts, h.id = h'.id ∧ ∃ r ∈ h.recs, r.type = r'.type ∧ r.peerAddr = r'.peerAddr ∧
        r.localIndex = r'.localIndex ∧ (r.state = r'.state ∨ r'.state ≠ nebula_PeerRequested))
    ∨ (WF n → ∀ h ∈ n.hosts, ∀ r ∈ h.recs, r.localIndex ≠ r'.localIndex)

theorem MapOnly.orig {n m : Node} (h : MapOnly n m) : Orig n m := fun h' hh' r' hr' => Or.inl (h h' hh' r' hr')

theorem identityStable_of_orig {n m : Node} (w : WF n) (o : Orig n m) : identityStable n m = true := by
  unfold identityStable
  simp only [List.all_eq_true, Bool.or_eq_true, Bool.not_eq_true', beq_eq_false_iff_ne, ne_eq, Bool.and_eq_true, beq_iff_eq]
  intro h' hh' r' hr' h hh
  by_cases cid : h.id = h'.id
  · right
    intro r hr
    by_cases cix : r.localIndex = r'.localIndex
    · right
      rcases o h' hh' r' hr' with ⟨h0, hh0, hid0, r0, hr0, k1, k2, k3, _⟩ | fr
      · have := (w.2.1 h hh h0 hh0 r hr r0 hr0 (by rw [cix, k3])).2
        rw [this]; exact ⟨k1, k2⟩
      · exact absurd cix (fr w h hh r hr)
    · exact Or.inl cix
  · exact Or.inl cid

theorem statesValid_of_orig {n m : Node} (w : WF n) (wm : SV m) (o : Orig n m) : statesValid n m = true := by
  unfold statesValid
  simp only [List.all_eq_true, Bool.or_eq_true, Bool.not_eq_true', beq_eq_false_iff_ne, ne_eq, Bool.and_eq_true, beq_iff_eq]
  intro h' hh' r' hr'
  refine ⟨wm h' hh' r' hr', ?_⟩
  intro h hh
  by_cases cid : h.id = h'.id
  · right
    intro r hr
    by_cases cix : r.localIndex = r'.localIndex
    · rcases o h' hh' r' hr' with ⟨h0, hh0, hid0, r0, hr0, _, _, k3, st⟩ | fr
      · have := (w.2.1 h hh h0 hh0 r hr r0 hr0 (by rw [cix, k3])).2
        rw [this]
        rcases st with q | q
        · exact Or.inl (Or.inr q)
        · exact Or.inr q
      · exact absurd cix (fr w h hh r hr)
    · exact Or.inl (Or.inl cix)
  · exact Or.inl cid

def Inv (n : Node) : Prop := NS n ∧ RO n ∧ WF n

/-- what one operation does to the records, as `Orig` plus preservation of the invariants. -/
theorem step_orig_inv {s : Node × Nat} (op : Op) (h : Inv s.1) : Orig s.1 (step s op).1 ∧ Inv (step s op).1 := by
  obtain ⟨ns, ro, wf⟩ := h
  cases op with
  | up id rid addrs via =>
    exact ⟨(mapOnly_tunnelUp _ _ _ _ _).orig, ns_tunnelUp _ _ _ _ ns, ro_tunnelUp _ _ _ _ ro, wf_tunnelUp _ _ _ _ wf⟩
  | down hid =>
    exact ⟨(mapOnly_deleteHost _ _).orig, ns_deleteHost _ ns, ro_deleteHost _ ro, wf_deleteHost _ wf⟩
  | ctl hid m =>
    have e := ext_handleControl s.1 s.2 hid m
    exact ⟨e.orig, e.ns ns, e.ro ro, e.wf wf⟩
  | reload b => exact ⟨(MapOnly.refl _).orig, ns, ro, wf⟩
  | setRemote hid v =>
    have e : Ext false s.1 (s.1.modHost hid (fun h => { h with remoteValid := v })) :=
      ext_modHost_other hid _ (fun h => ⟨rfl, rfl⟩) (Ext.refl _ _)
    exact ⟨e.orig, e.ns ns, e.ro ro, e.wf wf⟩
  | start vpnIp v1 relays =>
    have e := ext_startRelays s.1 s.2 vpnIp v1 relays
    exact ⟨e.orig, e.ns ns, e.ro ro, e.wf wf⟩
  | migrate o nw v1 =>
    have e := ext_migrate s.1 s.2 o nw v1 ns
    exact ⟨e.orig, e.ns ns, e.ro ro, e.wf wf⟩
  | relayHs hh i =>
    have e : Ext false s.1 (relayHandshakeSeen s.1 hh i) :=
      ext_modHost_map hh _ (keyPres_setStateIdx _ _) (stOK_setStateIdx _ _ (by decide) (by decide)) (Ext.refl _ _)
    exact ⟨e.orig, e.ns ns, e.ro ro, e.wf wf⟩
  | used i => exact ⟨(MapOnly.refl _).orig, ns, ro, wf⟩
  | reloadUse b => exact ⟨(MapOnly.refl _).orig, ns, ro, wf⟩

theorem inv_step {s : Node × Nat} (op : Op) (h : Inv s.1) : Inv (step s op).1 := (step_orig_inv op h).2

theorem inv_run (ops : List Op) : ∀ s : Node × Nat, Inv s.1 → Inv (run s ops).1 := by
  induction ops with
  | nil => intro s h; exact h
  | cons op ops ih => intro s h; exact ih _ (inv_step op h)

theorem inv_init (my : List Addr) (am : Bool) : Inv (init my am) :=
  ⟨fun h hh => by simp [init] at hh, fun p hp => by simp [init] at hp,
   fun a ha => by simp [init] at ha, fun a ha => by simp [init] at ha,
   fun a ha => by simp [init] at ha, fun a ha => by simp [init] at ha⟩

end Nebula.Lemmas.Relay
