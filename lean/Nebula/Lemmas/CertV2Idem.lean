/-
`certificateV2.validate` is idempotent: its output is a fixed point (sorting a sorted list changes nothing,
the element-wise rules are permutation invariant). Hence every decoded and every issued v2 certificate
satisfies `validateV2 c = .ok c`, the hypothesis of the round-trip theorems.
-/
import Nebula.Lemmas.CertSign

namespace Nebula.Lemmas.CertV2Idem
open Nebula.Net Nebula.Cert Nebula.Lemmas.CertSign

theorem prefixLe_iff (a b : Prefix) :
    prefixLe a b = true ↔
      a.addr.fam.bits < b.addr.fam.bits ∨ (a.addr.fam.bits = b.addr.fam.bits ∧
        (a.addr.val < b.addr.val ∨ (a.addr.val = b.addr.val ∧ a.len ≤ b.len))) := by
  unfold prefixLe
  by_cases h1 : a.addr.fam.bits = b.addr.fam.bits
  · by_cases h2 : a.addr.val = b.addr.val
    · simp [h1, h2]
    · simp [h1, h2] <;> omega
  · simp [h1] <;> omega

theorem prefixLe_total (a b : Prefix) : prefixLe a b = true ∨ prefixLe b a = true := by
  rw [prefixLe_iff, prefixLe_iff]; omega

theorem prefixLe_trans (a b c : Prefix) (h1 : prefixLe a b = true) (h2 : prefixLe b c = true) : prefixLe a c = true := by
  rw [prefixLe_iff] at *; omega

def Sorted (l : List Prefix) : Prop := List.Pairwise (fun a b => prefixLe a b = true) l

theorem insert_sorted (a : Prefix) (l : List Prefix) (h : Sorted l) : Sorted (insertPrefix a l) := by
  induction l with
  | nil => simp [insertPrefix, Sorted]
  | cons b rest ih =>
    unfold Sorted at h ih ⊢
    rw [List.pairwise_cons] at h
    unfold insertPrefix
    by_cases c : prefixLe a b = true
    · rw [if_pos c]
      rw [List.pairwise_cons]
      refine ⟨?_, List.pairwise_cons.mpr h⟩
      intro x hx
      rcases List.mem_cons.mp hx with rfl | hx
      · exact c
      · exact prefixLe_trans a b x c (h.1 x hx)
    · rw [if_neg c]
      rw [List.pairwise_cons]
      refine ⟨?_, ih h.2⟩
      intro x hx
      rcases (mem_insertPrefix a x rest).mp hx with rfl | hx
      · rcases prefixLe_total x b with h' | h'
        · exact absurd h' c
        · exact h'
      · exact h.1 x hx

theorem sort_sorted (l : List Prefix) : Sorted (sortPrefixes l) := by
  induction l with
  | nil => simp [sortPrefixes, Sorted]
  | cons a rest ih => unfold sortPrefixes; exact insert_sorted a _ ih

theorem sort_of_sorted (l : List Prefix) (h : Sorted l) : sortPrefixes l = l := by
  induction l with
  | nil => rfl
  | cons a rest ih =>
    unfold Sorted at h
    rw [List.pairwise_cons] at h
    unfold sortPrefixes
    rw [ih h.2]
    cases rest with
    | nil => rfl
    | cons b r =>
      unfold insertPrefix
      rw [if_pos (h.1 b (by simp))]

theorem sort_idem (l : List Prefix) : sortPrefixes (sortPrefixes l) = sortPrefixes l :=
  sort_of_sorted _ (sort_sorted l)

theorem insert_length (a : Prefix) (l : List Prefix) : (insertPrefix a l).length = l.length + 1 := by
  induction l with
  | nil => rfl
  | cons b rest ih => unfold insertPrefix; split <;> simp [ih]

theorem sort_length (l : List Prefix) : (sortPrefixes l).length = l.length := by
  induction l with
  | nil => rfl
  | cons a rest ih => unfold sortPrefixes; rw [insert_length, ih]; rfl

theorem v2Networks_none_iff (l : List Prefix) :
    v2Networks l = none ↔ ∀ n ∈ l, pfxValid n = true ∧ isUnspecified n.addr = false ∧ n.addr.is4in6 = false := by
  induction l with
  | nil => simp [v2Networks]
  | cons n rest ih =>
    unfold v2Networks
    cases h1 : pfxValid n <;> cases h2 : isUnspecified n.addr <;> cases h3 : n.addr.is4in6 <;> simp [ih, h1, h2, h3]

theorem v2Unsafe_none_iff (isCA hv4 hv6 : Bool) (l : List Prefix) :
    v2Unsafe isCA hv4 hv6 l = none ↔ ∀ n ∈ l, pfxValid n = true ∧ (!isCA && n.addr.is6 && !hv6) = false ∧
      (!isCA && n.addr.is4 && !hv4) = false := by
  induction l with
  | nil => simp [v2Unsafe]
  | cons n rest ih =>
    rw [List.forall_mem_cons, ← ih, v2Unsafe]
    cases h1 : pfxValid n
    · simp
    · cases h2 : (!isCA && n.addr.is6 && !hv6)
      · cases h3 : (!isCA && n.addr.is4 && !hv4)
        · simp only [Bool.not_true, Bool.false_eq_true, if_false, true_and]
        · simp only [Bool.not_true, Bool.false_eq_true, if_false, if_true, reduceCtorEq, false_iff]
          intro hh; exact absurd hh.1.2.2 (by simp)
      · simp only [Bool.not_true, Bool.false_eq_true, if_false, if_true, reduceCtorEq, false_iff]
        intro hh; exact absurd hh.1.2.1 (by simp)

theorem any_sort (l : List Prefix) (f : Prefix → Bool) : (sortPrefixes l).any f = l.any f := by
  rw [Bool.eq_iff_iff]
  simp only [List.any_eq_true]
  constructor
  · rintro ⟨x, hx, hf⟩; exact ⟨x, (mem_sortPrefixes l x).mp hx, hf⟩
  · rintro ⟨x, hx, hf⟩; exact ⟨x, (mem_sortPrefixes l x).mpr hx, hf⟩

/-- **`validate` is idempotent.** -/
theorem validateV2_idem (x c : Cert) (h : validateV2 x = .ok c) : validateV2 c = .ok c := by
  unfold validateV2 at h
  simp only at h
  repeat' split at h
  all_goals try (cases h; done)
  simp only [Except.ok.injEq] at h
  subst h
  rename_i h1 h2 h3 h4 _ hn hd1 _ hu hd2
  unfold validateV2
  simp only
  have e1 : v2Networks (sortPrefixes x.networks) = none := by
    rw [v2Networks_none_iff] at hn ⊢
    intro n hm; exact hn n ((mem_sortPrefixes _ n).mp hm)
  have e2 : v2Unsafe x.isCA ((sortPrefixes x.networks).any (·.addr.is4)) ((sortPrefixes x.networks).any (·.addr.is6))
      (sortPrefixes x.unsafeNetworks) = none := by
    rw [any_sort, any_sort]
    rw [v2Unsafe_none_iff] at hu ⊢
    intro n hm; exact hu n ((mem_sortPrefixes _ n).mp hm)
  simp only [h1, h2, h3, sort_length, h4, e1, e2, sort_idem, hd1, hd2, if_false, Bool.false_eq_true]

end Nebula.Lemmas.CertV2Idem
