/-
Helper lemmas for C01: exact success conditions of `verify` (full and cached paths),
`VerifyCertificate`, `VerifyCachedCertificate`, and the `AddCA` map update.
-/
import Nebula.Lemmas.Trust

namespace Nebula.Lemmas.CAPool
open Nebula.Net Nebula.Cert Nebula.Spec.Trust Nebula.Lemmas.Trust

/-- Full (non-cached) `verify` succeeds exactly under the conjunction of its guards. -/
theorem verify_full_ok_iff (K : Crypto) (p : Pool) (c : Cert) (t : Int) (fp : String) (s : String) :
    p.verify K c t fp "" = .ok s ↔
      fp ∉ p.block ∧ c.issuer ≠ "" ∧ s = c.issuer ∧ ∃ ca, p.cas.lookup c.issuer = some ca ∧ ca.curve = c.curve ∧
        ca.expired t = false ∧ c.expired t = false ∧ K.checkSig c ca.publicKey = true ∧ checkCA ca c = none := by
  unfold Pool.verify Pool.isBlocklisted
  by_cases hb : fp ∈ p.block
  · simp [hb]
  · have hb' : p.block.contains fp = false := by simpa using hb
    simp only [hb', Bool.false_eq_true, if_false]
    by_cases hi : c.issuer = ""
    · simp [hi]
    · simp only [hi, if_false]
      cases hl : p.cas.lookup c.issuer with
      | none => simp
      | some ca =>
        simp only [Option.some.injEq, exists_eq_left']
        by_cases hc : ca.curve = c.curve
        · simp only [hc, ne_eq, not_true_eq_false, if_false]
          cases he1 : ca.expired t
          · cases he2 : c.expired t
            · simp only [Bool.false_eq_true, if_false]
              cases hs : K.checkSig c ca.publicKey
              · simp [hb]
              · cases hk : checkCA ca c
                · simp [hb, hi, eq_comm]
                · simp [hb]
            · simp [hb]
          · simp [hb]
        · simp [hc, hb]

/-- Cached `verify` (non-empty `signerFp`): signature and constraints are *not* re-checked; the signer
fingerprint recorded at acceptance must be the key the CA is found under now. -/
theorem verify_cached_ok_iff (K : Crypto) (p : Pool) (c : Cert) (t : Int) (fp sfp : String) (hs : sfp ≠ "")
    (s : String) :
    p.verify K c t fp sfp = .ok s ↔
      fp ∉ p.block ∧ c.issuer ≠ "" ∧ s = c.issuer ∧ sfp = c.issuer ∧
        ∃ ca, p.cas.lookup c.issuer = some ca ∧ ca.curve = c.curve ∧
        ca.expired t = false ∧ c.expired t = false := by
  unfold Pool.verify Pool.isBlocklisted
  by_cases hb : fp ∈ p.block
  · simp [hb]
  · have hb' : p.block.contains fp = false := by simpa using hb
    simp only [hb', Bool.false_eq_true, if_false]
    by_cases hi : c.issuer = ""
    · simp [hi]
    · simp only [hi, if_false]
      cases hl : p.cas.lookup c.issuer with
      | none => simp
      | some ca =>
        simp only [Option.some.injEq, exists_eq_left']
        by_cases hc : ca.curve = c.curve
        · simp only [hc, ne_eq, not_true_eq_false, if_false]
          cases he1 : ca.expired t
          · cases he2 : c.expired t
            · simp only [Bool.false_eq_true, if_false, hs, not_false_eq_true, if_true]
              by_cases hq : sfp = c.issuer
              · simp [hq, hb, hi, eq_comm]
              · simp [hq, hb]
            · simp [hb]
          · simp [hb]
        · simp [hc, hb]

/-- `VerifyCertificate` succeeds exactly when both fingerprints are available, `verify` succeeds and the
alternate fingerprint is not blocklisted; the cached record is determined. -/
theorem verifyCertificate_ok_iff (K : Crypto) (p : Pool) (t : Int) (c : Cert) (cc : Cached) :
    p.verifyCertificate K t c = .ok cc ↔
      ∃ fp fp2, K.fingerprint c = some fp ∧ K.altFingerprint c = some fp2 ∧
        p.verify K c t fp "" = .ok c.issuer ∧ (fp2 = "" ∨ fp2 ∉ p.block) ∧
        cc = { cert := c, fingerprint := fp, fingerprint2 := fp2, signerFingerprint := c.issuer } := by
  unfold Pool.verifyCertificate
  cases hf : K.fingerprint c with
  | none => simp
  | some fp =>
    simp only [Option.some.injEq, exists_eq_left']
    cases hv : p.verify K c t fp "" with
    | error e => simp [hv]
    | ok s =>
      have hs : s = c.issuer := ((verify_full_ok_iff K p c t fp s).mp hv).2.2.1
      subst hs
      cases ha : K.altFingerprint c with
      | none => simp
      | some fp2 =>
        simp only [Option.some.injEq, exists_eq_left', Pool.isBlocklisted, true_and, hv]
        by_cases h2 : fp2 = ""
        · simp [h2, hv]; exact eq_comm
        · by_cases hb : fp2 ∈ p.block
          · simp [h2, hb]
          · simp [h2, hb, hv]; exact eq_comm

/-- `VerifyCertificate` returns a cached certificate iff the trust rule holds (restated as C01 `accept_iff`). -/
theorem accept_iff (K : Crypto) (p : Pool) (t : Int) (c : Cert) :
    (∃ cc, p.verifyCertificate K t c = .ok cc) ↔ trusted K p t c := by
  unfold trusted notBlocked
  constructor
  · rintro ⟨cc, h⟩
    obtain ⟨fp, fp2, hf, ha, hv, hb2, -⟩ := (verifyCertificate_ok_iff K p t c cc).mp h
    obtain ⟨hb, hi, -, ca, hl, hc, he1, he2, hs, hk⟩ := (verify_full_ok_iff K p c t fp c.issuer).mp hv
    exact ⟨⟨fp, hf, hb, fp2, ha, hb2⟩, hi, ca, hl, hc, (expired_false_iff ca t).mp he1,
      (expired_false_iff c t).mp he2, hs, (checkCA_none_iff ca c).mp hk⟩
  · rintro ⟨⟨fp, hf, hb, fp2, ha, hb2⟩, hi, ca, hl, hc, hv1, hv2, hs, hw⟩
    refine ⟨_, (verifyCertificate_ok_iff K p t c _).mpr ⟨fp, fp2, hf, ha, ?_, hb2, rfl⟩⟩
    exact (verify_full_ok_iff K p c t fp c.issuer).mpr ⟨hb, hi, rfl, ca, hl, hc,
      (expired_false_iff ca t).mpr hv1, (expired_false_iff c t).mpr hv2, hs, (checkCA_none_iff ca c).mpr hw⟩

theorem lookup_mapSet_self (k : String) (v : Cert) (m : List (String × Cert)) :
    (mapSet k v m).lookup k = some v := by
  simp [mapSet, List.lookup]

theorem lookup_filter_ne (k k' : String) (h : k' ≠ k) (m : List (String × Cert)) :
    (m.filter (fun e => e.1 != k)).lookup k' = m.lookup k' := by
  induction m with
  | nil => rfl
  | cons e rest ih =>
    obtain ⟨a, b⟩ := e
    by_cases ha : a = k
    · subst ha
      have : (k' == a) = false := by simpa using h
      simp [List.filter, List.lookup, this, ih]
    · have h1 : (a != k) = true := by simpa using ha
      simp only [List.filter, h1, List.lookup]
      cases hk : k' == a <;> simp [ih]

theorem lookup_mapSet_other (k k' : String) (h : k' ≠ k) (v : Cert) (m : List (String × Cert)) :
    (mapSet k v m).lookup k' = m.lookup k' := by
  have : (k' == k) = false := by simpa using h
  simp [mapSet, List.lookup, this, lookup_filter_ne k k' h]

/-! Concrete data for the non-vacuity examples of `Props/C01.lean` / `Props/C04.lean`. -/

def exK : Crypto where
  fingerprint c := some (if c.isCA then "ca01" else "1eaf")
  altFingerprint c := some (if c.curve = 1 then "a1f0" else "")
  checkSig _ key := key == [7]

def exCA : Cert :=
  { version := 2, curve := 1, name := [99], networks := [⟨⟨.v4, 0x0a000000⟩, 8⟩],
    unsafeNetworks := [], groups := [[1], [2]], isCA := true, notBefore := 100000000000, notAfter := 900000000000, issuer := "",
    publicKey := [7], signature := [1] }

def exLeaf : Cert :=
  { version := 2, curve := 1, name := [104], networks := [⟨⟨.v4, 0x0a000001⟩, 24⟩],
    unsafeNetworks := [⟨⟨.v4, 0xc0a80000⟩, 16⟩], groups := [[2]], isCA := false, notBefore := 100000000000,
    notAfter := 900000000000, issuer := "ca01", publicKey := [8], signature := [2] }

def exPool : Pool := (({} : Pool).addCA exK 0 exCA).1

end Nebula.Lemmas.CAPool
