/-
C39 helper lemmas: `handleControl` (request / response handlers) only extends the node state (`Ext`).
-/
import Nebula.Lemmas.RelayInv

namespace Nebula.Lemmas.Relay
open Nebula.Relay Nebula.Gen Nebula.Spec.Relay

theorem respondTerminal_fst (m : Node) (c hid : Nat) (v1 : Bool) (f t : Addr) :
    (respondTerminal m c hid v1 f t).1 = m := by
  unfold respondTerminal
  split
  · rfl
  · split <;> rfl

theorem terminal_ne_forwarding : nebula_TerminalType ≠ nebula_ForwardingType := by decide

theorem ext_request (n : Node) (c hid : Nat) (v1 : Bool) (frm target : Addr) (initIdx : Nat) :
    Ext n.amRelay n (handleCreateRelayRequest n c hid v1 frm target initIdx).1 := by
  unfold handleCreateRelayRequest
  split
  · exact Ext.refl _ _
  · split
    · exact Ext.refl _ _
    · rename_i hfrm
      split
      · -- target is me
        split
        · split
          · rw [respondTerminal_fst]; exact ext_modHost_map _ _ (keyPres_completeIp _ _) (Ext.refl _ _)
          · split
            · split
              · exact Ext.refl _ _
              · rw [respondTerminal_fst]; exact Ext.refl _ _
            · split
              · split
                · exact Ext.refl _ _
                · rw [respondTerminal_fst]; exact ext_modHost_map _ _ (keyPres_setState _ _) (Ext.refl _ _)
              · rw [respondTerminal_fst]; exact Ext.refl _ _
        · split
          · exact Ext.refl _ _
          · rename_i n1 _ c' hadd
            rw [respondTerminal_fst]
            exact ext_addRelay hadd (Or.inl terminal_ne_forwarding) (Ext.refl _ _)
      · -- forwarding
        rename_i htgt
        split
        · exact Ext.refl _ _
        · rename_i ham
          have ham' : n.amRelay = true := by simpa using ham
          have nfrm : n.myAddrs.contains frm = false := by simpa using hfrm
          have ntgt : n.myAddrs.contains target = false := by simpa using htgt
          split
          · exact ext_pending _ (Ext.refl _ _)
          · rename_i peer _
            split
            · exact Ext.refl _ _
            · split
              · exact Ext.refl _ _
              · rename_i n1 index c' hstep
                have e1 : Ext n.amRelay n n1 := by
                  unfold fwdIndex at hstep
                  split at hstep
                  · simp only [Prod.mk.injEq, Option.some.injEq] at hstep
                    rw [← hstep.1.1]; exact Ext.refl _ _
                  · exact ext_addRelay hstep (Or.inr ⟨ham', nfrm⟩) (Ext.refl _ _)
                have e2 : Ext n.amRelay n (n1.modHost peer.id (·.mapRecs (setStateF frm nebula_Requested))) :=
                  ext_modHost_map _ _ (keyPres_setState _ _) e1
                unfold fwdSend
                split
                · exact e2
                · unfold fwdTrack
                  split
                  · exact e2
                  · split
                    · exact e2
                    · split
                      · exact e2
                      · rename_i n3 _ c'' hadd
                        exact ext_addRelay hadd (Or.inr ⟨ham', ntgt⟩) e2

theorem ext_response (n : Node) (c hid : Nat) (v1 : Bool) (relayTo : Addr) (initIdx respIdx : Nat) :
    Ext n.amRelay n (handleCreateRelayResponse n c hid v1 relayTo initIdx respIdx).1 := by
  unfold handleCreateRelayResponse
  have e1 : Ext n.amRelay n (n.modHost hid (·.mapRecs (completeIdxF initIdx respIdx))) :=
    ext_modHost_map _ _ (keyPres_completeIdx _ _) (Ext.refl _ _)
  split
  · exact Ext.refl _ _
  · split
    · exact Ext.refl _ _
    · split
      · exact e1
      · unfold respMiddle
        split
        · exact e1
        · split
          · exact e1
          · split
            · exact e1
            · split
              · rename_i ph _ _ _ _ _ _
                have e2 := ext_modHost_map (am := n.amRelay) (n := n) ph.id _ (keyPres_setState relayTo nebula_Established) e1
                split
                · exact e2
                · exact e2
              · exact e1

theorem ext_handleControl (n : Node) (c hid : Nat) (m : Ctl) :
    Ext n.amRelay n (handleControl n c hid m).1 := by
  unfold handleControl
  split
  rename_i v1 frm to _
  split
  · split
    · split
      · exact ext_request _ _ _ _ _ _ _
      · exact ext_response _ _ _ _ _ _ _
    · exact Ext.refl _ _
  · exact Ext.refl _ _

end Nebula.Lemmas.Relay
