/-
C39 helper lemmas: `handleControl` (request / response handlers) only extends the node state (`Ext`).
-/
import Nebula.Lemmas.RelayInv

namespace Nebula.Lemmas.Relay
open Nebula.Relay Nebula.Gen Nebula.Spec.Relay

theorem respondTerminal_fst (m : Node) (c hid : Nat) (v1 : Bool) (f t : Addr) :
    (respondTerminal m c hid v1 f t).1 = m := by
  unfold respondTerminal
  split
  · rfl
  · split <;> rfl

theorem terminal_ne_forwarding : nebula_TerminalType ≠ nebula_ForwardingType := by decide

theorem ext_request (n : Node) (c hid : Nat) (v1 : Bool) (frm target : Addr) (initIdx : Nat) :
    Ext n.amRelay n (handleCreateRelayRequest n c hid v1 frm target initIdx).1 := by
  unfold handleCreateRelayRequest
  split
  · exact Ext.refl _ _
  · split
    · exact Ext.refl _ _
    · rename_i hfrm
      split
      · -- target is me
        split
        · split
          · rw [respondTerminal_fst]; exact ext_modHost_map _ _ (keyPres_completeIp _ _) (stOK_completeIp _ _) (Ext.refl _ _)
          · split
            · split
              · exact Ext.refl _ _
              · rw [respondTerminal_fst]; exact Ext.refl _ _
            · split
              · split
                · exact Ext.refl _ _
                · rw [respondTerminal_fst]; exact ext_modHost_map _ _ (keyPres_setState _ _) (stOK_setState _ _ (by decide) (by decide)) (Ext.refl _ _)
              · rw [respondTerminal_fst]; exact Ext.refl _ _
        · split
          · exact Ext.refl _ _
          · rename_i n1 _ c' hadd
            rw [respondTerminal_fst]
            exact ext_addRelay hadd (Or.inl terminal_ne_forwarding) (by decide) (Ext.refl _ _)
      · -- forwarding
        rename_i htgt
        split
        · exact Ext.refl _ _
        · rename_i ham
          have ham' : n.amRelay = true := by simpa using ham
          have nfrm : n.myAddrs.contains frm = false := by simpa using hfrm
          have ntgt : n.myAddrs.contains target = false := by simpa using htgt
          split
          · exact ext_pending _ (Ext.refl _ _)
          · rename_i peer _
            split
            · exact Ext.refl _ _
            · split
              · exact Ext.refl _ _
              · rename_i n1 index c' hstep
                have e1 : Ext n.amRelay n n1 := by
                  unfold fwdIndex at hstep
                  split at hstep
                  · simp only [Prod.mk.injEq, Option.some.injEq] at hstep
                    rw [← hstep.1.1]; exact Ext.refl _ _
                  · exact ext_addRelay hstep (Or.inr ⟨ham', nfrm⟩) (by decide) (Ext.refl _ _)
                have e2 : Ext n.amRelay n (n1.modHost peer.id (·.mapRecs (setStateF frm nebula_Requested))) :=
                  ext_modHost_map _ _ (keyPres_setState _ _) (stOK_setState _ _ (by decide) (by decide)) e1
                unfold fwdSend
                split
                · exact e2
                · unfold fwdTrack
                  split
                  · exact e2
                  · split
                    · exact e2
                    · split
                      · exact e2
                      · rename_i n3 _ c'' hadd
                        exact ext_addRelay hadd (Or.inr ⟨ham', ntgt⟩) (by decide) e2

theorem ext_response (n : Node) (c hid : Nat) (v1 : Bool) (relayTo : Addr) (initIdx respIdx : Nat) :
    Ext n.amRelay n (handleCreateRelayResponse n c hid v1 relayTo initIdx respIdx).1 := by
  unfold handleCreateRelayResponse
  have e1 : Ext n.amRelay n (n.modHost hid (·.mapRecs (completeIdxF initIdx respIdx))) :=
    ext_modHost_map _ _ (keyPres_completeIdx _ _) (stOK_completeIdx _ _) (Ext.refl _ _)
  split
  · exact Ext.refl _ _
  · split
    · exact Ext.refl _ _
    · split
      · exact e1
      · unfold respMiddle
        split
        · exact e1
        · split
          · exact e1
          · split
            · exact e1
            · split
              · rename_i ph _ _ _ _ _ _
                have e2 := ext_modHost_map (am := n.amRelay) (n := n) ph.id _ (keyPres_setState relayTo nebula_Established) (stOK_setState _ _ (by decide) (by decide)) e1
                split
                · exact e2
                · exact e2
              · exact e1

theorem ext_handleControl (n : Node) (c hid : Nat) (m : Ctl) :
    Ext n.amRelay n (handleControl n c hid m).1 := by
  unfold handleControl
  split
  rename_i v1 frm to _
  split
  · split
    · split
      · exact ext_request _ _ _ _ _ _ _
      · exact ext_response _ _ _ _ _ _ _
    · exact Ext.refl _ _
  · exact Ext.refl _ _


-- ---- initiator side (StartRelays) and relay migration (migrateRelayUsed)

theorem sendRelayRequest_fst (m : Node) (c hid : Nat) (v1 : Bool) (idx : Nat) (vpnIp : Addr) :
    (sendRelayRequest m c hid v1 idx vpnIp).1 = m := by
  unfold sendRelayRequest; split <;> rfl

theorem ext_startRelayOne {am : Bool} {n m : Node} (c : Nat) (vpnIp : Addr) (v1 : Bool) (relay : Addr)
    (e : Ext am n m) : Ext am n (startRelayOne m c vpnIp v1 relay).1 := by
  unfold startRelayOne
  split
  · exact e
  · split
    · exact e
    · split
      · exact ext_pending _ e
      · split
        · exact e
        · split
          · split
            · exact e
            · rename_i n1 idx c' hadd
              rw [sendRelayRequest_fst]
              exact ext_addRelay hadd (Or.inl terminal_ne_forwarding) (by decide) e
          · split
            · exact ext_relayUsed _ e
            · split
              · rw [sendRelayRequest_fst]
                exact ext_modHost_map _ _ (keyPres_setState _ _) (stOK_setState _ _ (by decide) (by decide)) e
              · split
                · rw [sendRelayRequest_fst]; exact e
                · exact e

theorem ext_startRelaysLoop {am : Bool} {n : Node} (vpnIp : Addr) (v1 : Bool) :
    ∀ (rs : List Addr) (m : Node) (c : Nat) (acc : List Out), Ext am n m →
      Ext am n (startRelaysLoop vpnIp v1 rs m c acc).1 := by
  intro rs
  induction rs with
  | nil => intro m c acc e; exact e
  | cons r rs ih =>
    intro m c acc e
    unfold startRelaysLoop
    have e1 := ext_startRelayOne (am := am) (n := n) c vpnIp v1 r e
    generalize startRelayOne m c vpnIp v1 r = res at e1
    obtain ⟨n1, c1, o⟩ := res
    exact ih n1 c1 (acc ++ o) e1

theorem ext_startRelays (n : Node) (c : Nat) (vpnIp : Addr) (v1 : Bool) (relays : List Addr) :
    Ext n.amRelay n (startRelays n c vpnIp v1 relays).1 := by
  unfold startRelays
  split
  · exact Ext.refl _ _
  · exact ext_startRelaysLoop vpnIp v1 relays n c [] (Ext.refl _ _)

theorem migrateSend_fst (m : Node) (c newId : Nat) (v1 : Bool) (ty idx : Nat) (peer new0 : Addr) :
    (migrateSend m c newId v1 ty idx peer new0).1 = m := by
  unfold migrateSend; split <;> split <;> rfl

theorem ext_migrateOne {n m : Node} (c newId : Nat) (v1 : Bool) (r : Relay)
    (hns : r.type = nebula_ForwardingType → n.myAddrs.contains r.peerAddr = false) (hsv : r.type = nebula_ForwardingType ∨ r.type ≠ nebula_ForwardingType)
    (e : Ext n.amRelay n m) : Ext n.amRelay n (migrateOne m c newId v1 r).1 := by
  unfold migrateOne
  split
  · exact e
  · rename_i hgate
    split
    · exact e
    · split
      · split
        · rw [migrateSend_fst]; exact e
        · exact e
      · split
        · exact e
        · split
          · exact e
          · rename_i n1 idx c' hadd
            rw [migrateSend_fst]
            refine ext_addRelay hadd ?_ (by decide) e
            rcases hsv with hty | hty
            · right
              have ham : m.amRelay = true := by
                cases hc : m.amRelay
                · simp [hty, hc] at hgate
                · rfl
              exact ⟨by rw [← e.amr]; exact ham, hns hty⟩
            · exact Or.inl hty

theorem ext_migrateLoop {n : Node} (newId : Nat) (v1 : Bool) :
    ∀ (rs : List Relay), (∀ r ∈ rs, r.type = nebula_ForwardingType → n.myAddrs.contains r.peerAddr = false) →
      ∀ (m : Node) (c : Nat) (acc : List Out), Ext n.amRelay n m →
        Ext n.amRelay n (migrateLoop newId v1 rs m c acc).1 := by
  intro rs
  induction rs with
  | nil => intro _ m c acc e; exact e
  | cons r rs ih =>
    intro hns m c acc e
    unfold migrateLoop
    have e1 := ext_migrateOne (n := n) c newId v1 r (hns r List.mem_cons_self) (Decidable.em _) e
    generalize migrateOne m c newId v1 r = res at e1
    obtain ⟨n1, c1, o⟩ := res
    exact ih (fun x hx => hns x (List.mem_cons_of_mem _ hx)) n1 c1 (acc ++ o) e1

/-- `migrateRelayUsed` (fixed code) only extends the state, provided no Forwarding record of the old
hostinfo points at the node itself (invariant `NS`). -/
theorem ext_migrate (n : Node) (c oldId newId : Nat) (v1 : Bool) (hns : NS n) :
    Ext n.amRelay n (migrateRelayUsed n c oldId newId v1).1 := by
  unfold migrateRelayUsed
  split
  · exact Ext.refl _ _
  · rename_i oh hfind
    have hf := findHost_some hfind
    exact ext_migrateLoop newId v1 oh.recs (fun r hr hty => hns oh hf.1 r hr hty) n c [] (Ext.refl _ _)

end Nebula.Lemmas.Relay
