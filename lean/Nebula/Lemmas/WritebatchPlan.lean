import Nebula.Model.Writebatch

namespace Nebula.Lemmas.Writebatch
open Nebula.Writebatch

variable {δ : Type} [DecidableEq δ]

/-- members of a run after its first packet -/
def RunTail (seg : Nat) (dst : δ) (l : List (Pkt δ)) : Prop :=
  (∀ p ∈ l, p.dst = dst ∧ 0 < p.len ∧ p.len ≤ seg) ∧ (∀ p ∈ l.dropLast, p.len = seg)

theorem planLoop_spec (seg : Nat) (dst : δ) (maxLen : Int) (rest : List (Pkt δ)) (runLen total : Nat) :
    let r := planLoop seg dst maxLen rest runLen total
    runLen ≤ r ∧ r - runLen ≤ rest.length ∧ (r = runLen ∨ (r : Int) ≤ maxLen) ∧
    RunTail seg dst (rest.take (r - runLen)) ∧
    (sumLen (rest.take (r - runLen)) = 0 ∨ total + sumLen (rest.take (r - runLen)) ≤ maxGSOBytes) ∧
    -- a run that was extended and whose last taken packet is short ends there: nothing to state;
    -- all taken packets except the last have the full size (part of RunTail)
    True := by
  induction rest generalizing runLen total with
  | nil => simp [planLoop, RunTail, sumLen]
  | cons p rest ih =>
    unfold planLoop
    by_cases h1 : (runLen : Int) < maxLen
    · simp only [h1, if_true]
      by_cases h2 : p.len = 0 ∨ p.len > seg
      · simp [h2, RunTail, sumLen]
      · simp only [h2, if_false]
        by_cases h3 : p.dst ≠ dst
        · simp [h3, RunTail, sumLen]
        · simp only [h3, if_false]
          by_cases h4 : total + p.len > maxGSOBytes
          · simp [h4, RunTail, sumLen]
          · simp only [h4, if_false]
            have hd : p.dst = dst := by simpa using h3
            have hl : 0 < p.len ∧ p.len ≤ seg := by omega
            by_cases h5 : p.len < seg
            · simp only [h5, if_true]
              have e1 : runLen + 1 - runLen = 1 := by omega
              refine ⟨by omega, by simp, Or.inr (by omega), ?_, ?_, trivial⟩
              · rw [e1]; simp [RunTail, hd, hl.1, hl.2]
              · rw [e1]; right; simp [sumLen]; omega
            · simp only [h5, if_false]
              have hs : p.len = seg := by omega
              have ih' := ih (runLen + 1) (total + p.len)
              simp only at ih'
              obtain ⟨a1, a2, a3, a4, a5, _⟩ := ih'
              generalize hr : planLoop seg dst maxLen rest (runLen + 1) (total + p.len) = r at *
              have e1 : r - runLen = (r - (runLen + 1)) + 1 := by omega
              refine ⟨by omega, by simp; omega, ?_, ?_, ?_, trivial⟩
              · rcases a3 with a3 | a3
                · right; omega
                · right; exact a3
              · rw [e1, List.take_succ_cons]
                refine ⟨?_, ?_⟩
                · intro q hq
                  rcases List.mem_cons.mp hq with rfl | hq
                  · exact ⟨hd, hl⟩
                  · exact a4.1 q hq
                · intro q hq
                  cases ht : rest.take (r - (runLen + 1)) with
                  | nil => rw [ht] at hq; simp at hq
                  | cons x xs =>
                    rw [ht, List.dropLast_cons_cons] at hq
                    rcases List.mem_cons.mp hq with rfl | hq
                    · exact hs
                    · apply a4.2; rw [ht]; exact hq
              · rw [e1, List.take_succ_cons]
                right
                have : sumLen (p :: rest.take (r - (runLen + 1))) = p.len + sumLen (rest.take (r - (runLen + 1))) := by
                  simp [sumLen]
                rw [this]
                rcases a5 with a5 | a5 <;> omega
    · simp [h1, RunTail, sumLen]

theorem planRun_spec (gso : Bool) (maxSeg : Int) (pk : List (Pkt δ)) (start : Nat) (budget : Int)
    (hs : start < pk.length) (hb : 1 ≤ budget) :
    let pr := planRun gso maxSeg pk start budget
    RunShape maxSeg pk { start := start, cnt := pr.1, seg := pr.2 } ∧ (pr.1 : Int) ≤ budget ∧
    (gso = false → pr.1 = 1) := by
  intro pr
  have hdrop : pk.drop start = pk[start] :: pk.drop (start + 1) := List.drop_eq_getElem_cons hs
  have hget : pk[start]? = some pk[start] := List.getElem?_eq_getElem hs
  have hpr : pr = planRun gso maxSeg pk start budget := rfl
  unfold planRun at hpr
  rw [hdrop] at hpr
  simp only at hpr
  have hb' : ¬ budget < 1 := by omega
  simp only [hb', if_false] at hpr
  by_cases h1 : gso = false ∨ pk[start].len = 0 ∨ pk[start].len > maxGSOBytes
  · simp only [h1, if_true] at hpr
    rw [hpr]
    refine ⟨⟨by simp, by simp; omega, ?_, ?_⟩, by simp; omega, fun _ => rfl⟩
    · intro p hp; rw [hget] at hp; cases hp; rfl
    · simp
  · simp only [h1, if_false] at hpr
    have hg : gso = true := by
      cases gso <;> simp_all
    have hlen : 0 < pk[start].len ∧ pk[start].len ≤ maxGSOBytes := by omega
    have sp := planLoop_spec pk[start].len pk[start].dst (if budget < maxSeg then budget else maxSeg)
      (pk.drop (start + 1)) 1 pk[start].len
    simp only at sp
    generalize hr : planLoop pk[start].len pk[start].dst (if budget < maxSeg then budget else maxSeg)
      (pk.drop (start + 1)) 1 pk[start].len = r at *
    obtain ⟨a1, a2, a3, a4, a5, _⟩ := sp
    rw [hpr]
    simp only [List.length_drop] at a2
    have hpk : Entry.pkts pk { start := start, cnt := r, seg := pk[start].len } =
        pk[start] :: (pk.drop (start + 1)).take (r - 1) := by
      simp only [Entry.pkts, hdrop]
      have : r = (r - 1) + 1 := by omega
      rw [this, List.take_succ_cons]; simp
    refine ⟨⟨by simp; omega, by simp; omega, ?_, ?_⟩, ?_, fun h => by simp [hg] at h⟩
    · intro p hp; rw [hget] at hp; cases hp; rfl
    · intro h2
      simp only at h2
      have hmax : (r : Int) ≤ (if budget < maxSeg then budget else maxSeg) := by
        rcases a3 with a3 | a3
        · omega
        · exact a3
      refine ⟨by simp only; split at hmax <;> omega, hlen.2, ?_, ?_, ?_⟩
      · rw [hpk]
        have : sumLen (pk[start] :: (pk.drop (start + 1)).take (r - 1)) =
            pk[start].len + sumLen ((pk.drop (start + 1)).take (r - 1)) := by simp [sumLen]
        rw [this]
        rcases a5 with a5 | a5 <;> omega
      · rw [hpk]
        intro p hp
        rcases List.mem_cons.mp hp with rfl | hp
        · refine ⟨fun q hq => by rw [hget] at hq; cases hq; rfl, hlen.1, Nat.le_refl _⟩
        · have := a4.1 p hp
          refine ⟨fun q hq => by rw [hget] at hq; cases hq; exact this.1, this.2.1, this.2.2⟩
      · rw [hpk]
        intro p hp
        cases ht : (pk.drop (start + 1)).take (r - 1) with
        | nil =>
          have : ((pk.drop (start + 1)).take (r - 1)).length = r - 1 := by
            rw [List.length_take, List.length_drop]; omega
          rw [ht] at this; simp at this; omega
        | cons x xs =>
          rw [ht, List.dropLast_cons_cons] at hp
          rcases List.mem_cons.mp hp with rfl | hp
          · rfl
          · apply a4.2; rw [ht]; exact hp
    · simp only
      rcases a3 with a3 | a3
      · omega
      · split at a3 <;> omega

def Before (e f : Entry) : Prop := e.start + e.cnt ≤ f.start

/-- what the packing loop guarantees about a committed entry -/
def GoodEntry (c : Cfg δ) (gso : Bool) (pk : List (Pkt δ)) (lo hi : Nat) (e : Entry) : Prop :=
  lo ≤ e.start ∧ e.start + e.cnt ≤ hi ∧ RunShape c.maxSeg pk e ∧
  (∀ p, pk[e.start]? = some p → c.routable p.dst = true) ∧ (gso = false → e.cnt = 1)

theorem pack_spec (c : Cfg δ) (gso : Bool) (pk : List (Pkt δ)) (i entry iovIdx : Nat) (ctl : Ctl) (hi : i ≤ pk.length) :
    let r := pack c gso pk i entry iovIdx ctl
    i ≤ r.next ∧ r.next ≤ pk.length ∧ (∀ e ∈ r.ents, GoodEntry c gso pk i r.next e) ∧ r.ents.Pairwise Before ∧
    r.ents.length + entry ≤ max c.n entry := by
  fun_induction pack c gso pk i entry iovIdx ctl with
  | case1 i entry iovIdx ctl h budget hb => simp; omega
  | case2 i entry iovIdx ctl h budget hb pr hr => simp; omega
  | case3 i entry iovIdx ctl h budget hb pr hr hroute r ih =>
    have hps := planRun_spec gso c.maxSeg pk i budget h.2 (by omega)
    simp only at hps
    rw [show planRun gso c.maxSeg pk i budget = pr from rfl] at hps
    obtain ⟨s1, s2, s3⟩ := hps
    have hle : i + pr.1 ≤ pk.length := s1.2.1
    have ih := ih hle
    rw [show pack c gso pk (i + pr.1) (entry + 1) (iovIdx + pr.1) (writeEntryCmsg ctl entry pr.1 pr.2) = r from rfl] at ih
    obtain ⟨b1, b2, b3, b4, b5⟩ := ih
    have hpos : 1 ≤ pr.1 := s1.1
    refine ⟨by simp only; omega, b2, ?_, ?_, ?_⟩
    · intro e he
      rcases List.mem_cons.mp he with rfl | he
      · refine ⟨Nat.le_refl _, by simp only; omega, s1, ?_, s3⟩
        intro p hp
        rw [List.getElem?_eq_getElem h.2] at hp; cases hp; exact hroute
      · obtain ⟨g1, g2, g3, g4, g5⟩ := b3 e he
        exact ⟨by omega, g2, g3, g4, g5⟩
    · refine List.pairwise_cons.mpr ⟨?_, b4⟩
      intro f hf
      have := (b3 f hf).1
      simp only [Before]; omega
    · simp only [List.length_cons]; omega
  | case4 i entry iovIdx ctl h budget hb pr hr hroute ih =>
    have hps := planRun_spec gso c.maxSeg pk i budget h.2 (by omega)
    simp only at hps
    rw [show planRun gso c.maxSeg pk i budget = pr from rfl] at hps
    obtain ⟨s1, s2, s3⟩ := hps
    have hle : i + pr.1 ≤ pk.length := s1.2.1
    obtain ⟨b1, b2, b3, b4, b5⟩ := ih hle
    refine ⟨by omega, b2, ?_, b4, b5⟩
    intro e he
    obtain ⟨g1, g2, g3, g4, g5⟩ := b3 e he
    exact ⟨by omega, g2, g3, g4, g5⟩
  | case5 i entry iovIdx ctl h => simp; omega

end Nebula.Lemmas.Writebatch
