/-
Lemmas about the DER reader of `Base/Der.lean`: an element is self-delimiting — the header depends only on
the first header bytes, reading is stable under appending more input, an element read from a string reads
back from itself, and two elements that are prefixes of the same string are equal.
-/
import Nebula.Base.Der

namespace Nebula.Lemmas.Der
open Nebula.Der

theorem take_append_le {α : Type} (a b : List α) (n : Nat) (h : n ≤ a.length) : (a ++ b).take n = a.take n := by
  rw [List.take_append]
  have : n - a.length = 0 := by omega
  simp [this]

theorem drop_append_le {α : Type} (a b : List α) (n : Nat) (h : n ≤ a.length) : (a ++ b).drop n = a.drop n ++ b := by
  rw [List.drop_append]
  have : n - a.length = 0 := by omega
  simp [this]

theorem longLen_bounds (n : Nat) (tl : Bytes) (v : Nat) (h : longLen n tl = some v) : 1 ≤ n ∧ n ≤ tl.length := by
  unfold longLen at h
  by_cases c : n = 0 ∨ n > 4 ∨ tl.length < n
  · simp [c] at h
  · omega

theorem longLen_congr (n : Nat) (tl tl' : Bytes) (hp : tl'.take n = tl.take n) (hl : n ≤ tl'.length) (hl0 : n ≤ tl.length) :
    longLen n tl' = longLen n tl := by
  unfold longLen
  rw [hp]
  by_cases c : n = 0 ∨ n > 4
  · have c1 : n = 0 ∨ n > 4 ∨ tl'.length < n := by omega
    have c2 : n = 0 ∨ n > 4 ∨ tl.length < n := by omega
    simp [c1, c2]
  · have c1 : ¬ (n = 0 ∨ n > 4 ∨ tl'.length < n) := by omega
    have c2 : ¬ (n = 0 ∨ n > 4 ∨ tl.length < n) := by omega
    simp [c1, c2]

/-- the header is at most the element, and at least two bytes. -/
theorem headerOf_bounds (s : Bytes) (tag : UInt8) (hdr len : Nat) (h : headerOf s = some (tag, hdr, len)) :
    2 ≤ hdr ∧ hdr ≤ len ∧ hdr ≤ s.length := by
  unfold headerOf at h
  split at h
  · rename_i tg lb tl
    by_cases c1 : tg &&& 0x1f = 0x1f
    · simp [c1] at h
    · by_cases c2 : lb &&& 0x80 = 0
      · simp only [c1, c2, if_false, if_true, Option.some.injEq, Prod.mk.injEq] at h
        obtain ⟨-, rfl, rfl⟩ := h
        simp only [List.length_cons]; omega
      · simp only [c1, c2, if_false] at h
        cases hl : longLen (lb &&& 0x7f).toNat tl with
        | none => rw [hl] at h; cases h
        | some v =>
          rw [hl] at h
          simp only [Option.some.injEq, Prod.mk.injEq] at h
          obtain ⟨-, rfl, rfl⟩ := h
          have := longLen_bounds _ _ _ hl
          simp only [List.length_cons]; omega
  · cases h

/-- The header is a function of the first `hdr` bytes: any string that agrees on them has the same header. -/
theorem headerOf_congr (s s' : Bytes) (tag : UInt8) (hdr len : Nat) (h : headerOf s = some (tag, hdr, len))
    (hp : s'.take hdr = s.take hdr) (hl : hdr ≤ s'.length) : headerOf s' = some (tag, hdr, len) := by
  obtain ⟨b1, b2, b3⟩ := headerOf_bounds s tag hdr len h
  match s, s', h, hp, hl, b3 with
  | [], _, h, _, _, _ => simp [headerOf] at h
  | [_], _, h, _, _, _ => simp [headerOf] at h
  | _ :: _ :: _, [], _, _, hl, _ => simp at hl; omega
  | _ :: _ :: _, [_], _, _, hl, _ => simp at hl; omega
  | tg :: lb :: tl, tg' :: lb' :: tl', h, hp, hl, b3 =>
    have hhd : tg' = tg ∧ lb' = lb := by
      have := congrArg (List.take 2) hp
      simp only [List.take_take, Nat.min_eq_left b1, List.take_succ_cons, List.take_zero] at this
      simp only [List.cons.injEq, and_true] at this
      exact this
    obtain ⟨rfl, rfl⟩ := hhd
    unfold headerOf at h ⊢
    by_cases c1 : tg' &&& 0x1f = 0x1f
    · simp [c1] at h
    · by_cases c2 : lb' &&& 0x80 = 0
      · simp only [c1, c2, if_false, if_true] at h ⊢
        exact h
      · simp only [c1, c2, if_false] at h ⊢
        cases hv : longLen (lb' &&& 0x7f).toNat tl with
        | none => rw [hv] at h; cases h
        | some v =>
          rw [hv] at h
          simp only [Option.some.injEq, Prod.mk.injEq] at h
          obtain ⟨rfl, rfl, rfl⟩ := h
          have hb := longLen_bounds _ _ _ hv
          have htl : tl'.take (lb' &&& 0x7f).toNat = tl.take (lb' &&& 0x7f).toNat := by
            have := congrArg (List.drop 2) hp
            simp only [List.drop_take, List.drop_succ_cons, List.drop_zero] at this
            have e : 2 + (lb' &&& 127).toNat - 2 = (lb' &&& 127).toNat := by omega
            rw [e] at this
            exact this
          have hl' : (lb' &&& 0x7f).toNat ≤ tl'.length := by
            simp only [List.length_cons] at hl; omega
          rw [longLen_congr _ tl tl' htl hl' hb.2, hv]

/-- Reading is stable under appending more input: same element, the extra bytes join the rest. -/
theorem readAny_append (s x : Bytes) (t : TLV) (h : readAny s = some t) :
    readAny (s ++ x) = some { t with rest := t.rest ++ x } := by
  unfold readAny at h ⊢
  cases hh : headerOf s with
  | none => rw [hh] at h; cases h
  | some r =>
    obtain ⟨tag, hdr, len⟩ := r
    rw [hh] at h
    simp only at h
    by_cases hlen : s.length < len
    · simp [hlen] at h
    · simp only [hlen, if_false, Option.some.injEq] at h
      subst h
      obtain ⟨b1, b2, b3⟩ := headerOf_bounds s tag hdr len hh
      have hh' : headerOf (s ++ x) = some (tag, hdr, len) :=
        headerOf_congr s (s ++ x) tag hdr len hh (take_append_le s x hdr b3) (by simp; omega)
      rw [hh']
      have : ¬ (s ++ x).length < len := by simp; omega
      simp only [this, if_false]
      rw [take_append_le s x len (by omega), drop_append_le s x len (by omega)]

/-- What was read is a prefix of the input. -/
theorem readAny_split (s : Bytes) (t : TLV) (h : readAny s = some t) : s = t.elem ++ t.rest := by
  unfold readAny at h
  cases hh : headerOf s with
  | none => rw [hh] at h; cases h
  | some r =>
    obtain ⟨tag, hdr, len⟩ := r
    rw [hh] at h
    simp only at h
    by_cases hlen : s.length < len
    · simp [hlen] at h
    · simp only [hlen, if_false, Option.some.injEq] at h
      subst h
      simp

/-- The element read from a string reads back from itself, with nothing left. -/
theorem readAny_elem (s : Bytes) (t : TLV) (h : readAny s = some t) :
    readAny t.elem = some { t with rest := [] } := by
  have hs := readAny_split s t h
  unfold readAny at h ⊢
  cases hh : headerOf s with
  | none => rw [hh] at h; cases h
  | some r =>
    obtain ⟨tag, hdr, len⟩ := r
    rw [hh] at h
    simp only at h
    by_cases hlen : s.length < len
    · simp [hlen] at h
    · simp only [hlen, if_false, Option.some.injEq] at h
      subst h
      obtain ⟨b1, b2, b3⟩ := headerOf_bounds s tag hdr len hh
      have hlen' : (s.take len).length = len := by simp; omega
      have hh' : headerOf (s.take len) = some (tag, hdr, len) :=
        headerOf_congr s (s.take len) tag hdr len hh (by simp [List.take_take, Nat.min_eq_left b2]) (by omega)
      simp only [hh']
      have : ¬ (s.take len).length < len := by omega
      simp only [this, if_false, Option.some.injEq, TLV.mk.injEq, true_and]
      refine ⟨?_, ?_⟩
      · rw [List.take_take, Nat.min_self]
      · rw [List.drop_eq_nil_iff]; omega

/-- **Self-delimiting**: if `e₁` and `e₂` are complete elements and `e₁ ++ x = e₂ ++ y`, then `e₁ = e₂` and
`x = y`. -/
theorem elem_prefix_unique (e1 e2 x y : Bytes) (t1 t2 : TLV)
    (h1 : readAny e1 = some t1) (r1 : t1.elem = e1) (h2 : readAny e2 = some t2) (r2 : t2.elem = e2)
    (h : e1 ++ x = e2 ++ y) : e1 = e2 ∧ x = y := by
  have a1 := readAny_append e1 x t1 h1
  have a2 := readAny_append e2 y t2 h2
  rw [h, a2] at a1
  simp only [Option.some.injEq, TLV.mk.injEq] at a1
  obtain ⟨-, -, he, hr⟩ := a1
  have e12 : e1 = e2 := by rw [← r1, ← r2, he]
  refine ⟨e12, ?_⟩
  subst e12
  exact List.append_cancel_left h

end Nebula.Lemmas.Der
