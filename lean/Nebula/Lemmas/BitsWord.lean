/-
Word-level facts for the replay-window model (C11): single-bit test / set, clearing a mask inside one
word of the packed bitmap, and the `BitVec 64` ↔ `Nat` reading of the index computations
(`i & lengthMask`, `pos >> 6`, `pos & 63`).
-/
import Nebula.Model.Bits

namespace Nebula.Lemmas.Bits
open Nebula.Bits

/-- bit `p` of the packed bitmap -/
def bitAt (a : Array U64) (p : Nat) : Bool := (a.getD (p / 64) 0#64).getLsbD (p % 64)

theorem toNat_shr6 (x : U64) : (x >>> 6).toNat = x.toNat / 64 := by
  rw [BitVec.toNat_ushiftRight, Nat.shiftRight_eq_div_pow]

theorem toNat_and63 (x : U64) : (x &&& 63#64).toNat = x.toNat % 64 := by
  rw [BitVec.toNat_and]
  have : (63#64 : U64).toNat = 2 ^ 6 - 1 := by decide
  rw [this, Nat.and_two_pow_sub_one_eq_mod]

theorem toNat_andMask (x m : U64) (k : Nat) (hm : m.toNat = 2 ^ k - 1) :
    (x &&& m).toNat = x.toNat % 2 ^ k := by
  rw [BitVec.toNat_and, hm, Nat.and_two_pow_sub_one_eq_mod]

theorem one_shl (j : Nat) : (1#64 : U64) <<< j = BitVec.twoPow 64 j := (BitVec.twoPow_eq 64 j).symm

/-- `w & (1 << j) != 0` tests bit `j` -/
theorem test_bit (w : U64) (j : Nat) (hj : j < 64) :
    ((w &&& ((1#64 : U64) <<< j)) != 0#64) = w.getLsbD j := by
  rw [one_shl, BitVec.and_twoPow]
  cases h : w.getLsbD j
  · simp
  · simp only [if_true]
    have : BitVec.twoPow 64 j ≠ 0#64 := by
      intro e
      have := congrArg (fun x : U64 => x.getLsbD j) e
      simp [BitVec.getLsbD_twoPow, hj] at this
    simpa using this

/-- `w | (1 << j)` sets bit `j` and nothing else -/
theorem set_bit (w : U64) (j i : Nat) (hj : j < 64) :
    (w ||| ((1#64 : U64) <<< j)).getLsbD i = (w.getLsbD i || decide (i = j)) := by
  rw [one_shl, BitVec.getLsbD_or, BitVec.getLsbD_twoPow]
  simp [hj, eq_comm]

/-- `w &^ mask` -/
theorem clear_mask (w mask : U64) (i : Nat) (hi : i < 64) :
    (w &&& ~~~mask).getLsbD i = (w.getLsbD i && !mask.getLsbD i) := by
  rw [BitVec.getLsbD_and, BitVec.getLsbD_not]
  simp [hi]

/-- `(1 << n) - 1` has exactly the low `n` bits set (`n < 64`) -/
theorem low_mask (n i : Nat) (hn : n < 64) :
    (((1#64 : U64) <<< n) - 1#64).getLsbD i = decide (i < n) := by
  have h1 : (((1#64 : U64) <<< n) - 1#64).toNat = 2 ^ n - 1 := by
    have hp : 2 ^ n < 2 ^ 64 := Nat.pow_lt_pow_right (by decide) hn
    have hp1 : 1 ≤ 2 ^ n := Nat.one_le_two_pow
    rw [BitVec.toNat_sub, BitVec.toNat_shiftLeft]
    simp only [BitVec.toNat_ofNat, Nat.shiftLeft_eq]
    have e1 : (1 % 2 ^ 64 * 2 ^ n) % 2 ^ 64 = 2 ^ n := by
      rw [Nat.mod_eq_of_lt (by decide : 1 < 2 ^ 64), Nat.one_mul, Nat.mod_eq_of_lt hp]
    rw [e1]
    omega
  rw [← BitVec.testBit_toNat, h1, Nat.testBit_two_pow_sub_one]

/-- `((1 << take) - 1) << bit` covers bit positions `[bit, bit + take)` -/
theorem range_mask (take bit i : Nat) (ht : take < 64) (hi : i < 64) :
    ((((1#64 : U64) <<< take) - 1#64) <<< bit).getLsbD i = (decide (bit ≤ i) && decide (i < bit + take)) := by
  rw [BitVec.getLsbD_shiftLeft, low_mask _ _ ht]
  by_cases h : i < bit
  · simp [h, hi]; omega
  · simp [h, hi]
    have : bit ≤ i := by omega
    simp [this]; omega

/-! ### the packed array -/

theorem bitAt_setWord (a : Array U64) (w : Nat) (v : U64) (p : Nat) (hw : w < a.size) :
    bitAt (a.setIfInBounds w v) p = if p / 64 = w then v.getLsbD (p % 64) else bitAt a p := by
  unfold bitAt
  simp only [Array.getD_eq_getD_getElem?, Array.getElem?_setIfInBounds]
  by_cases h : p / 64 = w
  · simp [h, hw]
  · have : ¬ w = p / 64 := fun e => h e.symm
    simp [h, this]

theorem getD_word (a : Array U64) (w : Nat) : a.getD w 0#64 = (a[w]?).getD 0#64 := by
  simp

/-- clearing, inside word `w`, the bits `[lo, hi)` (a mask with exactly those bits) clears exactly the
flat positions `[64w + lo, 64w + hi)` -/
theorem bitAt_clearMask (a : Array U64) (w lo hi : Nat) (mask : U64) (hw : w < a.size) (hhi : hi ≤ 64)
    (hmask : ∀ j, j < 64 → mask.getLsbD j = (decide (lo ≤ j) && decide (j < hi))) (p : Nat) :
    bitAt (a.setIfInBounds w (a.getD w 0#64 &&& ~~~mask)) p =
      (bitAt a p && !(decide (64 * w + lo ≤ p) && decide (p < 64 * w + hi))) := by
  rw [bitAt_setWord _ _ _ _ hw]
  have hp : p % 64 < 64 := Nat.mod_lt _ (by decide)
  by_cases h : p / 64 = w
  · simp only [h, if_true]
    rw [clear_mask _ _ _ hp, hmask _ hp]
    have e : bitAt a p = (a.getD w 0#64).getLsbD (p % 64) := by unfold bitAt; rw [h]
    rw [e]
    congr 2
    have : (decide (lo ≤ p % 64) && decide (p % 64 < hi)) = (decide (64 * w + lo ≤ p) && decide (p < 64 * w + hi)) := by
      rw [Bool.eq_iff_iff]; simp only [Bool.and_eq_true, decide_eq_true_eq]; omega
    rw [this]
  · simp only [h, if_false]
    have : (decide (64 * w + lo ≤ p) && decide (p < 64 * w + hi)) = false := by
      rw [Bool.eq_false_iff]; simp only [ne_eq, Bool.and_eq_true, decide_eq_true_eq]; omega
    rw [this]; simp

/-- zeroing word `w` clears exactly the flat positions `[64w, 64w + 64)` -/
theorem bitAt_zeroWord (a : Array U64) (w : Nat) (hw : w < a.size) (p : Nat) :
    bitAt (a.setIfInBounds w 0#64) p = (bitAt a p && !(decide (64 * w ≤ p) && decide (p < 64 * w + 64))) := by
  rw [bitAt_setWord _ _ _ _ hw]
  by_cases h : p / 64 = w
  · have : (decide (64 * w ≤ p) && decide (p < 64 * w + 64)) = true := by
      simp only [Bool.and_eq_true, decide_eq_true_eq]; omega
    simp [h, this]
  · have : (decide (64 * w ≤ p) && decide (p < 64 * w + 64)) = false := by
      rw [Bool.eq_false_iff]; simp only [ne_eq, Bool.and_eq_true, decide_eq_true_eq]; omega
    simp [h, this]

/-- setting bit `j` of word `w` sets exactly the flat position `64w + j` -/
theorem bitAt_setBit (a : Array U64) (w j : Nat) (hw : w < a.size) (hj : j < 64) (p : Nat) :
    bitAt (a.setIfInBounds w (a.getD w 0#64 ||| ((1#64 : U64) <<< j))) p =
      (bitAt a p || decide (p = 64 * w + j)) := by
  rw [bitAt_setWord _ _ _ _ hw]
  by_cases h : p / 64 = w
  · simp only [h, if_true]
    rw [set_bit _ _ _ hj]
    have e : bitAt a p = (a.getD w 0#64).getLsbD (p % 64) := by unfold bitAt; rw [h]
    rw [e]
    congr 1
    rw [Bool.eq_iff_iff]; simp only [decide_eq_true_eq]; omega
  · simp only [h, if_false]
    have : decide (p = 64 * w + j) = false := by
      rw [decide_eq_false_iff_not]; omega
    rw [this]; simp

theorem bitAt_replicate_zero (n p : Nat) : bitAt (Array.replicate n 0#64) p = false := by
  unfold bitAt
  simp only [Array.getD_eq_getD_getElem?, Array.getElem?_replicate]
  split <;> simp

end Nebula.Lemmas.Bits
