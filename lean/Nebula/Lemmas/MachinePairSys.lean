/-
Both sides together: the invariants survive every adversarial schedule.
-/
import Nebula.Lemmas.MachinePairR

namespace Nebula.MachinePair
open Nebula.Wire Nebula.Machine Nebula.Spec.NoiseSession

variable {σ κ β : Type}

theorem invI_fresh {N : Noise σ κ β} {E : Env} {li v : Nat} {n0 : σ} (hi : N.isInit n0 = true)
    (hr : N.reads n0 = []) (hw : N.writes n0 = []) : InvI N E li (Side.fresh v n0) := by
  have ht : N.total n0 = 0 := by simp [Noise.total, hr, hw]
  refine ⟨hi, ?_, ?_, ?_, ?_, ?_⟩
  · intro _; simp [Side.fresh, ht]
  · intro _; simp [Side.fresh]
  · intro h; simp [Side.fresh, ht] at h
  · intro _; rfl
  · intro r h; simp [Side.fresh] at h

theorem invR_fresh {N : Noise σ κ β} {E : Env} {lr v : Nat} {n0 : σ} (hi : N.isInit n0 = false)
    (hr : N.reads n0 = []) (hw : N.writes n0 = []) : InvR N E lr (Side.fresh v n0) := by
  have ht : N.total n0 = 0 := by simp [Noise.total, hr, hw]
  refine ⟨hi, ?_, ?_, ?_, ?_⟩
  · intro _; left; simp [Side.fresh, ht]
  · simp [Side.fresh, ht]
  · intro _; rfl
  · intro r h; simp [Side.fresh] at h

theorem inv_step {N : Noise σ κ β} (hN : Lawful N) {EI ER : Env} {li lr : Nat}
    (hEI : GoodEnv EI true li) (hER : GoodEnv ER false lr) (s : Sys σ)
    (h : InvI N EI li s.i ∧ InvR N ER lr s.r) (e : Event) :
    InvI N EI li (step N EI ER s e).i ∧ InvR N ER lr (step N EI ER s e).r := by
  cases e with
  | init now => exact ⟨invI_initiate hN hEI h.1 now, h.2⟩
  | relayToR k now =>
    simp only [step]
    split
    · exact ⟨h.1, invR_deliver hN hER h.2 _ _ _ _⟩
    · exact h
  | relayToI k now =>
    simp only [step]
    split
    · exact ⟨invI_deliver hN hEI h.1 _ _ _ _, h.2⟩
    · exact h
  | injectToR len sub body now => exact ⟨h.1, invR_deliver hN hER h.2 _ _ _ _⟩
  | injectToI len sub body now => exact ⟨invI_deliver hN hEI h.1 _ _ _ _, h.2⟩

theorem inv_run {N : Noise σ κ β} (hN : Lawful N) {EI ER : Env} {li lr : Nat}
    (hEI : GoodEnv EI true li) (hER : GoodEnv ER false lr) (evs : List Event) : ∀ (s : Sys σ),
    InvI N EI li s.i ∧ InvR N ER lr s.r →
    InvI N EI li (run N EI ER s evs).i ∧ InvR N ER lr (run N EI ER s evs).r := by
  induction evs with
  | nil => intro s h; exact h
  | cons e es ih => intro s h; exact ih _ (inv_step hN hEI hER s h e)

end Nebula.MachinePair
