import Nebula.Model.Udprecv
import Nebula.Spec.Udprecv

namespace Nebula.Lemmas.Udprecv
open Nebula.Udprecv Nebula.Spec.Udprecv

theorem segLoop_eq_chunks (p : List UInt8) (seg off : Nat) (hs : 0 < seg) :
    segLoop p seg off = chunks seg (p.drop off) := by
  fun_induction segLoop p seg off with
  | case1 off h e ih =>
    rw [chunks]
    have h1 : 0 < seg ∧ 0 < (p.drop off).length := by simp; omega
    rw [if_pos h1, List.drop_drop, ih]
    congr 1
    by_cases hc : off + seg > p.length
    · have : e = p.length := by simp [e, hc]
      rw [this, List.take_of_length_le (by simp), List.take_of_length_le (by simp; omega)]
    · have : e = off + seg := by simp [e, hc]
      rw [this]; congr 1; omega
  | case2 off h =>
    rw [chunks]
    have h1 : ¬ (0 < seg ∧ 0 < (p.drop off).length) := by simp; omega
    rw [if_neg h1]

theorem chunks_flatten {α : Type} (seg : Nat) (l : List α) (hs : 0 < seg) : (chunks seg l).flatten = l := by
  fun_induction chunks seg l with
  | case1 l h ih => simp [ih]
  | case2 l h => simp at h; have := h hs; simp_all

theorem chunks_length {α : Type} (seg : Nat) (l : List α) (hs : 0 < seg) :
    (chunks seg l).length = (l.length + seg - 1) / seg := by
  fun_induction chunks seg l with
  | case1 l h ih =>
    simp only [List.length_cons, ih, List.length_drop]
    have hl := h.2
    by_cases hle : l.length ≤ seg
    · have h0 : l.length - seg = 0 := by omega
      rw [h0]
      have : (0 + seg - 1) / seg = 0 := Nat.div_eq_of_lt (by omega)
      rw [this]
      have : (l.length + seg - 1) / seg = 1 := by
        apply Nat.div_eq_of_lt_le <;> omega
      omega
    · have : l.length + seg - 1 = (l.length - seg + seg - 1) + seg := by omega
      rw [this, Nat.add_div_right _ hs]
  | case2 l h =>
    simp at h; have := h hs; simp [this]; exact (Nat.div_eq_of_lt (by omega)).symm

theorem chunks_getElem? {α : Type} (seg : Nat) (l : List α) (hs : 0 < seg) (i : Nat) :
    (chunks seg l)[i]? = if i * seg < l.length then some ((l.drop (i * seg)).take seg) else none := by
  induction i generalizing l with
  | zero =>
    rw [chunks]; by_cases h : 0 < seg ∧ 0 < l.length
    · simp [h]
    · have : l.length = 0 := by omega
      simp [this]
  | succ i ih =>
    rw [chunks]; by_cases h : 0 < seg ∧ 0 < l.length
    · rw [if_pos h]; simp only [List.getElem?_cons_succ, ih, List.length_drop, List.drop_drop]
      have e : seg + i * seg = (i + 1) * seg := by rw [Nat.add_mul]; omega
      by_cases hc : i * seg < l.length - seg
      · have : (i + 1) * seg < l.length := by rw [← e]; omega
        simp [hc, this, e]
      · have : ¬ (i + 1) * seg < l.length := by rw [← e]; omega
        simp [hc, this]
    · have h0 : l.length = 0 := by omega
      simp [h0]

theorem rd_isSome (ctrl : List UInt8) (off n : Nat) (h : off + n ≤ ctrl.length) :
    ∃ v, rd ctrl off n = some v := by
  simp [rd, h]

theorem walk_not_oob (ctrl : List UInt8) (off : Nat) (g : Int) (it : Nat) : walk ctrl off g it ≠ .oob := by
  fun_induction walk ctrl off g it with
  | case1 => simp
  | case2 off gso iters h l level typ _ _ _ clen hc dataOff g' hx =>
    exfalso
    simp only [g'] at hx
    split at hx
    · split at hx
      · next hb =>
        obtain ⟨v, hv⟩ := rd_isSome ctrl dataOff Gen.urx_udpGROCmsgPayload hb
        simp [hv] at hx
      · simp at hx
    · simp at hx
  | case3 _ _ _ _ _ _ _ _ _ _ _ _ _ _ _ _ ih => exact ih
  | case4 off gso iters h hx =>
    exfalso
    simp only [sizeofCmsghdr] at h
    obtain ⟨a, ha⟩ := rd_isSome ctrl off 8 (by omega)
    obtain ⟨b, hb⟩ := rd_isSome ctrl (off + 8) 4 (by omega)
    obtain ⟨c, hc⟩ := rd_isSome ctrl (off + 12) 4 (by omega)
    exact hx a b c ha hb hc
  | case5 => simp

theorem walk_iters (ctrl : List UInt8) (off : Nat) (g : Int) (it : Nat) (g' : Int) (n : Nat)
    (h : walk ctrl off g it = .gso g' n) : it ≤ n ∧ 16 * (n - it) + off ≤ max ctrl.length off := by
  fun_induction walk ctrl off g it with
  | case1 => simp at h; omega
  | case2 => simp at h
  | case3 off gso iters hle l level typ _ _ _ clen hc dataOff g1 g2 hx ih =>
    have := ih h
    simp only [cmsgSpace, cmsgAlign, sizeofCmsghdr, cmsgLen] at *
    omega
  | case4 => simp at h
  | case5 => simp at h; omega

end Nebula.Lemmas.Udprecv
