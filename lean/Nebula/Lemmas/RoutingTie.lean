/-
Tie of the routing model to `scaleAndRound` regenerated from source (C40): the translation (math/bits double-word
primitives as `BitVec 128` arithmetic; the panics of `bits.Div64` are not expressible in a total function and stay
in the hand model) returns exactly the quotient the hand model returns whenever that does not panic.
-/
import Nebula.Model.Routing

namespace Nebula.Lemmas.RoutingTie
open Nebula.Gen

theorem sw128 (x : BitVec 64) : (BitVec.setWidth 128 x).toNat = x.toNat := by
  rw [BitVec.toNat_setWidth]; have := x.isLt; omega

theorem sw64 (x : BitVec 128) : (BitVec.setWidth 64 x).toNat = x.toNat % 2 ^ 64 := by
  rw [BitVec.toNat_setWidth]

theorem scale_eq (w total : Nat) (hW : 0 < total) (hW64 : total < 2 ^ 64) (hL : w ≤ total) :
    (routing_scaleAndRound (BitVec.ofNat 64 w) (BitVec.ofNat 64 total)).toNat = (w * 2 ^ 31 + total / 2) / total := by
  have hw : w < 2 ^ 64 := by omega
  have ew : (BitVec.ofNat 64 w).toNat = w := by rw [BitVec.toNat_ofNat]; omega
  have et : (BitVec.ofNat 64 total).toNat = total := by rw [BitVec.toNat_ofNat]; omega
  generalize BitVec.ofNat 64 w = W at *
  generalize BitVec.ofNat 64 total = T at *
  unfold routing_scaleAndRound
  simp only
  have c31 : (2147483648#64 : BitVec 64).toNat = 2 ^ 31 := by decide
  have c0 : (0#64 : BitVec 64).toNat = 0 := by decide
  have c2 : (2#64 : BitVec 64).toNat = 2 := by decide
  -- the 128-bit product
  have eP : (BitVec.setWidth 128 W * BitVec.setWidth 128 2147483648#64).toNat = w * 2 ^ 31 := by
    rw [BitVec.toNat_mul, sw128, sw128, ew, c31]; omega
  generalize BitVec.setWidth 128 W * BitVec.setWidth 128 2147483648#64 = P at *
  have ehi : (BitVec.setWidth 64 (P >>> (64 : Nat))).toNat = w * 2 ^ 31 / 2 ^ 64 := by
    rw [sw64, BitVec.toNat_ushiftRight, eP, Nat.shiftRight_eq_div_pow]; omega
  have elo : (BitVec.setWidth 64 P).toNat = w * 2 ^ 31 % 2 ^ 64 := by rw [sw64, eP]
  generalize BitVec.setWidth 64 (P >>> (64 : Nat)) = HI at *
  generalize BitVec.setWidth 64 P = LO at *
  have eS : (BitVec.setWidth 128 LO + BitVec.setWidth 128 (T / 2#64) + BitVec.setWidth 128 0#64).toNat
      = w * 2 ^ 31 % 2 ^ 64 + total / 2 := by
    rw [BitVec.toNat_add, BitVec.toNat_add, sw128, sw128, sw128, BitVec.toNat_udiv, elo, et, c2, c0]; omega
  generalize BitVec.setWidth 128 LO + BitVec.setWidth 128 (T / 2#64) + BitVec.setWidth 128 0#64 = S at *
  have elo2 : (BitVec.setWidth 64 S).toNat = (w * 2 ^ 31 % 2 ^ 64 + total / 2) % 2 ^ 64 := by rw [sw64, eS]
  have ecarry : (BitVec.setWidth 64 (S >>> (64 : Nat))).toNat = (w * 2 ^ 31 % 2 ^ 64 + total / 2) / 2 ^ 64 := by
    rw [sw64, BitVec.toNat_ushiftRight, eS, Nat.shiftRight_eq_div_pow]; omega
  generalize BitVec.setWidth 64 S = LO2 at *
  generalize BitVec.setWidth 64 (S >>> (64 : Nat)) = CA at *
  have ehc : (HI + CA).toNat = (w * 2 ^ 31 + total / 2) / 2 ^ 64 := by
    rw [BitVec.toNat_add, ehi, ecarry]; omega
  generalize HI + CA = HC at *
  have eD : ((BitVec.setWidth 128 HC <<< (64 : Nat)) ||| BitVec.setWidth 128 LO2).toNat = w * 2 ^ 31 + total / 2 := by
    rw [BitVec.toNat_or, BitVec.toNat_shiftLeft, sw128, sw128, ehc, elo2, Nat.shiftLeft_eq]
    have hlt : (w * 2 ^ 31 % 2 ^ 64 + total / 2) % 2 ^ 64 < 2 ^ 64 := Nat.mod_lt _ (by decide)
    have e1 : (w * 2 ^ 31 + total / 2) / 2 ^ 64 * 2 ^ 64 % 2 ^ 128 = ((w * 2 ^ 31 + total / 2) / 2 ^ 64) <<< 64 := by
      rw [Nat.shiftLeft_eq]; omega
    rw [e1, ← Nat.shiftLeft_add_eq_or_of_lt hlt, Nat.shiftLeft_eq]; omega
  generalize (BitVec.setWidth 128 HC <<< (64 : Nat)) ||| BitVec.setWidth 128 LO2 = D at *
  rw [sw64, BitVec.toNat_udiv, eD, sw128, et]
  apply Nat.mod_eq_of_lt
  apply Nat.div_lt_of_lt_mul
  omega

end Nebula.Lemmas.RoutingTie
