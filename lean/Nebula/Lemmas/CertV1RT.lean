/-
v1 certificate round trip: `unmarshalCertificateV1 (Marshal c) = c` (standard and handshake form) on top of the
protobuf round trip of `Lemmas/CertV1Pb.lean`; what a decoded v1 certificate looks like; hex and
address/mask-pair round trips.
-/
import Nebula.Lemmas.CertV1Pb

namespace Nebula.Lemmas.CertV1RT
open Nebula.Net Nebula.Cert Nebula.CertPb Nebula.Cert.V1 Nebula.Lemmas.CertPb Nebula.Lemmas.CertKeysPb
  Nebula.Lemmas.CertV1Pb

/-! ### hex -/

theorem hexVal_digit : ∀ n : Fin 16, hexVal (hexDigit n.val) = some n.val := by decide

theorem unhexChars_hexChars (b : List UInt8) : unhexChars (hexChars b) = some b := by
  induction b with
  | nil => rfl
  | cons x rest ih =>
    have h1 := hexVal_digit ⟨x.toNat / 16, by have := UInt8.toNat_lt x; omega⟩
    have h2 := hexVal_digit ⟨x.toNat % 16, by omega⟩
    simp only at h1 h2
    simp only [hexChars, unhexChars, h1, h2, ih]
    have : x.toNat / 16 * 16 + x.toNat % 16 = x.toNat := by omega
    rw [this]
    simp

theorem hexDec_hexEnc (b : List UInt8) : hexDec (hexEnc b) = some b := by
  unfold hexDec hexEnc
  rw [String.toList_ofList]
  exact unhexChars_hexChars b

/-! ### address / mask pairs -/

theorem maskOnes_maskOf : ∀ k : Fin 33, maskOnes (maskOf k.val) = k.val := by decide

/-- a v1 network as the decoder produces it: IPv4, 32-bit value, length ≤ 32. -/
def V4Prefix (p : Prefix) : Prop := p.addr.fam = .v4 ∧ p.addr.val < 2 ^ 32 ∧ p.len ≤ 32

theorem unpairs_pairs (ps : List Prefix) (h : ∀ p ∈ ps, V4Prefix p) : unpairs (pairs ps) = ps := by
  induction ps with
  | nil => rfl
  | cons p rest ih =>
    obtain ⟨h1, h2, h3⟩ := h p (by simp)
    have hm := maskOnes_maskOf ⟨p.len, by omega⟩
    simp only at hm
    simp only [pairs, List.flatMap_cons, List.cons_append, List.nil_append, unpairs]
    have ih' := ih (fun q hq => h q (by simp [hq]))
    simp only [pairs] at ih'
    rw [ih', hm, Nat.mod_eq_of_lt h2, Nat.mod_eq_of_lt h2]
    obtain ⟨⟨f, v⟩, l⟩ := p
    simp only at h1
    subst h1
    rfl

theorem pairs_lt (ps : List Prefix) : ∀ v ∈ pairs ps, v < 2 ^ 32 := by
  intro v hv
  unfold pairs at hv
  simp only [List.mem_flatMap, List.mem_cons, List.not_mem_nil, or_false] at hv
  obtain ⟨p, -, rfl | rfl⟩ := hv
  · exact Nat.mod_lt _ (by decide)
  · unfold maskOf
    have : 0 < 2 ^ (32 - p.len) := Nat.pow_pos (by decide)
    omega

theorem unpairs_v4 (vs : List Nat) : ∀ p ∈ unpairs vs, V4Prefix p := by
  intro p hp
  induction vs using unpairs.induct with
  | case1 a m rest ih =>
    simp only [unpairs, List.mem_cons] at hp
    rcases hp with rfl | hp
    · refine ⟨rfl, Nat.mod_lt _ (by decide), ?_⟩
      unfold maskOnes
      simp only
      cases hfind : (List.range 33).find? (fun k => maskOf k == m) with
      | none => simp
      | some k =>
        have := List.mem_of_find?_eq_some hfind
        simp only [List.mem_range] at this
        simp only [Option.getD_some]; omega
    · exact ih hp
  | case2 vs hne => simp [unpairs] at hp

/-! ### the certificate envelope -/

theorem decCert_nil (fuel : Nat) (hf : 1 ≤ fuel) (c : RawCert) : decCert fuel c [] = some c := by
  cases fuel with
  | zero => omega
  | succ f => simp [decCert]

theorem dc_details (fuel : Nat) (hf : 1 ≤ fuel) (c : RawCert) (db rest : List UInt8) (d : RawDetails)
    (hc : c.details = none) (hl : db.length < 2 ^ 64) (hd : decDetails (db.length + 1) {} db = some d) :
    decCert fuel c (encBytesField 1 db ++ rest) = decCert (fuel - 1) { c with details := some d } rest := by
  cases fuel with
  | zero => omega
  | succ f =>
    obtain ⟨ht, hv⟩ := field_bytes 1 db rest (by omega) (by omega) hl
    rw [decCert, append_isEmpty_false (bytesField_length_pos 1 db)]
    simp only [Bool.false_eq_true, if_false, ht, hv]
    simp [hc, hd]

theorem dc_sig (fuel : Nat) (hf : 1 ≤ fuel) (c : RawCert) (b rest : List UInt8) (hb : b.length < 2 ^ 64) :
    decCert fuel c (encBytesField 2 b ++ rest) = decCert (fuel - 1) { c with signature := b } rest := by
  cases fuel with
  | zero => omega
  | succ f =>
    obtain ⟨ht, hv⟩ := field_bytes 2 b rest (by omega) (by omega) hb
    rw [decCert, append_isEmpty_false (bytesField_length_pos 2 b)]
    simp only [Bool.false_eq_true, if_false, ht, hv]
    simp

/-- `proto.Unmarshal` reads `proto.Marshal(RawNebulaCertificate{Details, Signature})` back. -/
theorem protoUnmarshal_marshal (db sig : List UInt8) (d : RawDetails) (hl : db.length < 2 ^ 64) (hs : sig.length < 2 ^ 64)
    (hd : decDetails (db.length + 1) {} db = some d) :
    protoUnmarshal (encBytesField 1 db ++ (if sig.isEmpty then [] else encBytesField 2 sig)) =
      some { details := some d, signature := sig } := by
  unfold protoUnmarshal
  have p1 := bytesField_length_pos 1 db
  have p2 := bytesField_length_pos 2 sig
  by_cases c : sig.isEmpty = true
  · simp only [c, if_true, List.append_nil]
    rw [← List.append_nil (encBytesField 1 db), dc_details _ (by simp) _ db [] d rfl hl hd,
      decCert_nil _ (by simp; omega)]
    simp only [List.isEmpty_iff] at c; simp [c]
  · simp only [c, Bool.false_eq_true, if_false]
    rw [dc_details _ (by simp) _ db _ d rfl hl hd, ← List.append_nil (encBytesField 2 sig),
      dc_sig _ (by simp [List.length_append]; omega) _ sig [] hs, decCert_nil _ (by simp [List.length_append]; omega)]

theorem pairs_length_even (ps : List Prefix) : (pairs ps).length % 2 = 0 := by
  induction ps with
  | nil => rfl
  | cons p rest ih => simp only [pairs, List.flatMap_cons, List.length_append, List.length_cons, List.length_nil] at ih ⊢; omega

/-- A v1 certificate as the decoder and the signer produce it (beyond `validate`): IPv4 prefixes with 32-bit
values, whole-second bounds inside int64 seconds, a hex issuer, a 32-bit curve value, and byte strings
shorter than 2^64. -/
structure V1OK (c : Cert) : Prop where
  version : c.version = 1
  valid : validateV1 c = none
  nets : ∀ p ∈ c.networks, V4Prefix p
  unsafe_nets : ∀ p ∈ c.unsafeNetworks, V4Prefix p
  nb : ∃ k : Int, c.notBefore = k * nsPerSec ∧ -2 ^ 63 ≤ k ∧ k < 2 ^ 63
  na : ∃ k : Int, c.notAfter = k * nsPerSec ∧ -2 ^ 63 ≤ k ∧ k < 2 ^ 63
  issuer : ∃ ib : List UInt8, c.issuer = hexEnc ib ∧ ib.length < 2 ^ 64
  curve : c.curve < 2 ^ 32
  name_len : c.name.length < 2 ^ 64
  groups_len : ∀ g ∈ c.groups, g.length < 2 ^ 64
  pk_len : c.publicKey.length < 2 ^ 64
  sig_len : c.signature.length < 2 ^ 64
  ips_len : ((pairs c.networks).flatMap encVarint).length < 2 ^ 64
  subnets_len : ((pairs c.unsafeNetworks).flatMap encVarint).length < 2 ^ 64

theorem asInt64_id (k : Int) (h1 : -2 ^ 63 ≤ k) (h2 : k < 2 ^ 63) : asInt64 k = k := by
  unfold asInt64
  have := uToInt64_int64ToU k h1 h2
  have e : int64ToU k % 2 ^ 64 = int64ToU k := by
    unfold int64ToU
    have e : ((2 ^ 64 : Nat) : Int) = 18446744073709551616 := by decide
    rw [e]; omega
  rw [e] at this; exact this

theorem detailsWF_of (c : Cert) (pk : List UInt8) (h : V1OK c) (hpk : pk.length < 2 ^ 64)
    (hu : ∀ g ∈ c.groups, utf8Valid g = true) : DetailsWF (rawDetailsOf c pk) := by
  obtain ⟨kb, hkb, b1, b2⟩ := h.nb
  obtain ⟨ka, hka, a1, a2⟩ := h.na
  obtain ⟨ib, hib, il⟩ := h.issuer
  have eb : c.notBefore / nsPerSec = kb := by rw [hkb]; unfold nsPerSec; omega
  have ea : c.notAfter / nsPerSec = ka := by rw [hka]; unfold nsPerSec; omega
  refine ⟨h.name_len, fun g hg => ⟨h.groups_len g hg, hu g hg⟩, pairs_lt _, pairs_lt _, h.ips_len, h.subnets_len,
    ?_, ?_, hpk, ?_, h.curve⟩
  · show -2 ^ 63 ≤ c.notBefore / nsPerSec ∧ c.notBefore / nsPerSec < 2 ^ 63
    rw [eb]; exact ⟨b1, b2⟩
  · show -2 ^ 63 ≤ c.notAfter / nsPerSec ∧ c.notAfter / nsPerSec < 2 ^ 63
    rw [ea]; exact ⟨a1, a2⟩
  · show ((hexDec c.issuer).getD []).length < 2 ^ 64
    rw [hib, hexDec_hexEnc]; exact il

theorem certOfRaw_rawDetailsOf (c : Cert) (h : V1OK c) (pk : List UInt8) :
    certOfRaw (rawDetailsOf c pk) c.publicKey c.signature = c := by
  obtain ⟨kb, hkb, b1, b2⟩ := h.nb
  obtain ⟨ka, hka, a1, a2⟩ := h.na
  obtain ⟨ib, hib, il⟩ := h.issuer
  have eb : c.notBefore / nsPerSec = kb := by rw [hkb]; unfold nsPerSec; omega
  have ea : c.notAfter / nsPerSec = ka := by rw [hka]; unfold nsPerSec; omega
  unfold certOfRaw
  simp only [rawDetailsOf, eb, ea, asInt64_id kb b1 b2, asInt64_id ka a1 a2, ← hkb, ← hka,
    unpairs_pairs _ h.nets, unpairs_pairs _ h.unsafe_nets, Nat.mod_eq_of_lt h.curve]
  rw [hib, hexDec_hexEnc]
  simp only [Option.getD_some, ← hib, ← h.version]

theorem groups_utf8_of_encode (d : RawDetails) (db : List UInt8) (he : encodeDetails d = some db) :
    ∀ g ∈ d.groups, utf8Valid g = true := by
  unfold encodeDetails at he
  by_cases hh : (!utf8Valid d.name || !d.groups.all utf8Valid) = true
  · simp [hh] at he
  · simp only [Bool.or_eq_true, Bool.not_eq_true', not_or, Bool.not_eq_false] at hh
    have := hh.2
    simp only [List.all_eq_true] at this
    exact this

/-- every byte string of the message is at most as long as its encoding (so that one size bound suffices). -/
theorem unmarshal_marshal_aux (c : Cert) (h : V1OK c) (pkEnc pkArg : List UInt8) (db : List UInt8)
    (hpk : (pkEnc = c.publicKey ∧ pkArg = []) ∨ (pkEnc = [] ∧ pkArg = c.publicKey))
    (he : encodeDetails (rawDetailsOf c pkEnc) = some db) (hdl : db.length < 2 ^ 64) :
    unmarshal (encBytesField 1 db ++ (if c.signature.isEmpty then [] else encBytesField 2 c.signature)) pkArg = .ok c := by
  have hpkne : c.publicKey.length ≠ 0 := by
    have := h.valid
    unfold validateV1 at this
    by_cases hh : (c.publicKey.length == 0) = true
    · simp [hh] at this
    · simpa using hh
  have hu := groups_utf8_of_encode _ db he
  have hpkl : pkEnc.length < 2 ^ 64 := by
    rcases hpk with ⟨rfl, -⟩ | ⟨rfl, -⟩
    · exact h.pk_len
    · simp
  have hwf := detailsWF_of c pkEnc h hpkl hu
  have hrt := decDetails_encodeDetails _ hwf db he _ (Nat.le_refl _)
  have hpu := protoUnmarshal_marshal db c.signature _ hdl h.sig_len hrt
  unfold unmarshal
  have hne : ((encBytesField 1 db ++ if c.signature.isEmpty then [] else encBytesField 2 c.signature).length == 0) = false := by
    have := bytesField_length_pos 1 db
    simp only [List.length_append, beq_eq_false_iff_ne, ne_eq]; omega
  simp only [hne, Bool.false_eq_true, if_false, hpu]
  have e1 : ((rawDetailsOf c pkEnc).ips.length % 2 != 0) = false := by simp [rawDetailsOf, pairs_length_even]
  have e2 : ((rawDetailsOf c pkEnc).subnets.length % 2 != 0) = false := by simp [rawDetailsOf, pairs_length_even]
  simp only [e1, e2, Bool.false_eq_true, if_false]
  have hcert := certOfRaw_rawDetailsOf c h pkEnc
  rcases hpk with ⟨rfl, rfl⟩ | ⟨rfl, rfl⟩
  · have hpk' : (rawDetailsOf c c.publicKey).publicKey = c.publicKey := rfl
    simp only [List.length_nil, Nat.lt_irrefl, gt_iff_lt, decide_false, Bool.false_and, Bool.false_eq_true, if_false, hpk',
      hcert, h.valid]
  · have hpk' : (rawDetailsOf c []).publicKey = [] := rfl
    have hgt : c.publicKey.length > 0 := by omega
    simp only [hpk', List.length_nil, bne_self_eq_false, Bool.and_false, Bool.false_eq_true, if_false, hgt, if_true,
      hcert, h.valid]

end Nebula.Lemmas.CertV1RT

namespace Nebula.Lemmas.CertV1RT
open Nebula.Net Nebula.Cert Nebula.CertPb Nebula.Cert.V1 Nebula.Lemmas.CertPb Nebula.Lemmas.CertKeysPb
  Nebula.Lemmas.CertV1Pb

/-- size side conditions: every byte string of the certificate is shorter than 2^64 (length prefixes are
`uint64` varints). -/
structure V1Sized (c : Cert) : Prop where
  name_len : c.name.length < 2 ^ 64
  groups_len : ∀ g ∈ c.groups, g.length < 2 ^ 64
  pk_len : c.publicKey.length < 2 ^ 64
  sig_len : c.signature.length < 2 ^ 64
  ips_len : ((pairs c.networks).flatMap encVarint).length < 2 ^ 64
  subnets_len : ((pairs c.unsafeNetworks).flatMap encVarint).length < 2 ^ 64

theorem uToInt64_range (v : Nat) : -2 ^ 63 ≤ uToInt64 v ∧ uToInt64 v < 2 ^ 63 := by
  unfold uToInt64
  split <;> omega

theorem hexChars_length (b : List UInt8) : (hexChars b).length = 2 * b.length := by
  induction b with
  | nil => rfl
  | cons x r ih => simp only [hexChars, List.length_cons, ih]; omega

/-- **What a decoded v1 certificate looks like**: version 1, accepted by `validate`, IPv4 prefixes with 32-bit
values and lengths ≤ 32, whole-second bounds inside int64 seconds, a hex issuer, a 32-bit curve. -/
theorem v1ok_of_decoded (b pk : List UInt8) (c : Cert) (h : unmarshal b pk = .ok c) (hs : V1Sized c)
    (hi : ∀ ib, c.issuer = hexEnc ib → ib.length < 2 ^ 64) : V1OK c := by
  unfold unmarshal at h
  repeat' split at h
  all_goals try (cases h; done)
  all_goals
    dsimp only at h
    split at h
    · cases h
    · rename_i hv
      simp only [Except.ok.injEq] at h
      subst h
      exact
        { version := rfl, valid := hv, nets := unpairs_v4 _, unsafe_nets := unpairs_v4 _,
          nb := ⟨_, rfl, uToInt64_range _⟩, na := ⟨_, rfl, uToInt64_range _⟩,
          issuer := ⟨_, rfl, hi _ rfl⟩, curve := Nat.mod_lt _ (by decide),
          name_len := hs.name_len, groups_len := hs.groups_len, pk_len := hs.pk_len, sig_len := hs.sig_len,
          ips_len := hs.ips_len, subnets_len := hs.subnets_len }

theorem bytesField_length_ge (num : Nat) (b : List UInt8) : b.length ≤ (encBytesField num b).length := by
  unfold encBytesField; simp only [List.length_append]; omega

end Nebula.Lemmas.CertV1RT

namespace Nebula.Lemmas.CertV1RT
open Nebula.Net Nebula.Cert

/-- a small v1 certificate for the non-vacuity examples. -/
def exV1Cert : Cert :=
  { version := 1, curve := 1, name := [104], networks := [⟨⟨.v4, 0x0a000001⟩, 24⟩], unsafeNetworks := [⟨⟨.v4, 0x0a090000⟩, 16⟩],
    groups := [[103], []], isCA := false, notBefore := 1000000000, notAfter := -2000000000, issuer := "ab",
    publicKey := [1, 2, 3], signature := [9, 9] }

end Nebula.Lemmas.CertV1RT
