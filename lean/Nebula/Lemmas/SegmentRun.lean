/-
Inversion of the segmenter's `Except` blocks: what a successful run of `segmentTCP` / `segmentUDP` /
`readAndSegment` implies about its arguments and its result.
-/
import Nebula.Lemmas.Segment

namespace Nebula.Lemmas.SegmentRun
open Nebula.Csum Nebula.Segment Nebula.Gen Nebula.Lemmas.Segment

theorem bind_ok {ε α β : Type} (x : Except ε α) (f : α → Except ε β) (b : β) :
    (x >>= f) = .ok b ↔ ∃ a, x = .ok a ∧ f a = .ok b := by
  cases x <;> simp [bind, Except.bind]

theorem failIf_ok (c : Prop) [Decidable c] (e : Err) (u : Unit) : failIf c e = .ok u ↔ ¬ c := by
  unfold failIf; split <;> simp_all [throw, throwThe, MonadExceptOf.throw, pure, Except.pure]

theorem pure_ok {α : Type} (a b : α) : (pure a : R α) = .ok b ↔ a = b := by
  simp [pure, Except.pure]

theorem slice_ok {p s : List UInt8} {a b : Nat} (h : slice p a b = .ok s) :
    a ≤ b ∧ b ≤ p.length ∧ s = (p.drop a).take (b - a) := by
  unfold slice at h
  split at h
  · next hc => simp [pure, Except.pure] at h; exact ⟨hc.1, hc.2, h.symm⟩
  · simp [throw, throwThe, MonadExceptOf.throw] at h

theorem rd_ok {p : List UInt8} {i v : Nat} (h : rd p i = .ok v) : i < p.length := by
  unfold rd at h
  split at h
  · next b hb => exact (List.getElem?_eq_some_iff.mp hb).1
  · simp [throw, throwThe, MonadExceptOf.throw] at h

/-- What a successful `segmentTCP` run looks like. -/
theorem segmentTCP_ok {pkt : List UInt8} {hdrLen cs g : Nat} {segs : List (List UInt8)}
    (h : segmentTCP pkt hdrLen cs g = .ok segs) :
    g ≠ 0 ∧ cs ≠ 0 ∧ hdrLen ≤ 120 ∧ hdrLen ≤ pkt.length ∧ cs + 18 ≤ hdrLen ∧
    ∃ c : TcpCtx, c.saved = pkt.take hdrLen ∧ c.hdrLen = hdrLen ∧ c.csumStart = cs ∧ c.g = g ∧
      c.numSeg = segCount (pkt.length - hdrLen) g ∧
      segs = (List.range c.numSeg).map (tcpSeg c pkt) := by
  unfold segmentTCP at h
  simp only [bind_ok, failIf_ok, pure_ok] at h
  obtain ⟨_, hg, _, hcs, _, hh, b0, _, d, _, sq, _, fl, _, bp, _, bt, _, ipb, _, saved, hs, _, hpre, hsegs⟩ := h
  simp only [virtio_maxSegHdrLen, virtio_tcpChecksumOff] at hh hpre
  have hs' := slice_ok hs
  refine ⟨hg, hcs, by omega, hs'.2.1, by omega, ?_⟩
  refine ⟨_, ?_, rfl, rfl, rfl, rfl, hsegs.symm⟩
  simp [hs'.2.2]

/-- What a successful `segmentUDP` run looks like. -/
theorem segmentUDP_ok {pkt : List UInt8} {hdrLen cs g : Nat} {segs : List (List UInt8)}
    (h : segmentUDP pkt hdrLen cs g = .ok segs) :
    g ≠ 0 ∧ cs ≠ 0 ∧ hdrLen ≤ 120 ∧ hdrLen ≤ pkt.length ∧ cs + 8 = hdrLen ∧ 0 < pkt.length ∧
    ∃ c : UdpCtx, c.saved = pkt.take hdrLen ∧ c.hdrLen = hdrLen ∧ c.csumStart = cs ∧ c.g = g ∧
      segs = (List.range (segCount (pkt.length - hdrLen) g)).map (udpSeg c pkt) := by
  unfold segmentUDP at h
  simp only [bind_ok, failIf_ok, pure_ok] at h
  obtain ⟨_, hg, _, hcs, b0, hb0, _, hh, _, hu, bp, _, ipb, _, saved, hs, hsegs⟩ := h
  simp only [virtio_maxSegHdrLen, virtio_udpHeaderLen] at hh hu
  have hs' := slice_ok hs
  have := rd_ok hb0
  refine ⟨hg, hcs, by omega, hs'.2.1, by omega, this, ?_⟩
  refine ⟨_, ?_, rfl, rfl, rfl, hsegs.symm⟩
  simp [hs'.2.2]

/-! ### concrete superpackets for the non-vacuity examples of `Props/C24` -/

/-- IPv4 (ID 0xffff: wraps) / TCP (seq 0xfffffffe: wraps; flags CWR|ECE|PSH|FIN|ACK), 7 payload bytes. -/
def exTCP4 : List UInt8 :=
  [0x45, 0, 0, 47, 0xff, 0xff, 0x40, 0, 64, 6, 0, 0, 10, 0, 0, 1, 10, 0, 0, 2,
   0x1f, 0x90, 0x00, 0x50, 0xff, 0xff, 0xff, 0xfe, 0, 0, 0, 1, 0x50, 0xd9, 0xff, 0xff, 0, 0, 0, 0,
   1, 2, 3, 4, 5, 6, 7]

/-- IPv6 / UDP, 5 payload bytes. -/
def exUDP6 : List UInt8 :=
  [0x60, 0, 0, 0, 0, 13, 17, 64,
   0x20, 0x01, 0x0d, 0xb8, 0, 0, 0, 0, 0, 0, 0, 0, 0, 0, 0, 1,
   0x20, 0x01, 0x0d, 0xb8, 0, 0, 0, 0, 0, 0, 0, 0, 0, 0, 0, 2,
   0x13, 0x88, 0x13, 0x89, 0, 13, 0, 0,
   0xff, 0xff, 0xff, 0xff, 0xfe]

end Nebula.Lemmas.SegmentRun
