/-
`pem.Decode ∘ pem.Encode` on the model of `Model/CertPem.lean`: for every block type without LF, `-` or `:`
(all twelve nebula banners), every payload and every trailing input,
`pemDecode (pemEncode ty b ++ rest) = block ⟨ty, no headers, b⟩ rest`.
-/
import Nebula.Lemmas.CertPemB64

namespace Nebula.Lemmas.CertPemRT
open Nebula.Cert Nebula.CertPem Nebula.Lemmas.CertPemB64

/-- block types the round trip holds for: no LF, no `-`, no `:`. -/
def TypeOK (ty : Bytes) : Prop := ∀ c ∈ ty, c ≠ 10 ∧ c ≠ 45 ∧ c ≠ 58

/-! ### bytes.Index of "\n-----END " -/

/-- no LF is directly followed by `-`. -/
def nlDashFree : Bytes → Bool
  | [] => true
  | [_] => true
  | x :: y :: t => !(x == 10 && y == 45) && nlDashFree (y :: t)

theorem not_prefix_of_nlDashFree (a : Bytes) (x : UInt8) (tail : Bytes) (h : nlDashFree (x :: a) = true) :
    pemEndNl.isPrefixOf (x :: a ++ pemEndNl ++ tail) = false := by
  cases a with
  | nil =>
    simp only [pemEndNl, List.nil_append, List.cons_append, List.isPrefixOf]
    by_cases hx : x = 10 <;> simp [hx]
  | cons y t =>
    simp only [nlDashFree, Bool.and_eq_true, Bool.not_eq_true', Bool.and_eq_false_imp, beq_iff_eq] at h
    simp only [pemEndNl, List.cons_append, List.isPrefixOf]
    by_cases hx : x = 10
    · have := h.1 hx
      simp only [hx, beq_self_eq_true, Bool.true_and, Bool.and_eq_false_imp, beq_iff_eq]
      intro hy
      subst hy
      simp at this
    · simp only [Bool.and_eq_false_imp, beq_iff_eq]
      intro h10
      exact absurd h10.symm hx

theorem indexOf_pemEndNl (a tail : Bytes) (h : nlDashFree a = true) :
    indexOf pemEndNl (a ++ pemEndNl ++ tail) = some a.length := by
  induction a with
  | nil => simp [indexOf, pemEndNl, List.isPrefixOf]
  | cons x t ih =>
    have ht : nlDashFree t = true := by
      cases t with
      | nil => rfl
      | cons y t' => simp only [nlDashFree, Bool.and_eq_true] at h; exact h.2
    have hnp := not_prefix_of_nlDashFree t x tail h
    simp only [List.cons_append] at hnp ⊢
    simp only [indexOf, hnp, Bool.false_eq_true, if_false]
    rw [ih ht]
    simp

theorem nlDashFree_of_no_dash (x : UInt8) (t : Bytes) (h : ∀ c ∈ t, c ≠ 45) : nlDashFree (x :: t) = true := by
  induction t generalizing x with
  | nil => rfl
  | cons y t ih =>
    simp only [nlDashFree, Bool.and_eq_true, Bool.not_eq_true', Bool.and_eq_false_imp, beq_iff_eq]
    exact ⟨fun _ => by simpa using h y (List.mem_cons_self ..), ih y (fun c hc => h c (List.mem_cons_of_mem _ hc))⟩

theorem nlDashFree_append_of_no_nl (a b : Bytes) (ha : ∀ c ∈ a, c ≠ 10) (hb : nlDashFree b = true) :
    nlDashFree (a ++ b) = true := by
  induction a with
  | nil => exact hb
  | cons x t ih =>
    have hx : x ≠ 10 := ha x (List.mem_cons_self ..)
    have ht := ih (fun c hc => ha c (List.mem_cons_of_mem _ hc))
    cases htb : t ++ b with
    | nil => simp [htb, nlDashFree]
    | cons y r =>
      rw [htb] at ht
      simp only [List.cons_append, htb, nlDashFree, Bool.and_eq_true, Bool.not_eq_true', Bool.and_eq_false_imp, beq_iff_eq]
      exact ⟨fun h => absurd h hx, ht⟩

/-! ### bytes.LastIndex of "-----BEGIN " -/

/-- no `-` is directly followed by `B`. -/
def noDashB : Bytes → Bool
  | [] => true
  | [_] => true
  | x :: y :: t => !(x == 45 && y == 66) && noDashB (y :: t)

theorem noDashB_tail (x : UInt8) (t : Bytes) (h : noDashB (x :: t) = true) : noDashB t = true := by
  cases t with
  | nil => rfl
  | cons y t' => simp only [noDashB, Bool.and_eq_true] at h; exact h.2

theorem not_begin_prefix_of_noDashB (s : Bytes) (h : noDashB s = true) : pemBegin.isPrefixOf s = false := by
  cases hp : pemBegin.isPrefixOf s with
  | false => rfl
  | true =>
    rw [List.isPrefixOf_iff_prefix] at hp
    obtain ⟨t, rfl⟩ := hp
    simp [pemBegin, noDashB] at h

theorem lastIndexOf_none_of_noDashB (s : Bytes) (h : noDashB s = true) : lastIndexOf pemBegin s = none := by
  induction s with
  | nil => rfl
  | cons x t ih =>
    simp only [lastIndexOf, ih (noDashB_tail x t h), not_begin_prefix_of_noDashB _ h]
    simp

theorem noDashB_of_no_dash (s : Bytes) (h : ∀ c ∈ s, c ≠ 45) : noDashB s = true := by
  induction s with
  | nil => rfl
  | cons x t ih =>
    cases t with
    | nil => rfl
    | cons y t' =>
      simp only [noDashB, Bool.and_eq_true, Bool.not_eq_true', Bool.and_eq_false_imp, beq_iff_eq]
      exact ⟨fun hx => absurd hx (h x (List.mem_cons_self ..)), ih (fun c hc => h c (List.mem_cons_of_mem _ hc))⟩

theorem noDashB_append_of_no_dash (a b : Bytes) (ha : ∀ c ∈ a, c ≠ 45) (hb : noDashB b = true) :
    noDashB (a ++ b) = true := by
  induction a with
  | nil => exact hb
  | cons x t ih =>
    have ht := ih (fun c hc => ha c (List.mem_cons_of_mem _ hc))
    cases htb : t ++ b with
    | nil => simp [htb, noDashB]
    | cons y r =>
      rw [htb] at ht
      simp only [List.cons_append, htb, noDashB, Bool.and_eq_true, Bool.not_eq_true', Bool.and_eq_false_imp, beq_iff_eq]
      exact ⟨fun hx => absurd hx (ha x (List.mem_cons_self ..)), ht⟩

/-- the last "-----BEGIN " of `"-----BEGIN " ++ u` is the one at the front when `u` has no `-B`. -/
theorem lastIndexOf_begin (u : Bytes) (h : noDashB u = true) : lastIndexOf pemBegin (pemBegin ++ u) = some 0 := by
  have hu := lastIndexOf_none_of_noDashB u h
  simp only [pemBegin] at hu ⊢
  simp [lastIndexOf, hu, List.isPrefixOf]

/-! ### getLine -/

theorem splitNl_append (a r : Bytes) (ha : ∀ c ∈ a, c ≠ 10) : splitNl (a ++ 10 :: r) = (a, some r) := by
  induction a with
  | nil => simp [splitNl]
  | cons x t ih =>
    have hx : x ≠ 10 := ha x (List.mem_cons_self ..)
    simp only [List.cons_append, splitNl, hx, if_false, ih (fun c hc => ha c (List.mem_cons_of_mem _ hc))]

theorem trimRight_of_last (p : Bytes) (x : UInt8) (hx : isSpTab x = false) : trimRightSpTab (p ++ [x]) = p ++ [x] := by
  simp [trimRightSpTab, hx]

/-- `getLine` on a line that ends in a non-blank, non-CR character. -/
theorem getLine_plain (p : Bytes) (x : UInt8) (r : Bytes) (hp : ∀ c ∈ p, c ≠ 10) (hx10 : x ≠ 10) (hx13 : x ≠ 13)
    (hxb : isSpTab x = false) : getLine (p ++ [x] ++ 10 :: r) = (p ++ [x], r, p.length + 2) := by
  have hs : splitNl (p ++ [x] ++ 10 :: r) = (p ++ [x], some r) :=
    splitNl_append (p ++ [x]) r (by
      intro c hc
      simp only [List.mem_append, List.mem_singleton] at hc
      rcases hc with hc | rfl
      · exact hp c hc
      · exact hx10)
  unfold getLine
  rw [hs]
  simp only [List.getLast?_append, List.getLast?_singleton, Option.some_or, Option.some.injEq, hx13, if_false,
    trimRight_of_last p x hxb, List.length_append, List.length_singleton]

theorem getLine_empty (r : Bytes) : getLine (10 :: r) = ([], r, 1) := by
  simp [getLine, splitNl, trimRightSpTab]

/-- the elements of the line `getLine` returns are elements of the input's first line. -/
theorem getLine_mem (L r : Bytes) (hL : ∀ c ∈ L, c ≠ 10) : ∀ c ∈ (getLine (L ++ 10 :: r)).1, c ∈ L := by
  unfold getLine
  rw [splitNl_append L r hL]
  intro c hc
  simp only [trimRightSpTab] at hc
  have h1 : c ∈ (if L.getLast? = some 13 then L.dropLast else L) := by
    have := List.mem_reverse.mp hc
    have := (List.dropWhile_sublist _).mem this
    exact List.mem_reverse.mp this
  split at h1
  · exact (List.dropLast_sublist _).mem h1
  · exact h1

theorem getLine_rest (L r : Bytes) (hL : ∀ c ∈ L, c ≠ 10) : (getLine (L ++ 10 :: r)).2 = (r, L.length + 1) := by
  unfold getLine
  rw [splitNl_append L r hL]

theorem splitNl_fst_mem (X r : Bytes) : ∀ c ∈ (splitNl (X ++ 10 :: r)).1, c ∈ X := by
  induction X with
  | nil => simp [splitNl]
  | cons x t ih =>
    simp only [List.cons_append, splitNl]
    split
    · simp
    · intro c hc
      simp only [List.mem_cons] at hc ⊢
      rcases hc with rfl | hc
      · exact Or.inl rfl
      · exact Or.inr (ih c hc)

theorem getLine_fst_mem (s : Bytes) : ∀ c ∈ (getLine s).1, c ∈ (splitNl s).1 := by
  have trim : ∀ l : Bytes, ∀ c ∈ trimRightSpTab l, c ∈ l := by
    intro l c hc
    simp only [trimRightSpTab] at hc
    have := List.mem_reverse.mp hc
    have := (List.dropWhile_sublist _).mem this
    exact List.mem_reverse.mp this
  unfold getLine
  split
  · rename_i a heq
    rw [heq]
    exact trim a
  · rename_i a r heq
    rw [heq]
    intro c hc
    have h1 := trim _ c hc
    split at h1
    · exact (List.dropLast_sublist _).mem h1
    · exact h1

theorem isSuffixOf_append (a b : Bytes) : b.isSuffixOf (a ++ b) = true := by
  rw [List.isSuffixOf_iff_suffix]
  exact List.suffix_append a b

theorem isPrefixOf_append (a b : Bytes) : a.isPrefixOf (a ++ b) = true := by
  rw [List.isPrefixOf_iff_prefix]
  exact List.prefix_append a b

/-- the header loop stops at once when the first line has no `:`. -/
theorem headerLoop_none (X r : Bytes) (ei et : Int) (has : Bool) (n : Nat) (hX : ∀ c ∈ X, c ≠ 58) :
    headerLoop (n + 1) (X ++ 10 :: r) ei et has = some (X ++ 10 :: r, ei, et, has) := by
  have hne : (X ++ 10 :: r).isEmpty = false := by cases X <;> rfl
  have hc : (getLine (X ++ 10 :: r)).1.contains 58 = false := by
    cases hcc : (getLine (X ++ 10 :: r)).1.contains 58 with
    | false => rfl
    | true =>
      rw [List.contains_iff_mem] at hcc
      exact absurd rfl (hX 58 (splitNl_fst_mem X r 58 (getLine_fst_mem _ 58 hcc)))
  unfold headerLoop
  simp only [hne, Bool.false_eq_true, if_false]
  rw [show getLine (X ++ 10 :: r) = ((getLine (X ++ 10 :: r)).1, (getLine (X ++ 10 :: r)).2.1, (getLine (X ++ 10 :: r)).2.2) from rfl]
  simp only [hc, Bool.false_eq_true, if_false]

/-- the END line, the payload and the rest, once the header loop is over. -/
theorem finishBlock_ok (ty body rest bytes : Bytes) (hty10 : ∀ c ∈ ty, c ≠ 10)
    (hbytes : if body.length ≤ 1 then bytes = [] else b64Dec (removeSpTab (body.take (body.length - 1))) = some bytes) :
    finishBlock ty (body ++ pemEnd ++ ty ++ dashes5 ++ [10] ++ rest) ((body.length : Int) - 1) ((body.length : Int) + 9) false =
      some (.block ⟨ty, false, bytes⟩ rest) := by
  have hlen : (body ++ pemEnd ++ ty ++ dashes5 ++ [10] ++ rest).length = body.length + 9 + ty.length + 5 + 1 + rest.length := by
    simp [pemEnd, dashes5]
    omega
  have hdrop : (body ++ pemEnd ++ ty ++ dashes5 ++ [10] ++ rest).drop (body.length + 9) = (ty ++ dashes5) ++ (10 :: rest) := by
    have : body ++ pemEnd ++ ty ++ dashes5 ++ [10] ++ rest = (body ++ pemEnd) ++ ((ty ++ dashes5) ++ (10 :: rest)) := by
      simp [List.append_assoc]
    rw [this, List.drop_left' (by simp [pemEnd])]
  have hdrop2 : (body ++ pemEnd ++ ty ++ dashes5 ++ [10] ++ rest).drop (body.length + 8) =
      ([32] ++ ty ++ [45, 45, 45, 45]) ++ [45] ++ 10 :: rest := by
    have : body ++ pemEnd ++ ty ++ dashes5 ++ [10] ++ rest =
        (body ++ [45, 45, 45, 45, 45, 69, 78, 68]) ++ (([32] ++ ty ++ [45, 45, 45, 45]) ++ [45] ++ 10 :: rest) := by
      simp [List.append_assoc, pemEnd, dashes5]
    rw [this, List.drop_left' (by simp)]
  have htake : (body ++ pemEnd ++ ty ++ dashes5 ++ [10] ++ rest).take body.length = body := by
    simp only [List.append_assoc]
    exact List.take_left' rfl
  unfold finishBlock
  have e1 : ((body.length : Int) + 9).toNat = body.length + 9 := by omega
  have e2 : ((body.length : Int) - 1 + 9).toNat = body.length + 8 := by omega
  simp only [Bool.false_eq_true, false_and, if_false, e1, e2, hdrop, hdrop2]
  rw [if_neg (by rw [hlen]; omega)]
  rw [if_neg (by simp [dashes5])]
  have hl5 : (ty ++ dashes5).length = ty.length + 5 := by simp [dashes5]
  rw [← hl5, List.drop_left' rfl, List.take_left' rfl, isPrefixOf_append, isSuffixOf_append, getLine_empty]
  simp only [Bool.and_self, Bool.not_true, Bool.false_eq_true, if_false, List.isEmpty_nil]
  have hline := getLine_plain ([32] ++ ty ++ [45, 45, 45, 45]) 45 rest
    (by intro c hc
        simp only [List.mem_append, List.mem_singleton] at hc
        rcases hc with (rfl | hc) | hc
        · decide
        · exact hty10 c hc
        · revert c; decide) (by decide) (by decide) (by decide)
  rw [hline]
  by_cases hb : body.length ≤ 1
  · rw [if_pos hb] at hbytes
    rw [if_neg (by omega)]
    simp only [hbytes]
    rw [if_neg (by rw [hlen]; omega)]
  · rw [if_neg hb] at hbytes
    rw [if_pos (by omega)]
    have e3 : ((body.length : Int) - 1).toNat = body.length - 1 := by omega
    have htake2 : (body ++ pemEnd ++ ty ++ dashes5 ++ [10] ++ rest).take (body.length - 1) = body.take (body.length - 1) := by
      simp only [List.append_assoc]
      rw [List.take_append_of_le_length (by omega)]
    rw [e3, htake2, hbytes]
    simp only
    rw [if_neg (by rw [hlen]; omega)]

/-- **One pass of `pem.Decode` over a well-formed block**: type without LF / `-` / `:`, a body without `-` / `:`
that is empty or ends in LF. The payload is whatever base64 makes of the body without its last LF. -/
theorem decodeLoop_block (ty body rest bytes : Bytes) (fuel : Nat) (hty : TypeOK ty)
    (hchars : ∀ c ∈ body, c ≠ 45 ∧ c ≠ 58)
    (hshape : body = [] ∨ ∃ body', body = body' ++ [10])
    (hbytes : if body.length ≤ 1 then bytes = [] else b64Dec (removeSpTab (body.take (body.length - 1))) = some bytes) :
    decodeLoop (fuel + 1) (pemBegin ++ ty ++ dashes5 ++ [10] ++ body ++ pemEnd ++ ty ++ dashes5 ++ [10] ++ rest)
      (pemBegin ++ ty ++ dashes5 ++ [10] ++ body ++ pemEnd ++ ty ++ dashes5 ++ [10] ++ rest) 0 =
      .block ⟨ty, false, bytes⟩ rest := by
  -- the bytes between the type line and the END marker, with the LF that precedes "-----END" moved to the end
  obtain ⟨M, hM, hMnl, hMdb, hMlen⟩ : ∃ M : Bytes, [10] ++ body = M ++ [10] ∧ nlDashFree M = true ∧
      noDashB (dashes5 ++ M) = true ∧ M.length = body.length := by
    rcases hshape with rfl | ⟨body', rfl⟩
    · exact ⟨[], rfl, rfl, by decide, rfl⟩
    · have hb' : ∀ c ∈ body', c ≠ 45 := fun c hc => (hchars c (List.mem_append_left _ hc)).1
      refine ⟨10 :: body', by simp, nlDashFree_of_no_dash 10 body' hb', ?_, by simp⟩
      have : noDashB (10 :: body') = true :=
        noDashB_of_no_dash _ (by intro c hc; simp only [List.mem_cons] at hc; rcases hc with rfl | hc; decide; exact hb' c hc)
      simp only [dashes5, List.cons_append, List.nil_append, noDashB, this]
      decide
  let tail := ty ++ dashes5 ++ [10] ++ rest
  have hdata : pemBegin ++ ty ++ dashes5 ++ [10] ++ body ++ pemEnd ++ ty ++ dashes5 ++ [10] ++ rest =
      (pemBegin ++ ty ++ dashes5 ++ M) ++ pemEndNl ++ tail := by
    have : ∀ X : Bytes, [10] ++ body ++ X = M ++ ([10] ++ X) := by intro X; rw [hM]; simp
    simp only [tail, List.append_assoc]
    rw [← List.append_assoc [10] body, this]
    rfl
  have hty10 : ∀ c ∈ ty, c ≠ 10 := fun c hc => (hty c hc).1
  have hty45 : ∀ c ∈ ty, c ≠ 45 := fun c hc => (hty c hc).2.1
  have hty58 : ∀ c ∈ ty, c ≠ 58 := fun c hc => (hty c hc).2.2
  have hpre10 : ∀ c ∈ pemBegin ++ ty ++ dashes5, c ≠ 10 := by
    intro c hc
    simp only [List.mem_append] at hc
    rcases hc with (hc | hc) | hc
    · revert c; decide
    · exact hty10 c hc
    · revert c; decide
  have hA_nl : nlDashFree (pemBegin ++ ty ++ dashes5 ++ M) = true := nlDashFree_append_of_no_nl _ _ hpre10 hMnl
  have h_index := indexOf_pemEndNl (pemBegin ++ ty ++ dashes5 ++ M) tail hA_nl
  rw [← hdata] at h_index
  have h_take : (pemBegin ++ ty ++ dashes5 ++ [10] ++ body ++ pemEnd ++ ty ++ dashes5 ++ [10] ++ rest).take
      (pemBegin ++ ty ++ dashes5 ++ M).length = pemBegin ++ ty ++ dashes5 ++ M := by
    rw [hdata, List.append_assoc (pemBegin ++ ty ++ dashes5 ++ M) pemEndNl tail, List.take_left' rfl]
  have h_last : lastIndexOf pemBegin (pemBegin ++ ty ++ dashes5 ++ M) = some 0 := by
    have := lastIndexOf_begin (ty ++ (dashes5 ++ M)) (noDashB_append_of_no_dash _ _ hty45 hMdb)
    simpa [List.append_assoc] using this
  have h_drop : (pemBegin ++ ty ++ dashes5 ++ [10] ++ body ++ pemEnd ++ ty ++ dashes5 ++ [10] ++ rest).drop 11 =
      (ty ++ [45, 45, 45, 45]) ++ [45] ++ 10 :: (body ++ pemEnd ++ tail) := by
    simp [pemBegin, dashes5, tail, List.append_assoc]
  have h_line1 := getLine_plain (ty ++ [45, 45, 45, 45]) 45 (body ++ pemEnd ++ tail)
    (by intro c hc
        simp only [List.mem_append] at hc
        rcases hc with hc | hc
        · exact hty10 c hc
        · revert c; decide) (by decide) (by decide) (by decide)
  have hsuf : dashes5.isSuffixOf (ty ++ [45, 45, 45, 45] ++ [45]) = true := by
    have := isSuffixOf_append ty dashes5
    simp [dashes5]
  have htk : (ty ++ [45, 45, 45, 45] ++ [45]).take ((ty ++ [45, 45, 45, 45] ++ [45]).length - 5) = ty := by
    have : (ty ++ [45, 45, 45, 45] ++ [45]).length - 5 = ty.length := by simp
    rw [this, List.append_assoc, List.take_left' rfl]
  have hrest2 : body ++ pemEnd ++ tail = (body ++ pemEnd ++ ty ++ dashes5) ++ 10 :: rest := by
    simp [tail, List.append_assoc]
  have hX58 : ∀ c ∈ body ++ pemEnd ++ ty ++ dashes5, c ≠ 58 := by
    intro c hc
    simp only [List.mem_append] at hc
    rcases hc with ((hc | hc) | hc) | hc
    · exact (hchars c hc).2
    · revert c; decide
    · exact hty58 c hc
    · revert c; decide
  unfold decodeLoop
  simp only [List.drop_zero, Int.toNat_zero, h_index, h_take, h_last, h_drop, h_line1]
  rw [if_neg (by omega)]
  rw [if_neg (by rintro ⟨h, -⟩; omega)]
  simp only [hsuf, Bool.not_true, Bool.false_eq_true, if_false, htk]
  rw [hrest2, headerLoop_none _ _ _ _ _ _ hX58]
  simp only
  have key := finishBlock_ok ty body rest bytes hty10 hbytes
  have hl : body ++ pemEnd ++ ty ++ dashes5 ++ 10 :: rest = body ++ pemEnd ++ ty ++ dashes5 ++ [10] ++ rest := by
    simp [List.append_assoc]
  have hE : ((pemBegin ++ ty ++ dashes5 ++ M).length : Int) - (((0 : Nat) : Int) + 11) -
      (((ty ++ [45, 45, 45, 45]).length + 2 : Nat) : Int) = (body.length : Int) - 1 := by
    simp only [List.length_append, pemBegin, dashes5, List.length_cons, List.length_nil, hMlen]
    omega
  have hT : ((pemBegin ++ ty ++ dashes5 ++ M).length : Int) + 10 - (((0 : Nat) : Int) + 11) -
      (((ty ++ [45, 45, 45, 45]).length + 2 : Nat) : Int) = (body.length : Int) + 9 := by
    simp only [List.length_append, pemBegin, dashes5, List.length_cons, List.length_nil, hMlen]
    omega
  rw [hl, hE, hT, key]

/-- **`pem.Decode ∘ pem.Encode`**: for every block type without LF, `-` and `:`, every payload and every trailing
input, decoding the encoded block followed by the trailing input yields the type, no headers, the payload, and
exactly the trailing input as the rest. -/
theorem pemDecode_pemEncode (ty b rest : Bytes) (hty : TypeOK ty) :
    pemDecode (pemEncode ty b ++ rest) = .block ⟨ty, false, b⟩ rest := by
  have hchars : ∀ c ∈ wrapGo 0 (b64Enc b), c ≠ 45 ∧ c ≠ 58 := by
    intro c hc
    rcases mem_wrapGo _ _ c hc with rfl | hc
    · decide
    · obtain ⟨-, -, h3, h4, -⟩ := b64Enc_plain b c hc
      exact ⟨h3, h4⟩
  have hshape : wrapGo 0 (b64Enc b) = [] ∨ ∃ body', wrapGo 0 (b64Enc b) = body' ++ [10] := by
    rcases wrapGo_last (b64Enc b) 0 (fun _ => rfl) with ⟨-, h⟩ | h
    · exact Or.inl h
    · exact Or.inr h
  have hbytes : if (wrapGo 0 (b64Enc b)).length ≤ 1 then b = []
      else b64Dec (removeSpTab ((wrapGo 0 (b64Enc b)).take ((wrapGo 0 (b64Enc b)).length - 1))) = some b := by
    by_cases hb : b = []
    · subst hb
      simp [b64Enc, wrapGo]
    · have h4 := b64Enc_length_ge b hb
      have h5 := wrapGo_length_ge (b64Enc b) 0
      rw [if_neg (by omega)]
      rcases hshape with h | ⟨body', h⟩
      · rw [h] at h5; simp only [List.length_nil] at h5; omega
      · have hrt := b64Dec_wrap b 0
        rw [h] at hrt ⊢
        have htk : (body' ++ [10]).take ((body' ++ [10]).length - 1) = body' := by
          simp
        rw [htk]
        have hrs : removeSpTab body' = body' := by
          unfold removeSpTab
          rw [List.filter_eq_self]
          intro c hc
          have hm : c ∈ wrapGo 0 (b64Enc b) := by rw [h]; exact List.mem_append_left _ hc
          rcases mem_wrapGo _ _ c hm with rfl | hc'
          · decide
          · obtain ⟨-, -, -, -, h5, h6⟩ := b64Enc_plain b c hc'
            simp [isSpTab, h5, h6]
        rw [hrs]
        unfold b64Dec at hrt ⊢
        rw [List.filter_append] at hrt
        simpa [notCRLF] using hrt
  have := decodeLoop_block ty (wrapGo 0 (b64Enc b)) rest b (pemEncode ty b ++ rest).length hty hchars hshape hbytes
  unfold pemDecode
  have he : pemEncode ty b ++ rest =
      pemBegin ++ ty ++ dashes5 ++ [10] ++ wrapGo 0 (b64Enc b) ++ pemEnd ++ ty ++ dashes5 ++ [10] ++ rest := by
    simp [pemEncode, List.append_assoc]
  rw [he] at this ⊢
  exact this

/-! ### `p == nil`: the whole input is the rest -/

theorem finishBlock_not_noBlock (ty rest : Bytes) (ei et : Int) (has : Bool) (r : Bytes) :
    finishBlock ty rest ei et has ≠ some (.noBlock r) := by
  intro h
  unfold finishBlock at h
  simp only at h
  repeat' split at h
  all_goals first | cases h | (simp only [Option.some.injEq] at h; cases h) | (simp at h)

theorem decodeLoop_noBlock (fuel : Nat) (data rest : Bytes) (eti : Int) (r : Bytes)
    (h : decodeLoop fuel data rest eti = .noBlock r) : r = data := by
  induction fuel generalizing rest eti with
  | zero => unfold decodeLoop at h; cases h; rfl
  | succ n ih =>
    unfold decodeLoop at h
    simp only at h
    repeat' split at h
    all_goals first
      | (cases h; rfl)
      | exact ih _ _ h
      | (subst h; rename_i hf; exact absurd hf (finishBlock_not_noBlock _ _ _ _ _ _))

/-- a certificate whose PEM text reads back as itself, whatever follows. -/
def PemRT (c : Cert) : Prop :=
  ∃ text, marshalPEM c = some text ∧ text ≠ [] ∧ ∀ rest, unmarshalCertificateFromPEM (text ++ rest) = (.ok c, rest)

/-- the concatenation of the PEM texts of a list of certificates. -/
def bundleText : List Cert → Bytes
  | [] => []
  | c :: cs => (marshalPEM c).getD [] ++ bundleText cs

/-- **A bundle reads back certificate by certificate, in order**: `UnmarshalCertificateFromPEM` applied to the rest
again and again returns exactly the certificates whose PEM texts were concatenated. -/
theorem readBundle_bundleText (cs : List Cert) (h : ∀ c ∈ cs, PemRT c) (fuel : Nat) (hf : cs.length < fuel) :
    readBundle fuel (bundleText cs) = (cs, none) := by
  induction cs generalizing fuel with
  | nil =>
    cases fuel with
    | zero => rfl
    | succ n => simp [readBundle, bundleText]
  | cons c cs ih =>
    cases fuel with
    | zero => simp at hf
    | succ n =>
      obtain ⟨text, ht, hne, hrt⟩ := h c (List.mem_cons_self ..)
      have hne' : (text ++ bundleText cs).isEmpty = false := by
        cases text with
        | nil => exact absurd rfl hne
        | cons _ _ => rfl
      simp only [bundleText, ht, Option.getD_some, readBundle, hne', Bool.false_eq_true, if_false, hrt]
      rw [ih (fun x hx => h x (List.mem_cons_of_mem _ hx)) n (by simp at hf; omega)]

end Nebula.Lemmas.CertPemRT
