/-
Lemmas for C17: `lpm` picks an entry of the table, `buildNetworks` only enters what the certificate says, and
the two address checks of `Firewall.Drop` imply the specification's `remoteOK` / `localAddrOK`.
-/
import Nebula.Lemmas.FwRules
namespace Nebula.Lemmas.Fw
open Nebula.Net Nebula.Fw Nebula.Spec.Fw

/-! ### C17: the address checks -/

theorem lpm_fold_inv {α : Type} (a : Addr) (P : Prefix × α → Prop) (l : List (Prefix × α))
    (acc : Option (Prefix × α)) (hacc : ∀ b, acc = some b → P b)
    (hl : ∀ e ∈ l, e.1.contains a = true → P e) :
    ∀ b, l.foldl (fun (acc : Option (Prefix × α)) e =>
        if e.1.contains a then
          match acc with
          | none => some e
          | some b => if b.1.len < e.1.len then some e else acc
        else acc) acc = some b → P b := by
  induction l generalizing acc with
  | nil => simpa using hacc
  | cons e l ih =>
    simp only [List.foldl_cons]
    apply ih
    · intro b hb
      by_cases hc : e.1.contains a = true
      · simp only [hc, if_true] at hb
        cases acc with
        | none => simp at hb; subst hb; exact hl e (by simp) hc
        | some b0 =>
          simp only at hb
          by_cases hlt : b0.1.len < e.1.len
          · simp [hlt] at hb; subst hb; exact hl e (by simp) hc
          · simp [hlt] at hb; subst hb; exact hacc b0 rfl
      · simp only [hc, Bool.false_eq_true, if_false] at hb
        exact hacc b hb
    · intro e' he' hc
      exact hl e' (List.mem_cons_of_mem _ he') hc

theorem lpm_mem {α : Type} (tbl : List (Prefix × α)) (a : Addr) (v : α) (h : lpm tbl a = some v) :
    ∃ e ∈ tbl, e.1.contains a = true ∧ e.2 = v := by
  unfold lpm at h
  simp only [Option.map_eq_some_iff] at h
  obtain ⟨b, hb, hv⟩ := h
  have := lpm_fold_inv a (fun e => e ∈ tbl ∧ e.1.contains a = true) tbl none (by simp)
    (fun e he hc => ⟨he, hc⟩) b hb
  exact ⟨b, this.1, this.2, hv⟩

theorem anyContains_myNets (my : Cert) (a : Addr) :
    anyContains (my.networks.foldl Lite.insert []) a = my.networks.any (·.contains a) := by
  rw [anyContains_foldl_insert]; simp [anyContains]


/-- every entry of the table `buildNetworks` makes is what the certificate says. -/
def netEntryOK (myNets : Lite) (c : Cert) (e : Prefix × NetType) : Prop :=
  (e.2 = .vpn → ∃ n ∈ c.networks, e.1 = hostPrefix n.addr ∧ anyContains myNets n.addr = true)
    ∧ (e.2 = .unsafeNet → e.1 ∈ c.unsafeNetworks)

theorem buildNetworks_inv (myNets : Lite) (c : Cert) (tbl : List (Prefix × NetType))
    (h : buildNetworks myNets c = some tbl) : ∀ e ∈ tbl, netEntryOK myNets c e := by
  unfold buildNetworks at h
  by_cases hs : simpleCase myNets c = true
  · simp [hs] at h
  · simp only [hs, Bool.false_eq_true, if_false, Option.some.injEq] at h
    subst h
    unfold networksTable
    -- first fold: addresses
    have h1 : ∀ (nets : List Prefix) (t0 : List (Prefix × NetType)),
        (∀ n ∈ nets, n ∈ c.networks) → (∀ e ∈ t0, netEntryOK myNets c e) →
        ∀ e ∈ nets.foldl (fun t n => aset samePfx t (hostPrefix n.addr)
            (if anyContains myNets n.addr then NetType.vpn else NetType.vpnPeer)) t0, netEntryOK myNets c e := by
      intro nets
      induction nets with
      | nil => intro t0 _ h0; simpa using h0
      | cons n nets ih =>
        intro t0 hn h0
        simp only [List.foldl_cons]
        apply ih
        · intro n' hn'; exact hn n' (List.mem_cons_of_mem _ hn')
        · intro e he
          rcases mem_aset _ _ _ _ _ he with he | he
          · subst he
            constructor
            · intro hv
              refine ⟨n, hn n (by simp), rfl, ?_⟩
              by_cases hc : anyContains myNets n.addr = true
              · exact hc
              · simp [hc] at hv
            · intro hv
              by_cases hc : anyContains myNets n.addr = true <;> simp [hc] at hv
          · exact h0 e he
    have h2 : ∀ (nets : List Prefix) (t0 : List (Prefix × NetType)),
        (∀ n ∈ nets, n ∈ c.unsafeNetworks) → (∀ e ∈ t0, netEntryOK myNets c e) →
        ∀ e ∈ nets.foldl (fun t n => aset samePfx t n NetType.unsafeNet) t0, netEntryOK myNets c e := by
      intro nets
      induction nets with
      | nil => intro t0 _ h0; simpa using h0
      | cons n nets ih =>
        intro t0 hn h0
        simp only [List.foldl_cons]
        apply ih
        · intro n' hn'; exact hn n' (List.mem_cons_of_mem _ hn')
        · intro e he
          rcases mem_aset _ _ _ _ _ he with he | he
          · subst he
            exact ⟨fun hv => (by cases hv), fun _ => hn n (by simp)⟩
          · exact h0 e he
    exact h2 c.unsafeNetworks _ (fun n hn => hn) (h1 c.networks [] (fun n hn => hn) (by simp))

/-- the remote half of the address check implies the spec's `remoteOK`. -/
theorem addrCheck_remote (routable : Lite) (my peer : Cert) (p : Packet)
    (h : addrCheck routable (hostOf (my.networks.foldl Lite.insert []) peer) p = none) :
    remoteOK my peer p.remoteAddr = true := by
  have h : remoteCheck (hostOf (my.networks.foldl Lite.insert []) peer) p = none := by
    unfold addrCheck at h
    cases hr : remoteCheck (hostOf (my.networks.foldl Lite.insert []) peer) p with
    | none => rfl
    | some v => simp [hr] at h
  unfold remoteCheck hostOf at h
  simp only at h
  cases hb : buildNetworks (my.networks.foldl Lite.insert []) peer with
  | none =>
    simp only [hb] at h
    -- the simple case: exactly one network, inside my networks, no unsafe networks
    have hs : simpleCase (my.networks.foldl Lite.insert []) peer = true := by
      unfold buildNetworks at hb
      by_cases hs : simpleCase (my.networks.foldl Lite.insert []) peer = true
      · exact hs
      · simp [hs] at hb
    unfold simpleCase at hs
    split at hs
    · rename_i n hn hu
      simp only [hn, List.map_cons, List.map_nil] at h
      by_cases ha : n.addr = p.remoteAddr
      · rw [anyContains_myNets, ha] at hs
        simp only [remoteOK, hn, List.any_cons, Bool.or_eq_true]
        left; left
        simp [ha, hs]
      · simp [ha] at h
    · cases hs
  | some tbl =>
    simp only [hb] at h
    cases hl : lpm tbl p.remoteAddr with
    | none => simp [hl] at h
    | some ty =>
      obtain ⟨e, he, hc, hty⟩ := lpm_mem tbl p.remoteAddr ty hl
      have hinv := buildNetworks_inv _ peer tbl hb e he
      cases ty with
      | vpnPeer => simp [hl] at h
      | vpn =>
        obtain ⟨n, hn, hen, hmy⟩ := hinv.1 hty
        rw [hen, hostPrefix_contains] at hc
        have ha : n.addr = p.remoteAddr := by simpa using hc
        rw [anyContains_myNets, ha] at hmy
        simp only [remoteOK, Bool.or_eq_true, List.any_eq_true]
        left
        exact ⟨n, hn, by simp [ha, hmy]⟩
      | unsafeNet =>
        have hu := hinv.2 hty
        simp only [remoteOK, Bool.or_eq_true, List.any_eq_true]
        right
        exact ⟨e.1, hu, hc⟩

theorem anyContains_routable (my : Cert) (a : Addr) :
    anyContains (routableOf my) a = localAddrOK my a := by
  unfold routableOf localAddrOK
  rw [anyContains_foldl_insert]
  have h1 : ∀ (nets : List Prefix) (t : Lite),
      anyContains (nets.foldl (fun t n => Lite.insert t (hostPrefix n.addr)) t) a
        = (anyContains t a || nets.any (fun n => decide (n.addr = a))) := by
    intro nets
    induction nets with
    | nil => simp
    | cons n nets ih =>
      intro t
      simp only [List.foldl_cons, ih, anyContains_insert, hostPrefix_contains, List.any_cons, Bool.or_assoc]
  rw [h1]
  simp [anyContains]

theorem addrCheck_local (my : Cert) (h : Host) (p : Packet)
    (hc : addrCheck (routableOf my) h p = none) : localAddrOK my p.localAddr = true := by
  unfold addrCheck at hc
  split at hc
  · cases hc
  · rw [← anyContains_routable]
    by_cases ha : anyContains (routableOf my) p.localAddr = true
    · exact ha
    · simp [ha] at hc

end Nebula.Lemmas.Fw
