/-
Lemmas for C41: one entry of `tun.routes` / `tun.unsafe_routes` is accepted by the parser model with
result `x` exactly when the specification function yields `x`.
-/
import Nebula.Lemmas.Routes

namespace Nebula.Lemmas.Routes
open Nebula.Net Nebula.Routes Nebula.Spec.Routes

theorem routeEntry_ok (o : Oracle) (nets : List Prefix) (i : Nat) (r : Yaml) (x : Route) :
    routeEntry o nets i r = .ok x ↔ specRoute o nets r = some x := by
  cases r <;> simp only [routeEntry, specRoute] <;> try (simp; done)
  rename_i m
  cases hm : lookup "mtu" m with
  | none => simp
  | some rMtu =>
    simp only [Option.bind_some, numField64]
    cases hs : stated rMtu with
    | none => simp
    | some mtu =>
      simp only
      cases hr : lookup "route" m with
      | none => by_cases hlow : mtu < 500 <;> simp [hlow]
      | some rRoute =>
        simp only [Option.bind_some]
        cases hp : o.parsePrefix (fmtV rRoute) with
        | none => by_cases hlow : mtu < 500 <;> simp [hlow]
        | some cidr =>
          simp only
          by_cases hlow : mtu < 500
          · have : ¬ (500 ≤ mtu) := by omega
            simp [hlow, this]
          · have h500 : 500 ≤ mtu := by omega
            rw [if_neg hlow]
            cases hc : nets.any (fun n => n.contains cidr.addr && decide (n.len ≤ cidr.len))
            · rw [if_neg (by simp), if_neg (by simp)]; simp
            · rw [if_pos rfl, if_pos ⟨h500, rfl⟩]; simp

theorem routeEntry_no_panic (o : Oracle) (nets : List Prefix) (i : Nat) (r : Yaml) :
    routeEntry o nets i r ≠ .panic := by
  unfold routeEntry
  repeat' split
  all_goals simp

theorem gatewayEntry_ok (o : Oracle) (i g : Nat) (v : Yaml) (x : Gateway) :
    gatewayEntry o i g v = .ok x ↔ specGateway o v = some x := by
  cases v <;> simp only [gatewayEntry, specGateway] <;> try (simp; done)
  rename_i gm
  cases hg : lookup "gateway" gm with
  | none => simp
  | some gv =>
    cases gv <;> simp only [] <;> try (simp; done)
    rename_i s
    cases ha : o.parseAddr s with
    | none => simp
    | some ip =>
      simp only
      have hstated : statedOr 1 (lookup "weight" gm) = stated ((lookup "weight" gm).getD (.int 1)) := by
        cases lookup "weight" gm <;> simp [statedOr, stated]
      rw [hstated]
      generalize (lookup "weight" gm).getD (.int 1) = rW
      have key := numField32 rW 1 (by decide)
      cases hn : numField 32 rW with
      | none =>
        simp only
        cases hs : stated rW with
        | none => simp
        | some w =>
          simp only
          by_cases hr : (1 ≤ w ∧ w ≤ 2147483647)
          · have := (key w).mpr ⟨hs, hr⟩; rw [hn] at this; simp at this
          · rw [if_neg hr]; simp
      | some w =>
        simp only
        by_cases hr : (w < 1 ∨ w > maxInt32)
        · rw [if_pos hr]
          cases hs : stated rW with
          | none => simp
          | some w' =>
            simp only
            by_cases hr' : (1 ≤ w' ∧ w' ≤ 2147483647)
            · have := (key w').mpr ⟨hs, hr'⟩
              rw [hn] at this
              have hw : w = w' := by simpa using this.1
              subst hw
              exact absurd hr this.2
            · rw [if_neg hr']; simp
        · rw [if_neg hr]
          have := (key w).mp ⟨hn, hr⟩
          rw [this.1]
          simp only
          rw [if_pos this.2]
          simp

theorem gatewayEntry_no_panic (o : Oracle) (i g : Nat) (v : Yaml) : gatewayEntry o i g v ≠ .panic := by
  unfold gatewayEntry
  repeat' split
  all_goals first | (simp; done) | (simp only []; split <;> (try split) <;> simp)

end Nebula.Lemmas.Routes

namespace Nebula.Lemmas.Routes
open Nebula.Net Nebula.Routes Nebula.Spec.Routes

theorem unsafeMtu_ok (i : Nat) (m : List (String × Yaml)) (x : Int) :
    unsafeMtu i m = .ok x ↔ (statedOr 0 (lookup "mtu" m) = some x ∧ (x = 0 ∨ 500 ≤ x)) := by
  unfold unsafeMtu statedOr
  cases lookup "mtu" m with
  | none => simp only []; constructor
            · intro h; injection h with h; subst h; simp
            · rintro ⟨h, _⟩; injection h with h; subst h; rfl
  | some rMtu =>
    simp only [numField64]
    cases hs : stated rMtu with
    | none => simp
    | some mtu =>
      simp only
      by_cases hc : (mtu ≠ 0 ∧ mtu < 500)
      · rw [if_pos hc]
        constructor
        · intro h; cases h
        · rintro ⟨h, h2⟩; injection h with h; subst h; omega
      · rw [if_neg hc]
        constructor
        · intro h; injection h with h; subst h; exact ⟨rfl, by omega⟩
        · rintro ⟨h, _⟩; injection h with h; subst h; rfl

theorem unsafeMtu_no_panic (i : Nat) (m : List (String × Yaml)) : unsafeMtu i m ≠ .panic := by
  unfold unsafeMtu
  repeat' split
  all_goals simp

theorem unsafeMetric_ok (i : Nat) (m : List (String × Yaml)) (x : Int) :
    unsafeMetric i m = .ok x ↔ (statedOr 0 (lookup "metric" m) = some x ∧ 0 ≤ x ∧ x ≤ 2147483647) := by
  have hstated : statedOr 0 (lookup "metric" m) = stated ((lookup "metric" m).getD (.int 0)) := by
    cases lookup "metric" m <;> simp [statedOr, stated]
  rw [hstated]
  unfold unsafeMetric
  generalize (lookup "metric" m).getD (.int 0) = rM
  have key := numField32 rM 0 (by decide)
  cases hn : numField 32 rM with
  | none =>
    simp only
    constructor
    · intro h; cases h
    · rintro ⟨h1, h2⟩
      have := (key x).mpr ⟨h1, h2⟩
      rw [hn] at this; simp at this
  | some w =>
    simp only
    by_cases hr : (w < 0 ∨ w > maxInt32)
    · rw [if_pos hr]
      constructor
      · intro h; cases h
      · rintro ⟨h1, h2⟩
        have := (key x).mpr ⟨h1, h2⟩
        rw [hn] at this
        have hw : w = x := by simpa using this.1
        subst hw
        exact absurd hr this.2
    · rw [if_neg hr]
      have := (key w).mp ⟨hn, hr⟩
      constructor
      · intro h; injection h with h; subst h; exact this
      · rintro ⟨h1, _⟩
        rw [this.1] at h1; injection h1 with h1; subst h1; rfl

theorem unsafeMetric_no_panic (i : Nat) (m : List (String × Yaml)) : unsafeMetric i m ≠ .panic := by
  unfold unsafeMetric
  repeat' split
  all_goals simp

theorem unsafeVia_ok (o : Oracle) (i : Nat) (v : Yaml) (x : List Gateway) :
    unsafeVia o i v = .ok x ↔ specVia o v = some x := by
  cases v <;> simp only [unsafeVia, specVia] <;> try (simp; done)
  · rename_i s
    cases o.parseAddr s <;> simp
  · exact entries_ok _ _ (gatewayEntry_ok o i) _ _ _

theorem unsafeVia_no_panic (o : Oracle) (i : Nat) (v : Yaml) : unsafeVia o i v ≠ .panic := by
  cases v <;> simp only [unsafeVia] <;> try (simp; done)
  · rename_i s
    cases o.parseAddr s <;> simp
  · exact entries_no_panic _ (gatewayEntry_no_panic o i) _ _

theorem unsafeInstall_ok (i : Nat) (m : List (String × Yaml)) (x : Bool) :
    unsafeInstall i m = .ok x ↔ specInstall (lookup "install" m) = some x := by
  unfold unsafeInstall specInstall
  cases lookup "install" m with
  | none => simp
  | some v => simp only []; cases parseBool (fmtV v) <;> simp

theorem unsafeInstall_no_panic (i : Nat) (m : List (String × Yaml)) : unsafeInstall i m ≠ .panic := by
  unfold unsafeInstall
  repeat' split
  all_goals simp

theorem res_cases2 {α : Type} (r : Res α) (hp : r ≠ .panic) : (∃ x, r = .ok x) ∨ (∃ e, r = .err e) := by
  cases r with
  | ok x => exact Or.inl ⟨x, rfl⟩
  | err e => exact Or.inr ⟨e, rfl⟩
  | panic => exact absurd rfl hp

/-- a `Res` that is not `panic` and whose `ok` results are characterised by an `Option`. -/
theorem res_cases {α : Type} (r : Res α) (g : Option α) (h : ∀ x, r = .ok x ↔ g = some x) (hp : r ≠ .panic) :
    (∃ x, r = .ok x ∧ g = some x) ∨ (∃ e, r = .err e ∧ g = none) := by
  cases r with
  | ok x => exact Or.inl ⟨x, rfl, (h x).mp rfl⟩
  | err e =>
    refine Or.inr ⟨e, rfl, ?_⟩
    cases hg : g with
    | none => rfl
    | some x => have := (h x).mpr hg; cases this
  | panic => exact absurd rfl hp

end Nebula.Lemmas.Routes

namespace Nebula.Lemmas.Routes
open Nebula.Net Nebula.Routes Nebula.Spec.Routes

theorem unsafeEntry_no_panic (o : Oracle) (nets : List Prefix) (i : Nat) (r : Yaml) :
    unsafeEntry o nets i r ≠ .panic := by
  cases r <;> simp only [unsafeEntry] <;> try (simp; done)
  rename_i m
  cases h1 : unsafeMtu i m with
  | panic => exact absurd h1 (unsafeMtu_no_panic i m)
  | err e => simp
  | ok mtu =>
    simp only
    cases h2 : unsafeMetric i m with
    | panic => exact absurd h2 (unsafeMetric_no_panic i m)
    | err e => simp
    | ok metric =>
      simp only
      cases lookup "via" m with
      | none => simp
      | some rVia =>
        simp only
        cases h3 : unsafeVia o i rVia with
        | panic => exact absurd h3 (unsafeVia_no_panic o i rVia)
        | err e => simp
        | ok gws =>
          simp only
          cases lookup "route" m with
          | none => simp
          | some rRoute =>
            simp only
            cases h4 : unsafeInstall i m with
            | panic => exact absurd h4 (unsafeInstall_no_panic i m)
            | err e => simp
            | ok inst =>
              simp only
              cases o.parsePrefix (fmtV rRoute) with
              | none => simp
              | some cidr => simp only; split <;> simp

theorem unsafeEntry_ok (o : Oracle) (nets : List Prefix) (i : Nat) (r : Yaml) (x : Route) :
    unsafeEntry o nets i r = .ok x ↔ specUnsafe o nets r = some x := by
  cases r <;> simp only [unsafeEntry, specUnsafe] <;> try (simp; done)
  rename_i m
  -- characterise each block
  rcases res_cases2 _ (unsafeMtu_no_panic i m) with ⟨mtu, h1⟩ | ⟨e, h1⟩
  · have g1 := (unsafeMtu_ok i m mtu).mp h1
    rcases res_cases2 _ (unsafeMetric_no_panic i m) with ⟨metric, h2⟩ | ⟨e, h2⟩
    · have g2 := (unsafeMetric_ok i m metric).mp h2
      rw [h1, h2]
      simp only
      cases hv : lookup "via" m with
      | none => simp
      | some rVia =>
        simp only [Option.bind_some]
        rcases res_cases _ _ (unsafeVia_ok o i rVia) (unsafeVia_no_panic o i rVia) with ⟨gws, h3, g3⟩ | ⟨e, h3, g3⟩
        · rw [h3, g3]
          simp only
          cases hr : lookup "route" m with
          | none => simp
          | some rRoute =>
            simp only [Option.bind_some]
            rcases res_cases _ _ (unsafeInstall_ok i m) (unsafeInstall_no_panic i m) with ⟨inst, h4, g4⟩ | ⟨e, h4, g4⟩
            · rw [h4, g4, g1.1, g2.1]
              simp only
              cases hp : o.parsePrefix (fmtV rRoute) with
              | none => simp
              | some cidr =>
                simp only
                cases hc : nets.any (fun n => n.contains cidr.addr)
                · rw [if_neg (by simp), if_pos ⟨g1.2, g2.2, rfl⟩]; simp
                · rw [if_pos rfl, if_neg (by simp)]; simp
            · rw [h4, g4]
              simp only
              constructor
              · intro h; cases h
              · intro h; split at h <;> simp_all
        · rw [h3, g3]
          simp only
          constructor
          · intro h; cases h
          · intro h; split at h <;> simp_all
    · -- metric refused: either it states no number, or one out of range
      rw [h1, h2]
      simp only
      constructor
      · intro h; cases h
      · intro h
        split at h
        · rename_i mtu' metric' via' cidr' inst' e1 e2 e3 e4 e5
          split at h
          · rename_i hc
            have := (unsafeMetric_ok i m metric').mpr ⟨e2, hc.2.1⟩
            rw [h2] at this; cases this
          · cases h
        · cases h
  · rw [h1]
    simp only
    constructor
    · intro h; cases h
    · intro h
      split at h
      · rename_i mtu' metric' via' cidr' inst' e1 e2 e3 e4 e5
        split at h
        · rename_i hc
          have := (unsafeMtu_ok i m mtu').mpr ⟨e1, hc.1⟩
          rw [h1] at this; cases this
        · cases h
      · cases h

end Nebula.Lemmas.Routes
