/-
Agreement of the two decoders on ALL byte strings: whenever `UnmarshalPayload` (Model/Payload) and the
schema decoder (Spec/HandshakeSchema) both succeed, they return the same fields.
-/
import Nebula.Lemmas.PayloadEnv

namespace Nebula.Payload
open Nebula.Wire
open Nebula.Spec.HandshakeSchema

theorem cfv_varint_gen (num : Nat) (b : Bytes) :
    consumeFieldValue num VarintType b =
      (match consumeVarint b with | .ok (_, n) => .ok n | .error e => .error e) := by
  rw [consumeFieldValue_nongroup _ _ _ (by decide)]
  unfold fieldValueSwitch
  rw [if_pos rfl]
  rcases consumeVarint b with e | ⟨a, n⟩ <;> rfl

theorem cfv_bytes_gen (num : Nat) (b : Bytes) :
    consumeFieldValue num BytesType b =
      (match consumeBytes b with | .ok (_, n) => .ok n | .error e => .error e) := by
  rw [consumeFieldValue_nongroup _ _ _ (by decide)]
  unfold fieldValueSwitch
  rw [if_neg (by decide), if_neg (by decide), if_neg (by decide), if_pos rfl]
  rcases consumeBytes b with e | ⟨a, n⟩ <;> rfl

theorem fieldTok_bytes_typ {num typ : Nat} {c x : Bytes} {m : Nat}
    (h : fieldTok num typ c = some (.bytes x, m)) : typ = BytesType := by
  unfold fieldTok at h
  split at h
  · split at h <;> simp at h
  · split at h
    · assumption
    · split at h
      · simp at h
      · simp at h
        obtain ⟨h1, _⟩ := h
        split at h1
        · simp at h1
        · split at h1 <;> simp at h1

theorem sliceFrom_some {b c : Bytes} {n : Nat} (h : sliceFrom b n = some c) : c = b.drop n := by
  unfold sliceFrom at h; split at h <;> simp at h; exact h.symm

/-- the interpretation of a record that is not a varint/bytes value of a schema field changes nothing
that `handshake.Payload` keeps. -/
theorem toPayload_apply_other (d : Details) (num : Nat) (v : Val)
    (h : ∀ x, v = .varint x → num ≠ 2 ∧ num ≠ 3 ∧ num ≠ 5 ∧ num ≠ 8) (hb : ∀ x, v = .bytes x → num ≠ 1) :
    toPayload (applyDetails d ⟨num, v⟩) = toPayload d := by
  unfold applyDetails
  split <;> simp_all [toPayload]

theorem detailsField_stop_not_ok (p : Payload) (num typ : Nat) (c : Bytes) (r : PRes) (q : Payload)
    (h : detailsField p num typ c = .stop r) : r ≠ .ok q := by
  have hv : ∀ (l : Bool) (set : Nat → Payload), ofVarintField (varintField typ c l) set = .stop r → r ≠ .ok q := by
    intro l set h
    unfold ofVarintField at h
    split at h <;> simp at h <;> (rw [← h]; simp)
  unfold detailsField at h
  split at h
  · split at h; · simp at h; rw [← h]; simp
    split at h; · simp at h; rw [← h]; simp
    split at h
    · simp at h; rw [← h]; simp
    · simp at h
  · split at h; · exact hv _ _ h
    split at h; · exact hv _ _ h
    split at h; · exact hv _ _ h
    split at h; · exact hv _ _ h
    split at h; · simp at h; rw [← h]; simp
    split at h
    · simp at h; rw [← h]; simp
    · simp at h

/-- a successful varint field of `unmarshalPayloadDetails`. -/
theorem varintField_next {typ : Nat} {c : Bytes} {l : Bool} {set : Nat → Payload} {p1 : Payload} {c1 : Bytes}
    (h : ofVarintField (varintField typ c l) set = .next p1 c1) :
    typ = VarintType ∧ ∃ v m, consumeVarint c = .ok (v, m) ∧ c1 = c.drop m ∧ p1 = set v ∧
      (l = true → v ≤ maxUint32) := by
  unfold ofVarintField at h
  split at h
  · simp at h
  · simp at h
  · rename_i v rest hvf
    simp at h
    obtain ⟨rfl, rfl⟩ := h
    unfold varintField at hvf
    split at hvf; · simp at hvf
    rename_i ht
    split at hvf; · simp at hvf
    rename_i v' m hcv
    split at hvf; · simp at hvf
    rename_i hlim
    split at hvf; · simp at hvf
    rename_i rest' hs
    simp at hvf
    obtain ⟨rfl, rfl⟩ := hvf
    refine ⟨by simpa using ht, v', m, hcv, sliceFrom_some hs, rfl, ?_⟩
    intro hl
    simp [hl] at hlim
    exact hlim

/-- One record: if `unmarshalPayloadDetails` gets past it and the schema tokeniser reads it, they
consumed the same bytes and the payload afterwards is the schema's interpretation. -/
theorem detailsField_agree (d : Details) (num typ : Nat) (c : Bytes) (p1 : Payload) (c1 : Bytes) (v : Val) (m : Nat)
    (h : detailsField (toPayload d) num typ c = .next p1 c1) (ht : fieldTok num typ c = some (v, m)) :
    c1 = c.drop m ∧ p1 = toPayload (applyDetails d ⟨num, v⟩) := by
  -- a varint field of the schema, read by the implementation
  have hvar : ∀ (l : Bool) (set : Nat → Payload),
      ofVarintField (varintField typ c l) set = .next p1 c1 →
      ∃ x, v = .varint x ∧ c1 = c.drop m ∧ p1 = set x ∧ (l = true → x < 2 ^ 32) := by
    intro l set hh
    obtain ⟨hty, x, m', hcv, hc1, hp1, hl⟩ := varintField_next hh
    subst hty
    simp [fieldTok, hcv] at ht
    obtain ⟨rfl, rfl⟩ := ht
    exact ⟨x, rfl, hc1, hp1, fun hl' => by have := hl hl'; unfold maxUint32 at this; omega⟩
  unfold detailsField at h
  simp only [fieldCert, fieldInitiatorIndex, fieldResponderIndex, fieldTime, fieldCertVersion,
    Gen.handshake_fieldCert, Gen.handshake_fieldInitiatorIndex, Gen.handshake_fieldResponderIndex,
    Gen.handshake_fieldTime, Gen.handshake_fieldCertVersion] at h
  by_cases n1 : num = 1
  · -- Cert
    subst n1
    simp only [if_true] at h
    split at h; · simp at h
    rename_i hty
    simp at hty
    subst hty
    split at h; · simp at h
    rename_i x k hcb
    split at h; · simp at h
    rename_i rest hs
    simp at h
    obtain ⟨rfl, rfl⟩ := h
    simp [fieldTok, hcb, BytesType, VarintType] at ht
    obtain ⟨rfl, rfl⟩ := ht
    exact ⟨sliceFrom_some hs, by simp [applyDetails, toPayload]⟩
  · by_cases n2 : num = 2
    · subst n2
      simp only [n1, if_false, if_true] at h
      obtain ⟨x, rfl, hc1, hp1, hl⟩ := hvar _ _ h
      exact ⟨hc1, by rw [hp1]; simp [applyDetails, toPayload, Nat.mod_eq_of_lt (hl rfl)]⟩
    · by_cases n3 : num = 3
      · subst n3
        simp only [n1, n2, if_false, if_true] at h
        obtain ⟨x, rfl, hc1, hp1, hl⟩ := hvar _ _ h
        exact ⟨hc1, by rw [hp1]; simp [applyDetails, toPayload, Nat.mod_eq_of_lt (hl rfl)]⟩
      · by_cases n5 : num = 5
        · subst n5
          simp only [n1, n2, n3, if_false, if_true] at h
          obtain ⟨x, rfl, hc1, hp1, _⟩ := hvar _ _ h
          exact ⟨hc1, by rw [hp1]; simp [applyDetails, toPayload]⟩
        · by_cases n8 : num = 8
          · subst n8
            simp only [n1, n2, n3, n5, if_false, if_true] at h
            obtain ⟨x, rfl, hc1, hp1, hl⟩ := hvar _ _ h
            exact ⟨hc1, by rw [hp1]; simp [applyDetails, toPayload, Nat.mod_eq_of_lt (hl rfl)]⟩
          · -- an unknown field: skipped by both
            simp only [n1, n2, n3, n5, n8, if_false] at h
            split at h; · simp at h
            rename_i k hk
            split at h; · simp at h
            rename_i rest hs
            simp at h
            obtain ⟨rfl, rfl⟩ := h
            have hm : m = k := by
              unfold fieldTok at ht
              split at ht
              · rename_i hty; subst hty
                rw [cfv_varint_gen] at hk
                split at ht
                · simp at ht
                · rename_i x m' hcv
                  rw [hcv] at hk
                  simp at ht hk
                  omega
              · split at ht
                · rename_i hty; subst hty
                  rw [cfv_bytes_gen] at hk
                  split at ht
                  · simp at ht
                  · rename_i x m' hcb
                    rw [hcb] at hk
                    simp at ht hk
                    omega
                · rw [hk] at ht
                  simp at ht
                  exact ht.2.symm
            subst hm
            refine ⟨sliceFrom_some hs, (toPayload_apply_other d num v ?_ ?_).symm⟩
            · intro x _; exact ⟨n2, n3, n5, n8⟩
            · intro x _; exact n1

/-- `unmarshalPayloadDetails` and the schema's reading of a `NebulaHandshakeDetails` agree whenever
both succeed, from any starting point. -/
theorem detailsLoop_agree : ∀ (f f' : Nat) (d : Details) (b : Bytes) (p' : Payload) (ts : List Tok),
    detailsLoop f (toPayload d) b = .ok p' → tokenize f' b = some ts →
    p' = toPayload (ts.foldl applyDetails d) := by
  intro f
  induction f with
  | zero => intro f' d b p' ts h; simp [detailsLoop] at h
  | succ f ih =>
    intro f' d b p' ts h ht
    cases f' with
    | zero => simp [tokenize] at ht
    | succ f' =>
      unfold detailsLoop at h
      unfold tokenize at ht
      by_cases hb : b.length = 0
      · have hbe : b.isEmpty = true := by
          cases b with
          | nil => rfl
          | cons a as => simp at hb
        simp only [hb, if_true] at h
        simp only [hbe, if_true] at ht
        simp at h ht
        subst h ht
        rfl
      · have hbe : b.isEmpty = false := by
          cases b with
          | nil => simp at hb
          | cons a as => rfl
        simp only [hb, if_false] at h
        simp only [hbe, Bool.false_eq_true, if_false] at ht
        split at h; · simp at h
        rename_i num typ n htag
        rw [htag] at ht
        simp only at ht
        split at ht; · simp at ht
        split at h; · simp at h
        rename_i c hs
        have hc := sliceFrom_some hs
        subst hc
        split at ht; · simp at ht
        rename_i v m hft
        split at h
        · rename_i r hstop
          exact absurd h (detailsField_stop_not_ok _ _ _ _ _ _ hstop)
        · rename_i p1 c1 hnext
          obtain ⟨hc1, hp1⟩ := detailsField_agree d num typ _ p1 c1 v m hnext hft
          subst hc1 hp1
          cases hrest : tokenize f' (List.drop m (List.drop n b)) with
          | none => rw [hrest] at ht; simp at ht
          | some ts' =>
            rw [hrest] at ht
            simp at ht
            subst ht
            exact ih f' _ _ _ ts' h hrest

theorem foldl_applyMsg_none (ts : List Tok) : ts.foldl applyMsg none = none := by
  induction ts with
  | nil => rfl
  | cons t ts ih => simpa [applyMsg] using ih

theorem payloadField_stop_not_ok (p : Payload) (num typ : Nat) (c : Bytes) (r : PRes) (q : Payload)
    (h : payloadField p num typ c = .stop r) : r ≠ .ok q := by
  unfold payloadField at h
  split at h
  · split at h; · simp at h; rw [← h]; simp
    split at h; · simp at h; rw [← h]; simp
    split at h
    · simp at h
    · rename_i r' hne
      simp at h
      rw [← h]
      intro hq
      exact hne q hq
  · split at h; · simp at h; rw [← h]; simp
    split at h
    · simp at h; rw [← h]; simp
    · simp at h

/-- The outer `NebulaHandshake` level: `UnmarshalPayload` and the schema decoder agree whenever both
succeed (repeated `Details` occurrences merge in both; `Hmac` and unknown fields are skipped by both). -/
theorem payloadLoop_agree : ∀ (f f' : Nat) (m0 : Msg) (b : Bytes) (p' : Payload) (ts : List Tok) (m : Msg),
    payloadLoop f (toPayload m0.details) b = .ok p' → tokenize f' b = some ts →
    ts.foldl applyMsg (some m0) = some m → p' = toPayload m.details := by
  intro f
  induction f with
  | zero => intro f' m0 b p' ts m h; simp [payloadLoop] at h
  | succ f ih =>
    intro f' m0 b p' ts m h ht hm
    cases f' with
    | zero => simp [tokenize] at ht
    | succ f' =>
      unfold payloadLoop at h
      unfold tokenize at ht
      by_cases hb : b.length = 0
      · have hbe : b.isEmpty = true := by
          cases b with
          | nil => rfl
          | cons a as => simp at hb
        simp only [hb, if_true] at h
        simp only [hbe, if_true] at ht
        simp at h ht
        subst h ht
        simp at hm
        rw [hm]
      · have hbe : b.isEmpty = false := by
          cases b with
          | nil => simp at hb
          | cons a as => rfl
        simp only [hb, if_false] at h
        simp only [hbe, Bool.false_eq_true, if_false] at ht
        split at h; · simp at h
        rename_i num typ n htag
        rw [htag] at ht
        simp only at ht
        split at ht; · simp at ht
        split at h; · simp at h
        rename_i c hs
        have hc := sliceFrom_some hs
        subst hc
        split at ht; · simp at ht
        rename_i v k hft
        cases hrest : tokenize f' (List.drop k (List.drop n b)) with
        | none => rw [hrest] at ht; simp at ht
        | some ts' =>
          rw [hrest] at ht
          simp at ht
          subst ht
          simp only [List.foldl_cons] at hm
          split at h
          · rename_i r hstop
            exact absurd h (payloadField_stop_not_ok _ _ _ _ _ _ hstop)
          · rename_i p1 c1 hnext
            unfold payloadField at hnext
            split at hnext
            · -- a Details occurrence
              rename_i hd
              obtain ⟨rfl, rfl⟩ := hd
              split at hnext; · simp at hnext
              rename_i det k' hcb
              split at hnext; · simp at hnext
              rename_i rest hs2
              have hft' : fieldTok 1 BytesType (List.drop n b) = some (.bytes det, k') := by
                simp [fieldTok, hcb, BytesType, VarintType]
              rw [hft'] at hft
              simp at hft
              obtain ⟨rfl, rfl⟩ := hft
              have hrest2 := sliceFrom_some hs2
              subst hrest2
              split at hnext
              · rename_i pd hdet
                simp at hnext
                obtain ⟨rfl, rfl⟩ := hnext
                -- the schema merges the occurrence into the details read so far
                cases htd : tokenize (det.length + 1) det with
                | none =>
                  simp [applyMsg, htd] at hm
                  rw [foldl_applyMsg_none] at hm
                  simp at hm
                | some dts =>
                  simp only [applyMsg, htd] at hm
                  have hpd := detailsLoop_agree _ _ m0.details det pd dts hdet htd
                  refine ih f' { m0 with hasDetails := true, details := dts.foldl applyDetails m0.details } _ p' ts' m ?_ hrest hm
                  simp only
                  rw [← hpd]
                  simpa [List.drop_drop, Nat.add_comm] using h
              · simp at hnext
            · -- anything else is skipped by both
              rename_i hd
              split at hnext; · simp at hnext
              rename_i k' hk
              split at hnext; · simp at hnext
              rename_i rest hs2
              simp at hnext
              obtain ⟨rfl, rfl⟩ := hnext
              have hrest2 := sliceFrom_some hs2
              subst hrest2
              have hkk : k = k' := by
                unfold fieldTok at hft
                split at hft
                · rename_i hty; subst hty
                  rw [cfv_varint_gen] at hk
                  split at hft
                  · simp at hft
                  · rename_i x m' hcv
                    rw [hcv] at hk
                    simp at hft hk
                    omega
                · split at hft
                  · rename_i hty; subst hty
                    rw [cfv_bytes_gen] at hk
                    split at hft
                    · simp at hft
                    · rename_i x m' hcb
                      rw [hcb] at hk
                      simp at hft hk
                      omega
                  · rw [hk] at hft
                    simp at hft
                    exact hft.2.symm
              subst hkk
              -- the schema's interpretation of this record leaves Details alone
              have hsame : ∃ m1, applyMsg (some m0) ⟨num, v⟩ = some m1 ∧ m1.details = m0.details := by
                cases v with
                | bytes x =>
                  have hty := fieldTok_bytes_typ hft
                  have hn1 : num ≠ 1 := fun hn => hd ⟨hn, hty⟩
                  by_cases hn2 : num = 2
                  · subst hn2; exact ⟨{ m0 with hmac := x }, by simp [applyMsg], rfl⟩
                  · refine ⟨m0, ?_, rfl⟩; unfold applyMsg; simp only; split <;> simp_all
                | varint x => refine ⟨m0, ?_, rfl⟩; unfold applyMsg; simp only
                | fixed32 x => refine ⟨m0, ?_, rfl⟩; unfold applyMsg; simp only
                | fixed64 x => refine ⟨m0, ?_, rfl⟩; unfold applyMsg; simp only
                | group => refine ⟨m0, ?_, rfl⟩; unfold applyMsg; simp only
              obtain ⟨m1, hm1, hd1⟩ := hsame
              rw [hm1] at hm
              refine ih f' m1 _ p' ts' m ?_ hrest hm
              rw [hd1]
              exact h

end Nebula.Payload
