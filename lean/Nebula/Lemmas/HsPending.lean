/-
Invariant of the pending side of a node over all histories (C32):
  * every pending handshake owns exactly ONE timer entry (in the wheel, or among the entries Advance just
    handed out and the tick loop has not processed yet), tagged with its identity and filed under its address,
  * timer entries tagged with anything else are stale and ignored,
  * every pending handshake's queue is the first maxCachedPackets packets offered to it, in order.
-/
import Nebula.Lemmas.HsWheel
import Nebula.Lemmas.HsManager

namespace Nebula.Lemmas.HsPending
open Nebula.HsManager Nebula.Lemmas.HsWheel Nebula.Lemmas.HsManager Nebula.Gen

/-! ### association-list facts -/

theorem mem_of_alookup {α : Type} {k : Nat} {l : List (Nat × α)} {v : α} (h : alookup k l = some v) : (k, v) ∈ l := by
  unfold alookup at h
  cases hf : l.find? (fun p => p.1 == k) with
  | none => simp [hf] at h
  | some x =>
    simp [hf] at h
    have hm := List.mem_of_find?_eq_some hf
    have hp := List.find?_some hf
    simp at hp
    cases x; simp_all

theorem alookup_of_mem {α : Type} {k : Nat} {l : List (Nat × α)} {v : α} (nd : (l.map (·.1)).Nodup)
    (h : (k, v) ∈ l) : alookup k l = some v := by
  induction l with
  | nil => simp at h
  | cons x xs ih =>
    rw [alookup_cons]
    simp only [List.map_cons, List.nodup_cons] at nd
    rcases List.mem_cons.mp h with e | e
    · subst e; simp
    · have : x.1 ≠ k := by
        intro hx; apply nd.1; rw [hx]; exact List.mem_map.mpr ⟨(k, v), e, rfl⟩
      simp [this, ih nd.2 e]

theorem mem_aerase {α : Type} {k : Nat} {l : List (Nat × α)} {x : Nat × α} (h : x ∈ aerase k l) : x ∈ l ∧ x.1 ≠ k := by
  unfold aerase at h
  have := List.mem_filter.mp h
  exact ⟨this.1, by simpa using this.2⟩

theorem aerase_sublist {α : Type} (k : Nat) (l : List (Nat × α)) : (aerase k l).Sublist l := List.filter_sublist

/-! ### the invariant -/

structure PInvE (p : PSide) (E : List TimerItem) : Prop where
  wf : WF p.wheel
  keys : ∀ a hh, (a, hh) ∈ p.vpnIps → hh.vpnAddr = a
  ndKeys : (p.vpnIps.map (·.1)).Nodup
  ndIds : (p.vpnIps.map (·.2.id)).Nodup
  idsLt : ∀ a hh, (a, hh) ∈ p.vpnIps → hh.id < p.nextObj
  tLt : ∀ it, (it ∈ p.wheel.slots.flatten ∨ it ∈ E) → it.2 < p.nextObj
  tAddr : ∀ a hh it, (a, hh) ∈ p.vpnIps → (it ∈ p.wheel.slots.flatten ∨ it ∈ E) → it.2 = hh.id → it.1 = a
  one : ∀ a hh, (a, hh) ∈ p.vpnIps → cnt p.wheel hh.id + cntL E hh.id = 1
  fifo : ∀ a hh, (a, hh) ∈ p.vpnIps → hh.store = hh.offered.take hsm_maxCachedPackets

abbrev PInv (p : PSide) : Prop := PInvE p []

theorem cntS_flatten (slots : List (List TimerItem)) (id : Nat) : cntS slots id = cntL slots.flatten id := by
  induction slots with
  | nil => rfl
  | cons s ss ih => simp only [cntS, List.map_cons, List.sum_cons, List.flatten_cons, cntL_append] at ih ⊢; rw [← ih]

theorem cntL_zero (l : List TimerItem) (id : Nat) (h : ∀ it ∈ l, it.2 ≠ id) : cntL l id = 0 := by
  unfold cntL
  rw [List.length_eq_zero_iff, List.filter_eq_nil_iff]
  intro it hm; simpa using h it hm

theorem cnt_zero (w : Wheel) (id : Nat) (h : ∀ it ∈ w.slots.flatten, it.2 ≠ id) : cnt w id = 0 := by
  unfold cnt; rw [cntS_flatten]; exact cntL_zero _ _ h

theorem cntL_cons (it : TimerItem) (l : List TimerItem) (id : Nat) :
    cntL (it :: l) id = (if it.2 = id then 1 else 0) + cntL l id := by
  have := cntL_append [it] l id
  simp only [List.singleton_append] at this
  rw [this, cntL_single]

/-- fields other than the pending table, the wheel and the allocation counter do not matter; the counter may grow -/
theorem PInvE.congr {p p' : PSide} {E : List TimerItem} (h : PInvE p E) (hv : p'.vpnIps = p.vpnIps)
    (hw : p'.wheel = p.wheel) (hn : p.nextObj ≤ p'.nextObj) : PInvE p' E := by
  obtain ⟨a, b, c, d, e, f, g, i, j⟩ := h
  refine ⟨hw ▸ a, hv ▸ b, hv ▸ c, hv ▸ d, ?_, ?_, ?_, ?_, hv ▸ j⟩
  · intro x hh hm; rw [hv] at hm; have := e x hh hm; omega
  · intro it hm; rw [hw] at hm; have := f it hm; omega
  · intro x hh it hm hi; rw [hv] at hm; rw [hw] at hi; exact g x hh it hm hi
  · intro x hh hm; rw [hv] at hm; rw [hw]; exact i x hh hm

theorem nodup_map_inj {α β : Type} (f : α → β) (l : List α) (nd : (l.map f).Nodup) {x y : α}
    (hx : x ∈ l) (hy : y ∈ l) (e : f x = f y) : x = y := by
  induction l with
  | nil => simp at hx
  | cons z zs ih =>
    simp only [List.map_cons, List.nodup_cons] at nd
    rcases List.mem_cons.mp hx with ex | ex <;> rcases List.mem_cons.mp hy with ey | ey
    · rw [ex, ey]
    · exfalso; apply nd.1; rw [← ex, e]; exact List.mem_map.mpr ⟨y, ey, rfl⟩
    · exfalso; apply nd.1; rw [← ey, ← e]; exact List.mem_map.mpr ⟨x, ex, rfl⟩
    · exact ih nd.2 ex ey

/-- same id ⇒ same entry -/
theorem same_of_id {p : PSide} {E : List TimerItem} (h : PInvE p E) {a a' : Addr} {hh hh' : Pending}
    (h1 : (a, hh) ∈ p.vpnIps) (h2 : (a', hh') ∈ p.vpnIps) (hid : hh.id = hh'.id) : a = a' ∧ hh = hh' := by
  have := nodup_map_inj (fun x : Nat × Pending => x.2.id) _ h.ndIds h1 h2 hid
  simpa using this

/-- membership after setPending -/
theorem mem_setPending {p : PSide} {q : Pending} {a : Addr} {h : Pending} (hm : (a, h) ∈ (p.setPending q).vpnIps) :
    ((a, h) ∈ p.vpnIps ∧ h.id ≠ q.id) ∨ (h = q ∧ ∃ h0, (a, h0) ∈ p.vpnIps ∧ h0.id = q.id) := by
  unfold PSide.setPending at hm
  simp only [List.mem_map] at hm
  obtain ⟨x, hx, e⟩ := hm
  by_cases hi : x.2.id = q.id
  · have hi' : (x.2.id == q.id) = true := by simp [hi]
    simp only [hi', if_true, Prod.mk.injEq] at e
    right; exact ⟨e.2.symm, x.2, by rw [← e.1]; exact hx, hi⟩
  · have hi' : (x.2.id == q.id) = false := by simp [hi]
    simp only [hi', Bool.false_eq_true, if_false] at e
    left; subst e; exact ⟨hx, hi⟩

theorem setPending_keys (p : PSide) (q : Pending) : (p.setPending q).vpnIps.map (·.1) = p.vpnIps.map (·.1) := by
  unfold PSide.setPending
  simp only [List.map_map]
  apply List.map_congr_left
  intro x _
  simp only [Function.comp]
  split <;> rfl

theorem setPending_ids (p : PSide) (q : Pending) : (p.setPending q).vpnIps.map (·.2.id) = p.vpnIps.map (·.2.id) := by
  unfold PSide.setPending
  simp only [List.map_map]
  apply List.map_congr_left
  intro x _
  simp only [Function.comp]
  split
  · rename_i h; have h' : x.2.id = q.id := by simpa using h
    exact h'.symm
  · rfl

/-- replacing a pending record by one with the same identity, address and a well-formed queue -/
theorem PInvE.setPending {p : PSide} {E : List TimerItem} (h : PInvE p E) {a0 : Addr} {h0 q : Pending}
    (hm0 : (a0, h0) ∈ p.vpnIps) (hid : q.id = h0.id) (hva : q.vpnAddr = h0.vpnAddr)
    (hq : q.store = q.offered.take hsm_maxCachedPackets) : PInvE (p.setPending q) E := by
  have key : ∀ a hh, (a, hh) ∈ (p.setPending q).vpnIps → ∃ hh', (a, hh') ∈ p.vpnIps ∧ hh'.id = hh.id ∧
      hh'.vpnAddr = hh.vpnAddr ∧ hh.store = hh.offered.take hsm_maxCachedPackets := by
    intro a hh hm
    rcases mem_setPending hm with ⟨h1, _⟩ | ⟨e, h1, hm1, hi1⟩
    · exact ⟨hh, h1, rfl, rfl, h.fifo a hh h1⟩
    · subst e
      have := same_of_id h hm1 hm0 (by rw [hi1, hid])
      refine ⟨h1, hm1, hi1, ?_, hq⟩
      rw [this.2, hva]
  refine ⟨h.wf, ?_, ?_, ?_, ?_, h.tLt, ?_, ?_, ?_⟩
  · intro a hh hm; obtain ⟨hh', m, _, e, _⟩ := key a hh hm; rw [← e]; exact h.keys a hh' m
  · rw [setPending_keys]; exact h.ndKeys
  · rw [setPending_ids]; exact h.ndIds
  · intro a hh hm; obtain ⟨hh', m, e, _, _⟩ := key a hh hm; rw [← e]; exact h.idsLt a hh' m
  · intro a hh it hm hi hit; obtain ⟨hh', m, e, _, _⟩ := key a hh hm; exact h.tAddr a hh' it m hi (by rw [e]; exact hit)
  · intro a hh hm; obtain ⟨hh', m, e, _, _⟩ := key a hh hm; rw [← e]; exact h.one a hh' m
  · intro a hh hm; obtain ⟨_, _, _, _, e⟩ := key a hh hm; exact e

/-- deletePending only removes entries -/
theorem deletePending_sublist (p : PSide) (hh : Pending) : (p.deletePending hh).vpnIps.Sublist p.vpnIps := by
  unfold PSide.deletePending
  dsimp only
  split
  · split
    · exact aerase_sublist _ _
    · exact List.Sublist.refl _
  · exact List.Sublist.refl _

theorem PInvE.sub {p p' : PSide} {E : List TimerItem} (h : PInvE p E) (hs : p'.vpnIps.Sublist p.vpnIps)
    (hw : p'.wheel = p.wheel) (hn : p'.nextObj = p.nextObj) : PInvE p' E := by
  have sub : ∀ x, x ∈ p'.vpnIps → x ∈ p.vpnIps := fun x hx => hs.subset hx
  refine ⟨hw ▸ h.wf, fun a hh hm => h.keys a hh (sub _ hm), (hs.map _).nodup h.ndKeys, (hs.map _).nodup h.ndIds,
    fun a hh hm => hn ▸ h.idsLt a hh (sub _ hm), fun it hm => hn ▸ h.tLt it (hw ▸ hm),
    fun a hh it hm hi => h.tAddr a hh it (sub _ hm) (hw ▸ hi), fun a hh hm => hw ▸ h.one a hh (sub _ hm),
    fun a hh hm => h.fifo a hh (sub _ hm)⟩

theorem PInvE.deletePending {p : PSide} {E : List TimerItem} (h : PInvE p E) (hh : Pending) :
    PInvE (p.deletePending hh) E := h.sub (deletePending_sublist p hh) rfl rfl

/-- after deleting the pending handshake found under its address, no entry carries its identity -/
theorem deletePending_gone {p : PSide} {E : List TimerItem} (h : PInvE p E) {a : Addr} {hh : Pending}
    (hm : (a, hh) ∈ p.vpnIps) : ∀ a' h', (a', h') ∈ (p.deletePending hh).vpnIps → h'.id ≠ hh.id := by
  intro a' h' hm' hid
  have hk := h.keys a hh hm
  have hl : alookup hh.vpnAddr p.vpnIps = some hh := by rw [hk]; exact alookup_of_mem h.ndKeys hm
  unfold PSide.deletePending at hm'
  simp only [hl, beq_self_eq_true, if_true] at hm'
  have := mem_aerase hm'
  have s := same_of_id h this.1 hm hid
  exact this.2 (by rw [hk]; exact s.1)

/-- dropping a handed-out timer entry that belongs to no pending handshake -/
theorem PInvE.drop {p : PSide} {it : TimerItem} {E : List TimerItem} (h : PInvE p (it :: E))
    (hs : ∀ a hh, (a, hh) ∈ p.vpnIps → hh.id ≠ it.2) : PInvE p E := by
  refine ⟨h.wf, h.keys, h.ndKeys, h.ndIds, h.idsLt, ?_, ?_, ?_, h.fifo⟩
  · intro x hx; exact h.tLt x (hx.imp id (List.mem_cons_of_mem _))
  · intro a hh x hm hx; exact h.tAddr a hh x hm (hx.imp id (List.mem_cons_of_mem _))
  · intro a hh hm
    have := h.one a hh hm
    rw [cntL_cons] at this
    have : ¬ it.2 = hh.id := fun e => hs a hh hm e.symm
    simp only [this, if_false] at *
    omega

/-- the timer firing of pending handshake `hh` re-arms its one entry -/
theorem PInvE.rearm {p : PSide} {E : List TimerItem} {a : Addr} {hh : Pending} (h : PInvE p ((a, hh.id) :: E))
    (hm : (a, hh) ∈ p.vpnIps) (t : Int) : PInvE { p with wheel := p.wheel.add (a, hh.id) t } E := by
  refine ⟨add_wf _ h.wf _ _, h.keys, h.ndKeys, h.ndIds, h.idsLt, ?_, ?_, ?_, h.fifo⟩
  · intro x hx
    rcases hx with hx | hx
    · rcases add_mem _ _ _ _ hx with h1 | h1
      · exact h.tLt x (Or.inl h1)
      · subst h1; exact h.idsLt a hh hm
    · exact h.tLt x (Or.inr (List.mem_cons_of_mem _ hx))
  · intro a' hh' x hm' hx hid
    rcases hx with hx | hx
    · rcases add_mem _ _ _ _ hx with h1 | h1
      · exact h.tAddr a' hh' x hm' (Or.inl h1) hid
      · subst h1; exact (same_of_id h hm hm' hid).1
    · exact h.tAddr a' hh' x hm' (Or.inr (List.mem_cons_of_mem _ hx)) hid
  · intro a' hh' hm'
    have := h.one a' hh' hm'
    rw [cntL_cons] at this
    show cnt (p.wheel.add (a, hh.id) t) hh'.id + cntL E hh'.id = 1
    rw [add_cnt _ h.wf]
    dsimp only at this ⊢
    omega

theorem aerase_none {α : Type} {k : Nat} {l : List (Nat × α)} (h : alookup k l = none) : aerase k l = l := by
  induction l with
  | nil => rfl
  | cons x xs ih =>
    rw [alookup_cons] at h
    by_cases hx : x.1 = k
    · simp [hx] at h
    · simp only [hx, if_false] at h
      unfold aerase at ih ⊢
      simp only [List.filter_cons]
      have : (x.1 != k) = true := by simp [hx]
      simp [this, ih h]

theorem not_key_of_alookup_none {α : Type} {k : Nat} {l : List (Nat × α)} (h : alookup k l = none) :
    k ∉ l.map (·.1) := by
  induction l with
  | nil => simp
  | cons x xs ih =>
    rw [alookup_cons] at h
    by_cases hx : x.1 = k
    · simp [hx] at h
    · simp only [hx, if_false] at h
      simp only [List.map_cons, List.mem_cons, not_or]
      exact ⟨fun e => hx e.symm, ih h⟩

/-- StartHandshake for an address without a pending entry: a new record (fresh identity) and its first timer entry -/
theorem PInvE.start {p : PSide} {E : List TimerItem} (h : PInvE p E) (c : Cfg) (a : Addr) (q : Pending)
    (hl : alookup a p.vpnIps = none) (hid : q.id = p.nextObj) (hva : q.vpnAddr = a)
    (hq : q.store = q.offered.take hsm_maxCachedPackets) (t : Int) :
    PInvE { p with nextObj := p.nextObj + 1, vpnIps := ainsert a q p.vpnIps, wheel := p.wheel.add (a, p.nextObj) t } E := by
  have hv : ainsert a q p.vpnIps = (a, q) :: p.vpnIps := by unfold ainsert; rw [aerase_none hl]
  have mem : ∀ a' hh', (a', hh') ∈ (a, q) :: p.vpnIps → (a' = a ∧ hh' = q) ∨ (a', hh') ∈ p.vpnIps := by
    intro a' hh' hm; rcases List.mem_cons.mp hm with e | e
    · left; simpa using e
    · right; exact e
  have hE : ∀ it ∈ E, it.2 ≠ p.nextObj := fun it hi e => by have := h.tLt it (Or.inr hi); omega
  have hW : ∀ it ∈ p.wheel.slots.flatten, it.2 ≠ p.nextObj := fun it hi e => by have := h.tLt it (Or.inl hi); omega
  rw [hv]
  refine ⟨add_wf _ h.wf _ _, ?_, ?_, ?_, ?_, ?_, ?_, ?_, ?_⟩
  · intro a' hh' hm; rcases mem a' hh' hm with ⟨e1, e2⟩ | hm'
    · rw [e1, e2]; exact hva
    · exact h.keys a' hh' hm'
  · simp only [List.map_cons, List.nodup_cons]; exact ⟨not_key_of_alookup_none hl, h.ndKeys⟩
  · simp only [List.map_cons, List.nodup_cons]
    refine ⟨?_, h.ndIds⟩
    intro hm
    obtain ⟨x, hx, e⟩ := List.mem_map.mp hm
    have := h.idsLt x.1 x.2 hx
    rw [hid] at e; omega
  · intro a' hh' hm; rcases mem a' hh' hm with ⟨e1, e2⟩ | hm'
    · rw [e2, hid]; show p.nextObj < p.nextObj + 1; omega
    · have := h.idsLt a' hh' hm'; show hh'.id < p.nextObj + 1; omega
  · intro it hi
    show it.2 < p.nextObj + 1
    rcases hi with hi | hi
    · rcases add_mem _ _ _ _ hi with h1 | h1
      · have := h.tLt it (Or.inl h1); omega
      · subst h1; show p.nextObj < p.nextObj + 1; omega
    · have := h.tLt it (Or.inr hi); omega
  · intro a' hh' it hm hi hit
    rcases mem a' hh' hm with ⟨e1, e2⟩ | hm'
    · rcases hi with hi | hi
      · rcases add_mem _ _ _ _ hi with h1 | h1
        · exfalso; rw [e2, hid] at hit; exact hW it h1 hit
        · rw [h1, e1]
      · exfalso; rw [e2, hid] at hit; exact hE it hi hit
    · rcases hi with hi | hi
      · rcases add_mem _ _ _ _ hi with h1 | h1
        · exact h.tAddr a' hh' it hm' (Or.inl h1) hit
        · exfalso; rw [h1] at hit; have := h.idsLt a' hh' hm'; simp at hit; omega
      · exact h.tAddr a' hh' it hm' (Or.inr hi) hit
  · intro a' hh' hm
    show cnt (p.wheel.add (a, p.nextObj) t) hh'.id + cntL E hh'.id = 1
    rw [add_cnt _ h.wf]
    rcases mem a' hh' hm with ⟨e1, e2⟩ | hm'
    · rw [e2, hid, cnt_zero _ _ hW, cntL_zero _ _ hE]; simp
    · have := h.one a' hh' hm'
      have : ¬ p.nextObj = hh'.id := by have := h.idsLt a' hh' hm'; omega
      simp only [this, if_false]; omega
  · intro a' hh' hm; rcases mem a' hh' hm with ⟨e1, e2⟩ | hm'
    · rw [e2]; exact hq
    · exact h.fifo a' hh' hm'

/-- cachePacket keeps "queue = first maxCachedPackets offered packets" -/
theorem cache_fifo (hh : Pending) (q : Cached) (h : hh.store = hh.offered.take hsm_maxCachedPackets) :
    (hh.cache q).store = (hh.cache q).offered.take hsm_maxCachedPackets := by
  unfold Pending.cache
  have hlen : hh.store.length = min hsm_maxCachedPackets hh.offered.length := by rw [h]; simp
  split
  · rename_i hlt
    have : hh.offered.length < hsm_maxCachedPackets := by omega
    dsimp only
    rw [List.take_of_length_le (by simp; omega)]
    rw [h, List.take_of_length_le (by omega)]
  · rename_i hge
    have : hsm_maxCachedPackets ≤ hh.offered.length := by omega
    dsimp only
    rw [List.take_append_of_le_length this]; exact h

theorem cache_id (hh : Pending) (q : Cached) : (hh.cache q).id = hh.id ∧ (hh.cache q).vpnAddr = hh.vpnAddr := by
  unfold Pending.cache; split <;> exact ⟨rfl, rfl⟩

end Nebula.Lemmas.HsPending
