/-
Small facts about the extended symbolic network (Model/HsNetVia.lean) used by Props/C09.
-/
import Nebula.Model.HsNetVia

namespace Nebula.Lemmas.HsManager
open Nebula.HsManager Nebula.HsNet

theorem toOut_toX (o : Out) : o.toX.toOut = o := by
  cases o with
  | mk tx made flushed =>
    simp only [Out.toX, OutX.toOut, List.map_map]
    congr 1
    induction tx with
    | nil => rfl
    | cons t ts ih => simp only [List.map_cons, Function.comp_apply, ih]

theorem unrestricted_unknown (u : UNode) : (AllowCfg.toList {}).unknown u = true := rfl
theorem unrestricted_all (addrs : List Addr) (u : UNode) : (AllowCfg.toList {}).all addrs u = true := by
  simp [AllowList.all, AllowCfg.toList, alookup]

end Nebula.Lemmas.HsManager
