/-
Helper lemmas for C01 / C04: the loops of `checkCAConstraints` compute the quantified constraint relation
of `Spec/Trust.lean`; the executable form of the trust rule used by the driver equals the rule.
-/
import Nebula.Spec.Trust

namespace Nebula.Lemmas.Trust
open Nebula.Net Nebula.Cert Nebula.Spec.Trust

theorem fam_beq (a b : Fam) : (a == b) = true ↔ a = b := by
  cases a <;> cases b <;> decide

theorem contains_fam {m : Prefix} {a : Addr} (h : m.contains a = true) :
    m.addr.fam = a.fam ∧ m.len ≤ a.fam.bits := by
  unfold Prefix.contains at h
  simp only [Bool.and_eq_true, decide_eq_true_eq] at h
  exact ⟨(fam_beq _ _).mp h.1.1, h.1.2⟩

theorem step_iff (s n : Prefix) :
    (s.contains n.addr && decide (bitsOf s ≤ bitsOf n)) = true ↔ covers s n := by
  unfold covers
  constructor
  · intro h
    simp only [Bool.and_eq_true, decide_eq_true_eq] at h
    obtain ⟨hc, hb⟩ := h
    obtain ⟨hf, hl⟩ := contains_fam hc
    have hs : bitsOf s = (s.len : Int) := by
      unfold bitsOf; rw [hf]; simp [hl]
    unfold bitsOf at hb hs
    by_cases hn : n.len ≤ n.addr.fam.bits
    · simp only [hn, if_true] at hb
      rw [hs] at hb
      exact ⟨hn, hc, by omega⟩
    · simp only [hn, if_false] at hb
      rw [hs] at hb
      omega
  · intro ⟨hn, hc, hl⟩
    obtain ⟨hf, hl'⟩ := contains_fam hc
    simp only [Bool.and_eq_true, decide_eq_true_eq]
    refine ⟨hc, ?_⟩
    unfold bitsOf
    rw [hf]
    simp only [hl', hn, if_true]
    omega

theorem coveredBy_iff (signing : List Prefix) (n : Prefix) :
    coveredBy signing n = true ↔ ∃ m ∈ signing, covers m n := by
  induction signing with
  | nil => simp [coveredBy]
  | cons s rest ih =>
    unfold coveredBy
    by_cases h : (s.contains n.addr && decide (bitsOf s ≤ bitsOf n)) = true
    · rw [if_pos h]
      have := (step_iff s n).mp h
      simp only [List.mem_cons, true_iff]
      exact ⟨s, Or.inl rfl, this⟩
    · rw [if_neg h, ih]
      have hn : ¬ covers s n := fun hc => h ((step_iff s n).mpr hc)
      constructor
      · rintro ⟨m, hm, hc⟩; exact ⟨m, List.mem_cons_of_mem _ hm, hc⟩
      · rintro ⟨m, hm, hc⟩
        rcases List.mem_cons.mp hm with rfl | hm
        · exact absurd hc hn
        · exact ⟨m, hm, hc⟩

theorem firstUncovered_none_iff (signing sub : List Prefix) :
    firstUncovered signing sub = none ↔ ∀ n ∈ sub, ∃ m ∈ signing, covers m n := by
  induction sub with
  | nil => simp [firstUncovered]
  | cons n rest ih =>
    unfold firstUncovered
    by_cases h : coveredBy signing n = true
    · rw [if_pos h, ih]
      have := (coveredBy_iff signing n).mp h
      simp only [List.mem_cons, forall_eq_or_imp]
      exact ⟨fun hr => ⟨this, hr⟩, fun hr => hr.2⟩
    · rw [if_neg h]
      have hn : ¬ ∃ m ∈ signing, covers m n := fun hc => h ((coveredBy_iff signing n).mpr hc)
      simp only [List.mem_cons, forall_eq_or_imp]
      constructor
      · intro hx; cases hx
      · intro hx; exact absurd hx.1 hn

theorem firstMissingGroup_none_iff (sg groups : List Bytes) :
    firstMissingGroup sg groups = none ↔ ∀ g ∈ groups, g ∈ sg := by
  induction groups with
  | nil => simp [firstMissingGroup]
  | cons g rest ih =>
    unfold firstMissingGroup
    by_cases h : sg.contains g = true
    · rw [if_pos h, ih]
      have hm : g ∈ sg := by simpa using h
      simp only [List.mem_cons, forall_eq_or_imp]
      exact ⟨fun hr => ⟨hm, hr⟩, fun hr => hr.2⟩
    · rw [if_neg h]
      have hm : g ∉ sg := by simpa using h
      simp only [List.mem_cons, forall_eq_or_imp]
      constructor
      · intro hx; cases hx
      · intro hx; exact absurd hx.1 hm

theorem length_pos_iff {α : Type} (l : List α) : l.length > 0 ↔ l ≠ [] := by
  cases l <;> simp

theorem netsGuard_iff (signing sub : List Prefix) :
    ¬ (signing.length > 0 ∧ (firstUncovered signing sub).isSome = true) ↔ netsWithin signing sub := by
  unfold netsWithin
  rw [length_pos_iff, ← firstUncovered_none_iff]
  cases hs : signing with
  | nil => simp
  | cons a l =>
    cases hf : firstUncovered (a :: l) sub <;> simp

theorem groupsGuard_iff (sg groups : List Bytes) :
    ¬ (sg.length > 0 ∧ (firstMissingGroup sg groups).isSome = true) ↔ groupsWithin sg groups := by
  unfold groupsWithin
  rw [length_pos_iff, ← firstMissingGroup_none_iff]
  cases hs : sg with
  | nil => simp
  | cons a l =>
    cases hf : firstMissingGroup (a :: l) groups <;> simp

/-- The guard sequence of `checkCAConstraints` accepts exactly the constraint relation of the specification. -/
theorem checkCAConstraints_none_iff (signer : Cert) (nb na : Int) (groups : List Bytes)
    (networks unsafeNetworks : List Prefix) :
    checkCAConstraints signer nb na groups networks unsafeNetworks = none ↔
      withinFields signer nb na groups networks unsafeNetworks := by
  unfold checkCAConstraints withinFields
  rw [← groupsGuard_iff, ← netsGuard_iff, ← netsGuard_iff]
  by_cases h1 : signer.notAfter < na
  · simp only [h1, if_true]; constructor
    · intro h; cases h
    · intro h; omega
  · by_cases h2 : nb < signer.notBefore
    · simp only [h1, h2, if_true, if_false]; constructor
      · intro h; cases h
      · intro h; omega
    · simp only [h1, h2, if_false]
      split
      · rename_i h3; constructor
        · intro h; cases h
        · intro h; exact absurd h3 h.2.2.1
      · rename_i h3
        split
        · rename_i h4; constructor
          · intro h; cases h
          · intro h; exact absurd h4 h.2.2.2.1
        · rename_i h4
          split
          · rename_i h5; constructor
            · intro h; cases h
            · intro h; exact absurd h5 h.2.2.2.2
          · rename_i h5
            simp only [true_iff]
            exact ⟨by omega, by omega, h3, h4, h5⟩

theorem checkCA_none_iff (signer sub : Cert) : checkCA signer sub = none ↔ within signer sub :=
  checkCAConstraints_none_iff _ _ _ _ _ _

/-! executable form = specification -/

theorem coversB_iff (m n : Prefix) : coversB m n = true ↔ covers m n := by
  unfold coversB covers; simp [and_assoc]

theorem netsWithinB_iff (ca sub : List Prefix) : netsWithinB ca sub = true ↔ netsWithin ca sub := by
  unfold netsWithinB netsWithin
  simp only [Bool.or_eq_true, List.isEmpty_iff, List.all_eq_true, List.any_eq_true, coversB_iff]

theorem groupsWithinB_iff (ca sub : List Bytes) : groupsWithinB ca sub = true ↔ groupsWithin ca sub := by
  unfold groupsWithinB groupsWithin
  simp [List.isEmpty_iff]

theorem withinB_iff (ca c : Cert) : withinB ca c = true ↔ within ca c := by
  unfold withinB within withinFieldsB withinFields
  simp only [Bool.and_eq_true, decide_eq_true_eq, groupsWithinB_iff, netsWithinB_iff, and_assoc]

theorem validAtB_iff (c : Cert) (t : Int) : validAtB c t = true ↔ validAt c t := by
  unfold validAtB validAt; simp

/-- `Expired` is the complement of the closed validity interval. -/
theorem expired_false_iff (c : Cert) (t : Int) : c.expired t = false ↔ validAt c t := by
  unfold Cert.expired validAt
  simp only [Bool.or_eq_false_iff, decide_eq_false_iff_not]
  omega

theorem trustedB_iff (K : Crypto) (p : Pool) (t : Int) (c : Cert) :
    trustedB K p t c = true ↔ trusted K p t c := by
  unfold trustedB failingClause trusted notBlocked
  cases hf : K.fingerprint c with
  | none => simp
  | some fp =>
    cases ha : K.altFingerprint c with
    | none => simp
    | some fp2 =>
      simp only [Option.some.injEq, exists_eq_left']
      by_cases hb : p.block.contains fp = true
      · have : fp ∈ p.block := by simpa using hb
        simp [hb, this]
      · have hb' : fp ∉ p.block := by simpa using hb
        simp only [hb, if_false, Bool.false_eq_true]
        by_cases hb2 : (fp2 != "" && p.block.contains fp2) = true
        · have : fp2 ≠ "" ∧ fp2 ∈ p.block := by simpa using hb2
          simp only [hb2, if_true, Option.isNone_some, Bool.false_eq_true, false_iff]
          intro h
          rcases h.1.2 with h | h
          · exact this.1 h
          · exact h this.2
        · have hb2' : fp2 = "" ∨ fp2 ∉ p.block := by
            by_cases he : fp2 = ""
            · exact Or.inl he
            · right; intro hm; apply hb2; simp [he, hm]
          simp only [hb2, if_false, Bool.false_eq_true]
          by_cases hi : c.issuer = ""
          · simp [hi]
          · have hi' : (c.issuer == "") = false := by simpa using hi
            simp only [hi', if_false, Bool.false_eq_true]
            cases hl : p.cas.lookup c.issuer with
            | none => simp
            | some ca =>
              simp only [Option.some.injEq, exists_eq_left']
              by_cases hc : ca.curve = c.curve
              · have hc' : (ca.curve != c.curve) = false := by simp [hc]
                simp only [hc', if_false, Bool.false_eq_true]
                cases hv1 : validAtB ca t
                · have : ¬ validAt ca t := fun h => by
                    have := (validAtB_iff ca t).mpr h; simp [hv1] at this
                  simp [this]
                · have v1 := (validAtB_iff ca t).mp hv1
                  cases hv2 : validAtB c t
                  · have : ¬ validAt c t := fun h => by
                      have := (validAtB_iff c t).mpr h; simp [hv2] at this
                    simp [this]
                  · have v2 := (validAtB_iff c t).mp hv2
                    cases hs : K.checkSig c ca.publicKey
                    · simp
                    · cases hw : withinB ca c
                      · have : ¬ within ca c := fun h => by
                          have := (withinB_iff ca c).mpr h; simp [hw] at this
                        simp [this]
                      · have w := (withinB_iff ca c).mp hw
                        simp [hb', hb2', hi, hc, v1, v2, w]
              · have hc' : (ca.curve != c.curve) = true := by simp [hc]
                simp [hc', hc]

end Nebula.Lemmas.Trust
