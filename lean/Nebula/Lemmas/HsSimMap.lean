/-
Simulation, part 1 (C31): the main hostmap of a node all of whose tunnels go to ONE peer address `a`
(certificates with a single address), seen as the tunnel list of the abstract two-node model
(Model/HsRace.lean): unlockedAddHostInfo is `Side.install`, unlockedDeleteHostInfo is `eraseIdx`,
unlockedMakePrimary is "move to the front".
-/
import Nebula.Lemmas.HsManager
import Nebula.Model.HsRace

namespace Nebula.Lemmas.HsSim
open Nebula.HsManager Nebula.Lemmas.HsManager Nebula.HsRace

/-- identity of a first handshake packet in the abstract model (injective on `Option Handle`) -/
def encH : Option Handle → Nat
  | some h => h + 1
  | none => 0

theorem encH_inj {a b : Option Handle} : encH a = encH b ↔ a = b := by
  cases a <;> cases b <;> simp [encH]

/-- abstraction of one tunnel -/
def absTun (h : HostInfo) : Tun :=
  { loc := h.localIndex, rem := h.remoteIndex, hs := encH h.pkt0, init := h.initiator }

/-- well-formed main hostmap of a node whose only peer address is `a` -/
structure MWF (m : HostMap) (a : Addr) : Prop where
  idx_mem : ∀ k h, alookup k m.indexes = some h → h ∈ m.getList a ∧ h.localIndex = k
  mem_idx : ∀ h, h ∈ m.getList a → alookup h.localIndex m.indexes = some h
  ids : ((m.getList a).map (·.id)).Nodup
  addrs : ∀ h, h ∈ m.getList a → h.vpnAddrs = [a]

theorem MWF.empty (a : Addr) : MWF {} a := by
  constructor <;> simp [HostMap.getList, alookup]

/-! ### lists with distinct identities -/

theorem eraseHI_eq_eraseIdx : ∀ (l : List HostInfo) (j : Nat) (hi : HostInfo),
    (l.map (·.id)).Nodup → l[j]? = some hi → eraseHI l hi.id = l.eraseIdx j := by
  intro l
  induction l with
  | nil => intro j hi _ h; simp at h
  | cons x xs ih =>
    intro j hi nd h
    cases j with
    | zero =>
      simp at h; subst h
      simp [eraseHI, List.eraseP_cons]
    | succ j =>
      simp only [List.getElem?_cons_succ] at h
      have hmem : hi ∈ xs := List.mem_of_getElem? h
      simp only [List.map_cons, List.nodup_cons, List.mem_map, not_exists, not_and] at nd
      have hne : (x.id == hi.id) = false := by
        have := nd.1 hi hmem
        simp; exact fun e => this e.symm
      have := ih j hi nd.2 h
      simp only [eraseHI] at this ⊢
      simp [List.eraseP_cons, hne, this]

theorem eraseHI_fresh (l : List HostInfo) (id : Nat) (h : ∀ x ∈ l, x.id ≠ id) : eraseHI l id = l := by
  unfold eraseHI
  apply List.eraseP_of_forall_not
  intro x hx; simp; exact h x hx

theorem mem_eraseIdx_of_ne' {l : List HostInfo} {j : Nat} {t t' : HostInfo} (ht : l[j]? = some t) (h' : t' ∈ l)
    (e : t' ≠ t) : t' ∈ l.eraseIdx j := by
  rw [List.mem_eraseIdx_iff_getElem?]
  obtain ⟨i, hi⟩ := List.getElem?_of_mem h'
  refine ⟨i, ?_, hi⟩
  intro hij; subst hij; rw [ht] at hi; simp at hi; exact e hi.symm

theorem nodup_ids_eraseIdx (l : List HostInfo) (j : Nat) (nd : (l.map (·.id)).Nodup) :
    ((l.eraseIdx j).map (·.id)).Nodup :=
  nd.sublist ((List.eraseIdx_sublist l j).map _)

/-- two members with the same identity are the same member -/
theorem eq_of_id {l : List HostInfo} (nd : (l.map (·.id)).Nodup) {x y : HostInfo} (hx : x ∈ l) (hy : y ∈ l)
    (e : x.id = y.id) : x = y := by
  induction l with
  | nil => simp at hx
  | cons z zs ih =>
    simp only [List.map_cons, List.nodup_cons, List.mem_map, not_exists, not_and] at nd
    rcases List.mem_cons.mp hx with rfl | hx' <;> rcases List.mem_cons.mp hy with rfl | hy'
    · rfl
    · exact absurd e.symm (nd.1 y hy')
    · exact absurd e (nd.1 x hx')
    · exact ih nd.2 hx' hy'

/-- positions are determined by identities -/
theorem pos_unique : ∀ (l : List HostInfo) (i j : Nat) (x y : HostInfo), (l.map (·.id)).Nodup →
    l[i]? = some x → l[j]? = some y → x.id = y.id → i = j := by
  intro l
  induction l with
  | nil => intro i j x y _ h; simp at h
  | cons z zs ih =>
    intro i j x y nd hx hy e
    simp only [List.map_cons, List.nodup_cons, List.mem_map, not_exists, not_and] at nd
    cases i with
    | zero =>
      cases j with
      | zero => rfl
      | succ j =>
        simp at hx; subst hx
        simp only [List.getElem?_cons_succ] at hy
        exact absurd e.symm (nd.1 y (List.mem_of_getElem? hy))
    | succ i =>
      cases j with
      | zero =>
        simp at hy; subst hy
        simp only [List.getElem?_cons_succ] at hx
        exact absurd e (nd.1 x (List.mem_of_getElem? hx))
      | succ j =>
        simp only [List.getElem?_cons_succ] at hx hy
        rw [ih i j x y nd.2 hx hy e]

/-- the member at position `j` is not a member of the list without position `j` -/
theorem not_mem_eraseIdx_self {l : List HostInfo} (nd : (l.map (·.id)).Nodup) {j : Nat} {hi : HostInfo}
    (h : l[j]? = some hi) : hi ∉ l.eraseIdx j := by
  intro hm
  rw [List.mem_eraseIdx_iff_getElem?] at hm
  obtain ⟨i, hne, hi'⟩ := hm
  exact hne (pos_unique l i j hi hi nd hi' h rfl)

/-! ### delete -/

theorem deleteHostInfo_list {m : HostMap} {a : Addr} (wf : MWF m a) {hi : HostInfo} {j : Nat}
    (hj : (m.getList a)[j]? = some hi) :
    (m.deleteHostInfo hi).getList a = (m.getList a).eraseIdx j ∧ MWF (m.deleteHostInfo hi) a := by
  have hmem : hi ∈ m.getList a := List.mem_of_getElem? hj
  have hva := wf.addrs hi hmem
  have hix := wf.mem_idx hi hmem
  have hl : eraseHI (m.getList a) hi.id = (m.getList a).eraseIdx j := eraseHI_eq_eraseIdx _ j hi wf.ids hj
  have e1 : (m.deleteHostInfo hi).getList a = (m.getList a).eraseIdx j := by
    unfold HostMap.deleteHostInfo
    simp only [hva, List.foldl_cons, List.foldl_nil, hl]
    show ((m.setList a ((m.getList a).eraseIdx j)).getList a) = _
    rw [getList_setList]; simp
  have e2 : (m.deleteHostInfo hi).indexes = aerase hi.localIndex m.indexes := by
    unfold HostMap.deleteHostInfo
    simp only [hva, List.foldl_cons, List.foldl_nil, setList_indexes, hix]
    simp
  refine ⟨e1, ?_⟩
  constructor
  · intro k h hk
    rw [e2, alookup_aerase] at hk
    split at hk
    · simp at hk
    · rename_i hne
      have := wf.idx_mem k h hk
      refine ⟨?_, this.2⟩
      rw [e1]
      apply mem_eraseIdx_of_ne' hj this.1
      intro e; subst e; exact hne this.2.symm
  · intro h hm
    rw [e1] at hm
    have hm' := List.mem_of_mem_eraseIdx hm
    rw [e2, alookup_aerase]
    split
    · rename_i e
      -- same local index: the Indexes entry says it is `hi` itself, which is gone from the list
      have h1 := wf.mem_idx h hm'
      rw [e, hix] at h1
      simp at h1; subst h1
      exact absurd hm (not_mem_eraseIdx_self wf.ids hj)
    · exact wf.mem_idx h hm'
  · rw [e1]; exact nodup_ids_eraseIdx _ _ wf.ids
  · intro h hm; rw [e1] at hm; exact wf.addrs h (List.mem_of_mem_eraseIdx hm)

/-- deleting a tunnel that is not listed (stale handle) changes nothing in the list -/
theorem position_of_index {m : HostMap} {a : Addr} (wf : MWF m a) {li : Nat} {hi : HostInfo}
    (hk : alookup li m.indexes = some hi) : ∃ j : Nat, (m.getList a)[j]? = some hi :=
  List.getElem?_of_mem (wf.idx_mem li hi hk).1

/-! ### make primary -/

theorem makePrimary_list {m : HostMap} {a : Addr} (wf : MWF m a) {hi : HostInfo} {j : Nat}
    (hj : (m.getList a)[j]? = some hi) :
    (m.makePrimary hi).getList a = (if j = 0 then m.getList a else hi :: (m.getList a).eraseIdx j) ∧
    MWF (m.makePrimary hi) a := by
  have hmem : hi ∈ m.getList a := List.mem_of_getElem? hj
  have hva := wf.addrs hi hmem
  have hix := wf.mem_idx hi hmem
  have hl : eraseHI (m.getList a) hi.id = (m.getList a).eraseIdx j := eraseHI_eq_eraseIdx _ j hi wf.ids hj
  have hidx : (m.makePrimary hi).indexes = m.indexes := makePrimary_indexes m hi
  have e0 : m.makePrimary hi = m.promoteAt hi a := by
    unfold HostMap.makePrimary
    simp [hix, hva]
  cases j with
  | zero =>
    have hp : m.primary a = some hi := by
      unfold HostMap.primary; rw [List.head?_eq_getElem?]; exact hj
    have e1 : m.makePrimary hi = m := by
      rw [e0]; unfold HostMap.promoteAt; simp [hp]
    rw [e1]; simp; exact wf
  | succ j =>
    obtain ⟨p, hp⟩ : ∃ p, (m.getList a)[0]? = some p := by
      have : 0 < (m.getList a).length := by
        have := (List.getElem?_eq_some_iff.mp hj).1; omega
      exact ⟨_, List.getElem?_eq_getElem this⟩
    have hp' : m.primary a = some p := by
      unfold HostMap.primary; rw [List.head?_eq_getElem?]; exact hp
    have hne : (p.id == hi.id) = false := by
      have pm : p ∈ m.getList a := List.mem_of_getElem? hp
      simp only [beq_eq_false_iff_ne, ne_eq]
      intro e
      have := pos_unique _ 0 (j + 1) p hi wf.ids hp hj e
      omega
    have e1 : m.makePrimary hi = m.setList a (hi :: (m.getList a).eraseIdx (j + 1)) := by
      rw [e0]; unfold HostMap.promoteAt; simp [hp', hne, hl]
    have e2 : (m.makePrimary hi).getList a = hi :: (m.getList a).eraseIdx (j + 1) := by
      rw [e1, getList_setList]; simp
    refine ⟨by simp [e2], ?_⟩
    have memiff : ∀ h, h ∈ (m.makePrimary hi).getList a ↔ h ∈ m.getList a := by
      intro h; rw [e2]
      constructor
      · intro hm
        rcases List.mem_cons.mp hm with e | e
        · subst e; exact hmem
        · exact List.mem_of_mem_eraseIdx e
      · intro hm
        by_cases e : h = hi
        · subst e; simp
        · exact List.mem_cons_of_mem _ (mem_eraseIdx_of_ne' hj hm e)
    constructor
    · intro k h hk; rw [hidx] at hk; rw [memiff]; exact wf.idx_mem k h hk
    · intro h hm; rw [hidx]; exact wf.mem_idx h ((memiff h).mp hm)
    · rw [e2]
      have nd2 := nodup_ids_eraseIdx _ (j + 1) wf.ids
      simp only [List.map_cons, List.nodup_cons, List.mem_map, not_exists, not_and]
      refine ⟨?_, nd2⟩
      intro x hx e
      have xm := List.mem_of_mem_eraseIdx hx
      have := eq_of_id wf.ids xm hmem e
      subst this
      exact not_mem_eraseIdx_self wf.ids hj hx
    · intro h hm; exact wf.addrs h ((memiff h).mp hm)

/-! ### add -/

theorem maxHosts_pos : 0 < Nebula.Gen.hsm_MaxHostInfosPerVpnIp := by decide

/-- the tunnel list after unlockedAddHostInfo: `Side.install` -/
def installList (hi : HostInfo) (l : List HostInfo) : List HostInfo :=
  if (hi :: l).length > Nebula.Gen.hsm_MaxHostInfosPerVpnIp then (hi :: l).dropLast else hi :: l

theorem addHostInfo_list {m : HostMap} {a : Addr} (wf : MWF m a) {hi : HostInfo} (hva : hi.vpnAddrs = [a])
    (hid : ∀ x ∈ m.getList a, x.id ≠ hi.id) (hfree : alookup hi.localIndex m.indexes = none) :
    (m.addHostInfo hi).getList a = installList hi (m.getList a) ∧ MWF (m.addHostInfo hi) a := by
  have nd : (((hi :: m.getList a)).map (·.id)).Nodup := by
    simp only [List.map_cons, List.nodup_cons, List.mem_map, not_exists, not_and]
    exact ⟨fun x hx e => hid x hx e, wf.ids⟩
  have hfresh : eraseHI (m.getList a) hi.id = m.getList a := eraseHI_fresh _ _ hid
  -- the two shapes of the result
  have shape : (m.addHostInfo hi).getList a = installList hi (m.getList a) ∧
      ((m.addHostInfo hi).indexes = ainsert hi.localIndex hi m.indexes ∧
         (hi :: m.getList a).length ≤ Nebula.Gen.hsm_MaxHostInfosPerVpnIp ∨
       ∃ last, (hi :: m.getList a)[(m.getList a).length]? = some last ∧ last ∈ m.getList a ∧
         (m.addHostInfo hi).indexes = ainsert hi.localIndex hi (aerase last.localIndex m.indexes) ∧
         (hi :: m.getList a).length > Nebula.Gen.hsm_MaxHostInfosPerVpnIp) := by
    unfold HostMap.addHostInfo
    simp only [hva, List.foldl_cons, List.foldl_nil]
    unfold HostMap.innerAdd
    split
    · rename_i hnil
      have : installList hi (m.getList a) = [hi] := by
        have := maxHosts_pos
        simp [installList, hnil]; omega
      rw [this]
      refine ⟨by show (m.setList a [hi]).getList a = [hi]; rw [getList_setList]; simp, Or.inl ⟨by simp, ?_⟩⟩
      have := maxHosts_pos
      simp [hnil]; omega
    · rename_i _ hne
      dsimp only
      rw [hfresh]
      by_cases hlen : (hi :: m.getList a).length > Nebula.Gen.hsm_MaxHostInfosPerVpnIp
      · rw [if_pos hlen]
        have hne' : m.getList a ≠ [] := by
          intro e; have := maxHosts_pos; simp [e] at hlen; omega
        obtain ⟨last, hlast⟩ : ∃ last, (hi :: m.getList a).getLast? = some last :=
          ⟨_, List.getLast?_eq_some_getLast (by simp)⟩
        have hpos : (hi :: m.getList a)[(m.getList a).length]? = some last := by
          rw [List.getLast?_eq_getElem?] at hlast; simpa using hlast
        have hlm : last ∈ m.getList a := by
          have : (m.getList a).getLast? = some last := by
            cases hh : m.getList a with
            | nil => exact absurd hh hne'
            | cons z zs => rw [hh, List.getLast?_cons_cons] at hlast; exact hlast
          exact List.mem_of_getLast? this
        have hlva := wf.addrs last hlm
        have hlix := wf.mem_idx last hlm
        simp only [hlast]
        have hE : eraseHI (hi :: m.getList a) last.id = (hi :: m.getList a).eraseIdx (m.getList a).length :=
          eraseHI_eq_eraseIdx _ _ last nd hpos
        have hD : (hi :: m.getList a).eraseIdx (m.getList a).length = (hi :: m.getList a).dropLast :=
          List.eraseIdx_eq_dropLast (by simp)
        refine ⟨?_, Or.inr ⟨last, hpos, hlm, ?_, hlen⟩⟩
        · unfold HostMap.deleteHostInfo
          simp only [hlva, List.foldl_cons, List.foldl_nil]
          show ((m.setList a (hi :: m.getList a)).setList a
            (eraseHI ((m.setList a (hi :: m.getList a)).getList a) last.id)).getList a = _
          rw [getList_setList, getList_setList]
          simp only [if_true, hE, hD, installList, hlen]
        · unfold HostMap.deleteHostInfo
          simp only [hlva, List.foldl_cons, List.foldl_nil, setList_indexes, hlix]
          simp
      · rw [if_neg hlen]
        refine ⟨?_, Or.inl ⟨by simp, by omega⟩⟩
        show (m.setList a (hi :: m.getList a)).getList a = _
        rw [getList_setList]; simp only [installList, if_true]; rw [if_neg hlen]
  refine ⟨shape.1, ?_⟩
  have hL := shape.1
  rcases shape.2 with ⟨hI, hlen⟩ | ⟨last, hpos, hlm, hI, hlen⟩
  · have hL' : (m.addHostInfo hi).getList a = hi :: m.getList a := by
      rw [hL]; simp only [installList]; rw [if_neg (by omega)]
    constructor
    · intro k h hk
      rw [hI, alookup_ainsert] at hk
      rw [hL']
      split at hk
      · simp at hk; subst hk; rename_i e; exact ⟨by simp, e.symm⟩
      · have := wf.idx_mem k h hk; exact ⟨List.mem_cons_of_mem _ this.1, this.2⟩
    · intro h hm
      rw [hL'] at hm
      rw [hI, alookup_ainsert]
      rcases List.mem_cons.mp hm with e | e
      · subst e; simp
      · have := wf.mem_idx h e
        split
        · rename_i e2; rw [e2, hfree] at this; simp at this
        · exact this
    · rw [hL']; exact nd
    · intro h hm; rw [hL'] at hm
      rcases List.mem_cons.mp hm with e | e
      · subst e; exact hva
      · exact wf.addrs h e
  · have hD : (hi :: m.getList a).eraseIdx (m.getList a).length = (hi :: m.getList a).dropLast :=
      List.eraseIdx_eq_dropLast (by simp)
    have hL' : (m.addHostInfo hi).getList a = (hi :: m.getList a).eraseIdx (m.getList a).length := by
      rw [hL, hD]; simp only [installList]; rw [if_pos hlen]
    have hne' : m.getList a ≠ [] := by
      intro e; rw [e] at hlm; simp at hlm
    have hhead : hi ∈ (hi :: m.getList a).eraseIdx (m.getList a).length := by
      cases hh : m.getList a with
      | nil => exact absurd hh hne'
      | cons z zs => simp [List.eraseIdx_cons_succ]
    have hlast_ne : last ≠ hi := by
      intro e; subst e; exact hid last hlm rfl
    constructor
    · intro k h hk
      rw [hI, alookup_ainsert] at hk
      rw [hL']
      split at hk
      · simp at hk; subst hk; rename_i e; exact ⟨hhead, e.symm⟩
      · rw [alookup_aerase] at hk
        split at hk
        · simp at hk
        · rename_i hne
          have := wf.idx_mem k h hk
          refine ⟨mem_eraseIdx_of_ne' hpos (List.mem_cons_of_mem _ this.1) ?_, this.2⟩
          intro e; subst e; exact hne this.2.symm
    · intro h hm
      rw [hL'] at hm
      have hm' := List.mem_of_mem_eraseIdx hm
      rw [hI, alookup_ainsert]
      rcases List.mem_cons.mp hm' with e | e
      · subst e; simp
      · have h1 := wf.mem_idx h e
        split
        · rename_i e2; rw [e2, hfree] at h1; simp at h1
        · rw [alookup_aerase]
          split
          · rename_i e3
            have h2 := wf.mem_idx last hlm
            rw [e3, h2] at h1
            simp at h1; subst h1
            exact absurd hm (not_mem_eraseIdx_self nd hpos)
          · exact h1
    · rw [hL']; exact nodup_ids_eraseIdx _ _ nd
    · intro h hm; rw [hL'] at hm
      rcases List.mem_cons.mp (List.mem_of_mem_eraseIdx hm) with e | e
      · subst e; exact hva
      · exact wf.addrs h e

/-- `installList` is `Side.install` on the abstract tunnel list -/
theorem install_abs (s : Side) (hi : HostInfo) (l : List HostInfo) (h : s.tunnels = l.map absTun) :
    (s.install (absTun hi)).tunnels = (installList hi l).map absTun := by
  unfold Side.install installList
  simp only [h, List.length_cons, List.length_map]
  split <;> simp [List.map_dropLast]

theorem install_pdl (s : Side) (t : Tun) : (s.install t).pdl = s.pdl.filter (· != t) := by
  unfold Side.install; dsimp only; split <;> rfl

theorem install_pending (s : Side) (t : Tun) : (s.install t).pending = s.pending := by
  unfold Side.install; dsimp only; split <;> rfl

end Nebula.Lemmas.HsSim
