/-
The heart of C23: re-segmenting a flushed slot with the reference kernel segmenter gives back, packet
by packet, the packets that were folded into the slot — up to `mask`.
-/
import Nebula.Lemmas.CoalesceInv
import Nebula.Spec.CoalesceObs

namespace Nebula.Lemmas.Coalesce
open Nebula.Coalesce Nebula.Gen
open Nebula.Spec
open Nebula.Spec.KernelGSO (setByte setBe16 setBe32 zero2 mask trim classify buildSeg segIP segL4 completeCsum kernelSegGSO kernelSeg chunks chunksAux clearBit enumFrom csumOfSum wordSum pseudoWords)

/-! ### pointwise reads -/

/-- byte `k` of `b` (0 beyond the end) -/
def rd (b : Bytes) (k : Nat) : UInt8 := b.getD k 0

theorem byteAt_rd (b : Bytes) (k : Nat) : byteAt b k = (rd b k).toNat := rfl

theorem rd_set (b : Bytes) (j k : Nat) (v : UInt8) :
    rd (b.set j v) k = if j = k ∧ j < b.length then v else rd b k := getD_set b j k v

theorem rd_set_ne (b : Bytes) (j k : Nat) (v : UInt8) (h : j ≠ k) : rd (b.set j v) k = rd b k := by
  rw [rd_set]; simp [h]

theorem rd_set_eq (b : Bytes) (k : Nat) (v : UInt8) (h : k < b.length) : rd (b.set k v) k = v := by
  rw [rd_set]; simp [h]

theorem rd_append (a b : Bytes) (k : Nat) :
    rd (a ++ b) k = if k < a.length then rd a k else rd b (k - a.length) := getD_append a b k

theorem rd_take (b : Bytes) (n k : Nat) (h : k < n) : rd (b.take n) k = rd b k := getD_take b n k h

theorem rd_drop (b : Bytes) (n k : Nat) : rd (b.drop n) k = rd b (n + k) := getD_drop b n k

theorem ext_rd {a b : Bytes} (hl : a.length = b.length) (h : ∀ k, k < a.length → rd a k = rd b k) : a = b :=
  ext_getD hl h

/-- equal 16-bit reads mean equal bytes -/
theorem rd_of_u16At_eq {a b : Bytes} {off : Nat} (h : u16At a off = u16At b off) :
    rd a off = rd b off ∧ rd a (off + 1) = rd b (off + 1) := by
  have h1 := byteAt_lt a off; have h2 := byteAt_lt a (off + 1)
  have h3 := byteAt_lt b off; have h4 := byteAt_lt b (off + 1)
  simp only [u16At] at h
  constructor
  · apply UInt8.toNat_inj.mp; simp only [byteAt_rd] at *; omega
  · apply UInt8.toNat_inj.mp; simp only [byteAt_rd] at *; omega

theorem rd_of_u16At_eq' {a b : Bytes} {i j : Nat} (h : u16At a i = u16At b j) :
    rd a i = rd b j ∧ rd a (i + 1) = rd b (j + 1) := by
  have h1 := byteAt_lt a i; have h2 := byteAt_lt a (i + 1)
  have h3 := byteAt_lt b j; have h4 := byteAt_lt b (j + 1)
  simp only [u16At] at h
  constructor
  · apply UInt8.toNat_inj.mp; simp only [byteAt_rd] at *; omega
  · apply UInt8.toNat_inj.mp; simp only [byteAt_rd] at *; omega

theorem rd_of_u32At_eq' {a b : Bytes} {i j : Nat} (h : u32At a i = u32At b j) :
    rd a i = rd b j ∧ rd a (i + 1) = rd b (j + 1) ∧ rd a (i + 2) = rd b (j + 2) ∧
      rd a (i + 3) = rd b (j + 3) := by
  have h1 := u16At_lt a i; have h2 := u16At_lt a (i + 2)
  have h3 := u16At_lt b j; have h4 := u16At_lt b (j + 2)
  simp only [u32At] at h
  have e1 : u16At a i = u16At b j := by omega
  have e2 : u16At a (i + 2) = u16At b (j + 2) := by omega
  have := rd_of_u16At_eq' e1
  have := rd_of_u16At_eq' e2
  simp_all

/-! ### the spec's setters, pointwise -/

theorem length_setByte (b : Bytes) (off v : Nat) : (setByte b off v).length = b.length := by
  simp [setByte]

theorem length_setBe16 (b : Bytes) (off v : Nat) : (setBe16 b off v).length = b.length := by
  simp [setBe16, setByte]

theorem length_setBe32 (b : Bytes) (off v : Nat) : (setBe32 b off v).length = b.length := by
  simp [setBe32, length_setBe16]

theorem length_zero2 (b : Bytes) (off : Nat) : (zero2 b off).length = b.length := by
  simp [zero2]

theorem rd_setByte_ne (b : Bytes) (off v k : Nat) (h : off ≠ k) : rd (setByte b off v) k = rd b k :=
  rd_set_ne _ _ _ _ h

theorem rd_setBe16_ne (b : Bytes) (off v k : Nat) (h1 : off ≠ k) (h2 : off + 1 ≠ k) :
    rd (setBe16 b off v) k = rd b k := by
  simp only [setBe16, setByte]
  rw [rd_set_ne _ _ _ _ h2, rd_set_ne _ _ _ _ h1]

theorem rd_setBe32_ne (b : Bytes) (off v k : Nat) (h1 : off ≠ k) (h2 : off + 1 ≠ k) (h3 : off + 2 ≠ k)
    (h4 : off + 3 ≠ k) : rd (setBe32 b off v) k = rd b k := by
  simp only [setBe32]
  rw [rd_setBe16_ne _ _ _ _ (by omega) (by omega), rd_setBe16_ne _ _ _ _ h1 h2]

theorem rd_zero2_ne (b : Bytes) (off k : Nat) (h1 : off ≠ k) (h2 : off + 1 ≠ k) :
    rd (zero2 b off) k = rd b k := by
  simp only [zero2]
  rw [rd_set_ne _ _ _ _ h2, rd_set_ne _ _ _ _ h1]

theorem rd_zero2_eq (b : Bytes) (off k : Nat) (h : k = off ∨ k = off + 1) (hl : k < b.length) :
    rd (zero2 b off) k = 0 := by
  simp only [zero2]
  rcases h with h | h
  · subst h; rw [rd_set_ne _ _ _ _ (by omega), rd_set_eq _ _ _ hl]
  · subst h; rw [rd_set_eq _ _ _ (by simpa using hl)]

theorem u16At_setBe16 (b : Bytes) (off v : Nat) (h : off + 1 < b.length) :
    u16At (setBe16 b off v) off = v % 65536 := by
  simp only [u16At, byteAt_rd, setBe16, setByte]
  rw [rd_set_ne _ _ _ _ (by omega), rd_set_eq _ _ _ (by omega), rd_set_eq _ _ _ (by simpa using h)]
  simp only [UInt8.toNat_ofNat']
  omega

theorem u16At_setBe16_ne (b : Bytes) (off v j : Nat) (h : j + 1 < off ∨ off + 1 < j) :
    u16At (setBe16 b off v) j = u16At b j := by
  simp only [u16At, byteAt_rd]
  rw [rd_setBe16_ne _ _ _ _ (by omega) (by omega), rd_setBe16_ne _ _ _ _ (by omega) (by omega)]

theorem u32At_setBe32 (b : Bytes) (off v : Nat) (h : off + 3 < b.length) :
    u32At (setBe32 b off v) off = v % 4294967296 := by
  simp only [u32At, setBe32]
  rw [u16At_setBe16_ne _ _ _ _ (by omega), u16At_setBe16 _ _ _ (by omega),
    u16At_setBe16 _ _ _ (by rw [length_setBe16]; omega)]
  omega

/-! ### the pieces of a kernel-built segment -/

theorem length_segIP (H : Bytes) (segLen i : Nat) : (segIP H segLen i).length = H.length := by
  unfold segIP; split <;> simp [length_setBe16]

theorem rd_segIP_v4 (H : Bytes) (segLen i k : Nat) (hv : byteAt H 0 / 16 ≠ 6)
    (hk : k ≠ 2 ∧ k ≠ 3 ∧ k ≠ 4 ∧ k ≠ 5 ∧ k ≠ 10 ∧ k ≠ 11) : rd (segIP H segLen i) k = rd H k := by
  unfold segIP
  rw [get_eq, if_neg hv]
  simp only
  rw [rd_setBe16_ne _ _ _ _ (by omega) (by omega), rd_setBe16_ne _ _ _ _ (by omega) (by omega),
    rd_setBe16_ne _ _ _ _ (by omega) (by omega), rd_setBe16_ne _ _ _ _ (by omega) (by omega)]

theorem u16At_segIP_v4_len (H : Bytes) (segLen i : Nat) (hv : byteAt H 0 / 16 ≠ 6) (hl : 20 ≤ H.length) :
    u16At (segIP H segLen i) 2 = segLen % 65536 := by
  unfold segIP
  rw [get_eq, if_neg hv]
  simp only
  rw [u16At_setBe16_ne _ _ _ _ (by omega), u16At_setBe16_ne _ _ _ _ (by omega),
    u16At_setBe16_ne _ _ _ _ (by omega), u16At_setBe16 _ _ _ (by omega)]

theorem u16At_segIP_v4_id (H : Bytes) (segLen i : Nat) (hv : byteAt H 0 / 16 ≠ 6) (hl : 20 ≤ H.length) :
    u16At (segIP H segLen i) 4 = (u16At H 4 + i) % 65536 := by
  unfold segIP
  rw [get_eq, if_neg hv]
  simp only
  rw [u16At_setBe16_ne _ _ _ _ (by omega), u16At_setBe16_ne _ _ _ _ (by omega),
    u16At_setBe16 _ _ _ (by rw [length_setBe16]; omega), be16_eq]
  omega

theorem rd_segIP_v6 (H : Bytes) (segLen i k : Nat) (hv : byteAt H 0 / 16 = 6)
    (hk : k ≠ 4 ∧ k ≠ 5) : rd (segIP H segLen i) k = rd H k := by
  unfold segIP
  rw [get_eq, if_pos hv, rd_setBe16_ne _ _ _ _ (by omega) (by omega)]

theorem u16At_segIP_v6_len (H : Bytes) (segLen i : Nat) (hv : byteAt H 0 / 16 = 6) (hl : 40 ≤ H.length) :
    u16At (segIP H segLen i) 4 = (segLen - 40) % 65536 := by
  unfold segIP
  rw [get_eq, if_pos hv, u16At_setBe16 _ _ _ (by omega)]

theorem length_segL4 (tcp : Bool) (T : Bytes) (g n i : Nat) (c : Bytes) :
    (segL4 tcp T g n i c).length = T.length := by
  unfold segL4; split <;> simp [length_setBe16, length_setBe32, length_setByte]

theorem length_completeCsum (tcp : Bool) (ip l4 pay : Bytes) : (completeCsum tcp ip l4 pay).length = l4.length := by
  simp [completeCsum, length_setBe16]

theorem rd_completeCsum (tcp : Bool) (ip l4 pay : Bytes) (k : Nat)
    (hk : k ≠ (if tcp then 16 else 6) ∧ k ≠ (if tcp then 17 else 7)) :
    rd (completeCsum tcp ip l4 pay) k = rd l4 k := by
  unfold completeCsum
  simp only
  cases tcp <;> simp only [Bool.false_eq_true, ↓reduceIte] at hk ⊢ <;>
    rw [rd_setBe16_ne _ _ _ _ (by omega) (by omega)]

theorem u16At_completeCsum (tcp : Bool) (ip l4 pay : Bytes) (j : Nat)
    (hj : j + 1 < (if tcp then 16 else 6) ∨ (if tcp then 16 else 6) + 1 < j) :
    u16At (completeCsum tcp ip l4 pay) j = u16At l4 j := by
  simp only [u16At, byteAt_rd]
  cases tcp <;> simp only [Bool.false_eq_true, ↓reduceIte] at hj <;>
    rw [rd_completeCsum _ _ _ _ _ (by simp; omega), rd_completeCsum _ _ _ _ _ (by simp; omega)]

theorem rd_segL4_udp (T : Bytes) (g n i k : Nat) (c : Bytes) (hk : k ≠ 4 ∧ k ≠ 5) :
    rd (segL4 false T g n i c) k = rd T k := by
  unfold segL4
  simp only [Bool.false_eq_true, ↓reduceIte]
  rw [rd_setBe16_ne _ _ _ _ (by omega) (by omega)]

theorem u16At_segL4_udp (T : Bytes) (g n i : Nat) (c : Bytes) (hl : 6 ≤ T.length) :
    u16At (segL4 false T g n i c) 4 = (T.length + c.length) % 65536 := by
  unfold segL4
  simp only [Bool.false_eq_true, ↓reduceIte]
  rw [u16At_setBe16 _ _ _ (by omega)]

theorem rd_segL4_tcp (T : Bytes) (g n i k : Nat) (c : Bytes)
    (hk : k ≠ 4 ∧ k ≠ 5 ∧ k ≠ 6 ∧ k ≠ 7 ∧ k ≠ 13) : rd (segL4 true T g n i c) k = rd T k := by
  unfold segL4
  simp only [↓reduceIte]
  rw [rd_setByte_ne _ _ _ _ (by omega), rd_setBe32_ne _ _ _ _ (by omega) (by omega) (by omega) (by omega)]

theorem u32At_segL4_tcp (T : Bytes) (g n i : Nat) (c : Bytes) (hl : 14 ≤ T.length) :
    u32At (segL4 true T g n i c) 4 = (u32At T 4 + i * g) % 4294967296 := by
  unfold segL4
  simp only [↓reduceIte]
  have : ∀ (b : Bytes) (v : Nat), u32At (setByte b 13 v) 4 = u32At b 4 := by
    intro b v
    simp only [u32At, u16At, byteAt_rd]
    rw [rd_setByte_ne _ _ _ _ (by omega), rd_setByte_ne _ _ _ _ (by omega),
      rd_setByte_ne _ _ _ _ (by omega), rd_setByte_ne _ _ _ _ (by omega)]
  rw [this, u32At_setBe32 _ _ _ (by omega), be32_eq]
  omega

/-- the flags byte of segment `i` of `n` -/
def segFlags (f n i : Nat) : Nat :=
  let f := if i + 1 < n then clearBit (clearBit f 0) 3 else f
  if 0 < i then clearBit f 7 else f

theorem clearBit_lt (f k : Nat) (h : f < 256) : clearBit f k < 256 := by
  unfold clearBit; split
  · exact Nat.lt_of_le_of_lt (Nat.sub_le _ _) h
  · exact h

theorem byteAt_segL4_tcp (T : Bytes) (g n i : Nat) (c : Bytes) (hl : 14 ≤ T.length) :
    byteAt (segL4 true T g n i c) 13 = segFlags (byteAt T 13) n i := by
  unfold segL4
  simp only [↓reduceIte, setByte, byteAt_rd]
  rw [rd_set_eq _ _ _ (by rw [length_setBe32]; omega)]
  simp only [UInt8.toNat_ofNat', get_eq, byteAt_rd, segFlags]
  have hb := byteAt_lt T 13
  simp only [byteAt_rd] at hb
  apply Nat.mod_eq_of_lt
  split <;> split <;> (first | exact hb | (repeat apply clearBit_lt) <;> exact hb)

/-! ### equality outside a set of offsets, and masking -/

theorem rd_ge (b : Bytes) (k : Nat) (h : b.length ≤ k) : rd b k = 0 := by
  simp [rd, List.getD_eq_getElem?_getD, List.getElem?_eq_none h]

def EqOff (P : Nat → Prop) (a b : Bytes) : Prop := a.length = b.length ∧ ∀ k, ¬ P k → rd a k = rd b k

theorem EqOff.z2 {P : Nat → Prop} {a b : Bytes} (off : Nat) (h : EqOff P a b) :
    EqOff (fun k => P k ∧ k ≠ off ∧ k ≠ off + 1) (zero2 a off) (zero2 b off) := by
  refine ⟨by rw [length_zero2, length_zero2]; exact h.1, ?_⟩
  intro k hk
  by_cases hoff : k = off ∨ k = off + 1
  · by_cases hl : k < a.length
    · rw [rd_zero2_eq _ _ _ hoff hl, rd_zero2_eq _ _ _ hoff (by rw [← h.1]; exact hl)]
    · rw [rd_ge _ _ (by rw [length_zero2]; omega), rd_ge _ _ (by rw [length_zero2, ← h.1]; omega)]
  · have h1 : off ≠ k := by omega
    have h2 : off + 1 ≠ k := by omega
    rw [rd_zero2_ne _ _ _ h1 h2, rd_zero2_ne _ _ _ h1 h2]
    apply h.2
    intro hp
    exact hk ⟨hp, by omega, by omega⟩

theorem EqOff.eq {P : Nat → Prop} {a b : Bytes} (h : EqOff P a b) (hP : ∀ k, ¬ P k) : a = b :=
  ext_rd h.1 (fun k _ => h.2 k (hP k))

theorem EqOff.mono {P Q : Nat → Prop} {a b : Bytes} (h : EqOff P a b) (hPQ : ∀ k, P k → Q k) : EqOff Q a b :=
  ⟨h.1, fun k hk => h.2 k (fun hp => hk (hPQ k hp))⟩

/-- shape of a plain IPv4 TCP/UDP packet whose length field is exact -/
structure Plain4 (tcp : Bool) (x : Bytes) : Prop where
  b0 : byteAt x 0 = 0x45
  frag : u16At x 6 % 16384 = 0
  len : u16At x 2 = x.length
  proto : byteAt x 9 = if tcp then 6 else 17
  minLen : (if tcp then 40 else 28) ≤ x.length

/-- shape of a plain IPv6 TCP/UDP packet whose length field is exact -/
structure Plain6 (tcp : Bool) (x : Bytes) : Prop where
  b0 : byteAt x 0 / 16 = 6
  len : u16At x 4 + 40 = x.length
  proto : byteAt x 6 = if tcp then 6 else 17
  minLen : (if tcp then 60 else 48) ≤ x.length

theorem mask_plain4 {tcp : Bool} {x : Bytes} (h : Plain4 tcp x) :
    mask x = zero2 (if byteAt x 6 / 64 % 2 = 1 then zero2 (zero2 x 10) 4 else zero2 x 10)
      (20 + (if tcp then 16 else 6)) := by
  have hml := h.minLen
  have h20 : ¬ x.length < 20 := by cases tcp <;> simp at hml <;> omega
  have hv : byteAt x 0 / 16 = 4 := by rw [h.b0]
  have htrim : trim x = x := by
    unfold trim
    simp only [h20, ↓reduceIte, get_eq, hv, be16_eq, h.len]
    simp
    try omega
  have hcls : classify x = some (false, 20, tcp) := by
    unfold classify
    simp only [h20, ↓reduceIte, get_eq, h.b0, be16_eq, h.frag, h.proto]
    cases tcp <;> simp at hml ⊢ <;> omega
  have h6 : byteAt (zero2 x 10) 6 = byteAt x 6 := by
    simp only [byteAt_rd]; rw [rd_zero2_ne _ _ _ (by omega) (by omega)]
  unfold mask
  simp only [htrim, hcls, Bool.false_eq_true, ↓reduceIte, get_eq, h6]

theorem mask_plain6 {tcp : Bool} {x : Bytes} (h : Plain6 tcp x) :
    mask x = zero2 x (40 + (if tcp then 16 else 6)) := by
  have hml := h.minLen
  have h20 : ¬ x.length < 20 := by cases tcp <;> simp at hml <;> omega
  have h45 : ¬ byteAt x 0 = 0x45 := by have := h.b0; omega
  have h4 : ¬ byteAt x 0 / 16 = 4 := by have := h.b0; omega
  have hl := h.len
  have htrim : trim x = x := by
    unfold trim
    simp only [h20, ↓reduceIte, get_eq, h.b0, be16_eq]
    have : 40 ≤ x.length ∧ 40 + u16At x 4 ≤ x.length := by omega
    simp only [this, and_self, ↓reduceIte]
    rw [show 40 + u16At x 4 = x.length by omega]; simp
  have hcls : classify x = some (true, 40, tcp) := by
    unfold classify
    simp only [h20, ↓reduceIte, get_eq, h45, h.b0, h.proto]
    cases tcp <;> simp at hml ⊢ <;> omega
  unfold mask
  simp only [htrim, hcls, ↓reduceIte]

/-! ### a kernel-built segment, read at absolute offsets -/

theorem length_buildSeg (tcp : Bool) (H T : Bytes) (g n i : Nat) (c : Bytes) :
    (buildSeg tcp H T g n i c).length = H.length + T.length + c.length := by
  simp [buildSeg, length_segIP, length_completeCsum, length_segL4]; omega

theorem rd_buildSeg (tcp : Bool) (H T : Bytes) (g n i : Nat) (c : Bytes) (k : Nat) :
    rd (buildSeg tcp H T g n i c) k =
      if k < H.length then rd (segIP H (H.length + T.length + c.length) i) k
      else if k < H.length + T.length then
        rd (completeCsum tcp (segIP H (H.length + T.length + c.length) i) (segL4 tcp T g n i c) c) (k - H.length)
      else rd c (k - H.length - T.length) := by
  unfold buildSeg
  simp only
  rw [rd_append, List.length_append, length_segIP, length_completeCsum, length_segL4, rd_append, length_segIP]
  by_cases h1 : k < H.length
  · have h2 : k < H.length + T.length := by omega
    simp only [h1, h2, ↓reduceIte]
  · by_cases h2 : k < H.length + T.length
    · simp only [h1, h2, ↓reduceIte]
    · simp only [h1, h2, ↓reduceIte]
      congr 1; omega

theorem u16At_buildSeg_ip (tcp : Bool) (H T : Bytes) (g n i : Nat) (c : Bytes) (j : Nat) (hj : j + 1 < H.length) :
    u16At (buildSeg tcp H T g n i c) j = u16At (segIP H (H.length + T.length + c.length) i) j := by
  simp only [u16At, byteAt_rd]
  rw [rd_buildSeg, rd_buildSeg, if_pos (by omega), if_pos (by omega)]

theorem rd_buildSeg_l4 (tcp : Bool) (H T : Bytes) (g n i : Nat) (c : Bytes) (j : Nat) (hj : j < T.length) :
    rd (buildSeg tcp H T g n i c) (H.length + j) =
      rd (completeCsum tcp (segIP H (H.length + T.length + c.length) i) (segL4 tcp T g n i c) c) j := by
  rw [rd_buildSeg, if_neg (by omega), if_pos (by omega)]
  congr 1; omega

/-- offsets of a header the kernel regenerates per segment -/
def Free (tcp v6 : Bool) (l4 k : Nat) : Prop :=
  (v6 = false ∧ (k = 2 ∨ k = 3 ∨ k = 4 ∨ k = 5 ∨ k = 10 ∨ k = 11)) ∨ (v6 = true ∧ (k = 4 ∨ k = 5)) ∨
  (tcp = false ∧ (k = l4 + 4 ∨ k = l4 + 5 ∨ k = l4 + 6 ∨ k = l4 + 7)) ∨
  (tcp = true ∧ (k = l4 + 4 ∨ k = l4 + 5 ∨ k = l4 + 6 ∨ k = l4 + 7 ∨ k = l4 + 13 ∨ k = l4 + 16 ∨ k = l4 + 17))

theorem Free.v4 {tcp : Bool} {l4 k : Nat} (h : k = 2 ∨ k = 3 ∨ k = 4 ∨ k = 5 ∨ k = 10 ∨ k = 11) :
    Free tcp false l4 k := Or.inl ⟨rfl, h⟩
theorem Free.v6 {tcp : Bool} {l4 k : Nat} (h : k = 4 ∨ k = 5) : Free tcp true l4 k := Or.inr (Or.inl ⟨rfl, h⟩)
theorem Free.udp {v6 : Bool} {l4 k : Nat} (h : k = l4 + 4 ∨ k = l4 + 5 ∨ k = l4 + 6 ∨ k = l4 + 7) :
    Free false v6 l4 k := Or.inr (Or.inr (Or.inl ⟨rfl, h⟩))
theorem Free.tcp {v6 : Bool} {l4 k : Nat}
    (h : k = l4 + 4 ∨ k = l4 + 5 ∨ k = l4 + 6 ∨ k = l4 + 7 ∨ k = l4 + 13 ∨ k = l4 + 16 ∨ k = l4 + 17) :
    Free true v6 l4 k := Or.inr (Or.inr (Or.inr ⟨rfl, h⟩))

/-- what the reference segmenter produced for segment `i`, relative to the full header `h`
(`h[:l4]` went in as IP header, `h[l4:]` as transport header). -/
structure BFacts (tcp v6 : Bool) (l4 : Nat) (h c : Bytes) (g n i : Nat) (B : Bytes) : Prop where
  len : B.length = h.length + c.length
  pay : ∀ k, h.length ≤ k → rd B k = rd c (k - h.length)
  keep : ∀ k, k < h.length → ¬ Free tcp v6 l4 k → rd B k = rd h k
  v4len : v6 = false → u16At B 2 = (h.length + c.length) % 65536
  v4id : v6 = false → u16At B 4 = (u16At h 4 + i) % 65536
  v6len : v6 = true → u16At B 4 = (h.length + c.length - 40) % 65536
  ulen : tcp = false → u16At B (l4 + 4) = (h.length - l4 + c.length) % 65536
  tseq : tcp = true → u32At B (l4 + 4) = (u32At h (l4 + 4) + i * g) % 4294967296
  tfl : tcp = true → byteAt B (l4 + 13) = segFlags (byteAt h (l4 + 13)) n i

theorem buildSeg_facts (tcp v6 : Bool) (l4 : Nat) (h c : Bytes) (g n i : Nat)
    (hl4 : l4 = if v6 then 40 else 20) (hv : (byteAt h 0 / 16 = 6) ↔ v6 = true)
    (hlen : l4 + (if tcp then 20 else 8) ≤ h.length) :
    BFacts tcp v6 l4 h c g n i (buildSeg tcp (h.take l4) (h.drop l4) g n i c) := by
  have hHl : (h.take l4).length = l4 := by simp; cases tcp <;> simp at hlen <;> omega
  have hTl : (h.drop l4).length = h.length - l4 := by simp
  have h20 : 20 ≤ l4 := by cases v6 <;> simp at hl4 <;> omega
  have hl8 : l4 + 8 ≤ h.length := by cases tcp <;> simp at hlen <;> omega
  have hb0 : byteAt (h.take l4) 0 = byteAt h 0 := byteAt_take _ _ _ (by omega)
  have hsum : (h.take l4).length + (h.drop l4).length = h.length := by rw [hHl, hTl]; omega
  constructor
  · rw [length_buildSeg, hsum]
  · intro k hk
    rw [rd_buildSeg, if_neg (by rw [hHl]; omega), if_neg (by rw [hsum]; omega)]
    congr 1; rw [hHl, hTl]; omega
  · intro k hk hfree
    by_cases hk4 : k < l4
    · rw [rd_buildSeg, if_pos (by rw [hHl]; exact hk4)]
      cases v6 with
      | true =>
        rw [rd_segIP_v6 _ _ _ _ (by rw [hb0]; exact hv.mpr rfl)
          ⟨fun e => hfree (Free.v6 (by omega)), fun e => hfree (Free.v6 (by omega))⟩, rd_take _ _ _ hk4]
      | false =>
        rw [rd_segIP_v4 _ _ _ _ (by rw [hb0]; intro e; have := hv.mp e; cases this)
          ⟨fun e => hfree (Free.v4 (by omega)), fun e => hfree (Free.v4 (by omega)),
           fun e => hfree (Free.v4 (by omega)), fun e => hfree (Free.v4 (by omega)),
           fun e => hfree (Free.v4 (by omega)), fun e => hfree (Free.v4 (by omega))⟩, rd_take _ _ _ hk4]
    · have hk' : k = (h.take l4).length + (k - l4) := by rw [hHl]; omega
      rw [hk', rd_buildSeg_l4 _ _ _ _ _ _ _ _ (by rw [hTl]; omega)]
      cases tcp with
      | true =>
        rw [rd_completeCsum _ _ _ _ _ (by
            simp only [↓reduceIte]
            exact ⟨fun e => hfree (Free.tcp (by omega)), fun e => hfree (Free.tcp (by omega))⟩),
          rd_segL4_tcp _ _ _ _ _ _
            ⟨fun e => hfree (Free.tcp (by omega)), fun e => hfree (Free.tcp (by omega)),
             fun e => hfree (Free.tcp (by omega)), fun e => hfree (Free.tcp (by omega)),
             fun e => hfree (Free.tcp (by omega))⟩,
          rd_drop, ← hk']
        congr 1; omega
      | false =>
        rw [rd_completeCsum _ _ _ _ _ (by
            simp only [Bool.false_eq_true, ↓reduceIte]
            exact ⟨fun e => hfree (Free.udp (by omega)), fun e => hfree (Free.udp (by omega))⟩),
          rd_segL4_udp _ _ _ _ _ _
            ⟨fun e => hfree (Free.udp (by omega)), fun e => hfree (Free.udp (by omega))⟩,
          rd_drop, ← hk']
        congr 1; omega
  · intro h6
    have hv4 : byteAt (h.take l4) 0 / 16 ≠ 6 := by rw [hb0]; intro e; have := hv.mp e; rw [h6] at this; cases this
    rw [u16At_buildSeg_ip _ _ _ _ _ _ _ _ (by rw [hHl]; omega), u16At_segIP_v4_len _ _ _ hv4 (by rw [hHl]; omega), hsum]
  · intro h6
    have hv4 : byteAt (h.take l4) 0 / 16 ≠ 6 := by rw [hb0]; intro e; have := hv.mp e; rw [h6] at this; cases this
    rw [u16At_buildSeg_ip _ _ _ _ _ _ _ _ (by rw [hHl]; omega), u16At_segIP_v4_id _ _ _ hv4 (by rw [hHl]; omega),
      u16At_take _ _ _ (by omega)]
  · intro h6
    have hv6 : byteAt (h.take l4) 0 / 16 = 6 := by rw [hb0]; exact hv.mpr h6
    have h40 : 40 ≤ l4 := by rw [hl4, h6]; simp
    rw [u16At_buildSeg_ip _ _ _ _ _ _ _ _ (by rw [hHl]; omega), u16At_segIP_v6_len _ _ _ hv6 (by rw [hHl]; omega), hsum]
  · intro ht
    subst ht
    have e : l4 + 4 = (h.take l4).length + 4 := by rw [hHl]
    have e1 : l4 + 4 + 1 = (h.take l4).length + 5 := by rw [hHl]
    simp only [u16At, byteAt_rd]
    rw [e1, e, rd_buildSeg_l4 _ _ _ _ _ _ _ _ (by rw [hTl]; omega), rd_buildSeg_l4 _ _ _ _ _ _ _ _ (by rw [hTl]; omega)]
    have := u16At_completeCsum false (segIP (h.take l4) ((h.take l4).length + (h.drop l4).length + c.length) i)
      (segL4 false (h.drop l4) g n i c) c 4 (by simp)
    simp only [u16At, byteAt_rd] at this
    rw [this]
    have := u16At_segL4_udp (h.drop l4) g n i c (by rw [hTl]; omega)
    simp only [u16At, byteAt_rd] at this
    rw [this, hTl]
  · intro ht
    subst ht
    simp only [↓reduceIte] at hlen
    have hrd : ∀ j, j < 16 → rd (buildSeg true (h.take l4) (h.drop l4) g n i c) (l4 + j) =
        rd (segL4 true (h.drop l4) g n i c) j := by
      intro j hj
      have e : l4 + j = (h.take l4).length + j := by rw [hHl]
      rw [e, rd_buildSeg_l4 _ _ _ _ _ _ _ _ (by rw [hTl]; omega), rd_completeCsum _ _ _ _ _ (by simp; omega)]
    have h1 := hrd 4 (by omega); have h2 := hrd 5 (by omega)
    have h3 := hrd 6 (by omega); have h4 := hrd 7 (by omega)
    have := u32At_segL4_tcp (h.drop l4) g n i c (by rw [hTl]; omega)
    simp only [u32At, u16At, byteAt_rd] at this ⊢
    simp only [Nat.add_assoc] at h1 h2 h3 h4 ⊢
    rw [h1, h2, h3, h4]
    simp only [rd_drop] at this ⊢
    simp only [Nat.add_assoc] at this ⊢
    exact this
  · intro ht
    subst ht
    simp only [↓reduceIte] at hlen
    have e : l4 + 13 = (h.take l4).length + 13 := by rw [hHl]
    simp only [byteAt_rd]
    rw [e, rd_buildSeg_l4 _ _ _ _ _ _ _ _ (by rw [hTl]; omega), rd_completeCsum _ _ _ _ _ (by simp)]
    have := byteAt_segL4_tcp (h.drop l4) g n i c (by rw [hTl]; omega)
    simp only [byteAt_rd] at this
    rw [this, rd_drop, hHl]

/-! ### one segment: rebuilt by the kernel = the original, up to `mask` -/

/-- `t` (a trimmed original packet) relative to the flushed superpacket header `h`, as segment `i` of `n`. -/
structure SegHyp (tcp v6 : Bool) (l4 : Nat) (h t : Bytes) (g n i : Nat) : Prop where
  hl4 : l4 = if v6 then 40 else 20
  hmin : l4 + (if tcp then 20 else 8) ≤ h.length
  tlen : h.length < t.length
  tmax : t.length ≤ 65535
  hv : (byteAt h 0 / 16 = 6) ↔ v6 = true
  t4 : v6 = false → byteAt t 0 = 0x45 ∧ u16At t 6 % 16384 = 0 ∧ u16At t 2 = t.length
  t6 : v6 = true → byteAt t 0 / 16 = 6 ∧ u16At t 4 + 40 = t.length
  proto : byteAt t (if v6 then 6 else 9) = if tcp then 6 else 17
  agree : ∀ k, k < h.length → ¬ Free tcp v6 l4 k → rd h k = rd t k
  id : v6 = false → byteAt t 6 / 64 % 2 ≠ 1 → u16At t 4 = (u16At h 4 + i) % 65536
  ulen : tcp = false → u16At t (l4 + 4) = t.length - l4
  tseq : tcp = true → u32At t (l4 + 4) = (u32At h (l4 + 4) + i * g) % 4294967296
  tfl : tcp = true → byteAt t (l4 + 13) = segFlags (byteAt h (l4 + 13)) n i

theorem rd_eq_of_byteAt_eq {a b : Bytes} {i j : Nat} (h : byteAt a i = byteAt b j) : rd a i = rd b j :=
  UInt8.toNat_inj.mp h

theorem seg_core {tcp v6 : Bool} {l4 : Nat} {h t : Bytes} {g n i : Nat} (H : SegHyp tcp v6 l4 h t g n i)
    (k : Nat)
    (hk1 : ¬ (v6 = false ∧ (k = 10 ∨ k = 11)))
    (hk2 : ¬ (v6 = false ∧ byteAt t 6 / 64 % 2 = 1 ∧ (k = 4 ∨ k = 5)))
    (hk3 : k ≠ l4 + (if tcp then 16 else 6) ∧ k ≠ l4 + (if tcp then 16 else 6) + 1) :
    rd (buildSeg tcp (h.take l4) (h.drop l4) g n i (t.drop h.length)) k = rd t k := by
  have BF := buildSeg_facts tcp v6 l4 h (t.drop h.length) g n i H.hl4 H.hv H.hmin
  have hc : (t.drop h.length).length = t.length - h.length := by simp
  have htl := H.tlen; have htm := H.tmax
  have hsum : h.length + (t.drop h.length).length = t.length := by rw [hc]; omega
  by_cases hge : h.length ≤ k
  · rw [BF.pay k hge, rd_drop]; congr 1; omega
  · have hlt : k < h.length := by omega
    by_cases hfree : Free tcp v6 l4 k
    · rcases hfree with ⟨h6, hk⟩ | ⟨h6, hk⟩ | ⟨ht, hk⟩ | ⟨ht, hk⟩
      · -- IPv4 fields
        have e2 : u16At (buildSeg tcp (h.take l4) (h.drop l4) g n i (t.drop h.length)) 2 = u16At t 2 := by
          rw [BF.v4len h6, hsum, (H.t4 h6).2.2]; omega
        have := rd_of_u16At_eq' e2
        rcases hk with hk | hk | hk | hk | hk | hk
        · subst hk; exact this.1
        · subst hk; exact this.2
        · by_cases hdf : byteAt t 6 / 64 % 2 = 1
          · exact absurd ⟨h6, hdf, Or.inl hk⟩ hk2
          · have e4 := (BF.v4id h6).trans (H.id h6 hdf).symm
            subst hk; exact (rd_of_u16At_eq' e4).1
        · by_cases hdf : byteAt t 6 / 64 % 2 = 1
          · exact absurd ⟨h6, hdf, Or.inr hk⟩ hk2
          · have e4 := (BF.v4id h6).trans (H.id h6 hdf).symm
            subst hk; exact (rd_of_u16At_eq' e4).2
        · exact absurd ⟨h6, Or.inl hk⟩ hk1
        · exact absurd ⟨h6, Or.inr hk⟩ hk1
      · -- IPv6 payload length
        have e4 : u16At (buildSeg tcp (h.take l4) (h.drop l4) g n i (t.drop h.length)) 4 = u16At t 4 := by
          rw [BF.v6len h6, hsum]; have := (H.t6 h6).2; omega
        have := rd_of_u16At_eq' e4
        rcases hk with hk | hk
        · subst hk; exact this.1
        · subst hk; exact this.2
      · -- UDP length
        subst ht
        simp only [Bool.false_eq_true, ↓reduceIte] at hk3
        have hm := H.hmin; simp only [Bool.false_eq_true, ↓reduceIte] at hm
        have hl4 : l4 ≤ 40 := by have := H.hl4; cases v6 <;> simp at this <;> omega
        have e4 : u16At (buildSeg false (h.take l4) (h.drop l4) g n i (t.drop h.length)) (l4 + 4) = u16At t (l4 + 4) := by
          rw [BF.ulen rfl, H.ulen rfl, hc]; omega
        have := rd_of_u16At_eq' e4
        rcases hk with hk | hk | hk | hk
        · subst hk; exact this.1
        · subst hk; exact this.2
        · exact absurd hk hk3.1
        · exact absurd hk hk3.2
      · -- TCP sequence number and flags
        subst ht
        simp only [↓reduceIte] at hk3
        have e4 := (BF.tseq rfl).trans (H.tseq rfl).symm
        have := rd_of_u32At_eq' e4
        rcases hk with hk | hk | hk | hk | hk | hk | hk
        · subst hk; exact this.1
        · subst hk; exact this.2.1
        · subst hk; exact this.2.2.1
        · subst hk; exact this.2.2.2
        · subst hk; exact rd_eq_of_byteAt_eq ((BF.tfl rfl).trans (H.tfl rfl).symm)
        · exact absurd hk hk3.1
        · exact absurd hk hk3.2
    · rw [BF.keep k hlt hfree, H.agree k hlt hfree]

theorem u16At_congr {a b : Bytes} {j : Nat} (h1 : rd a j = rd b j) (h2 : rd a (j + 1) = rd b (j + 1)) :
    u16At a j = u16At b j := by
  simp only [u16At, byteAt_rd, h1, h2]

theorem seg_mask_eq {tcp v6 : Bool} {l4 : Nat} {h t : Bytes} {g n i : Nat} (H : SegHyp tcp v6 l4 h t g n i) :
    mask (buildSeg tcp (h.take l4) (h.drop l4) g n i (t.drop h.length)) = mask t := by
  have BF := buildSeg_facts tcp v6 l4 h (t.drop h.length) g n i H.hl4 H.hv H.hmin
  have hc : (t.drop h.length).length = t.length - h.length := by simp
  have htl := H.tlen; have htm := H.tmax
  have hlen : (buildSeg tcp (h.take l4) (h.drop l4) g n i (t.drop h.length)).length = t.length := by
    rw [BF.len, hc]; omega
  have hmin := H.hmin
  have core := seg_core H
  cases v6 with
  | false =>
    have hl4 : l4 = 20 := by have := H.hl4; simpa using this
    subst hl4
    obtain ⟨t0, tfrag, tl⟩ := H.t4 rfl
    have hco : (if tcp = true then 16 else 6) < 18 := by cases tcp <;> simp
    have ck : ∀ k, k < 20 → k ≠ 10 → k ≠ 11 → k ≠ 4 → k ≠ 5 →
        rd (buildSeg tcp (h.take 20) (h.drop 20) g n i (t.drop h.length)) k = rd t k := by
      intro k h1 h2 h3 h4 h5
      exact core k (by intro ⟨_, e⟩; omega) (by intro ⟨_, _, e⟩; omega) ⟨by omega, by omega⟩
    have pt : Plain4 tcp t := by
      refine ⟨t0, tfrag, tl, by simpa using H.proto, ?_⟩
      cases tcp <;> simp at hmin ⊢ <;> omega
    have pb : Plain4 tcp (buildSeg tcp (h.take 20) (h.drop 20) g n i (t.drop h.length)) := by
      refine ⟨?_, ?_, ?_, ?_, ?_⟩
      · simp only [byteAt_rd]; rw [ck 0 (by omega) (by omega) (by omega) (by omega) (by omega)]; exact t0
      · rw [u16At_congr (ck 6 (by omega) (by omega) (by omega) (by omega) (by omega))
          (ck 7 (by omega) (by omega) (by omega) (by omega) (by omega))]; exact tfrag
      · rw [BF.v4len rfl, hlen, hc]; omega
      · simp only [byteAt_rd]; rw [ck 9 (by omega) (by omega) (by omega) (by omega) (by omega), ← byteAt_rd]
        simpa using H.proto
      · rw [hlen]; exact pt.minLen
    have hdf : byteAt (buildSeg tcp (h.take 20) (h.drop 20) g n i (t.drop h.length)) 6 = byteAt t 6 := by
      simp only [byteAt_rd]; rw [ck 6 (by omega) (by omega) (by omega) (by omega) (by omega)]
    rw [mask_plain4 pb, mask_plain4 pt, hdf]
    by_cases hd : byteAt t 6 / 64 % 2 = 1
    · rw [if_pos hd, if_pos hd]
      have e0 : EqOff (fun k => k = 10 ∨ k = 11 ∨ k = 4 ∨ k = 5 ∨
          k = 20 + (if tcp = true then 16 else 6) ∨ k = 20 + (if tcp = true then 16 else 6) + 1)
          (buildSeg tcp (h.take 20) (h.drop 20) g n i (t.drop h.length)) t :=
        ⟨hlen, fun k hk => core k (by intro ⟨_, e⟩; exact hk (by omega)) (by intro ⟨_, _, e⟩; exact hk (by omega))
          ⟨fun e => hk (by omega), fun e => hk (by omega)⟩⟩
      exact (((e0.z2 10).z2 4).z2 (20 + (if tcp = true then 16 else 6))).eq (by intro k; omega)
    · rw [if_neg hd, if_neg hd]
      have e0 : EqOff (fun k => k = 10 ∨ k = 11 ∨
          k = 20 + (if tcp = true then 16 else 6) ∨ k = 20 + (if tcp = true then 16 else 6) + 1)
          (buildSeg tcp (h.take 20) (h.drop 20) g n i (t.drop h.length)) t :=
        ⟨hlen, fun k hk => core k (by intro ⟨_, e⟩; exact hk (by omega)) (by intro ⟨_, e, _⟩; exact hd e)
          ⟨fun e => hk (by omega), fun e => hk (by omega)⟩⟩
      exact ((e0.z2 10).z2 (20 + (if tcp = true then 16 else 6))).eq (by intro k; omega)
  | true =>
    have hl4 : l4 = 40 := by have := H.hl4; simpa using this
    subst hl4
    obtain ⟨t0, tl⟩ := H.t6 rfl
    have hco : (if tcp = true then 16 else 6) < 18 := by cases tcp <;> simp
    have ck : ∀ k, k < 40 →
        rd (buildSeg tcp (h.take 40) (h.drop 40) g n i (t.drop h.length)) k = rd t k := by
      intro k h1
      exact core k (by intro ⟨e, _⟩; cases e) (by intro ⟨e, _⟩; cases e) ⟨by omega, by omega⟩
    have pt : Plain6 tcp t := by
      refine ⟨t0, tl, by simpa using H.proto, ?_⟩
      cases tcp <;> simp at hmin ⊢ <;> omega
    have pb : Plain6 tcp (buildSeg tcp (h.take 40) (h.drop 40) g n i (t.drop h.length)) := by
      refine ⟨?_, ?_, ?_, ?_⟩
      · simp only [byteAt_rd]; rw [ck 0 (by omega)]; exact t0
      · rw [BF.v6len rfl, hlen, hc]; omega
      · simp only [byteAt_rd]; rw [ck 6 (by omega), ← byteAt_rd]; simpa using H.proto
      · rw [hlen]; exact pt.minLen
    rw [mask_plain6 pb, mask_plain6 pt]
    have e0 : EqOff (fun k => k = 40 + (if tcp = true then 16 else 6) ∨ k = 40 + (if tcp = true then 16 else 6) + 1)
        (buildSeg tcp (h.take 40) (h.drop 40) g n i (t.drop h.length)) t :=
      ⟨hlen, fun k hk => core k (by intro ⟨e, _⟩; cases e) (by intro ⟨e, _⟩; cases e)
        ⟨fun e => hk (by omega), fun e => hk (by omega)⟩⟩
    exact (e0.z2 (40 + (if tcp = true then 16 else 6))).eq (by intro k; omega)

/-! ### the flushed header -/

theorem length_putU16 (b : Bytes) (off v : Nat) : (putU16 b off v).length = b.length := by
  rw [putU16_eq, length_setBe16]

theorem length_flushHdr (tcp : Bool) (s : Slot) : (flushHdr tcp s).length = min s.hdrLen s.rawPkt.length := by
  unfold flushHdr
  simp only
  split <;> split <;> simp [length_putU16, slice_zero]

/-- offsets `flushSlot` patches -/
def FlushW (tcp v6 : Bool) (l4 k : Nat) : Prop :=
  (v6 = false ∧ (k = 2 ∨ k = 3 ∨ k = 10 ∨ k = 11)) ∨ (v6 = true ∧ (k = 4 ∨ k = 5)) ∨
  (tcp = false ∧ (k = l4 + 4 ∨ k = l4 + 5 ∨ k = l4 + 6 ∨ k = l4 + 7)) ∨
  (tcp = true ∧ (k = l4 + 16 ∨ k = l4 + 17))

theorem rd_putU16_ne (b : Bytes) (off v k : Nat) (h1 : off ≠ k) (h2 : off + 1 ≠ k) :
    rd (putU16 b off v) k = rd b k := by
  rw [putU16_eq]; exact rd_setBe16_ne _ _ _ _ h1 h2

theorem rd_flushHdr (tcp : Bool) (s : Slot) (k : Nat) (hk : k < s.hdrLen)
    (hw : ¬ FlushW tcp s.isV6 s.ipHdrLen k) : rd (flushHdr tcp s) k = rd s.rawPkt k := by
  unfold flushHdr
  simp only
  have base : rd (slice s.rawPkt 0 s.hdrLen) k = rd s.rawPkt k := by rw [slice_zero]; exact rd_take _ _ _ hk
  cases h6 : s.isV6 with
  | true =>
    rw [h6] at hw
    have n4 : 4 ≠ k := fun e => hw (Or.inr (Or.inl ⟨rfl, Or.inl e.symm⟩))
    have n5 : 4 + 1 ≠ k := fun e => hw (Or.inr (Or.inl ⟨rfl, Or.inr e.symm⟩))
    cases tcp with
    | true =>
      have a : s.ipHdrLen + 16 ≠ k := fun e => hw (Or.inr (Or.inr (Or.inr ⟨rfl, Or.inl e.symm⟩)))
      have b : s.ipHdrLen + 16 + 1 ≠ k := fun e => hw (Or.inr (Or.inr (Or.inr ⟨rfl, Or.inr e.symm⟩)))
      simp only [↓reduceIte]
      rw [rd_putU16_ne _ _ _ _ a b, rd_putU16_ne _ _ _ _ n4 n5, base]
    | false =>
      have a : s.ipHdrLen + 6 ≠ k := fun e => hw (Or.inr (Or.inr (Or.inl ⟨rfl, Or.inr (Or.inr (Or.inl e.symm))⟩)))
      have b : s.ipHdrLen + 6 + 1 ≠ k := fun e => hw (Or.inr (Or.inr (Or.inl ⟨rfl, Or.inr (Or.inr (Or.inr e.symm))⟩)))
      have c : s.ipHdrLen + 4 ≠ k := fun e => hw (Or.inr (Or.inr (Or.inl ⟨rfl, Or.inl e.symm⟩)))
      have d : s.ipHdrLen + 4 + 1 ≠ k := fun e => hw (Or.inr (Or.inr (Or.inl ⟨rfl, Or.inr (Or.inl e.symm)⟩)))
      simp only [Bool.false_eq_true, ↓reduceIte]
      rw [rd_putU16_ne _ _ _ _ a b, rd_putU16_ne _ _ _ _ c d, rd_putU16_ne _ _ _ _ n4 n5, base]
  | false =>
    rw [h6] at hw
    have n2 : 2 ≠ k := fun e => hw (Or.inl ⟨rfl, Or.inl e.symm⟩)
    have n3 : 2 + 1 ≠ k := fun e => hw (Or.inl ⟨rfl, Or.inr (Or.inl e.symm)⟩)
    have n10 : 10 ≠ k := fun e => hw (Or.inl ⟨rfl, Or.inr (Or.inr (Or.inl e.symm))⟩)
    have n11 : 10 + 1 ≠ k := fun e => hw (Or.inl ⟨rfl, Or.inr (Or.inr (Or.inr e.symm))⟩)
    have ip : ∀ v, rd (putU16 (((putU16 (slice s.rawPkt 0 s.hdrLen) 2 (s.hdrLen + s.totalPay)).set 10 0).set 11 0) 10 v) k
        = rd s.rawPkt k := by
      intro v
      rw [rd_putU16_ne _ _ _ _ n10 n11, rd_set_ne _ _ _ _ (by omega), rd_set_ne _ _ _ _ n10,
        rd_putU16_ne _ _ _ _ n2 n3, base]
    cases tcp with
    | true =>
      have a : s.ipHdrLen + 16 ≠ k := fun e => hw (Or.inr (Or.inr (Or.inr ⟨rfl, Or.inl e.symm⟩)))
      have b : s.ipHdrLen + 16 + 1 ≠ k := fun e => hw (Or.inr (Or.inr (Or.inr ⟨rfl, Or.inr e.symm⟩)))
      simp only [Bool.false_eq_true, ↓reduceIte]
      rw [rd_putU16_ne _ _ _ _ a b, ip]
    | false =>
      have a : s.ipHdrLen + 6 ≠ k := fun e => hw (Or.inr (Or.inr (Or.inl ⟨rfl, Or.inr (Or.inr (Or.inl e.symm))⟩)))
      have b : s.ipHdrLen + 6 + 1 ≠ k := fun e => hw (Or.inr (Or.inr (Or.inl ⟨rfl, Or.inr (Or.inr (Or.inr e.symm))⟩)))
      have c : s.ipHdrLen + 4 ≠ k := fun e => hw (Or.inr (Or.inr (Or.inl ⟨rfl, Or.inl e.symm⟩)))
      have d : s.ipHdrLen + 4 + 1 ≠ k := fun e => hw (Or.inr (Or.inr (Or.inl ⟨rfl, Or.inr (Or.inl e.symm)⟩)))
      simp only [Bool.false_eq_true, ↓reduceIte]
      rw [rd_putU16_ne _ _ _ _ a b, rd_putU16_ne _ _ _ _ c d, ip]

theorem FlushW.free {tcp v6 : Bool} {l4 k : Nat} (h : FlushW tcp v6 l4 k) : Free tcp v6 l4 k := by
  rcases h with ⟨a, b⟩ | ⟨a, b⟩ | ⟨a, b⟩ | ⟨a, b⟩
  · exact Or.inl ⟨a, by omega⟩
  · exact Or.inr (Or.inl ⟨a, b⟩)
  · exact Or.inr (Or.inr (Or.inl ⟨a, b⟩))
  · exact Or.inr (Or.inr (Or.inr ⟨a, by omega⟩))

/-! ### `headersMatch`, pointwise -/

theorem beq_slice {a b : Bytes} {lo hi : Nat} (h : (slice a lo hi == slice b lo hi) = true) :
    ∀ k, lo ≤ k → k < hi → rd a k = rd b k := by
  intro k h1 h2
  exact getD_of_slice_eq (by simpa using h) k h1 h2

theorem hm_agree {tcp v6 : Bool} {l4 hdrLen : Nat} {a b : Bytes}
    (h : headersMatch tcp (slice a 0 hdrLen) (slice b 0 hdrLen) v6 l4 = true)
    (hl4 : l4 = if v6 then 40 else 20) (hmin : l4 + 8 ≤ hdrLen) (hudp : tcp = false → hdrLen = l4 + 8) :
    ∀ k, k < hdrLen → ¬ Free tcp v6 l4 k → rd a k = rd b k := by
  intro k hk hfree
  have ta : rd (slice a 0 hdrLen) k = rd a k := by rw [slice_zero]; exact rd_take _ _ _ hk
  have tb : rd (slice b 0 hdrLen) k = rd b k := by rw [slice_zero]; exact rd_take _ _ _ hk
  rw [← ta, ← tb]
  unfold headersMatch at h
  split at h
  · cases h
  · split at h
    · cases h
    · rename_i hlen hip
      simp only [Bool.not_eq_true] at hip
      have hip' : ipHeadersMatch (slice a 0 hdrLen) (slice b 0 hdrLen) v6 = true := by
        cases e : ipHeadersMatch (slice a 0 hdrLen) (slice b 0 hdrLen) v6 with
        | true => rfl
        | false => simp [e] at hip
      by_cases hk4 : k < l4
      · -- IP part
        unfold ipHeadersMatch at hip'
        cases v6 with
        | true =>
          simp only [↓reduceIte, Bool.and_eq_true] at hip' hl4
          by_cases h4 : k < 4
          · exact beq_slice hip'.1 k (by omega) h4
          · have : 6 ≤ k := by
              rcases Nat.lt_or_ge k 6 with h' | h'
              · exact absurd (Free.v6 (by omega)) hfree
              · exact h'
            exact beq_slice hip'.2 k this (by omega)
        | false =>
          simp only [Bool.false_eq_true, ↓reduceIte, Bool.and_eq_true] at hip' hl4
          by_cases h2 : k < 2
          · exact beq_slice hip'.1.1 k (by omega) h2
          · by_cases h6 : k < 6
            · exact absurd (Free.v4 (by omega)) hfree
            · by_cases h10 : k < 10
              · exact beq_slice hip'.1.2 k (by omega) h10
              · by_cases h12 : k < 12
                · exact absurd (Free.v4 (by omega)) hfree
                · exact beq_slice hip'.2 k (by omega) (by omega)
      · -- transport part
        cases tcp with
        | false =>
          simp only [Bool.false_eq_true, ↓reduceIte] at h
          by_cases h4 : k < l4 + 4
          · exact beq_slice h k (by omega) h4
          · have := hudp rfl
            exact absurd (Free.udp (by omega)) hfree
        | true =>
          simp only [↓reduceIte, Bool.and_eq_true] at h
          obtain ⟨⟨⟨p1, p2⟩, p3⟩, p4⟩ := h
          by_cases h4 : k < l4 + 4
          · exact beq_slice p1 k (by omega) h4
          · by_cases h8 : k < l4 + 8
            · exact absurd (Free.tcp (by omega)) hfree
            · by_cases h13 : k < l4 + 13
              · exact beq_slice p2 k (by omega) h13
              · by_cases h14 : k < l4 + 14
                · exact absurd (Free.tcp (by omega)) hfree
                · by_cases h16 : k < l4 + 16
                  · exact beq_slice p3 k (by omega) h16
                  · by_cases h18 : k < l4 + 18
                    · exact absurd (Free.tcp (by omega)) hfree
                    · exact getD_of_drop_eq (by simpa using p4) k (by omega)

/-! ### TCP flags, PSH propagation -/

theorem segFlags_eq (f0 fi sup n i : Nat) (h0 : f0 < 256) (hi : fi < 256)
    (a0 : f0 / 16 % 2 = 1) (o0 : f0 % 8 = 0 ∧ f0 / 32 % 2 = 0 ∧ f0 / 128 % 2 = 0)
    (ai : fi / 16 % 2 = 1) (oi : fi % 8 = 0 ∧ fi / 32 % 2 = 0 ∧ fi / 128 % 2 = 0)
    (ece : fi / 64 % 2 = f0 / 64 % 2) (p0 : f0 / 8 % 2 = 0)
    (hfull : i + 1 < n → fi / 8 % 2 = 0)
    (hsup : sup = f0 ∨ sup = f0 + 8)
    (hlast : ¬ i + 1 < n → (sup = f0 + 8 ↔ fi / 8 % 2 = 1)) :
    fi = segFlags sup n i := by
  unfold segFlags clearBit
  simp only [Nat.pow_zero, Nat.reducePow, Nat.div_one]
  by_cases hlt : i + 1 < n
  · have := hfull hlt
    simp only [hlt, ↓reduceIte]
    rcases hsup with e | e <;> subst e <;> (repeat' split) <;> omega
  · have := hlast hlt
    simp only [hlt, ↓reduceIte]
    rcases hsup with e | e <;> subst e <;> (repeat' split) <;> omega

theorem length_orPsh (raw : Bytes) (off : Nat) : (orPsh raw off).length = raw.length := by
  unfold orPsh; simp only; split <;> simp

theorem rd_orPsh_ne (raw : Bytes) (off k : Nat) (h : off ≠ k) : rd (orPsh raw off) k = rd raw k := by
  unfold orPsh; simp only; split
  · rfl
  · exact rd_set_ne _ _ _ _ h

theorem byteAt_orPsh (raw : Bytes) (off : Nat) (hl : off < raw.length) (hp : byteAt raw off / 8 % 2 = 0) :
    byteAt (orPsh raw off) off = byteAt raw off + 8 := by
  have hb := byteAt_lt raw off
  unfold orPsh
  simp only [hasPsh, batch_tcpFlagPsh, hp]
  simp only [Nat.zero_ne_one, decide_false, Bool.false_eq_true, ↓reduceIte, byteAt_rd]
  rw [rd_set_eq _ _ _ hl, UInt8.toNat_ofNat']
  simp only [byteAt_rd] at hb hp
  omega

end Nebula.Lemmas.Coalesce
