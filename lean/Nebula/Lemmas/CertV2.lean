/-
Helper lemmas for C02 / C03 (v2): what a successful `unmarshalCertificateV2` establishes.
-/
import Nebula.Model.CertV2
import Nebula.Lemmas.Der

namespace Nebula.Lemmas.CertV2
open Nebula.Net Nebula.Cert Nebula.Der Nebula.Cert.V2 Nebula.Lemmas.Der

/-- `validate` never looks at the signature. -/
theorem validateV2_signature_map (x : Cert) (s : List UInt8) :
    validateV2 { x with signature := s } = (validateV2 x).map (fun c => { c with signature := s }) := by
  unfold validateV2
  simp only
  repeat' split
  all_goals first | rfl | simp_all [Except.map]

theorem validateV2_signature (x c : Cert) (s : List UInt8) (h : validateV2 x = .ok c) :
    validateV2 { x with signature := s } = .ok { c with signature := s } := by
  rw [validateV2_signature_map, h]; rfl

/-- `validate` keeps curve, key and signature. -/
theorem validateV2_keeps (x c : Cert) (h : validateV2 x = .ok c) :
    c.curve = x.curve ∧ c.publicKey = x.publicKey ∧ c.signature = x.signature ∧ c.version = x.version := by
  unfold validateV2 at h
  simp only at h
  repeat' split at h
  all_goals try (cases h; done)
  simp only [Except.ok.injEq] at h
  subst h
  simp

theorem readOptionalByte_lt (t dflt : UInt8) (s : List UInt8) (b : UInt8) (r : List UInt8)
    (_h : readOptionalByte t dflt s = some (b, r)) : b.toNat < 256 := UInt8.toNat_lt b

/-- What a successful v2 decode establishes: the raw details are one complete TLV element, the curve fits a
byte, and the certificate is `validate` applied to the details decoded from the raw details plus curve, key
and signature. -/
theorem unmarshal_ok (b pk : List UInt8) (cv : Nat) (c : Cert) (rd : List UInt8) (h : unmarshal b pk cv = .ok (c, rd)) :
    (∃ t, readAny rd = some t ∧ t.elem = rd) ∧ c.curve < 256 ∧
    ∃ d, unmarshalDetails rd = some d ∧
      validateV2 { d with curve := c.curve, publicKey := c.publicKey, signature := c.signature } = .ok c := by
  unfold unmarshal at h
  split at h
  · cases h
  · cases h1 : readASN1 tagSequence b with
    | none => rw [h1] at h; cases h
    | some r1 =>
      obtain ⟨input, r1'⟩ := r1
      rw [h1] at h; simp only at h
      split at h
      · cases h
      · cases h2 : readASN1Element tagCertDetails input with
        | none => rw [h2] at h; cases h
        | some r2 =>
          obtain ⟨rawDetails, input2⟩ := r2
          rw [h2] at h; simp only at h
          split at h
          · cases h
          · cases h3 : readOptionalByte tagCertCurve (UInt8.ofNat cv) input2 with
            | none => rw [h3] at h; cases h
            | some r3 =>
              obtain ⟨rawCurve, input3⟩ := r3
              rw [h3] at h; simp only at h
              split at h
              · cases h
              · rename_i rpk input4 hpk
                split at h
                · cases h
                · cases h5 : readASN1 tagCertSignature input4 with
                  | none => rw [h5] at h; cases h
                  | some r5 =>
                    obtain ⟨sig, r5'⟩ := r5
                    rw [h5] at h; simp only at h
                    split at h
                    · cases h
                    · cases h6 : unmarshalDetails rawDetails with
                      | none => rw [h6] at h; cases h
                      | some d =>
                        rw [h6] at h; simp only at h
                        cases h7 : validateV2 { d with curve := rawCurve.toNat, publicKey := rpk, signature := sig } with
                        | error e => rw [h7] at h; cases h
                        | ok c' =>
                          rw [h7] at h
                          simp only [Except.ok.injEq, Prod.mk.injEq] at h
                          obtain ⟨rfl, rfl⟩ := h
                          obtain ⟨k1, k2, k3, -⟩ := validateV2_keeps _ _ h7
                          simp only at k1 k2 k3
                          refine ⟨?_, by rw [k1]; exact UInt8.toNat_lt rawCurve, d, h6, by rw [k1, k2, k3]; exact h7⟩
                          unfold readASN1Element at h2
                          cases h8 : readAny input with
                          | none => rw [h8] at h2; cases h2
                          | some t =>
                            rw [h8] at h2; simp only at h2
                            split at h2
                            · simp only [Option.some.injEq, Prod.mk.injEq] at h2
                              obtain ⟨rfl, -⟩ := h2
                              exact ⟨_, readAny_elem input t h8, rfl⟩
                            · cases h2

end Nebula.Lemmas.CertV2

namespace Nebula.Lemmas.CertV2
open Nebula.Net Nebula.Cert Nebula.Cert.V2

/-- a small valid v2 certificate encoding for the non-vacuity examples of C02 / C03. -/
def exV2Cert : Cert :=
  { version := 2, curve := 0, name := [104], networks := [⟨⟨.v4, 0x0a000001⟩, 24⟩], unsafeNetworks := [],
    groups := [[103]], isCA := false, notBefore := 1000000000, notAfter := 2000000000, issuer := "ab",
    publicKey := [1, 2, 3], signature := [9, 9] }

def exV2Raw : List UInt8 := (encodeDetails exV2Cert).getD []

def exV2Bytes : List UInt8 := marshal exV2Raw exV2Cert.curve (some exV2Cert.publicKey) exV2Cert.signature

end Nebula.Lemmas.CertV2
