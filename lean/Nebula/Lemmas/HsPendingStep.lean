/-
The pending-side invariant `PInv` is preserved by every event of a node, and pending identities are never
reused (`Grow`): the basis of the history theorems of C32.
-/
import Nebula.Lemmas.HsPending

namespace Nebula.Lemmas.HsPending
open Nebula.HsManager Nebula.Lemmas.HsWheel Nebula.Lemmas.HsManager Nebula.Gen

def idsOf (p : PSide) : List Nat := p.vpnIps.map (·.2.id)

/-- pending identities after are identities before or fresh ones; the allocation counter never decreases -/
structure Grow (p p' : PSide) : Prop where
  ids : ∀ id ∈ idsOf p', id ∈ idsOf p ∨ p.nextObj ≤ id
  next : p.nextObj ≤ p'.nextObj

theorem Grow.refl (p : PSide) : Grow p p := ⟨fun _ h => Or.inl h, Nat.le_refl _⟩

theorem Grow.trans {p p' p'' : PSide} (a : Grow p p') (b : Grow p' p'') : Grow p p'' := by
  refine ⟨fun id h => ?_, Nat.le_trans a.next b.next⟩
  rcases b.ids id h with h1 | h1
  · exact a.ids id h1
  · right; exact Nat.le_trans a.next h1

theorem Grow.of_eq {p p' : PSide} (hv : p'.vpnIps = p.vpnIps) (hn : p.nextObj ≤ p'.nextObj) : Grow p p' :=
  ⟨fun id h => Or.inl (by unfold idsOf at *; rw [hv] at h; exact h), hn⟩

theorem Grow.of_sub {p p' : PSide} (hs : p'.vpnIps.Sublist p.vpnIps) (hn : p.nextObj ≤ p'.nextObj) : Grow p p' :=
  ⟨fun id h => Or.inl ((hs.map _).subset h), hn⟩

theorem Grow.setPending (p : PSide) (q : Pending) : Grow p (p.setPending q) :=
  ⟨fun id h => Or.inl (by unfold idsOf at *; rw [setPending_ids] at h; exact h), Nat.le_refl _⟩

theorem Grow.deletePending (p : PSide) (hh : Pending) : Grow p (p.deletePending hh) :=
  Grow.of_sub (deletePending_sublist p hh) (Nat.le_refl _)

/-! ### frame facts: index draws, handles, first-packet construction never touch the pending table, the wheel
or the allocation counter -/

structure Same (p p' : PSide) : Prop where
  v : p'.vpnIps = p.vpnIps
  w : p'.wheel = p.wheel
  n : p'.nextObj = p.nextObj

theorem Same.refl (p : PSide) : Same p p := ⟨rfl, rfl, rfl⟩
theorem Same.trans {p p' p'' : PSide} (a : Same p p') (b : Same p' p'') : Same p p'' :=
  ⟨b.v.trans a.v, b.w.trans a.w, b.n.trans a.n⟩

theorem draw_same (c : Cfg) (p : PSide) : Same p (p.draw c).1 := by
  unfold PSide.draw; split <;> exact ⟨rfl, rfl, rfl⟩

theorem genIndex_same (c : Cfg) (f : Nat) (p : PSide) : Same p (p.genIndex c f).1 := by
  induction f generalizing p with
  | zero => exact Same.refl p
  | succ f ih =>
    simp only [PSide.genIndex]
    split
    · exact (draw_same c p).trans (ih _)
    · exact draw_same c p

theorem freshHandle_same (c : Cfg) (p : PSide) : Same p (p.freshHandle c).1 := ⟨rfl, rfl, rfl⟩

theorem allocIndex_same (c : Cfg) (mi : List (Nat × HostInfo)) (f : Nat) (p : PSide) :
    Same p (p.allocIndex c mi f).1 := by
  induction f generalizing p with
  | zero => exact Same.refl p
  | succ f ih =>
    simp only [PSide.allocIndex]
    split
    · exact genIndex_same c 8 p
    · exact (genIndex_same c 8 p).trans (ih _)

/-- what may change in a pending record during an attempt: not its identity, address or queue -/
structure SameRec (h h' : Pending) : Prop where
  id : h'.id = h.id
  va : h'.vpnAddr = h.vpnAddr
  st : h'.store = h.store
  off : h'.offered = h.offered
  ctr : h'.counter = h.counter

theorem buildStage0_same (c : Cfg) (mi : List (Nat × HostInfo)) (p : PSide) (hh : Pending) (now : Nat) :
    Same p (p.buildStage0 c mi hh now).1 ∧ SameRec hh (p.buildStage0 c mi hh now).2.1 := by
  unfold PSide.buildStage0
  dsimp only
  generalize stage0Version c hh = v
  by_cases hv : (!c.hasVer v) = true
  · rw [if_pos hv]; exact ⟨Same.refl p, ⟨rfl, rfl, rfl, rfl, rfl⟩⟩
  · rw [if_neg hv]
    have ha := allocIndex_same c mi 32 p
    generalize p.allocIndex c mi 32 = r at ha
    obtain ⟨n1, oi⟩ := r
    cases oi with
    | none => exact ⟨ha, ⟨rfl, rfl, rfl, rfl, rfl⟩⟩
    | some idx => exact ⟨⟨ha.v, ha.w, ha.n⟩, ⟨rfl, rfl, rfl, rfl, rfl⟩⟩

theorem attempt_same (c : Cfg) (mi : List (Nat × HostInfo)) (p : PSide) (hh : Pending) (a : Addr) (trig : Bool)
    (now : Nat) : Same p (p.attempt c mi hh a trig now).1 ∧ SameRec hh (p.attempt c mi hh a trig now).2.1 := by
  unfold PSide.attempt
  have hb := buildStage0_same c mi p hh now
  by_cases hr : hh.ready
  · simp only [hr, if_true, Bool.not_true, Bool.false_eq_true, if_false]
    split <;> exact ⟨⟨rfl, rfl, rfl⟩, ⟨rfl, rfl, rfl, rfl, rfl⟩⟩
  · simp only [hr, Bool.false_eq_true, if_false]
    generalize p.buildStage0 c mi hh now = r at hb
    obtain ⟨n1, h1, o1, ok⟩ := r
    obtain ⟨s, rr⟩ := hb
    dsimp only at s rr ⊢
    cases ok
    · simp only [Bool.not_false, if_true]; exact ⟨s, rr⟩
    · simp only [Bool.not_true, Bool.false_eq_true, if_false]
      split <;> exact ⟨⟨s.v, s.w, s.n⟩, ⟨rr.id, rr.va, rr.st, rr.off, rr.ctr⟩⟩

theorem PInvE.same {p p' : PSide} {E : List TimerItem} (h : PInvE p E) (s : Same p p') : PInvE p' E :=
  h.congr s.v s.w (Nat.le_of_eq s.n.symm)

/-! ### handleOutbound -/

/-- a timer entry handed out by Advance, or a lighthouse trigger (`armed = none`, nothing consumed) -/
theorem handleOutbound_inv (c : Cfg) (mi : List (Nat × HostInfo)) (p : PSide) (now : Nat) (E : List TimerItem) :
    (∀ it, PInvE p (it :: E) →
      PInvE (p.handleOutbound c mi it.1 false now (some it.2)).1 E ∧ Grow p (p.handleOutbound c mi it.1 false now (some it.2)).1) ∧
    (∀ a, PInvE p E → PInvE (p.handleOutbound c mi a true now none).1 E ∧ Grow p (p.handleOutbound c mi a true now none).1) := by
  constructor
  · intro it h
    unfold PSide.handleOutbound
    cases hl : alookup it.1 p.vpnIps with
    | none =>
      dsimp only
      refine ⟨h.drop ?_, Grow.refl p⟩
      intro a hh hm hid
      have := h.tAddr a hh it hm (Or.inr (List.mem_cons_self ..)) hid.symm
      rw [this, alookup_of_mem h.ndKeys hm] at hl; simp at hl
    | some hh =>
      have hm := mem_of_alookup hl
      dsimp only
      by_cases hst : (some it.2 : Option Nat).any (fun id => id != hh.id) = true
      · rw [if_pos hst]
        refine ⟨h.drop ?_, Grow.refl p⟩
        intro a' hh' hm' hid
        have ha := h.tAddr a' hh' it hm' (Or.inr (List.mem_cons_self ..)) hid.symm
        simp at hst
        rw [← ha] at hm'
        have e2 := alookup_of_mem h.ndKeys hm'
        rw [hl] at e2
        simp only [Option.some.injEq] at e2
        exact hst (by rw [e2, hid])
      · rw [if_neg hst]
        have hid : it.2 = hh.id := by simpa using hst
        have hit : it = (it.1, hh.id) := by rw [← hid]
        by_cases hc : hh.counter ≥ c.retries
        · rw [if_pos hc]
          refine ⟨?_, Grow.deletePending p hh⟩
          have hd := h.deletePending hh
          apply hd.drop
          intro a' h' hm' e
          exact deletePending_gone h hm a' h' hm' (by rw [e, hid])
        · rw [if_neg hc]
          obtain ⟨s, r⟩ := attempt_same c mi p { hh with counter := hh.counter + 1 } it.1 false now
          generalize p.attempt c mi { hh with counter := hh.counter + 1 } it.1 false now = att at s r
          obtain ⟨p1, h1, o1⟩ := att
          dsimp only at s r ⊢
          simp only [Bool.false_eq_true, if_false]
          have i1 : PInvE p1 (it :: E) := h.same s
          have hm1 : (it.1, hh) ∈ p1.vpnIps := by rw [s.v]; exact hm
          have i2 : PInvE (p1.setPending h1) (it :: E) :=
            i1.setPending hm1 r.id r.va (by rw [r.st, r.off]; exact h.fifo it.1 hh hm)
          -- the record stored now is h1, filed under it.1
          have hm2 : (it.1, h1) ∈ (p1.setPending h1).vpnIps := by
            unfold PSide.setPending
            simp only [List.mem_map]
            refine ⟨(it.1, hh), hm1, ?_⟩
            have : (hh.id == h1.id) = true := by simp [r.id]
            simp [this]
          have i3 : PInvE (p1.setPending h1) ((it.1, h1.id) :: E) := by rw [r.id]; rw [← hit]; exact i2
          refine ⟨i3.rearm hm2 _, ?_⟩
          refine ⟨fun id hi => Or.inl ?_, by show p.nextObj ≤ (p1.setPending h1).nextObj; simp [PSide.setPending, s.n]⟩
          have : idsOf { (p1.setPending h1) with wheel := (p1.setPending h1).wheel.add (it.1, h1.id) ((c.interval : Int) * h1.counter) } = idsOf p := by
            unfold idsOf; dsimp only; rw [setPending_ids, s.v]
          rw [this] at hi; exact hi
  · intro a h
    unfold PSide.handleOutbound
    cases hl : alookup a p.vpnIps with
    | none => exact ⟨h, Grow.refl p⟩
    | some hh =>
      have hm := mem_of_alookup hl
      dsimp only
      simp only [Option.any_none, Bool.false_eq_true, if_false]
      by_cases hc : hh.counter ≥ c.retries
      · rw [if_pos hc]; exact ⟨h.deletePending hh, Grow.deletePending p hh⟩
      · rw [if_neg hc]
        obtain ⟨s, r⟩ := attempt_same c mi p { hh with counter := hh.counter + 1 } a true now
        generalize p.attempt c mi { hh with counter := hh.counter + 1 } a true now = att at s r
        obtain ⟨p1, h1, o1⟩ := att
        dsimp only at s r ⊢
        simp only [if_true]
        have i1 : PInvE p1 E := h.same s
        have hm1 : (a, hh) ∈ p1.vpnIps := by rw [s.v]; exact hm
        refine ⟨i1.setPending hm1 r.id r.va (by rw [r.st, r.off]; exact h.fifo a hh hm), ?_⟩
        refine ⟨fun id hi => Or.inl ?_, by show p.nextObj ≤ (p1.setPending h1).nextObj; simp [PSide.setPending, s.n]⟩
        unfold idsOf at *; rw [setPending_ids, s.v] at hi; exact hi

/-- the Purge loop of a tick over the handed-out entries -/
theorem tick_fold_inv (c : Cfg) (mi : List (Nat × HostInfo)) (now : Nat) (E : List TimerItem) (p : PSide) (o : Out)
    (h : PInvE p E) :
    let r := E.foldl (fun (acc : PSide × Out) a =>
      let (n', o) := acc.1.handleOutbound c mi a.1 false now (some a.2)
      (n', acc.2.app o)) (p, o)
    PInv r.1 ∧ Grow p r.1 := by
  induction E generalizing p o with
  | nil => exact ⟨h, Grow.refl p⟩
  | cons it E ih =>
    simp only [List.foldl_cons]
    have := (handleOutbound_inv c mi p now E).1 it h
    have r := ih (p.handleOutbound c mi it.1 false now (some it.2)).1 (o.app (p.handleOutbound c mi it.1 false now (some it.2)).2) this.1
    exact ⟨r.1, this.2.trans r.2⟩

theorem tick_inv (c : Cfg) (mi : List (Nat × HostInfo)) (p : PSide) (now : Nat) (h : PInv p) :
    PInv (p.tick c mi now).1 ∧ Grow p (p.tick c mi now).1 := by
  unfold PSide.tick
  have adv := fun id => advance_spec p.wheel now h.wf id
  generalize p.wheel.advance now = wa at adv
  obtain ⟨w, E⟩ := wa
  dsimp only at adv ⊢
  have h0 : PInvE { p with wheel := w } E := by
    refine ⟨(adv 0).1, h.keys, h.ndKeys, h.ndIds, h.idsLt, ?_, ?_, ?_, h.fifo⟩
    · intro it hi
      rcases hi with hi | hi
      · exact h.tLt it (Or.inl ((adv 0).2.2.1 it hi))
      · exact h.tLt it (Or.inl ((adv 0).2.2.2 it hi))
    · intro a hh it hm hi hid
      rcases hi with hi | hi
      · exact h.tAddr a hh it hm (Or.inl ((adv 0).2.2.1 it hi)) hid
      · exact h.tAddr a hh it hm (Or.inl ((adv 0).2.2.2 it hi)) hid
    · intro a hh hm
      have := h.one a hh hm
      simp only [cntL_nil, Nat.add_zero] at this
      show cnt w hh.id + cntL E hh.id = 1
      rw [(adv hh.id).2.1]; exact this
  have := tick_fold_inv c mi now E { p with wheel := w } {} h0
  exact ⟨this.1, (Grow.of_eq rfl (Nat.le_refl _) : Grow p { p with wheel := w }).trans this.2⟩

/-! ### StartHandshake -/

/-- callbacks StartHandshake is used with: they keep identity and address, and the queue shape -/
structure GoodCb (cb : Pending → Pending) : Prop where
  id : ∀ x, (cb x).id = x.id
  va : ∀ x, (cb x).vpnAddr = x.vpnAddr
  fifo : ∀ x, x.store = x.offered.take hsm_maxCachedPackets → (cb x).store = (cb x).offered.take hsm_maxCachedPackets

theorem goodCb_id : GoodCb id := ⟨fun _ => rfl, fun _ => rfl, fun _ h => h⟩
theorem goodCb_cache (q : Cached) : GoodCb (fun hh => hh.cache q) :=
  ⟨fun x => (cache_id x q).1, fun x => (cache_id x q).2, fun x h => cache_fifo x q h⟩

theorem startHandshake_inv (c : Cfg) (p : PSide) (a : Addr) (cb : Pending → Pending) (g : GoodCb cb) (h : PInv p) :
    PInv (p.startHandshake c a cb) ∧ Grow p (p.startHandshake c a cb) := by
  unfold PSide.startHandshake
  cases hl : alookup a p.vpnIps with
  | some hh =>
    have hm := mem_of_alookup hl
    exact ⟨h.setPending hm (g.id hh) (g.va hh) (g.fifo hh (h.fifo _ _ hm)), Grow.setPending p _⟩
  | none =>
    dsimp only
    refine ⟨h.start c a _ hl (g.id _) (g.va _) (g.fifo _ (by simp)) _, ?_, by show p.nextObj ≤ p.nextObj + 1; omega⟩
    intro id hi
    unfold idsOf at hi
    dsimp only at hi
    unfold ainsert at hi
    rw [aerase_none hl] at hi
    simp only [List.map_cons, List.mem_cons] at hi
    rcases hi with e | e
    · right; rw [e, g.id]; exact Nat.le_refl _
    · left; exact e

end Nebula.Lemmas.HsPending
