/-
C23: what is delivered for a packet whose buffer is longer than its IP-declared length.
Written alone (verbatim slot or a chain that never grew) the buffer goes out byte for byte; folded into a
superpacket only the IP-declared datagram is delivered (each delivered segment has exactly the trimmed
length, and equals the original up to `mask`).
-/
import Nebula.Lemmas.CoalesceSlot

namespace Nebula.Lemmas.Coalesce
open Nebula.Coalesce Nebula.Gen
open Nebula.Spec
open Nebula.Spec.KernelGSO (mask trim kernelSeg kernelSegGSO buildSeg chunks enumFrom)

theorem slot_alone {tcp : Bool} {s : Slot} (hok : SlotOK tcp s) (h : s.verbatim = true ∨ s.numSeg = 1) :
    kernelSeg (slotOut tcp s) = s.ghost ∧ s.ghost.length = 1 := by
  unfold slotOut
  cases hv : s.verbatim with
  | true =>
    simp only [true_or, ↓reduceIte, kernelSeg]
    rw [hok.verb hv]; simp
  | false =>
    have hc := hok.coal hv
    have h1 : s.numSeg = 1 := by
      rcases h with h | h
      · rw [hv] at h; cases h
      · exact h
    simp only [Bool.false_eq_true, false_or, h1, ↓reduceIte, kernelSeg]
    have hn : s.ghost.length = 1 := by rw [← hc.numSeg]; exact h1
    have hraw := hc.raw
    rw [if_neg (by omega)] at hraw
    have : s.ghost = [seedOf s] := by
      cases hg : s.ghost with
      | nil => rw [hg] at hn; simp at hn
      | cons a t =>
        rw [hg] at hn
        simp at hn
        subst hn
        simp [seedOf, hg]
    rw [this, hraw]; simp

theorem slot_coalesced_lengths {tcp : Bool} {s : Slot} (hok : SlotOK tcp s) (hv : s.verbatim = false)
    (h1 : s.numSeg ≠ 1) :
    (kernelSeg (slotOut tcp s)).map List.length = s.ghost.map (fun p => (trim p).length) := by
  have hc := hok.coal hv
  unfold slotOut
  simp only [hv, Bool.false_eq_true, false_or]
  rw [if_neg h1]
  have hn : 2 ≤ s.ghost.length := by
    have h2 := hc.numSeg
    have h3 : s.ghost.length ≠ 0 := fun e => hc.ne (List.eq_nil_of_length_eq_zero e)
    omega
  have SF := seedFacts hc
  unfold flushSlot
  simp only [kernelSeg]
  have hnp : 2 ≤ s.payIovs.length := by rw [hc.npay]; exact hn
  obtain ⟨a, b, rest, hpays⟩ : ∃ a b rest, s.payIovs = a :: b :: rest := by
    cases hp : s.payIovs with
    | nil => rw [hp] at hnp; simp at hnp
    | cons a t =>
      cases t with
      | nil => rw [hp] at hnp; simp at hnp
      | cons b rest => exact ⟨a, b, rest, rfl⟩
  have ha : a.length = s.gsoSize := by
    have := pay_len hc (i := 0) (x := a) (by rw [hpays]; rfl)
    exact this.2.2 (by omega)
  have hchunks : chunks a.length s.payIovs.flatten = s.payIovs := by
    apply chunks_flatten
    · rw [ha]; exact SF.gPos
    · intro x hx
      obtain ⟨i, hi⟩ := List.getElem?_of_mem hx
      have := pay_len hc hi
      rw [ha]; exact ⟨this.1, this.2.1⟩
    · intro i x hx hlt
      rw [ha]; exact (pay_len hc hx).2.2 hlt
  rw [hpays]
  simp only [kernelSegGSO]
  rw [← hpays, hchunks]
  apply List.ext_getElem?
  intro i
  simp only [List.getElem?_map, getElem?_enumFrom]
  by_cases hi : i < s.ghost.length
  · have hp := List.getElem?_eq_getElem hi
    obtain ⟨SH, hpay⟩ := segHyp_of_slot hc hn hp
    rw [hp, hpay]
    simp only [Option.map_some, Option.some.injEq]
    rw [length_buildSeg]
    have h1 := SH.hmin; have h2 := SH.tlen
    have hl4 : s.ipHdrLen ≤ (flushHdr tcp s).length := by omega
    simp only [slice_zero, List.length_take, List.length_drop]
    omega
  · have hnp' := hc.npay
    rw [List.getElem?_eq_none (by omega), List.getElem?_eq_none (by omega)]
    rfl

end Nebula.Lemmas.Coalesce
