/-
Histories of a Machine: arbitrary sequences of `Initiate` / `ProcessPacket` calls with arbitrary
oracle answers, and the invariants that survive them.
-/
import Nebula.Lemmas.MachineStep

namespace Nebula.Machine
open Nebula.Wire Nebula.Spec.Handshake

/-- One call on a Machine together with the oracle answers it met. -/
inductive Ev
  | init (now : Nat) (wr : WriteOut)
  | pkt (len st : Nat) (rd : ReadOut) (co : CertOut) (now : Nat) (wr : WriteOut)

def stepEv (c : Cfg) (s : St) : Ev → St × Outcome
  | .init now wr => initiate c s now wr
  | .pkt len st rd co now wr => processPacket c s len st rd co now wr

/-- the Machine state after a history. -/
def runState (c : Cfg) (s : St) (evs : List Ev) : St := evs.foldl (fun s e => (stepEv c s e).1) s

/-- the event is a packet whose processing accepted `cert` (Spec.Handshake.accepts). -/
def Ev.accepts (e : Ev) (cert : CertId) : Bool :=
  match e with
  | .pkt _ _ rd co _ _ => Spec.Handshake.accepts rd co cert
  | _ => false

/-- `PeerStatic()` observed in the step, if its read succeeded. -/
def Ev.peerStatic (e : Ev) : Option Bytes :=
  match e with
  | .pkt _ _ rd _ _ _ => readStatic rd
  | _ => none

/-- the certificate the Machine holds was accepted in some step of the history, and the public key
the Machine recorded for it is the `PeerStatic()` of that step. -/
def CertInv (s : St) (hist : List Ev) : Prop :=
  s.remoteCertSet = true → ∃ cert, s.remoteCert = some cert ∧
    ∃ e ∈ hist, e.accepts cert = true ∧ e.peerStatic = some s.remoteKey

theorem certInv_step (c : Cfg) (s : St) (hist : List Ev) (e : Ev) (h : CertInv s hist) :
    CertInv (stepEv c s e).1 (hist ++ [e]) := by
  intro hset
  cases e with
  | init now wr =>
    have he := initiate_certEq c s now wr
    simp only [stepEv] at hset ⊢
    rw [he.1] at hset
    obtain ⟨cert, h1, e', h2, h3, h4⟩ := h hset
    have hc := congrArg Prod.fst he.2
    have hk := congrArg Prod.snd he.2
    simp only at hc hk
    exact ⟨cert, by rw [hc]; exact h1, e', by simp [h2], h3, by rw [hk]; exact h4⟩
  | pkt len st rd co now wr =>
    simp only [stepEv, processPacket] at hset ⊢
    rcases pp_certStep true c s len st rd co now wr with he | ⟨cert, ps, ha, hps, hc⟩
    · rw [he.1] at hset
      obtain ⟨cert, h1, e', h2, h3, h4⟩ := h hset
      have hc := congrArg Prod.fst he.2
      have hk := congrArg Prod.snd he.2
      simp only at hc hk
      exact ⟨cert, by rw [hc]; exact h1, e', by simp [h2], h3, by rw [hk]; exact h4⟩
    · have hc1 := congrArg Prod.fst hc
      have hk1 := congrArg Prod.snd hc
      simp only at hc1 hk1
      exact ⟨cert, hc1, .pkt len st rd co now wr, by simp, by simp [Ev.accepts, ha], by simp [Ev.peerStatic, hps, hk1]⟩

theorem certInv_run (c : Cfg) (evs : List Ev) : ∀ (s : St) (hist : List Ev), CertInv s hist →
    CertInv (runState c s evs) (hist ++ evs) := by
  induction evs with
  | nil => intro s hist h; simpa [runState] using h
  | cons e es ih =>
    intro s hist h
    have := ih (stepEv c s e).1 (hist ++ [e]) (certInv_step c s hist e h)
    simpa [runState, List.append_assoc] using this

theorem runState_failed (c : Cfg) (evs : List Ev) : ∀ (s : St), s.failed = true → runState c s evs = s := by
  induction evs with
  | nil => intro s _; rfl
  | cons e es ih =>
    intro s h
    have : (stepEv c s e).1 = s := by
      cases e with
      | init now wr => simp [stepEv, initiate_failed c s now wr h]
      | pkt len st rd co now wr => simp [stepEv, processPacket, pp_failed true c s len st rd co now wr h]
    simp only [runState, List.foldl_cons, this]
    exact ih s h

end Nebula.Machine
