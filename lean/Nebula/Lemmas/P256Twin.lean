/-
Lemmas for C02 (P-256 twin): the line-by-line model of `cert/p256` (`Model/P256Sig.lean`) computes on minimal
DER signatures exactly the specification of `Spec/P256Twin.lean`.
-/
import Nebula.Lemmas.DerRT
import Nebula.Lemmas.DerInt
import Nebula.Model.P256Sig
import Nebula.Spec.P256Twin

namespace Nebula.Lemmas.P256Twin
open Nebula.Der Nebula.P256 Nebula.P256Twin Nebula.Lemmas.DerRT Nebula.Lemmas.DerInt

/-! ### base-256 digits -/

theorem natBytesAux_fuel (n : Nat) : ∀ f1 f2, n ≤ f1 → n ≤ f2 → natBytesAux f1 n = natBytesAux f2 n := by
  induction n using Nat.strongRecOn with
  | _ n ih =>
    intro f1 f2 h1 h2
    by_cases h0 : n = 0
    · subst h0; cases f1 <;> cases f2 <;> simp [natBytesAux]
    · obtain ⟨g1, rfl⟩ : ∃ g, f1 = g + 1 := ⟨f1 - 1, by omega⟩
      obtain ⟨g2, rfl⟩ : ∃ g, f2 = g + 1 := ⟨f2 - 1, by omega⟩
      simp only [natBytesAux, h0, if_false]
      rw [ih (n / 256) (by omega) g1 g2 (by omega) (by omega)]

theorem natBytes_zero : natBytes 0 = [] := rfl

theorem natBytes_pos (n : Nat) (h : 0 < n) : natBytes n = natBytes (n / 256) ++ [UInt8.ofNat (n % 256)] := by
  obtain ⟨m, rfl⟩ : ∃ m, n = m + 1 := ⟨n - 1, by omega⟩
  unfold natBytes
  simp only [natBytesAux, Nat.add_one_ne_zero, if_false]
  rw [natBytesAux_fuel ((m + 1) / 256) m ((m + 1) / 256) (by omega) (Nat.le_refl _)]

theorem natBytes_digit (d : Nat) (h0 : 0 < d) (h : d < 256) : natBytes d = [UInt8.ofNat d] := by
  rw [natBytes_pos d h0]
  have : d / 256 = 0 := Nat.div_eq_of_lt h
  rw [this, natBytes_zero, Nat.mod_eq_of_lt h]; rfl

theorem beNat_snoc (xs : Bytes) (b : UInt8) : beNat (xs ++ [b]) = beNat xs * 256 + b.toNat := by
  unfold beNat; simp [List.foldl_append]

theorem beNat_natBytes (n : Nat) : beNat (natBytes n) = n := by
  induction n using Nat.strongRecOn with
  | _ n ih =>
    by_cases h : n = 0
    · subst h; rw [natBytes_zero]; rfl
    · rw [natBytes_pos n (by omega), beNat_snoc, ih (n / 256) (by omega)]
      simp only [UInt8.toNat_ofNat']
      omega

/-- the first digit of a positive number is not zero. -/
theorem natBytes_head (n : Nat) (h : 0 < n) : ∃ d rest, natBytes n = UInt8.ofNat d :: rest ∧ 0 < d ∧ d < 256 := by
  induction n using Nat.strongRecOn with
  | _ n ih =>
    by_cases hq : n / 256 = 0
    · have hn : n < 256 := by omega
      exact ⟨n, [], natBytes_digit n h hn, h, hn⟩
    · obtain ⟨d, rest, e, h1, h2⟩ := ih (n / 256) (by omega) (by omega)
      refine ⟨d, rest ++ [UInt8.ofNat (n % 256)], ?_, h1, h2⟩
      rw [natBytes_pos n h, e]; rfl

theorem natBytes_length_le (k : Nat) : ∀ n, n < 256 ^ k → (natBytes n).length ≤ k := by
  induction k with
  | zero => intro n h; have : n = 0 := by simpa using h
            subst this; rw [natBytes_zero]; simp
  | succ k ih =>
    intro n h
    by_cases h0 : n = 0
    · subst h0; rw [natBytes_zero]; simp
    · rw [natBytes_pos n (by omega)]
      have : n / 256 < 256 ^ k := by
        apply Nat.div_lt_of_lt_mul; rw [Nat.pow_succ] at h; omega
      have := ih _ this
      simp only [List.length_append, List.length_singleton]; omega

/-- the digits of `v` are the digits of its upper part followed by the `k` low digits. -/
theorem natBytes_split (k : Nat) : ∀ v, 0 < v / 256 ^ k → natBytes v = natBytes (v / 256 ^ k) ++ beBytes k v := by
  induction k with
  | zero => intro v _; simp [beBytes]
  | succ k ih =>
    intro v h
    have hq : v / 256 ^ (k + 1) = v / 256 ^ k / 256 := by rw [Nat.pow_succ, Nat.div_div_eq_div_mul]
    have h1 : 0 < v / 256 ^ k := by
      rw [hq] at h
      have := Nat.div_mul_le_self (v / 256 ^ k) 256
      omega
    rw [ih v h1, natBytes_pos _ h1, ← hq]
    show _ = _ ++ (UInt8.ofNat (v / 256 ^ k % 256) :: beBytes k v)
    simp

theorem dropZeros_beBytes (k : Nat) : ∀ v, v < 256 ^ k → dropZeros (beBytes k v) = natBytes v := by
  induction k with
  | zero => intro v h; have : v = 0 := by simpa using h
            subst this; rw [natBytes_zero]; rfl
  | succ k ih =>
    intro v h
    have hd : v / 256 ^ k < 256 := by
      apply Nat.div_lt_of_lt_mul; rw [Nat.pow_succ] at h; exact h
    have hpos : 0 < 256 ^ k := Nat.pow_pos (by decide)
    show dropZeros (UInt8.ofNat (v / 256 ^ k % 256) :: beBytes k v) = _
    rw [Nat.mod_eq_of_lt hd]
    obtain ⟨-, -, hz, -, -⟩ := byte_facts (v / 256 ^ k) hd
    unfold dropZeros
    by_cases h0 : v / 256 ^ k = 0
    · have hv : v < 256 ^ k := by
        have hm := Nat.mod_lt v hpos
        have hdm := Nat.div_add_mod v (256 ^ k)
        rw [h0, Nat.mul_zero, Nat.zero_add] at hdm
        omega
      simp only [hz, h0, decide_true, if_true]
      exact ih v hv
    · simp only [hz, h0, decide_false, Bool.false_eq_true, if_false]
      rw [natBytes_split k v (Nat.pos_of_ne_zero h0), natBytes_digit _ (Nat.pos_of_ne_zero h0) hd]; rfl

theorem stripZeros_of_dropZeros (xs : Bytes) (h : dropZeros xs ≠ []) : stripZeros xs = dropZeros xs := by
  induction xs with
  | nil => rfl
  | cons b rest ih =>
    cases rest with
    | nil =>
      unfold dropZeros at h ⊢
      by_cases hb : (b == 0) = true
      · simp [hb, dropZeros] at h
      · simp [hb, stripZeros]
    | cons c rest' =>
      unfold stripZeros
      by_cases hb : (b == 0) = true
      · have e : dropZeros (b :: c :: rest') = dropZeros (c :: rest') := by
          conv => lhs; unfold dropZeros
          simp [hb]
        rw [e] at h ⊢
        simp only [hb, if_true]
        exact ih h
      · have e : dropZeros (b :: c :: rest') = b :: c :: rest' := by
          conv => lhs; unfold dropZeros
          simp [hb]
        simp only [hb, Bool.false_eq_true, if_false, e]

/-- `swap`'s result bytes: the minimal digits of `N - s`. -/
theorem swapBytes_natBytes (s : Nat) (h1 : 0 < s) (h2 : s < N) :
    swapBytes (natBytes s) = some (natBytes (N - s)) := by
  unfold swapBytes swapS
  simp only [beNat_natBytes]
  have : ¬ s ≥ N := by omega
  simp only [this, if_false, Option.some.injEq]
  have hlt : N - s < 256 ^ 32 := by unfold N; omega
  have hd := dropZeros_beBytes 32 (N - s) hlt
  obtain ⟨d, rest, e, -, -⟩ := natBytes_head (N - s) (by omega)
  rw [stripZeros_of_dropZeros _ (by rw [hd, e]; simp), hd]

/-! ### the INTEGER encoder / reader on minimal digits -/

theorem dropZeros_natBytes (n : Nat) : dropZeros (natBytes n) = natBytes n := by
  by_cases h : n = 0
  · subst h; rw [natBytes_zero]; rfl
  · obtain ⟨d, rest, e, h1, h2⟩ := natBytes_head n (by omega)
    rw [e]
    obtain ⟨-, -, hz, -, -⟩ := byte_facts d h2
    unfold dropZeros
    have : ¬ d = 0 := by omega
    simp [hz, this]

/-- `addASN1IntBytes` on the minimal digits of a positive number writes the specification's INTEGER. -/
theorem encPositiveInt_natBytes (n : Nat) (h : 0 < n) : encPositiveInt (natBytes n) = some (encInt n) := by
  unfold encPositiveInt encInt intContent
  rw [dropZeros_natBytes]
  obtain ⟨d, rest, e, h1, h2⟩ := natBytes_head n h
  rw [e]

theorem encPositiveInt_zero : encPositiveInt (natBytes 0) = none := by
  rw [natBytes_zero]; rfl

theorem intContent_length_le (n : Nat) : (intContent n).length ≤ (natBytes n).length + 1 := by
  unfold intContent
  split
  · simp
  · next b rest e => rw [e]; split <;> simp

/-- `ReadASN1Integer` reads the specification's INTEGER of a positive number back as its minimal digits. -/
theorem readIntegerBytes_encInt (n : Nat) (h : 0 < n) (rest : Bytes) (hs : (natBytes n).length + 7 < 2 ^ 32) :
    readIntegerBytes (encInt n ++ rest) = some (natBytes n, rest) := by
  have hl := intContent_length_le n
  unfold readIntegerBytes encInt
  rw [readASN1_encTLV 0x02 _ rest (by decide) (by omega)]
  simp only
  obtain ⟨d, tl, e, h1, h2⟩ := natBytes_head n h
  obtain ⟨a1, a2, a3, a4, -⟩ := byte_facts d h2
  have z1 : ((0 : UInt8) == 0) = true := rfl
  have z2 : ((0 : UInt8) == 0xff) = false := rfl
  have z3 : ((0 : UInt8) &&& 0x80 == 0x80) = false := rfl
  unfold intContent
  rw [e]
  simp only
  by_cases hp : 128 ≤ d
  · have c1 : (UInt8.ofNat d &&& 0x80 != 0) = true := by
      simp only [bne, a2]; simp; omega
    simp only [c1, if_true]
    have c2 : (UInt8.ofNat d &&& 0x80 == 0) = false := by rw [a2]; simp; omega
    have c3 : (UInt8.ofNat d == 0) = false := by rw [a3]; simp; omega
    simp only [checkASN1Integer, z1, z2, z3, c2, Bool.true_and, Bool.false_and, Bool.not_true, Bool.false_eq_true, if_false,
      Bool.not_false]
    cases tl with
    | nil => simp [stripZeros, c3]
    | cons c tl' => simp [stripZeros, c3]
  · have c1 : (UInt8.ofNat d &&& 0x80 != 0) = false := by
      simp only [bne, a2]; simp; omega
    have c0 : (UInt8.ofNat d &&& 0x80 == 0x80) = false := by rw [a1]; simp; omega
    have c3 : (UInt8.ofNat d == 0) = false := by rw [a3]; simp; omega
    have c4 : (UInt8.ofNat d == 0xff) = false := by rw [a4]; simp; omega
    simp only [c1, Bool.false_eq_true, if_false]
    cases tl with
    | nil => simp [checkASN1Integer, stripZeros, c0]
    | cons c tl' => simp [checkASN1Integer, stripZeros, c0, c3, c4]

/-! ### whole signatures -/

theorem encLen_length_le (n : Nat) : (encLen n).length ≤ 5 := by
  unfold encLen
  repeat' split
  all_goals simp [beBytes_length]

theorem encInt_length_le (n : Nat) : (encInt n).length ≤ (natBytes n).length + 7 := by
  unfold encInt encTLV
  have := encLen_length_le (intContent n).length
  have := intContent_length_le n
  simp only [List.length_cons, List.length_append]; omega

/-- `parseSignature` reads the minimal DER form of positive `(r, s)` back as their minimal digits. -/
theorem parse_encSig (r s : Nat) (hr : 0 < r) (hs : 0 < s)
    (hsz : (natBytes r).length + (natBytes s).length + 30 < 2 ^ 32) :
    parseSignature (encSig r s) = some (natBytes r, natBytes s) := by
  have l1 := encInt_length_le r
  have l2 := encInt_length_le s
  unfold parseSignature encSig
  rw [← List.append_nil (encTLV 0x30 _), readASN1_encTLV 0x30 _ [] (by decide) (by simp only [List.length_append]; omega)]
  simp only [List.isEmpty_nil, Bool.not_true, Bool.false_eq_true, if_false]
  rw [readIntegerBytes_encInt r hr _ (by omega)]
  simp only
  rw [← List.append_nil (encInt s), readIntegerBytes_encInt s hs _ (by omega)]
  simp

theorem encodeSignature_natBytes (r s : Nat) (hr : 0 < r) (hs : 0 < s) :
    encodeSignature (natBytes r) (natBytes s) = some (encSig r s) := by
  unfold encodeSignature
  rw [encPositiveInt_natBytes r hr, encPositiveInt_natBytes s hs]; rfl

theorem natBytes_len32 (r : Nat) (h : r < 2 ^ 256) : (natBytes r).length ≤ 32 :=
  natBytes_length_le 32 r (by have : (256 : Nat) ^ 32 = 2 ^ 256 := by decide
                              omega)

theorem N_lt : N < 2 ^ 256 := by unfold N; decide

/-- `beNat` of the specification's INTEGER content is the number. -/
theorem beNat_intContent (n : Nat) : beNat (intContent n) = n := by
  unfold intContent
  have hb := beNat_natBytes n
  split
  · next e => rw [e] at hb; simp [beNat] at hb ⊢; omega
  · next b rest e =>
    rw [e] at hb
    split
    · have : beNat (0 :: b :: rest) = beNat (b :: rest) := by simp [beNat]
      rw [this, hb]
    · exact hb

/-- the lenient reader finds the numbers of the specification's encoding. -/
theorem lenientSig_encSig (r s : Nat) (hsz : (natBytes r).length + (natBytes s).length + 30 < 2 ^ 32) :
    lenientSig (encSig r s) = some (r, s) := by
  have l1 := encInt_length_le r
  have l2 := encInt_length_le s
  have c1 := intContent_length_le r
  have c2 := intContent_length_le s
  unfold lenientSig encSig
  rw [← List.append_nil (encTLV 0x30 _), readASN1_encTLV 0x30 _ [] (by decide) (by simp only [List.length_append]; omega)]
  simp only
  unfold encInt
  rw [readASN1_encTLV 0x02 _ _ (by decide) (by omega)]
  simp only
  rw [← List.append_nil (encTLV 0x02 (intContent s)), readASN1_encTLV 0x02 _ [] (by decide) (by omega)]
  simp [beNat_intContent]

theorem decSig_encSig (r s : Nat) (hsz : (natBytes r).length + (natBytes s).length + 30 < 2 ^ 32) :
    decSig (encSig r s) = some (r, s) := by
  unfold decSig; rw [lenientSig_encSig r s hsz]; simp

/-- `CalculateAlternateFingerprint` for a P-256 certificate: `Copy()`, `setSignature(p256.Swap(Signature()))`,
`Fingerprint()` — as a function of the signature, `fpOf` being the fingerprint of the copy carrying a given one. -/
def altFingerprintOf {β : Type} (fpOf : Bytes → β) (sig : Bytes) : Option β := (P256.swap sig).map fpOf

end Nebula.Lemmas.P256Twin
