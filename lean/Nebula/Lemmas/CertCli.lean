/-
Lemmas about `Model/CertCli.lean` (`signCert` of nebula-cert): what a successful run went through.
-/
import Nebula.Model.CertCli

namespace Nebula.Lemmas.CertCli
open Nebula.Net Nebula.Cert Nebula.CertPem Nebula.CertCli

/-- **Everything a successful `signCert` went through**: the CA file decodes to `ca`, the CA key file to a key of
the CA's curve whose public half is the CA's, the CA is not expired now, both network flags parse, and the single
certificate written is `Sign(ca, curve, key)` of the to-be-signed certificate the flags describe: version = the flag
or the CA's, validity from now for the given duration or until one second before the CA expires, v1 with exactly one
IPv4 network and IPv4 unsafe networks only, v2 with the IPv4 networks before the others. -/
theorem signCert_ok (E : SignEnv) (env : Env) (f : Flags) (cs : List Cert) (h : signCert E env f = .ok cs) :
    ∃ ca curve v4 v6 u4 u6 pub c,
      caOf env = some ca ∧ curve = ca.curve ∧ env.keyMatches = true ∧ ca.expired env.now = false ∧
      f.name ≠ [] ∧
      splitNets env.parsePrefix (flagItems (effNetworks f)) = some (v4, v6) ∧
      splitNets env.parsePrefix (flagItems (effUnsafe f)) = some (u4, u6) ∧
      pickPub env f curve = .ok pub ∧
      cs = [c] ∧
      let version := if f.version = 0 then ca.version else f.version
      let duration := if f.duration ≤ 0 then (ca.notAfter - env.now) - 1000000000 else f.duration
      ((version = 1 ∧ ∃ n, v4 = [n] ∧ v6 = [] ∧ u6 = [] ∧
          sign E (some ca) curve env.keyParses (tbs 1 curve f.name [n] u4 (parseGroups f.groups) env.now (env.now + duration) pub) = .ok c) ∨
       (version = 2 ∧
          sign E (some ca) curve env.keyParses (tbs 2 curve f.name (v4 ++ v6) (u4 ++ u6) (parseGroups f.groups) env.now (env.now + duration) pub) = .ok c)) := by
  unfold signCert at h
  unfold caOf
  simp only at h
  generalize readKey CertKeys.unmarshalSigningPrivateKey env.caKey = rk at h
  generalize (unmarshalCertificateFromPEM env.caCrt).1 = rc at h ⊢
  by_cases h1 : f.name.isEmpty = true
  · rw [if_pos h1] at h; cases h
  rw [if_neg h1] at h
  by_cases h2 : (f.inPub.isSome = true ∧ f.outKeySet = true)
  · rw [if_pos h2] at h; cases h
  rw [if_neg h2] at h
  by_cases h3 : (effNetworks f).isEmpty = true
  · rw [if_pos h3] at h; cases h
  rw [if_neg h3] at h
  by_cases h4 : (f.version ≠ 0 ∧ f.version ≠ 1 ∧ f.version ≠ 2)
  · rw [if_pos h4] at h; cases h
  rw [if_neg h4] at h
  cases rk with
  | none => cases h
  | some r =>
    cases r with
    | error e => cases e <;> cases h
    | ok kc =>
      obtain ⟨k, curve⟩ := kc
      dsimp only at h
      cases rc with
      | error e => cases h
      | ok ca =>
        dsimp only at h
        by_cases h5 : (curve ≠ ca.curve ∨ (!env.keyMatches) = true)
        · rw [if_pos h5] at h; cases h
        rw [if_neg h5] at h
        by_cases h6 : ca.expired env.now = true
        · rw [if_pos h6] at h; cases h
        rw [if_neg h6] at h
        cases hn : splitNets env.parsePrefix (flagItems (effNetworks f)) with
        | none => rw [hn] at h; cases h
        | some n46 =>
          obtain ⟨v4, v6⟩ := n46
          rw [hn] at h
          dsimp only at h
          cases hu : splitNets env.parsePrefix (flagItems (effUnsafe f)) with
          | none => rw [hu] at h; cases h
          | some u46 =>
            obtain ⟨u4, u6⟩ := u46
            rw [hu] at h
            dsimp only at h
            cases hp : pickPub env f curve with
            | error e => rw [hp] at h; cases h
            | ok pub =>
              rw [hp] at h
              dsimp only at h
              have hkm : env.keyMatches = true := by
                cases hk : env.keyMatches with
                | true => rfl
                | false => exact absurd (Or.inr (by simp [hk])) h5
              have hcurve : curve = ca.curve := by
                by_cases hc : curve = ca.curve
                · exact hc
                · exact absurd (Or.inl hc) h5
              have hexp : ca.expired env.now = false := by simpa using h6
              have hname : f.name ≠ [] := by intro e; apply h1; simp [e]
              by_cases hv1 : (if f.version = 0 then ca.version else f.version) = 1
              · rw [if_pos hv1] at h
                cases v4 with
                | nil => cases h
                | cons n t =>
                  cases t with
                  | cons _ _ => cases h
                  | nil =>
                    dsimp only at h
                    by_cases h7 : (!v6.isEmpty) = true
                    · rw [if_pos h7] at h; cases h
                    rw [if_neg h7] at h
                    by_cases h8 : (!u6.isEmpty) = true
                    · rw [if_pos h8] at h; cases h
                    rw [if_neg h8] at h
                    have hv6 : v6 = [] := by cases v6 <;> simp_all
                    have hu6 : u6 = [] := by cases u6 <;> simp_all
                    split at h
                    · cases h
                    · rename_i c hs
                      cases h
                      exact ⟨ca, curve, [n], v6, u4, u6, pub, c, rfl, hcurve, hkm, hexp, hname, rfl, rfl, hp, rfl,
                        Or.inl ⟨hv1, n, rfl, hv6, hu6, hs⟩⟩
              · rw [if_neg hv1] at h
                by_cases hv2 : (if f.version = 0 then ca.version else f.version) = 2
                · rw [if_pos hv2] at h
                  split at h
                  · cases h
                  · rename_i c hs
                    cases h
                    exact ⟨ca, curve, v4, v6, u4, u6, pub, c, rfl, hcurve, hkm, hexp, hname, rfl, rfl, hp, rfl,
                      Or.inr ⟨hv2, hs⟩⟩
                · rw [if_neg hv2] at h; cases h

end Nebula.Lemmas.CertCli
