/-
Helper lemmas for C37 (remote lists): the comparator cascade of `unlockedSort` is the specification's
lexicographic order; sorting + adjacent dedupe yields the unique strictly increasing enumeration.
-/
import Nebula.Model.RemoteList
import Nebula.Spec.RemoteList
import Nebula.Lemmas.AllowList

namespace Nebula.Lemmas.RemoteList
open Nebula.Net Nebula.RemoteList Nebula.Spec.RemoteList

theorem less_eq_before (pref : List Prefix) (a b : AP) : less pref a b = before pref a b := by
  obtain ⟨⟨fa, va⟩, pta⟩ := a
  obtain ⟨⟨fb, vb⟩, ptb⟩ := b
  simp only [less, before, group, famClass, Addr.is4, Addr.lt, Addr.mk.injEq]
  generalize isPreferred { fam := fa, val := va } pref = pa
  generalize isPreferred { fam := fb, val := vb } pref = pb
  generalize isPrivate4 { fam := fa, val := va } = qa
  generalize isPrivate4 { fam := fb, val := vb } = qb
  cases fa <;> cases fb <;> cases pa <;> cases pb <;> cases qa <;> cases qb <;>
    simp <;> (try (by_cases h1 : va < vb <;> by_cases h2 : va = vb <;> simp [h1, h2] <;> omega))


/-! ### `before` is a strict total order -/

theorem before_iff (pref : List Prefix) (a b : AP) :
    before pref a b = true ↔
      group pref a < group pref b ∨ (group pref a = group pref b ∧
        (a.addr.val < b.addr.val ∨ (a.addr.val = b.addr.val ∧ a.port < b.port))) := by
  simp [before]

theorem before_irrefl (pref : List Prefix) (a : AP) : before pref a a = false := by
  cases h : before pref a a with
  | false => rfl
  | true => rw [before_iff] at h; omega

theorem before_trans {pref : List Prefix} {a b c : AP} (h1 : before pref a b = true)
    (h2 : before pref b c = true) : before pref a c = true := by
  rw [before_iff] at *; omega

theorem before_asymm {pref : List Prefix} {a b : AP} (h1 : before pref a b = true) :
    before pref b a = false := by
  cases h : before pref b a with
  | false => rfl
  | true => rw [before_iff] at *; omega

theorem famClass_fam {a b : Addr} (h : famClass a = famClass b) : a.fam = b.fam := by
  unfold famClass at h
  cases ha : a.fam <;> cases hb : b.fam <;> simp [ha, hb] at h ⊢
  · split at h <;> omega
  · split at h <;> omega

theorem group_fam {pref : List Prefix} {a b : AP} (h : group pref a = group pref b) :
    a.addr.fam = b.addr.fam := by
  apply famClass_fam
  unfold group at h
  have ha : famClass a.addr < 3 := by unfold famClass; split <;> (try split) <;> omega
  have hb : famClass b.addr < 3 := by unfold famClass; split <;> (try split) <;> omega
  split at h <;> split at h <;> omega

theorem before_tri {pref : List Prefix} {a b : AP} (hne : a ≠ b) :
    before pref a b = true ∨ before pref b a = true := by
  rw [before_iff, before_iff]
  by_cases hg : group pref a = group pref b
  · by_cases hv : a.addr.val = b.addr.val
    · by_cases hp : a.port = b.port
      · exfalso; apply hne
        obtain ⟨⟨fa, va⟩, pa⟩ := a
        obtain ⟨⟨fb, vb⟩, pb⟩ := b
        have := group_fam hg
        simp_all
      · omega
    · omega
  · omega

def le (pref : List Prefix) (a b : AP) : Bool := !less pref b a

theorem le_eq (pref : List Prefix) (a b : AP) : le pref a b = !before pref b a := by
  simp [le, less_eq_before]

theorem le_trans (pref : List Prefix) (a b c : AP) (h1 : le pref a b = true) (h2 : le pref b c = true) :
    le pref a c = true := by
  rw [le_eq] at *
  simp only [Bool.not_eq_true'] at *
  cases h : before pref c a with
  | false => rfl
  | true =>
    have e1 : ¬ before pref b a = true := by simp [h1]
    have e2 : ¬ before pref c b = true := by simp [h2]
    rw [before_iff] at h e1 e2; omega

theorem le_total (pref : List Prefix) (a b : AP) : (le pref a b || le pref b a) = true := by
  rw [le_eq, le_eq]
  cases h : before pref b a with
  | false => simp
  | true => simp [before_asymm h]

/-- in a `le`-sorted list distinct elements are strictly ordered. -/
theorem before_of_le_ne {pref : List Prefix} {a b : AP} (h : le pref a b = true) (hne : a ≠ b) :
    before pref a b = true := by
  rw [le_eq] at h
  rcases before_tri (pref := pref) hne with h' | h'
  · exact h'
  · simp [h'] at h

/-! ### adjacent dedupe of a sorted list -/

theorem mem_dedupAdj (l : List AP) : ∀ x, x ∈ dedupAdj l ↔ x ∈ l := by
  intro x
  induction l using dedupAdj.induct with
  | case1 => simp [dedupAdj]
  | case2 a => simp [dedupAdj]
  | case3 a rest ih => simp only [dedupAdj, if_true]; rw [ih]; simp
  | case4 a b rest hab ih => simp only [dedupAdj, hab, if_false, List.mem_cons]; rw [ih]; simp

theorem pairwise_dedupAdj (pref : List Prefix) (l : List AP) (h : l.Pairwise (fun a b => le pref a b = true)) :
    (dedupAdj l).Pairwise (fun a b => before pref a b = true) := by
  induction l using dedupAdj.induct with
  | case1 => simp [dedupAdj]
  | case2 a => simp [dedupAdj]
  | case3 a rest ih =>
    simp only [dedupAdj, if_true]
    exact ih (List.Pairwise.of_cons h)
  | case4 a b rest hab ih =>
    simp only [dedupAdj, hab, if_false]
    rw [List.pairwise_cons]
    refine ⟨?_, ih (List.Pairwise.of_cons h)⟩
    intro x hx
    rw [mem_dedupAdj] at hx
    rw [List.pairwise_cons] at h
    have hab' : before pref a b = true := before_of_le_ne (h.1 b (by simp)) hab
    rcases List.mem_cons.mp hx with hx | hx
    · subst hx; exact hab'
    · have hbx : le pref b x = true := by
        have := h.2; rw [List.pairwise_cons] at this; exact this.1 x hx
      by_cases hbx' : b = x
      · subst hbx'; exact hab'
      · exact before_trans hab' (before_of_le_ne hbx hbx')

theorem nodup_of_pairwise_before {pref : List Prefix} {l : List AP}
    (h : l.Pairwise (fun a b => before pref a b = true)) : l.Nodup := by
  apply List.Pairwise.imp _ h
  intro a b hab heq
  subst heq
  rw [before_irrefl] at hab; cases hab

/-- `unlockedSort` on the address list: the unique strictly increasing enumeration of its elements. -/
theorem sortAddrs_spec (pref : List Prefix) (l : List AP) :
    IsCandidateList pref l (sortAddrs pref l) := by
  unfold sortAddrs
  split
  · rename_i hlen
    match l, hlen with
    | [], _ => exact ⟨List.nodup_nil, fun _ => Iff.rfl, List.Pairwise.nil⟩
    | [a], _ => exact ⟨by simp, fun _ => Iff.rfl, by simp⟩
    | _ :: _ :: _, h => simp at h; omega
  · have hs : (l.mergeSort (fun a b => !(less pref b a))).Pairwise (fun a b => le pref a b = true) :=
      List.pairwise_mergeSort (le := fun a b => !(less pref b a)) (le_trans pref) (le_total pref) l
    have hp := pairwise_dedupAdj pref _ hs
    refine ⟨nodup_of_pairwise_before hp, ?_, hp⟩
    intro x
    rw [mem_dedupAdj]
    exact (List.mergeSort_perm l _).mem_iff

/-- a candidate list is unique. -/
theorem candidateList_unique {pref : List Prefix} {c : List AP} :
    ∀ {l l' : List AP}, IsCandidateList pref c l → IsCandidateList pref c l' → l = l' := by
  suffices H : ∀ (l l' : List AP), l.Pairwise (fun a b => before pref a b = true) →
      l'.Pairwise (fun a b => before pref a b = true) → (∀ x, x ∈ l ↔ x ∈ l') → l = l' by
    intro l l' h h'
    exact H l l' h.2.2 h'.2.2 (fun x => (h.2.1 x).trans (h'.2.1 x).symm)
  intro l
  induction l with
  | nil =>
    intro l' _ _ hm
    cases l' with
    | nil => rfl
    | cons a t => exact absurd ((hm a).mpr (by simp)) (by simp)
  | cons a t ih =>
    intro l' hp hp' hm
    cases l' with
    | nil => exact absurd ((hm a).mp (by simp)) (by simp)
    | cons a' t' =>
      rw [List.pairwise_cons] at hp hp'
      have haa : a = a' := by
        by_cases h : a = a'
        · exact h
        · exfalso
          have h1 : a ∈ t' := by
            have := (hm a).mp (by simp); rcases List.mem_cons.mp this with h' | h'
            · exact absurd h' h
            · exact h'
          have h2 : a' ∈ t := by
            have := (hm a').mpr (by simp); rcases List.mem_cons.mp this with h' | h'
            · exact absurd h'.symm h
            · exact h'
          have b1 := hp'.1 a h1
          have b2 := hp.1 a' h2
          rw [before_asymm b1] at b2; cases b2
      subst haa
      congr 1
      apply ih t' hp.2 hp'.2
      intro x
      have hnt : a ∉ t := fun hh => by have := hp.1 a hh; rw [before_irrefl] at this; cases this
      have hnt' : a ∉ t' := fun hh => by have := hp'.1 a hh; rw [before_irrefl] at this; cases this
      constructor
      · intro hx
        have := (hm x).mp (by simp [hx]); rcases List.mem_cons.mp this with h' | h'
        · subst h'; exact absurd hx hnt
        · exact h'
      · intro hx
        have := (hm x).mpr (by simp [hx]); rcases List.mem_cons.mp this with h' | h'
        · subst h'; exact absurd hx hnt'
        · exact h'


/-! ### collect / rebuild -/

theorem isCandidateList_congr {pref : List Prefix} {c c' l : List AP} (h : ∀ x, x ∈ c ↔ x ∈ c')
    (hl : IsCandidateList pref c l) : IsCandidateList pref c' l :=
  ⟨hl.1, fun x => (hl.2.1 x).trans (h x), hl.2.2⟩

theorem mem_collect (r : RL) (sa : Option (List Addr → Addr → Bool)) (x : AP) :
    x ∈ (collect r sa).addrs ↔ x ∈ candidates r sa := by
  simp only [collect, candidates, sources, List.mem_append, List.mem_filter, Bool.and_eq_true,
    Bool.not_eq_true']
  constructor
  · rintro (⟨h1, h2⟩ | ⟨h1, h2, h3⟩)
    · exact ⟨Or.inl h1, by simpa using h2⟩
    · exact ⟨Or.inr ⟨h1, h2⟩, by simpa using h3⟩
  · rintro ⟨h1 | ⟨h1, h2⟩, h3⟩
    · exact Or.inl ⟨h1, by simpa using h3⟩
    · exact Or.inr ⟨h1, h2, by simpa using h3⟩

theorem candidates_collect (r : RL) (sa : Option (List Addr → Addr → Bool)) :
    candidates { collect r sa with shouldRebuild := false } sa = candidates r sa := rfl

/-- the cached list is either marked dirty or already enumerates the current candidates. -/
def Fresh (sa : Option (List Addr → Addr → Bool)) (r : RL) : Prop :=
  r.shouldRebuild = true ∨ ∀ x, x ∈ r.addrs ↔ x ∈ candidates r sa

theorem rebuild_spec (sa : Option (List Addr → Addr → Bool)) (r : RL) (hf : Fresh sa r) (pref : List Prefix) :
    IsCandidateList pref (candidates r sa) (rebuild r sa pref).addrs := by
  unfold rebuild
  cases hs : r.shouldRebuild with
  | true =>
    simp only [if_true, sort]
    exact isCandidateList_congr (mem_collect r sa) (sortAddrs_spec pref _)
  | false =>
    simp only [Bool.false_eq_true, if_false, sort]
    rcases hf with hf | hf
    · rw [hs] at hf; cases hf
    · exact isCandidateList_congr hf (sortAddrs_spec pref _)

theorem rebuild_fresh (sa : Option (List Addr → Addr → Bool)) (r : RL) (hf : Fresh sa r) (pref : List Prefix) :
    Fresh sa (rebuild r sa pref) := by
  right
  have h := rebuild_spec sa r hf pref
  have hc : candidates (rebuild r sa pref) sa = candidates r sa := by
    unfold rebuild; cases r.shouldRebuild <;> rfl
  intro x; rw [hc]; exact h.2.1 x

/-! ### relays -/

theorem addr_lt_iff (a b : Addr) :
    a.lt b = true ↔ (a.fam = b.fam ∧ a.val < b.val) ∨ (a.fam = .v4 ∧ b.fam = .v6) := by
  obtain ⟨fa, va⟩ := a
  obtain ⟨fb, vb⟩ := b
  cases fa <;> cases fb <;> simp [Addr.lt]

theorem addr_lt_irrefl (a : Addr) : a.lt a = false := by
  cases h : a.lt a with
  | false => rfl
  | true => rw [addr_lt_iff] at h; rcases h with ⟨_, h⟩ | ⟨h1, h2⟩ <;> simp_all

theorem addr_tri {a b : Addr} (hne : a ≠ b) : a.lt b = true ∨ b.lt a = true := by
  rw [addr_lt_iff, addr_lt_iff]
  obtain ⟨fa, va⟩ := a
  obtain ⟨fb, vb⟩ := b
  cases fa <;> cases fb <;> simp_all <;> omega

theorem addr_le_trans (a b c : Addr) (h1 : (!b.lt a) = true) (h2 : (!c.lt b) = true) : (!c.lt a) = true := by
  cases h : c.lt a with
  | false => rfl
  | true =>
    have e1 : ¬ b.lt a = true := by simpa using h1
    have e2 : ¬ c.lt b = true := by simpa using h2
    rw [addr_lt_iff] at h e1 e2
    obtain ⟨fa, va⟩ := a
    obtain ⟨fb, vb⟩ := b
    obtain ⟨fc, vc⟩ := c
    cases fa <;> cases fb <;> cases fc <;> simp_all <;> omega

theorem addr_le_total (a b : Addr) : ((!b.lt a) || (!a.lt b)) = true := by
  cases h : b.lt a with
  | false => simp
  | true =>
    cases h' : a.lt b with
    | false => simp
    | true =>
      rw [addr_lt_iff] at h h'
      obtain ⟨fa, va⟩ := a
      obtain ⟨fb, vb⟩ := b
      cases fa <;> cases fb <;> simp_all <;> omega

theorem mem_dedup (l : List Addr) (x : Addr) : x ∈ dedup l ↔ x ∈ l := by
  induction l with
  | nil => simp [dedup]
  | cons a t ih =>
    simp only [dedup]
    split
    · rename_i hc
      rw [ih]
      have : a ∈ t := by simpa using hc
      constructor
      · intro h; exact List.mem_cons_of_mem _ h
      · intro h; rcases List.mem_cons.mp h with h | h
        · subst h; exact this
        · exact h
    · simp [ih]

theorem nodup_dedup (l : List Addr) : (dedup l).Nodup := by
  induction l with
  | nil => simp [dedup]
  | cons a t ih =>
    simp only [dedup]
    split
    · exact ih
    · rename_i hc
      rw [List.nodup_cons]
      refine ⟨?_, ih⟩
      rw [mem_dedup]; simpa using hc

theorem sortRelays_spec (l : List Addr) : IsRelayList l (sortRelays l) := by
  unfold sortRelays
  have hperm := List.mergeSort_perm (dedup l) (fun a b => !(b.lt a))
  have hnd : ((dedup l).mergeSort (fun a b => !(b.lt a))).Nodup := hperm.nodup_iff.mpr (nodup_dedup l)
  have hs := List.pairwise_mergeSort (le := fun a b => !(b.lt a)) addr_le_trans addr_le_total (dedup l)
  refine ⟨hnd, fun x => hperm.mem_iff.trans (mem_dedup l x), ?_⟩
  have := List.Pairwise.and hs hnd
  apply List.Pairwise.imp _ this
  intro a b ⟨h1, h2⟩
  rcases addr_tri h2 with h | h
  · exact h
  · simp [h] at h1

theorem relayList_unique {c : List Addr} {l l' : List Addr} (h : IsRelayList c l) (h' : IsRelayList c l') :
    l = l' := by
  have hm : ∀ x, x ∈ l ↔ x ∈ l' := fun x => (h.2.1 x).trans (h'.2.1 x).symm
  have hp := h.2.2
  have hp' := h'.2.2
  clear h h'
  induction l generalizing l' with
  | nil =>
    cases l' with
    | nil => rfl
    | cons a t => exact absurd ((hm a).mpr (by simp)) (by simp)
  | cons a t ih =>
    cases l' with
    | nil => exact absurd ((hm a).mp (by simp)) (by simp)
    | cons a' t' =>
      rw [List.pairwise_cons] at hp hp'
      have hasym : ∀ {x y : Addr}, x.lt y = true → y.lt x = true → False := by
        intro x y h1 h2
        rw [addr_lt_iff] at h1 h2
        obtain ⟨fx, vx⟩ := x
        obtain ⟨fy, vy⟩ := y
        cases fx <;> cases fy <;> simp_all <;> omega
      have haa : a = a' := by
        by_cases h : a = a'
        · exact h
        · exfalso
          have h1 : a ∈ t' := by
            have := (hm a).mp (by simp); rcases List.mem_cons.mp this with h' | h'
            · exact absurd h' h
            · exact h'
          have h2 : a' ∈ t := by
            have := (hm a').mpr (by simp); rcases List.mem_cons.mp this with h' | h'
            · exact absurd h'.symm h
            · exact h'
          exact hasym (hp'.1 a h1) (hp.1 a' h2)
      subst haa
      congr 1
      apply ih ?_ hp.2 hp'.2
      intro x
      have hnt : a ∉ t := fun hh => by have := hp.1 a hh; rw [addr_lt_irrefl] at this; cases this
      have hnt' : a ∉ t' := fun hh => by have := hp'.1 a hh; rw [addr_lt_irrefl] at this; cases this
      constructor
      · intro hx
        have := (hm x).mp (by simp [hx]); rcases List.mem_cons.mp this with h' | h'
        · subst h'; exact absurd hx hnt
        · exact h'
      · intro hx
        have := (hm x).mpr (by simp [hx]); rcases List.mem_cons.mp this with h' | h'
        · subst h'; exact absurd hx hnt'
        · exact h'


/-! ### histories -/

def reportedRelays (r : RL) : List Addr := r.cache.flatMap (fun e => e.2.relay)

def FreshR (r : RL) : Prop := r.shouldRebuild = true ∨ ∀ x, x ∈ r.relays ↔ x ∈ reportedRelays r

theorem rebuild_relays_spec (sa : Option (List Addr → Addr → Bool)) (r : RL) (hf : FreshR r) (pref : List Prefix) :
    IsRelayList (reportedRelays r) (rebuild r sa pref).relays := by
  unfold rebuild
  cases hs : r.shouldRebuild with
  | true => simp only [if_true, sort]; exact sortRelays_spec _
  | false =>
    simp only [Bool.false_eq_true, if_false, sort]
    rcases hf with hf | hf
    · rw [hs] at hf; cases hf
    · have h := sortRelays_spec r.relays
      exact ⟨h.1, fun x => (h.2.1 x).trans (hf x), h.2.2⟩

theorem rebuild_freshR (sa : Option (List Addr → Addr → Bool)) (r : RL) (hf : FreshR r) (pref : List Prefix) :
    FreshR (rebuild r sa pref) := by
  right
  have h := rebuild_relays_spec sa r hf pref
  have hc : reportedRelays (rebuild r sa pref) = reportedRelays r := by
    unfold rebuild; cases r.shouldRebuild <;> rfl
  intro x; rw [hc]; exact h.2.1 x

/-- every operation on a `RemoteList` (the read accessors `CopyAddrs`/`ForEach`/`Len` are `rebuild`). -/
inductive Op where
  | learn (owner : Addr) (a : AP)
  | setV4 (owner : Addr) (to : List AP) (check : Addr → Bool)
  | setV6 (owner : Addr) (to : List AP) (check : Addr → Bool)
  | setRelay (owner : Addr) (to : List Addr)
  | prependV4 (owner : Addr) (a : AP)
  | prependV6 (owner : Addr) (a : AP)
  | resetForOwner (owner : Addr)
  | clearDNS
  | setDNS (ips : List AP)
  | block (a : AP) (relayed : Bool)
  | unblock
  | refresh (vpnAddrs : List Addr)
  | rebuild (pref : List Prefix)

def apply (sa : Option (List Addr → Addr → Bool)) (r : RL) : Op → RL
  | .learn o a => learn r o a
  | .setV4 o l c => setV4 r o l c
  | .setV6 o l c => setV6 r o l c
  | .setRelay o l => setRelay r o l
  | .prependV4 o a => prependV4 r o a
  | .prependV6 o a => prependV6 r o a
  | .resetForOwner o => resetForOwner r o
  | .clearDNS => clearHostnameResults r
  | .setDNS ips => setDNS r ips
  | .block a rel => blockRemote r a rel
  | .unblock => resetBlockedRemotes r
  | .refresh v => refreshFromHandshake r v
  | .rebuild pref => Nebula.RemoteList.rebuild r sa pref

theorem apply_fresh (sa : Option (List Addr → Addr → Bool)) (r : RL) (op : Op)
    (h : Fresh sa r ∧ FreshR r) : Fresh sa (apply sa r op) ∧ FreshR (apply sa r op) := by
  cases op with
  | rebuild pref => exact ⟨rebuild_fresh sa r h.1 pref, rebuild_freshR sa r h.2 pref⟩
  | block a rel =>
    simp only [apply, blockRemote]
    split
    · exact h
    · split
      · exact h
      · exact ⟨Or.inl rfl, Or.inl rfl⟩
  | learn o a =>
    simp only [apply, learn]
    split <;> exact ⟨Or.inl rfl, Or.inl rfl⟩
  | _ => exact ⟨Or.inl rfl, Or.inl rfl⟩

theorem init_fresh (sa : Option (List Addr → Addr → Bool)) (v : List Addr) :
    Fresh sa { vpnAddrs := v } ∧ FreshR { vpnAddrs := v } := by
  constructor
  · right; intro x; simp [candidates, sources]
  · right; intro x; simp [reportedRelays]

theorem history_fresh (sa : Option (List Addr → Addr → Bool)) (ops : List Op) :
    ∀ r, Fresh sa r ∧ FreshR r → Fresh sa (ops.foldl (apply sa) r) ∧ FreshR (ops.foldl (apply sa) r) := by
  induction ops with
  | nil => intro r h; exact h
  | cons op ops ih => intro r h; exact ih _ (apply_fresh sa r op h)

theorem candidates_perm {r r' : RL} (sa : Option (List Addr → Addr → Bool))
    (hc : r.cache.Perm r'.cache) (hh : (r.hr.getD []).Perm (r'.hr.getD [])) (hv : r.vpnAddrs = r'.vpnAddrs)
    (hb : r.badRemotes = r'.badRemotes) : ∀ x, x ∈ candidates r sa ↔ x ∈ candidates r' sa := by
  intro x
  simp only [candidates, sources, List.mem_filter, List.mem_append, List.mem_flatMap, hv, hb]
  constructor
  · rintro ⟨h | h, hbad⟩
    · obtain ⟨e, he, hx⟩ := h; exact ⟨Or.inl ⟨e, hc.mem_iff.mp he, hx⟩, hbad⟩
    · exact ⟨Or.inr ⟨hh.mem_iff.mp h.1, h.2⟩, hbad⟩
  · rintro ⟨h | h, hbad⟩
    · obtain ⟨e, he, hx⟩ := h; exact ⟨Or.inl ⟨e, hc.mem_iff.mpr he, hx⟩, hbad⟩
    · exact ⟨Or.inr ⟨hh.mem_iff.mpr h.1, h.2⟩, hbad⟩

end Nebula.Lemmas.RemoteList
