/-
Helper lemmas for C37 (remote lists): the comparator cascade of `unlockedSort` is the specification's
lexicographic order; sorting + adjacent dedupe yields the unique strictly increasing enumeration.
-/
import Nebula.Model.RemoteList
import Nebula.Spec.RemoteList
import Nebula.Lemmas.AllowList

namespace Nebula.Lemmas.RemoteList
open Nebula.Net Nebula.RemoteList Nebula.Spec.RemoteList

theorem less_eq_before (pref : List Prefix) (a b : AP) : less pref a b = before pref a b := by
  obtain ⟨⟨fa, va⟩, pta⟩ := a
  obtain ⟨⟨fb, vb⟩, ptb⟩ := b
  simp only [less, before, group, famClass, Addr.is4, Addr.lt, Addr.mk.injEq]
  generalize isPreferred { fam := fa, val := va } pref = pa
  generalize isPreferred { fam := fb, val := vb } pref = pb
  generalize isPrivate4 { fam := fa, val := va } = qa
  generalize isPrivate4 { fam := fb, val := vb } = qb
  cases fa <;> cases fb <;> cases pa <;> cases pb <;> cases qa <;> cases qb <;>
    simp <;> (try (by_cases h1 : va < vb <;> by_cases h2 : va = vb <;> simp [h1, h2] <;> omega))


/-! ### `before` is a strict total order -/

theorem before_iff (pref : List Prefix) (a b : AP) :
    before pref a b = true ↔
      group pref a < group pref b ∨ (group pref a = group pref b ∧
        (a.addr.val < b.addr.val ∨ (a.addr.val = b.addr.val ∧ a.port < b.port))) := by
  simp [before]

theorem before_irrefl (pref : List Prefix) (a : AP) : before pref a a = false := by
  cases h : before pref a a with
  | false => rfl
  | true => rw [before_iff] at h; omega

theorem before_trans {pref : List Prefix} {a b c : AP} (h1 : before pref a b = true)
    (h2 : before pref b c = true) : before pref a c = true := by
  rw [before_iff] at *; omega

theorem before_asymm {pref : List Prefix} {a b : AP} (h1 : before pref a b = true) :
    before pref b a = false := by
  cases h : before pref b a with
  | false => rfl
  | true => rw [before_iff] at *; omega

theorem famClass_fam {a b : Addr} (h : famClass a = famClass b) : a.fam = b.fam := by
  unfold famClass at h
  cases ha : a.fam <;> cases hb : b.fam <;> simp [ha, hb] at h ⊢
  · split at h <;> omega
  · split at h <;> omega

theorem group_fam {pref : List Prefix} {a b : AP} (h : group pref a = group pref b) :
    a.addr.fam = b.addr.fam := by
  apply famClass_fam
  unfold group at h
  have ha : famClass a.addr < 3 := by unfold famClass; split <;> (try split) <;> omega
  have hb : famClass b.addr < 3 := by unfold famClass; split <;> (try split) <;> omega
  split at h <;> split at h <;> omega

theorem before_tri {pref : List Prefix} {a b : AP} (hne : a ≠ b) :
    before pref a b = true ∨ before pref b a = true := by
  rw [before_iff, before_iff]
  by_cases hg : group pref a = group pref b
  · by_cases hv : a.addr.val = b.addr.val
    · by_cases hp : a.port = b.port
      · exfalso; apply hne
        obtain ⟨⟨fa, va⟩, pa⟩ := a
        obtain ⟨⟨fb, vb⟩, pb⟩ := b
        have := group_fam hg
        simp_all
      · omega
    · omega
  · omega

def le (pref : List Prefix) (a b : AP) : Bool := !less pref b a

theorem le_eq (pref : List Prefix) (a b : AP) : le pref a b = !before pref b a := by
  simp [le, less_eq_before]

theorem le_trans (pref : List Prefix) (a b c : AP) (h1 : le pref a b = true) (h2 : le pref b c = true) :
    le pref a c = true := by
  rw [le_eq] at *
  simp only [Bool.not_eq_true'] at *
  cases h : before pref c a with
  | false => rfl
  | true =>
    have e1 : ¬ before pref b a = true := by simp [h1]
    have e2 : ¬ before pref c b = true := by simp [h2]
    rw [before_iff] at h e1 e2; omega

theorem le_total (pref : List Prefix) (a b : AP) : (le pref a b || le pref b a) = true := by
  rw [le_eq, le_eq]
  cases h : before pref b a with
  | false => simp
  | true => simp [before_asymm h]

/-- in a `le`-sorted list distinct elements are strictly ordered. -/
theorem before_of_le_ne {pref : List Prefix} {a b : AP} (h : le pref a b = true) (hne : a ≠ b) :
    before pref a b = true := by
  rw [le_eq] at h
  rcases before_tri (pref := pref) hne with h' | h'
  · exact h'
  · simp [h'] at h

/-! ### adjacent dedupe of a sorted list -/

theorem mem_dedupAdj (l : List AP) : ∀ x, x ∈ dedupAdj l ↔ x ∈ l := by
  intro x
  induction l using dedupAdj.induct with
  | case1 => simp [dedupAdj]
  | case2 a => simp [dedupAdj]
  | case3 a b rest hab ih => subst hab; simp only [dedupAdj, if_true]; rw [ih]; simp
  | case4 a b rest hab ih => simp only [dedupAdj, hab, if_false, List.mem_cons]; rw [ih]; simp

theorem pairwise_dedupAdj (pref : List Prefix) (l : List AP) (h : l.Pairwise (fun a b => le pref a b = true)) :
    (dedupAdj l).Pairwise (fun a b => before pref a b = true) := by
  induction l using dedupAdj.induct with
  | case1 => simp [dedupAdj]
  | case2 a => simp [dedupAdj]
  | case3 a b rest hab ih =>
    subst hab; simp only [dedupAdj, if_true]
    exact ih (List.Pairwise.of_cons h)
  | case4 a b rest hab ih =>
    simp only [dedupAdj, hab, if_false]
    rw [List.pairwise_cons]
    refine ⟨?_, ih (List.Pairwise.of_cons h)⟩
    intro x hx
    rw [mem_dedupAdj] at hx
    rw [List.pairwise_cons] at h
    have hab' : before pref a b = true := before_of_le_ne (h.1 b (by simp)) hab
    rcases List.mem_cons.mp hx with hx | hx
    · subst hx; exact hab'
    · have hbx : le pref b x = true := by
        have := h.2; rw [List.pairwise_cons] at this; exact this.1 x hx
      by_cases hbx' : b = x
      · subst hbx'; exact hab'
      · exact before_trans hab' (before_of_le_ne hbx hbx')

theorem nodup_of_pairwise_before {pref : List Prefix} {l : List AP}
    (h : l.Pairwise (fun a b => before pref a b = true)) : l.Nodup := by
  apply List.Pairwise.imp _ h
  intro a b hab heq
  subst heq
  rw [before_irrefl] at hab; cases hab

/-- `unlockedSort` on the address list: the unique strictly increasing enumeration of its elements. -/
theorem sortAddrs_spec (pref : List Prefix) (l : List AP) :
    IsCandidateList pref l (sortAddrs pref l) := by
  unfold sortAddrs
  split
  · rename_i hlen
    match l, hlen with
    | [], _ => exact ⟨List.nodup_nil, fun _ => Iff.rfl, List.Pairwise.nil⟩
    | [a], _ => exact ⟨by simp, fun _ => Iff.rfl, by simp⟩
    | _ :: _ :: _, h => simp at h; omega
  · have hs : (l.mergeSort (fun a b => !(less pref b a))).Pairwise (fun a b => le pref a b = true) :=
      List.sorted_mergeSort (le := fun a b => !(less pref b a)) (le_trans pref) (le_total pref) l
    have hp := pairwise_dedupAdj pref _ hs
    refine ⟨nodup_of_pairwise_before hp, ?_, hp⟩
    intro x
    rw [mem_dedupAdj]
    exact (List.mergeSort_perm l _).mem_iff

/-- a candidate list is unique. -/
theorem candidateList_unique {pref : List Prefix} {c : List AP} :
    ∀ {l l' : List AP}, IsCandidateList pref c l → IsCandidateList pref c l' → l = l' := by
  suffices H : ∀ (l l' : List AP), l.Pairwise (fun a b => before pref a b = true) →
      l'.Pairwise (fun a b => before pref a b = true) → (∀ x, x ∈ l ↔ x ∈ l') → l = l' by
    intro l l' h h'
    exact H l l' h.2.2 h'.2.2 (fun x => (h.2.1 x).trans (h'.2.1 x).symm)
  intro l
  induction l with
  | nil =>
    intro l' _ _ hm
    cases l' with
    | nil => rfl
    | cons a t => exact absurd ((hm a).mpr (by simp)) (by simp)
  | cons a t ih =>
    intro l' hp hp' hm
    cases l' with
    | nil => exact absurd ((hm a).mp (by simp)) (by simp)
    | cons a' t' =>
      rw [List.pairwise_cons] at hp hp'
      have haa : a = a' := by
        by_cases h : a = a'
        · exact h
        · exfalso
          have h1 : a ∈ t' := by
            have := (hm a).mp (by simp); rcases List.mem_cons.mp this with h' | h'
            · exact absurd h' h
            · exact h'
          have h2 : a' ∈ t := by
            have := (hm a').mpr (by simp); rcases List.mem_cons.mp this with h' | h'
            · exact absurd h'.symm h
            · exact h'
          have b1 := hp'.1 a h1
          have b2 := hp.1 a' h2
          rw [before_asymm b1] at b2; cases b2
      subst haa
      congr 1
      apply ih t' hp.2 hp'.2
      intro x
      have hnt : a ∉ t := fun hh => by have := hp.1 a hh; rw [before_irrefl] at this; cases this
      have hnt' : a ∉ t' := fun hh => by have := hp'.1 a hh; rw [before_irrefl] at this; cases this
      constructor
      · intro hx
        have := (hm x).mp (by simp [hx]); rcases List.mem_cons.mp this with h' | h'
        · subst h'; exact absurd hx hnt
        · exact h'
      · intro hx
        have := (hm x).mpr (by simp [hx]); rcases List.mem_cons.mp this with h' | h'
        · subst h'; exact absurd hx hnt'
        · exact h'

end Nebula.Lemmas.RemoteList
