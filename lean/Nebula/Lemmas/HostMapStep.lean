/-
Every operation of the model satisfies the step relation `Step` that the run-time oracle `stepCheck` decides.
-/
import Nebula.Lemmas.HostMapOracle

namespace Nebula.HostMap
open FMap

theorem mainRef_live {s : State} (i : Inv s) {h : Nat} (m : MainRef s h) : Live s h := by
  rcases m with ⟨a, ha⟩ | ⟨k, hk⟩ | ⟨k, hk⟩ | ⟨k, hk⟩
  · exact (i.core.listOk a h ha).1.resolve_left (by simp)
  · have := (i.core.idx k h hk).1; simpa [Live, this] using hk
  · exact (i.core.ridx k h hk).1
  · exact (i.core.rel k h hk).1

theorem live_mainRef {s : State} {h : Nat} (l : Live s h) : MainRef s h := Or.inr (Or.inl ⟨_, l⟩)

/-- the step relation follows from the invariant before and after plus the operation's frame -/
theorem step_of_frame {pre post : State} {fresh : List Nat} (ip : Inv pre) (iq : Inv post)
    (f : OpFrame pre post fresh) : Step pre post fresh := by
  refine ⟨fun h m => ?_, fun i h e => ?_, fun i h e => ?_, fun i h e => ?_, fun r h e => ?_⟩
  · have hl := mainRef_live iq m
    rcases f.idxSub _ h hl with k | k
    · left
      have := (ip.core.idx _ h k).1
      exact live_mainRef (by simpa [Live, this] using k)
    · exact Or.inr k
  · by_cases m : MainRef post h
    · left
      have hl := mainRef_live iq m
      have hlp : Live pre h := by have := (ip.core.idx i h e).1; simpa [Live, this] using e
      have ho := f.objLive h hlp
      simp only [Live, ho] at hl
      rw [(ip.core.idx i h e).1] at hl; exact hl
    · exact Or.inr m
  · by_cases m : MainRef post h
    · left
      obtain ⟨_, p2, _⟩ := ip.core.rel i h e
      exact iq.core.relOwn h i (mainRef_live iq m) (f.keysMono h i p2)
    · exact Or.inr m
  · obtain ⟨q1, q2⟩ := f.objPend i h e
    by_cases m : MainRef post h
    · right; left
      have hl := mainRef_live iq m
      simpa [Live, q1] using hl
    · by_cases pr : PendRef post h
      · left
        rcases pr with ⟨a, ha⟩ | ⟨j, hj⟩
        · have := iq.core.vpnReady a h ha q2; rw [q1] at this; exact this
        · have := (iq.core.pidx j h hj).1; rw [q1] at this; rw [this]; exact hj
      · right; right; rintro (x | x)
        · exact m x
        · exact pr x
  · rcases f.ridxKeep r h e with k | k | k
    · exact Or.inl k
    · right; left; intro m; exact k (mainRef_live iq m)
    · exact Or.inr (Or.inr k)

theorem lt_next_of_held {s : State} (c : Core none s) {x : Nat} (hx : Live s x ∨ ∃ i, s.pidx.get i = some x) :
    x < s.next := by
  apply lt_next_of_lidx c
  rcases hx with hl | ⟨j, hj⟩
  · have := c.idx _ x hl; exact this.1 ▸ this.2
  · obtain ⟨q1, q2, _⟩ := c.pidx j x hj; rw [q1]; exact q2

theorem start_frame {s : State} (i : Inv s) (a : Nat) : OpFrame s (startHandshake s a).1 [] := by
  refine opFrame_basic i.core ?_ ?_ ?_ ?_
  · unfold startHandshake; split <;> rfl
  · unfold startHandshake; split <;> rfl
  · intro x hx
    have := lt_next_of_held i.core hx
    unfold startHandshake; split
    · rfl
    · simp only [State.obj, get_set]
      have : s.next ≠ x := by omega
      simp [this]
  · intro x j hk; unfold startHandshake; split <;> exact hk

theorem alloc_frame {s : State} (i : Inv s) (a : Nat) (st : List Nat) : OpFrame s (opAlloc s a st).1 [] := by
  unfold opAlloc
  cases hv : s.vpnIps.get a with
  | none => exact opFrame_refl i.core
  | some h =>
    simp only
    by_cases hr : (s.obj h).ready = true
    · simp [hr]; exact opFrame_refl i.core
    · simp only [hr, Bool.false_eq_true, ↓reduceIte, allocateIndex]
      obtain ⟨_, v2, _⟩ := i.core.vpn a h hv
      have notHeld : ∀ x, (Live s x ∨ ∃ j, s.pidx.get j = some x) → x ≠ h := by
        rintro x (hl | ⟨j, hj⟩) rfl
        · exact v2 hl
        · exact hr (i.core.pidx j x hj).2.2.2
      rcases allocLoop_spec h 32 s st with ⟨idx, e, _⟩ | ⟨e, hne⟩
      · rw [e]; simp only
        refine opFrame_basic i.core rfl rfl ?_ (fun _ _ e => e)
        intro x hx
        have := notHeld x hx
        simp [State.obj, State.setObj, get_set, Ne.symm this]
      · generalize allocLoop h 32 s st = r at e hne
        obtain ⟨s', res⟩ := r
        simp only at e hne
        subst e
        cases res with
        | ok idx => exact absurd rfl (hne idx)
        | exhausted => exact opFrame_refl i.core
        | randErr => exact opFrame_refl i.core
        | unlinked => exact opFrame_refl i.core

theorem pdel_frame {s : State} (i : Inv s) (h : Nat) : OpFrame s (pendingDelete s h) [] := by
  have d := pendingDelete_spec s h
  exact opFrame_basic i.core d.indexes d.rindexes (fun x _ => by simp [State.obj, d.objs])
    (fun x j hk => by simpa [State.rstate, d.rs] using hk)

theorem prim_frame {s : State} (i : Inv s) (h : Nat) : OpFrame s (makePrimary s h).1 [] := by
  obtain ⟨_, same, _⟩ := makePrimary_inv i h
  exact opFrame_basic i.core same.indexes same.rindexes (fun x _ => same.obj x)
    (fun x j hk => by rw [same.rstate]; exact hk)

theorem relayTo_frame {s : State} (i : Inv s) (h a : Nat) :
    OpFrame s (s.setRs h (insertRelayTo (s.rstate h) a)) [] := by
  refine opFrame_basic i.core rfl rfl (fun _ _ => rfl) ?_
  intro x j hk
  rw [rstate_setRs]
  by_cases e : h = x
  · subst e; simp only [↓reduceIte]; unfold insertRelayTo; split <;> exact hk
  · simp only [e, ↓reduceIte]; exact hk

theorem relayLoop_frame (h : Nat) (rel : Relay) (fuel : Nat) : ∀ (s : State) (st : List Nat), Inv s →
    OpFrame s (relayLoop h rel fuel s st).1 [] := by
  induction fuel with
  | zero => intro s st i; exact opFrame_refl i.core
  | succ n ih =>
    intro s st i
    unfold relayLoop
    cases hg : genIndex st with
    | none => exact opFrame_refl i.core
    | some p =>
      obtain ⟨idx, st'⟩ := p
      simp only
      by_cases c : (s.relays.get idx).isNone = true
      · simp only [c, ↓reduceIte]
        obtain ⟨_, same, _⟩ := makePrimary_inv i h
        generalize makePrimary s h = mp at same
        obtain ⟨s1, ok⟩ := mp
        simp only at same
        cases ok with
        | false =>
          simp only [Bool.not_false, ↓reduceIte]
          exact opFrame_basic i.core same.indexes same.rindexes (fun x _ => same.obj x)
            (fun x j hk => by rw [same.rstate]; exact hk)
        | true =>
          simp only [Bool.not_true, Bool.false_eq_true, ↓reduceIte]
          refine opFrame_basic i.core same.indexes same.rindexes (fun x _ => same.obj x) ?_
          intro x j hk
          show (((s1.setRs h _).rstate x).byIdx.get j).isSome = true
          rw [rstate_setRs]
          by_cases e : h = x
          · subst e
            simp only [↓reduceIte, insertRelay, get_set]
            by_cases e2 : idx = j
            · simp [e2]
            · simp only [e2, ↓reduceIte]; rw [same.rstate]; exact hk
          · simp only [e, ↓reduceIte]; rw [same.rstate]; exact hk
      · simp only [c, Bool.false_eq_true, ↓reduceIte]
        exact ih s st' i

theorem del_frame {s : State} (i : Inv s) (h : Nat) : OpFrame s (deleteHost s h).1 [] := by
  obtain ⟨c, _, d⟩ := deleteHost_core i.core h (by simp)
  have obj : ∀ x, (deleteHost s h).1.obj x = s.obj x := fun x => by simp [State.obj, d.objs]
  refine ⟨fun k x e => ?_, fun x _ => obj x, fun x j hk => ?_, fun k x e => ?_, fun r x e => ?_⟩
  · left; rw [d.indexes] at e; split at e
    · cases e
    · exact e
  · rw [(d.rs x (i.core.rok x)).2.2.1 j]; exact hk
  · rw [obj]; obtain ⟨p1, _, _, p4⟩ := i.core.pidx k x e; exact ⟨p1, p4⟩
  · rw [d.rindexes]
    by_cases cc : r = (s.obj h).ridx ∧ s.rindexes.get r = some h
    · right; left
      have : x = h := by rw [cc.2] at e; exact (Option.some.inj e).symm
      subst this
      intro hl
      simp only [Live, obj, d.indexes] at hl
      split at hl
      · cases hl
      · rename_i hn; exact hn (by simpa using hl)
    · left; simp only [cc, ↓reduceIte]; exact e

/-- **every operation of the model satisfies the step relation** (so `stepCheck` is silent on the model) -/
theorem applyOp_step {s : State} (i : Inv s) (op : Op) : Step s (applyOp s op) (freshOf s op) := by
  have iq := applyOp_inv i op
  refine step_of_frame i iq ?_
  cases op with
  | start a => exact start_frame i a
  | alloc a st => exact alloc_frame i a st
  | fin idx ads r t => exact (opFin_both i idx ads r t).2
  | resp ads r p t st => exact (opResp_both i ads r p t st).2
  | del h => exact del_frame i h
  | pdel h => exact pdel_frame i h
  | prim h => exact prim_frame i h
  | relay h rel st => exact relayLoop_frame h rel 32 s st i
  | relayTo h a => exact relayTo_frame i h a

theorem stepCheck_silent_on_model {s : State} (i : Inv s) (op : Op) :
    Nebula.Spec.HostMap.stepCheck s (applyOp s op) (freshOf s op) = none :=
  (stepCheck_iff_Step _ _ _).mpr (applyOp_step i op)

end Nebula.HostMap
