/- Entry point of the compiled line-protocol driver: `driver <engine>` (core Lean only). -/
import Nebula.Driver.Header

def main (args : List String) : IO UInt32 := do
  match args with
  | ["header"] => Nebula.Driver.Header.main; return 0
  | _ => IO.eprintln "usage: driver <engine>"; return 2
