package main

// Opt-in extensions used by arithmetic ties of functions that are not pure (they store into byte slices,
// struct fields or a word array): `retstore`, `skipguards`, `inif`, `retcond`, `retvar: "name#k"`, and the
// encoding/binary fixed-width intrinsics. None of them is active for a FuncSpec that does not name it, and the
// read intrinsic only replaces what used to be an "unsupported call" error.

import (
	"fmt"
	"go/ast"
	"go/constant"
	"go/importer"
	"go/printer"
	"go/token"
	"go/types"
	"regexp"
	"strconv"
	"strings"
)

// checked is the parsed and type-checked package of one directory; translateFunc used to redo this for every
// FuncSpec (same inputs, same result), which dominated the translator's run time.
type checked struct {
	fset  *token.FileSet
	files []*ast.File
	info  *types.Info
	err   error
}

var checkedDirs = map[string]*checked{}

var stdImp types.Importer

func sharedStdImporter() types.Importer {
	if stdImp == nil {
		stdImp = importer.Default()
	}
	return stdImp
}

func checkDir(repo, dir string, only []string) *checked {
	key := dir
	if len(only) > 0 {
		key = dir + "|" + strings.Join(only, ",")
	}
	if c, ok := checkedDirs[key]; ok {
		return c
	}
	c := &checked{}
	checkedDirs[key] = c
	c.fset, c.files, c.err = parseDir(repo, dir, only)
	if c.err != nil {
		return c
	}
	conf := types.Config{
		Importer: &fakeImporter{def: sharedStdImporter(), pkgs: map[string]*types.Package{}},
		Error:    func(error) {},
	}
	c.info = &types.Info{
		Defs:  map[*ast.Ident]types.Object{},
		Uses:  map[*ast.Ident]types.Object{},
		Types: map[ast.Expr]types.TypeAndValue{},
	}
	conf.Check(dir, c.fset, c.files, c.info)
	return c
}

// Go identifiers that are Lean keywords cannot be emitted verbatim (the generated definition would not parse, so no
// existing spec can contain one): they get a trailing underscore, in the syntax tree, before translation.
var leanKeywords = map[string]bool{"end": true, "at": true, "from": true, "have": true, "show": true, "then": true,
	"fun": true, "do": true, "with": true, "in": true, "open": true, "def": true, "theorem": true, "match": true,
	"let": true, "where": true, "by": true, "calc": true, "instance": true, "namespace": true, "section": true,
	"variable": true, "universe": true, "macro": true, "syntax": true, "notation": true, "deriving": true,
	"mutual": true, "example": true, "axiom": true, "structure": true, "class": true, "inductive": true,
	"abbrev": true, "private": true, "protected": true, "nomatch": true, "suffices": true, "obtain": true}

func renameLeanKeywords(fd *ast.FuncDecl) {
	ast.Inspect(fd.Body, func(n ast.Node) bool {
		if id, ok := n.(*ast.Ident); ok && leanKeywords[id.Name] {
			id.Name += "_"
		}
		return true
	})
}

// findIf returns the body and condition of the first `if` statement (or `for cond {}` loop), in source order,
// whose condition has the given source text.
func findIf(fset *token.FileSet, body *ast.BlockStmt, cond string) (*ast.BlockStmt, ast.Expr) {
	var fb *ast.BlockStmt
	var fc ast.Expr
	ast.Inspect(body, func(n ast.Node) bool {
		if fb != nil {
			return false
		}
		switch s := n.(type) {
		case *ast.IfStmt:
			if s.Init == nil && exprText(fset, s.Cond) == cond {
				fb, fc = s.Body, s.Cond
			}
		case *ast.ForStmt:
			if s.Cond != nil && exprText(fset, s.Cond) == cond { // init / post statements are not part of the iteration body
				fb, fc = s.Body, s.Cond
			}
		}
		return fb == nil
	})
	return fb, fc
}

func nodeText(fset *token.FileSet, n ast.Node) string {
	var b strings.Builder
	printer.Fprint(&b, fset, n)
	return b.String()
}

// findStmt returns the statement list starting at the first statement (source order) whose text starts with prefix.
func findStmt(fset *token.FileSet, body *ast.BlockStmt, prefix string) []ast.Stmt {
	var found []ast.Stmt
	scan := func(list []ast.Stmt) {
		for i, st := range list {
			if found == nil && strings.HasPrefix(nodeText(fset, st), prefix) {
				found = list[i:]
			}
		}
	}
	ast.Inspect(body, func(n ast.Node) bool {
		if found != nil {
			return false
		}
		switch x := n.(type) {
		case *ast.BlockStmt:
			scan(x.List)
		case *ast.CaseClause:
			scan(x.Body)
		}
		return found == nil
	})
	return found
}

// stopHere implements `stopat`: the value of the retvar variable when control reaches the marked statement.
func (t *ftr) stopHere(s ast.Stmt, d int) (string, bool, error) {
	if t.spec.StopAt == "" || !strings.HasPrefix(nodeText(t.fset, s), t.spec.StopAt) {
		return "", false, nil
	}
	vt, ok := t.vars[t.spec.RetVar]
	if !ok {
		return "", true, fmt.Errorf("stopat: variable %s is not defined at `%s`", t.spec.RetVar, t.spec.StopAt)
	}
	e, err := t.coerce(t.spec.RetVar, vt, t.ret)
	return ind(d) + e, true, err
}

// retVarMatch implements `retvar: "name"` (first assignment) and `retvar: "name#k"` (k-th assignment statement to
// that variable on the translated path, counted from 1).
func (t *ftr) retVarMatch(name string) bool {
	if t.spec.StopAt != "" {
		return false
	}
	i := strings.Index(t.spec.RetVar, "#")
	if i < 0 {
		return name == t.spec.RetVar // as before the extension: every assignment statement to the variable returns
	}
	k, _ := strconv.Atoi(t.spec.RetVar[i+1:])
	if name != t.spec.RetVar[:i] {
		return false
	}
	t.retSeen++ // counted along the straight-line path only (not reset per branch)
	return t.retSeen == k
}

func (t *ftr) isTarget(e ast.Expr) bool {
	return t.spec.RetStore != "" && exprText(t.fset, e) == t.spec.RetStore
}

// storesOnly reports whether the statements only store to memory the translation does not model (non-identifier
// targets other than the retstore target), call functions for their effect, or branch over such statements.
func (t *ftr) storesOnly(list []ast.Stmt) bool {
	for _, st := range list {
		switch x := st.(type) {
		case *ast.ExprStmt:
			if _, ok := x.X.(*ast.CallExpr); !ok {
				return false
			}
			if _, hit, _ := t.endianStore(x.X.(*ast.CallExpr)); hit {
				return false
			}
		case *ast.AssignStmt:
			for _, l := range x.Lhs {
				if id, ok := l.(*ast.Ident); ok && id.Name != "_" {
					return false
				}
				if t.isTarget(l) {
					return false
				}
			}
		case *ast.IfStmt:
			if x.Init != nil || !t.storesOnly(x.Body.List) {
				return false
			}
			switch e := x.Else.(type) {
			case nil:
			case *ast.BlockStmt:
				if !t.storesOnly(e.List) {
					return false
				}
			case *ast.IfStmt:
				if !t.storesOnly([]ast.Stmt{e}) {
					return false
				}
			}
		default:
			return false
		}
	}
	return true
}

// tieStmt handles the statement forms the opt-in fields add. handled == false: fall through to the ordinary rules.
func (t *ftr) tieStmt(s ast.Stmt, rest []ast.Stmt, d int) (string, bool, error) {
	if out, hit, err := t.stopHere(s, d); hit {
		return out, true, err
	}
	if t.spec.SkipGuards {
		if x, ok := s.(*ast.IfStmt); ok && x.Else == nil && terminates(x.Body.List) {
			r, err := t.stmts(rest, d)
			return r, true, err
		}
	}
	if t.spec.RetStore == "" && !t.spec.SkipStores {
		return "", false, nil
	}
	switch x := s.(type) {
	case *ast.AssignStmt:
		if len(x.Lhs) == 1 && t.isTarget(x.Lhs[0]) {
			var e string
			var et ty
			var err error
			if x.Tok == token.ASSIGN {
				e, et, err = t.expr(x.Rhs[0], t.ret)
			} else {
				op, ok := opOfAssign[x.Tok]
				if !ok {
					return "", true, fmt.Errorf("unsupported assignment operator %s", x.Tok)
				}
				var old string
				var ot ty
				old, ot, err = t.expr(x.Lhs[0], t.ret) // the previous content: must be covered by `subst`
				if err != nil {
					return "", true, err
				}
				e, et, err = t.binary(old, ot, op, x.Rhs[0])
			}
			if err != nil {
				return "", true, err
			}
			e, err = t.coerce(e, et, t.ret)
			if err != nil {
				return "", true, err
			}
			return ind(d) + e, true, nil
		}
		if t.storesOnly([]ast.Stmt{x}) {
			r, err := t.stmts(rest, d)
			return r, true, err
		}
	case *ast.ExprStmt:
		call, ok := x.X.(*ast.CallExpr)
		if !ok {
			return "", false, nil
		}
		if e, hit, err := t.endianStore(call); hit {
			if err != nil {
				return "", true, err
			}
			e, err = t.coerce(e, ty{w: 8}, t.ret)
			if err != nil {
				return "", true, err
			}
			return ind(d) + e, true, nil
		}
		r, err := t.stmts(rest, d)
		return r, true, err
	case *ast.IfStmt:
		if !terminates(x.Body.List) && t.storesOnly([]ast.Stmt{x}) {
			r, err := t.stmts(rest, d)
			return r, true, err
		}
	}
	return "", false, nil
}

var opOfAssign = map[token.Token]token.Token{
	token.ADD_ASSIGN: token.ADD, token.SUB_ASSIGN: token.SUB, token.MUL_ASSIGN: token.MUL, token.QUO_ASSIGN: token.QUO,
	token.REM_ASSIGN: token.REM, token.AND_ASSIGN: token.AND, token.OR_ASSIGN: token.OR, token.XOR_ASSIGN: token.XOR,
	token.SHL_ASSIGN: token.SHL, token.SHR_ASSIGN: token.SHR, token.AND_NOT_ASSIGN: token.AND_NOT,
}

var endianCall = regexp.MustCompile(`^binary\.(Big|Little)Endian\.(Put)?Uint(16|32|64)$`)
var indexedTarget = regexp.MustCompile(`^(.+)\[(\d+)\]$`)

// sliceBase splits `x[lo:hi]` / `x[lo:]` / `x` into the source text of x and the constant lo.
func (t *ftr) sliceBase(e ast.Expr) (string, int, bool) {
	sl, ok := e.(*ast.SliceExpr)
	if !ok {
		return exprText(t.fset, e), 0, true
	}
	lo := 0
	if sl.Low != nil {
		tv, has := t.info.Types[sl.Low]
		if !has || tv.Value == nil || tv.Value.Kind() != constant.Int {
			return "", 0, false
		}
		v, exact := constant.Int64Val(tv.Value)
		if !exact {
			return "", 0, false
		}
		lo = int(v)
	}
	return exprText(t.fset, sl.X), lo, true
}

// endianStore: the call is `binary.XEndian.PutUintN(x[lo:…], v)` and the retstore target is `x[k]` with
// lo <= k < lo+N/8. Returns the byte of v stored there.
func (t *ftr) endianStore(call *ast.CallExpr) (string, bool, error) {
	m := endianCall.FindStringSubmatch(exprText(t.fset, call.Fun))
	tg := indexedTarget.FindStringSubmatch(t.spec.RetStore)
	if m == nil || m[2] != "Put" || tg == nil || len(call.Args) != 2 {
		return "", false, nil
	}
	base, lo, ok := t.sliceBase(call.Args[0])
	if !ok || base != tg[1] {
		return "", false, nil
	}
	k, _ := strconv.Atoi(tg[2])
	n, _ := strconv.Atoi(m[3])
	if k < lo || k >= lo+n/8 {
		return "", false, nil
	}
	vt := ty{w: n}
	v, et, err := t.expr(call.Args[1], vt)
	if err != nil {
		return "", true, err
	}
	v, err = t.coerce(v, et, vt)
	if err != nil {
		return "", true, err
	}
	shift := 8 * (k - lo)
	if m[1] == "Big" {
		shift = 8 * (n/8 - 1 - (k - lo))
	}
	return fmt.Sprintf("(BitVec.setWidth 8 (%s >>> (%d : Nat)))", v, shift), true, nil
}

// endianRead translates `binary.XEndian.UintN(x[lo:…])` over the byte parameters that `subst` names for
// `x[lo]` … `x[lo+N/8-1]`.
func (t *ftr) endianRead(call *ast.CallExpr) (string, ty, bool, error) {
	m := endianCall.FindStringSubmatch(exprText(t.fset, call.Fun))
	if m == nil || m[2] != "" || len(call.Args) != 1 {
		return "", ty{}, false, nil
	}
	base, lo, ok := t.sliceBase(call.Args[0])
	if !ok {
		return "", ty{}, false, nil
	}
	n, _ := strconv.Atoi(m[3])
	var parts []string
	for j := 0; j < n/8; j++ {
		src := fmt.Sprintf("%s[%d]", base, lo+j)
		name, ok := t.spec.Subst[src]
		if !ok {
			return "", ty{}, true, fmt.Errorf("%s: no subst for %s", exprText(t.fset, call), src)
		}
		if vt, ok := t.vars[name]; !ok || vt.bool || vt.w != 8 {
			return "", ty{}, true, fmt.Errorf("subst target %s for %s is not a u8 parameter", name, src)
		}
		shift := 8 * j
		if m[1] == "Big" {
			shift = 8 * (n/8 - 1 - j)
		}
		parts = append(parts, fmt.Sprintf("((BitVec.setWidth %d %s) <<< (%d : Nat))", n, name, shift))
	}
	return "(" + strings.Join(parts, " ||| ") + ")", ty{w: n}, true, nil
}
