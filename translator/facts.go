package main

import (
	"fmt"
	"go/ast"
	"strings"
)

// extractFact returns the ordered list of calls (as printed selector text) made in the body of a
// function, in source order, with nesting depth of enclosing blocks dropped. Expectations about
// ordering and lock bracketing are checked by the orchestrator against translator/expect.json.
func extractFact(repo string, f FactSpec) (any, error) {
	var only []string
	if f.File != "" {
		only = []string{f.File}
	}
	fset, files, err := parseDir(repo, f.Dir, only)
	if err != nil {
		return nil, err
	}
	recv, name := "", f.Func
	if i := strings.Index(f.Func, "."); i >= 0 {
		recv, name = f.Func[:i], f.Func[i+1:]
	}
	for _, file := range files {
		for _, d := range file.Decls {
			fd, ok := d.(*ast.FuncDecl)
			if !ok || fd.Name.Name != name || fd.Body == nil {
				continue
			}
			r := ""
			if fd.Recv != nil && len(fd.Recv.List) > 0 {
				r = strings.TrimPrefix(exprText(fset, fd.Recv.List[0].Type), "*")
				if i := strings.Index(r, "["); i >= 0 {
					r = r[:i]
				}
			}
			if r != recv {
				continue
			}
			var calls []string
			ast.Inspect(fd.Body, func(n ast.Node) bool {
				switch x := n.(type) {
				case *ast.FuncLit:
					calls = append(calls, "<funclit>")
				case *ast.DeferStmt:
					calls = append(calls, "defer "+exprText(fset, x.Call.Fun))
					return false
				case *ast.CallExpr:
					calls = append(calls, exprText(fset, x.Fun))
				case *ast.ReturnStmt:
					calls = append(calls, "<return>")
				}
				return true
			})
			return map[string]any{"calls": calls}, nil
		}
	}
	return nil, fmt.Errorf("function %s not found in %s", f.Func, f.Dir)
}
