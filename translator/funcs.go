package main

import (
	"fmt"
	"go/ast"
	"go/constant"
	"go/printer"
	"go/token"
	"go/types"
	"strings"
)

// ty is the translator's view of a Go type: bool, or an integer of a width and signedness, or an
// untyped constant (width 0).
type ty struct {
	bool   bool
	w      int
	signed bool
}

func (t ty) lean() string {
	if t.bool {
		return "Bool"
	}
	return fmt.Sprintf("BitVec %d", t.w)
}

func parseTy(s string) (ty, error) {
	switch s {
	case "bool":
		return ty{bool: true}, nil
	case "u8":
		return ty{w: 8}, nil
	case "u16":
		return ty{w: 16}, nil
	case "u32":
		return ty{w: 32}, nil
	case "u64":
		return ty{w: 64}, nil
	case "i8":
		return ty{w: 8, signed: true}, nil
	case "i16":
		return ty{w: 16, signed: true}, nil
	case "i32":
		return ty{w: 32, signed: true}, nil
	case "i64":
		return ty{w: 64, signed: true}, nil
	}
	return ty{}, fmt.Errorf("unknown type %q", s)
}

func fromGoType(t types.Type) (ty, bool) {
	if t == nil {
		return ty{}, false
	}
	b, ok := t.Underlying().(*types.Basic)
	if !ok {
		return ty{}, false
	}
	switch b.Kind() {
	case types.Bool, types.UntypedBool:
		return ty{bool: true}, true
	case types.Uint8:
		return ty{w: 8}, true
	case types.Uint16:
		return ty{w: 16}, true
	case types.Uint32:
		return ty{w: 32}, true
	case types.Uint64, types.Uint, types.Uintptr:
		return ty{w: 64}, true
	case types.Int8:
		return ty{w: 8, signed: true}, true
	case types.Int16:
		return ty{w: 16, signed: true}, true
	case types.Int32:
		return ty{w: 32, signed: true}, true
	case types.Int64, types.Int:
		return ty{w: 64, signed: true}, true
	case types.UntypedInt, types.UntypedRune:
		return ty{w: 0}, true
	}
	return ty{}, false
}

type ftr struct {
	fset    *token.FileSet
	info    *types.Info
	spec    FuncSpec
	vars    map[string]ty // lean-visible variables (params and locals)
	ret     ty
	depth   int
	named   string // the function's single named result, if it has one and the body refers to it ("" otherwise)
	retSeen int    // assignments to the retvar variable seen so far (retvar "name#k")
}

func exprText(fset *token.FileSet, e ast.Expr) string {
	var b strings.Builder
	printer.Fprint(&b, fset, e)
	return b.String()
}

func translateFunc(repo string, fs FuncSpec) (string, error) {
	ck := checkDir(repo, fs.Dir, fs.OnlyFiles)
	if ck.err != nil {
		return "", ck.err
	}
	fset, files, info := ck.fset, ck.files, ck.info
	var err error

	recv, name := "", fs.Func
	if i := strings.Index(fs.Func, "."); i >= 0 {
		recv, name = fs.Func[:i], fs.Func[i+1:]
	}
	var fd *ast.FuncDecl
	for _, f := range files {
		for _, d := range f.Decls {
			if x, ok := d.(*ast.FuncDecl); ok && x.Name.Name == name {
				r := ""
				if x.Recv != nil && len(x.Recv.List) > 0 {
					r = strings.TrimPrefix(exprText(fset, x.Recv.List[0].Type), "*")
					if i := strings.Index(r, "["); i >= 0 {
						r = r[:i]
					}
				}
				if r == recv {
					fd = x
				}
			}
		}
	}
	if fd == nil || fd.Body == nil {
		return "", fmt.Errorf("function %s not found in %s", fs.Func, fs.Dir)
	}
	renameLeanKeywords(fd)
	t := &ftr{fset: fset, info: info, spec: fs, vars: map[string]ty{}}
	t.ret, err = parseTy(fs.Ret)
	if err != nil {
		return "", err
	}
	var params []string
	for _, p := range fs.Params {
		pt, err := parseTy(p.Type)
		if err != nil {
			return "", err
		}
		t.vars[p.Name] = pt
		params = append(params, fmt.Sprintf("(%s : %s)", p.Name, pt.lean()))
	}
	// A single named result (`func f(...) (csum uint32)`) is a local variable initialised to zero; a bare
	// `return` returns it. Only when the body mentions it (or has a bare return), so that functions that
	// were translatable before produce exactly the same text.
	prelude := ""
	if rs := fd.Type.Results; rs != nil && len(rs.List) == 1 && len(rs.List[0].Names) == 1 && rs.List[0].Names[0].Name != "_" {
		id := rs.List[0].Names[0]
		used := false
		ast.Inspect(fd.Body, func(n ast.Node) bool {
			switch x := n.(type) {
			case *ast.Ident:
				if x.Name == id.Name {
					used = true
				}
			case *ast.ReturnStmt:
				if len(x.Results) == 0 {
					used = true
				}
			}
			return true
		})
		if _, isParam := t.vars[id.Name]; used && !isParam {
			vt := t.ret
			if obj := info.Defs[id]; obj != nil {
				if gt, ok := fromGoType(obj.Type()); ok && (gt.bool || gt.w != 0) {
					vt = gt
				}
			}
			zero := "false"
			if !vt.bool {
				zero = fmt.Sprintf("0#%d", vt.w)
			}
			t.vars[id.Name] = vt
			t.named = id.Name
			prelude = fmt.Sprintf("%slet %s : %s := %s\n", ind(1), id.Name, vt.lean(), zero)
		}
	}
	list := fd.Body.List
	if fs.InIf != "" {
		ifBody, ifCond := findIf(fset, fd.Body, fs.InIf)
		if ifBody == nil {
			return "", fmt.Errorf("inif: no `if %s` in %s", fs.InIf, fs.Func)
		}
		list = ifBody.List
		if fs.RetCond {
			list = []ast.Stmt{&ast.ReturnStmt{Results: []ast.Expr{ifCond}}}
		}
	}
	if fs.At != "" {
		list = findStmt(fset, fd.Body, fs.At)
		if list == nil {
			return "", fmt.Errorf("at: no statement starting with `%s` in %s", fs.At, fs.Func)
		}
	}
	body, err := t.stmts(list, 1)
	if err != nil {
		return "", err
	}
	return fmt.Sprintf("/-- translated from `%s` (%s) -/\ndef %s %s : %s :=\n%s%s\n",
		fs.Func, fs.Dir, fs.Lean, strings.Join(params, " "), t.ret.lean(), prelude, body), nil
}

func ind(n int) string { return strings.Repeat("  ", n) }

// terminates reports whether a statement list always ends in a return.
func terminates(list []ast.Stmt) bool {
	if len(list) == 0 {
		return false
	}
	switch s := list[len(list)-1].(type) {
	case *ast.ReturnStmt:
		return true
	case *ast.IfStmt:
		if s.Else == nil {
			return false
		}
		var el []ast.Stmt
		switch e := s.Else.(type) {
		case *ast.BlockStmt:
			el = e.List
		case *ast.IfStmt:
			el = []ast.Stmt{e}
		}
		return terminates(s.Body.List) && terminates(el)
	case *ast.SwitchStmt:
		hasDefault := false
		for _, c := range s.Body.List {
			cc := c.(*ast.CaseClause)
			if cc.List == nil {
				hasDefault = true
			}
			if !terminates(cc.Body) {
				return false
			}
		}
		return hasDefault
	}
	return false
}

func (t *ftr) stmts(list []ast.Stmt, d int) (string, error) {
	if len(list) == 0 {
		return "", fmt.Errorf("control reaches end of function without return")
	}
	s, rest := list[0], list[1:]
	if out, handled, err := t.tieStmt(s, rest, d); handled {
		return out, err
	}
	switch s := s.(type) {
	case *ast.ReturnStmt:
		if len(s.Results) == 0 && t.named != "" {
			e, err := t.coerce(t.named, t.vars[t.named], t.ret)
			if err != nil {
				return "", err
			}
			return ind(d) + e, nil
		}
		if len(s.Results) != 1 {
			return "", fmt.Errorf("return with %d results", len(s.Results))
		}
		res := s.Results[0]
		if t.spec.RetElem != nil {
			if u, ok := res.(*ast.UnaryExpr); ok && u.Op == token.AND {
				res = u.X
			}
			cl, ok := res.(*ast.CompositeLit)
			if !ok || *t.spec.RetElem >= len(cl.Elts) {
				return "", fmt.Errorf("retelem: return value is not a composite literal with element %d", *t.spec.RetElem)
			}
			res = cl.Elts[*t.spec.RetElem]
			if kv, ok := res.(*ast.KeyValueExpr); ok {
				res = kv.Value
			}
		}
		e, et, err := t.expr(res, t.ret)
		if err != nil {
			return "", err
		}
		e, err = t.coerce(e, et, t.ret)
		if err != nil {
			return "", err
		}
		return ind(d) + e, nil
	case *ast.AssignStmt:
		if len(s.Lhs) == 1 {
			if id, ok := s.Lhs[0].(*ast.Ident); ok {
				for _, sk := range t.spec.Skip {
					if sk == id.Name {
						return t.stmts(rest, d)
					}
				}
			}
		}
		line, err := t.assign(s)
		if err != nil {
			return "", err
		}
		if t.spec.RetVar != "" && len(s.Lhs) == 1 {
			if id, ok := s.Lhs[0].(*ast.Ident); ok && t.retVarMatch(id.Name) {
				e, err := t.coerce(id.Name, t.vars[id.Name], t.ret)
				if err != nil {
					return "", err
				}
				return ind(d) + line + "\n" + ind(d) + e, nil
			}
		}
		r, err := t.stmts(rest, d)
		if err != nil {
			return "", err
		}
		return ind(d) + line + "\n" + r, nil
	case *ast.IncDecStmt:
		id, ok := s.X.(*ast.Ident)
		if !ok {
			return "", fmt.Errorf("inc/dec of non-identifier")
		}
		vt, ok := t.vars[id.Name]
		if !ok {
			return "", fmt.Errorf("unknown variable %s", id.Name)
		}
		op := "+"
		if s.Tok == token.DEC {
			op = "-"
		}
		r, err := t.stmts(rest, d)
		if err != nil {
			return "", err
		}
		return fmt.Sprintf("%slet %s := %s %s %d#%d\n%s", ind(d), id.Name, id.Name, op, 1, vt.w, r), nil
	case *ast.IfStmt:
		if s.Init != nil {
			return "", fmt.Errorf("if with init statement")
		}
		c, ct, err := t.expr(s.Cond, ty{bool: true})
		if err != nil {
			return "", err
		}
		if !ct.bool {
			return "", fmt.Errorf("non-boolean condition")
		}
		var el []ast.Stmt
		switch e := s.Else.(type) {
		case *ast.BlockStmt:
			el = e.List
		case *ast.IfStmt:
			el = []ast.Stmt{e}
		}
		if terminates(s.Body.List) {
			saved := t.saveVars()
			a, err := t.stmts(s.Body.List, d+1)
			if err != nil {
				return "", err
			}
			t.vars = saved
			b, err := t.stmts(append(append([]ast.Stmt{}, el...), rest...), d+1)
			if err != nil {
				return "", err
			}
			return fmt.Sprintf("%sif %s then\n%s\n%selse\n%s", ind(d), c, a, ind(d), b), nil
		}
		// non-returning if: only assignments to already declared variables are supported
		vs, err := assignedVars(s)
		if err != nil {
			return "", err
		}
		for _, v := range vs {
			if _, ok := t.vars[v]; !ok {
				return "", fmt.Errorf("if assigns undeclared variable %s", v)
			}
		}
		tuple := strings.Join(vs, ", ")
		if len(vs) > 1 {
			tuple = "(" + tuple + ")"
		}
		a, err := t.block(s.Body.List, tuple, d+1)
		if err != nil {
			return "", err
		}
		b, err := t.block(el, tuple, d+1)
		if err != nil {
			return "", err
		}
		r, err := t.stmts(rest, d)
		if err != nil {
			return "", err
		}
		return fmt.Sprintf("%slet %s :=\n%sif %s then\n%s\n%selse\n%s\n%s", ind(d), tuple, ind(d+1), c, a, ind(d+1), b, r), nil
	case *ast.SwitchStmt:
		if s.Init != nil || s.Tag == nil {
			return "", fmt.Errorf("unsupported switch form")
		}
		tag, tt, err := t.expr(s.Tag, ty{})
		if err != nil {
			return "", err
		}
		var out strings.Builder
		var def []ast.Stmt
		hasDef := false
		first := true
		for _, c := range s.Body.List {
			cc := c.(*ast.CaseClause)
			if cc.List == nil {
				def, hasDef = cc.Body, true
				continue
			}
			var conds []string
			for _, ce := range cc.List {
				x, xt, err := t.expr(ce, tt)
				if err != nil {
					return "", err
				}
				x, err = t.coerce(x, xt, tt)
				if err != nil {
					return "", err
				}
				conds = append(conds, fmt.Sprintf("%s == %s", tag, x))
			}
			saved := t.saveVars()
			body, err := t.stmts(append(append([]ast.Stmt{}, cc.Body...), rest...), d+1)
			if err != nil {
				return "", err
			}
			t.vars = saved
			kw := "else if"
			if first {
				kw = "if"
				first = false
			}
			fmt.Fprintf(&out, "%s%s %s then\n%s\n", ind(d), kw, strings.Join(conds, " || "), body)
		}
		tail := rest
		if hasDef {
			tail = append(append([]ast.Stmt{}, def...), rest...)
		}
		body, err := t.stmts(tail, d+1)
		if err != nil {
			return "", err
		}
		if first {
			return body, nil
		}
		fmt.Fprintf(&out, "%selse\n%s", ind(d), body)
		return out.String(), nil
	case *ast.DeclStmt:
		gd, ok := s.Decl.(*ast.GenDecl)
		if !ok || gd.Tok != token.VAR {
			return "", fmt.Errorf("unsupported declaration")
		}
		var lines []string
		for _, sp := range gd.Specs {
			vs := sp.(*ast.ValueSpec)
			for i, n := range vs.Names {
				vt, ok := fromGoType(t.info.Defs[n].Type())
				if !ok {
					return "", fmt.Errorf("var %s: unsupported type", n.Name)
				}
				val := "false"
				if !vt.bool {
					val = fmt.Sprintf("0#%d", vt.w)
				}
				if i < len(vs.Values) {
					e, et, err := t.expr(vs.Values[i], vt)
					if err != nil {
						return "", err
					}
					val, err = t.coerce(e, et, vt)
					if err != nil {
						return "", err
					}
				}
				t.vars[n.Name] = vt
				lines = append(lines, fmt.Sprintf("%slet %s : %s := %s", ind(d), n.Name, vt.lean(), val))
			}
		}
		r, err := t.stmts(rest, d)
		if err != nil {
			return "", err
		}
		return strings.Join(lines, "\n") + "\n" + r, nil
	}
	return "", fmt.Errorf("unsupported statement %T", s)
}

func (t *ftr) saveVars() map[string]ty {
	m := map[string]ty{}
	for k, v := range t.vars {
		m[k] = v
	}
	return m
}

func assignedVars(s ast.Stmt) ([]string, error) {
	seen := map[string]bool{}
	var out []string
	var err error
	var walk func(list []ast.Stmt)
	walk = func(list []ast.Stmt) {
		for _, st := range list {
			switch x := st.(type) {
			case *ast.AssignStmt:
				if x.Tok == token.DEFINE {
					err = fmt.Errorf("declaration inside non-returning if")
					return
				}
				for _, l := range x.Lhs {
					id, ok := l.(*ast.Ident)
					if !ok {
						err = fmt.Errorf("assignment to non-identifier")
						return
					}
					if !seen[id.Name] {
						seen[id.Name] = true
						out = append(out, id.Name)
					}
				}
			case *ast.IncDecStmt:
				id, ok := x.X.(*ast.Ident)
				if !ok {
					err = fmt.Errorf("inc/dec of non-identifier")
					return
				}
				if !seen[id.Name] {
					seen[id.Name] = true
					out = append(out, id.Name)
				}
			case *ast.IfStmt:
				walk(x.Body.List)
				switch e := x.Else.(type) {
				case *ast.BlockStmt:
					walk(e.List)
				case *ast.IfStmt:
					walk([]ast.Stmt{e})
				}
			default:
				err = fmt.Errorf("unsupported statement %T inside non-returning if", st)
				return
			}
		}
	}
	walk([]ast.Stmt{s})
	return out, err
}

// block translates a list of (non-returning) statements and ends with the given tuple expression.
func (t *ftr) block(list []ast.Stmt, tuple string, d int) (string, error) {
	saved := t.saveVars()
	defer func() { t.vars = saved }()
	var out strings.Builder
	for _, st := range list {
		switch x := st.(type) {
		case *ast.AssignStmt:
			line, err := t.assign(x)
			if err != nil {
				return "", err
			}
			out.WriteString(ind(d) + line + "\n")
		case *ast.IncDecStmt:
			id := x.X.(*ast.Ident)
			op := "+"
			if x.Tok == token.DEC {
				op = "-"
			}
			fmt.Fprintf(&out, "%slet %s := %s %s 1#%d\n", ind(d), id.Name, id.Name, op, t.vars[id.Name].w)
		case *ast.IfStmt:
			// nested non-returning if (e.g. an `else if` chain): a let-bound conditional over the variables it assigns
			line, err := t.nonRetIf(x, d)
			if err != nil {
				return "", err
			}
			out.WriteString(line + "\n")
		default:
			return "", fmt.Errorf("unsupported statement %T in block", st)
		}
	}
	out.WriteString(ind(d) + tuple)
	return out.String(), nil
}

// nonRetIf translates an if statement none of whose branches returns, as
// `let (vars) := if c then … else …` over the already declared variables it assigns.
func (t *ftr) nonRetIf(s *ast.IfStmt, d int) (string, error) {
	if s.Init != nil {
		return "", fmt.Errorf("if with init statement")
	}
	c, ct, err := t.expr(s.Cond, ty{bool: true})
	if err != nil {
		return "", err
	}
	if !ct.bool {
		return "", fmt.Errorf("non-boolean condition")
	}
	var el []ast.Stmt
	switch e := s.Else.(type) {
	case *ast.BlockStmt:
		el = e.List
	case *ast.IfStmt:
		el = []ast.Stmt{e}
	}
	vs, err := assignedVars(s)
	if err != nil {
		return "", err
	}
	for _, v := range vs {
		if _, ok := t.vars[v]; !ok {
			return "", fmt.Errorf("if assigns undeclared variable %s", v)
		}
	}
	tuple := strings.Join(vs, ", ")
	if len(vs) > 1 {
		tuple = "(" + tuple + ")"
	}
	a, err := t.block(s.Body.List, tuple, d+1)
	if err != nil {
		return "", err
	}
	b, err := t.block(el, tuple, d+1)
	if err != nil {
		return "", err
	}
	return fmt.Sprintf("%slet %s :=\n%sif %s then\n%s\n%selse\n%s", ind(d), tuple, ind(d+1), c, a, ind(d+1), b), nil
}

// bitsIntrinsic translates `a, b := bits.Mul64(x, y)` / `bits.Add64(x, y, c)` / `bits.Div64(hi, lo, y)` (math/bits,
// uint64 double-word arithmetic) into two let bindings over BitVec 128. The run-time panics of Div64 (y == 0,
// y <= hi) are not expressible in a total BitVec function: the translation is the quotient/remainder of the
// 128-bit value, which is what Div64 returns whenever it does not panic.
func (t *ftr) bitsIntrinsic(s *ast.AssignStmt) (string, bool, error) {
	if len(s.Lhs) != 2 || len(s.Rhs) != 1 {
		return "", false, nil
	}
	call, ok := s.Rhs[0].(*ast.CallExpr)
	if !ok {
		return "", false, nil
	}
	name := exprText(t.fset, call.Fun)
	if name != "bits.Mul64" && name != "bits.Add64" && name != "bits.Div64" {
		return "", false, nil
	}
	u64 := ty{w: 64}
	var args []string
	for _, a := range call.Args {
		e, et, err := t.expr(a, u64)
		if err != nil {
			return "", true, err
		}
		e, err = t.coerce(e, et, u64)
		if err != nil {
			return "", true, err
		}
		args = append(args, fmt.Sprintf("(BitVec.setWidth 128 %s)", e))
	}
	var first, second string
	switch name {
	case "bits.Mul64":
		if len(args) != 2 {
			return "", true, fmt.Errorf("bits.Mul64 arity")
		}
		p := fmt.Sprintf("(%s * %s)", args[0], args[1])
		first, second = fmt.Sprintf("(BitVec.setWidth 64 (%s >>> (64 : Nat)))", p), fmt.Sprintf("(BitVec.setWidth 64 %s)", p)
	case "bits.Add64":
		if len(args) != 3 {
			return "", true, fmt.Errorf("bits.Add64 arity")
		}
		p := fmt.Sprintf("(%s + %s + %s)", args[0], args[1], args[2])
		first, second = fmt.Sprintf("(BitVec.setWidth 64 %s)", p), fmt.Sprintf("(BitVec.setWidth 64 (%s >>> (64 : Nat)))", p)
	case "bits.Div64":
		if len(args) != 3 {
			return "", true, fmt.Errorf("bits.Div64 arity")
		}
		p := fmt.Sprintf("((%s <<< (64 : Nat)) ||| %s)", args[0], args[1])
		first, second = fmt.Sprintf("(BitVec.setWidth 64 (%s / %s))", p, args[2]), fmt.Sprintf("(BitVec.setWidth 64 (%s %% %s))", p, args[2])
	}
	var lines []string
	for i, val := range []string{first, second} {
		id, ok := s.Lhs[i].(*ast.Ident)
		if !ok {
			return "", true, fmt.Errorf("assignment to non-identifier %s", exprText(t.fset, s.Lhs[i]))
		}
		if id.Name == "_" {
			continue
		}
		if s.Tok != token.DEFINE {
			if _, ok := t.vars[id.Name]; !ok {
				return "", true, fmt.Errorf("assignment to unknown variable %s", id.Name)
			}
		}
		// both values are computed from the operands before either name is rebound
		lines = append(lines, fmt.Sprintf("let %s__%d : BitVec 64 := %s", id.Name, i, val))
	}
	for i := range []int{0, 1} {
		id := s.Lhs[i].(*ast.Ident)
		if id.Name == "_" {
			continue
		}
		t.vars[id.Name] = u64
		lines = append(lines, fmt.Sprintf("let %s : BitVec 64 := %s__%d", id.Name, id.Name, i))
	}
	return strings.Join(lines, "; "), true, nil // one line: the caller indents it
}

func (t *ftr) assign(s *ast.AssignStmt) (string, error) {
	if line, ok, err := t.bitsIntrinsic(s); ok {
		return line, err
	}
	if len(s.Lhs) != 1 || len(s.Rhs) != 1 {
		return "", fmt.Errorf("multi-assignment")
	}
	id, ok := s.Lhs[0].(*ast.Ident)
	if !ok {
		return "", fmt.Errorf("assignment to non-identifier %s", exprText(t.fset, s.Lhs[0]))
	}
	switch s.Tok {
	case token.DEFINE:
		hint := ty{}
		if obj := t.info.Defs[id]; obj != nil {
			if gt, ok := fromGoType(obj.Type()); ok {
				hint = gt
			}
		}
		e, et, err := t.expr(s.Rhs[0], hint)
		if err != nil {
			return "", err
		}
		if !et.bool && et.w == 0 {
			if hint.w == 0 {
				hint = ty{w: 64, signed: true} // untyped constant defaults to int
			}
			e, _ = t.coerce(e, et, hint)
			et = hint
		}
		t.vars[id.Name] = et
		return fmt.Sprintf("let %s : %s := %s", id.Name, et.lean(), e), nil
	case token.ASSIGN:
		vt, ok := t.vars[id.Name]
		if !ok && (t.spec.InIf != "" || t.spec.At != "") {
			// inif: a variable declared outside the translated branch, first written here
			if obj := t.info.Uses[id]; obj != nil {
				if gt, isInt := fromGoType(obj.Type()); isInt && (gt.bool || gt.w != 0) {
					vt, ok = gt, true
					t.vars[id.Name] = gt
				}
			}
		}
		if !ok {
			return "", fmt.Errorf("assignment to unknown variable %s", id.Name)
		}
		e, et, err := t.expr(s.Rhs[0], vt)
		if err != nil {
			return "", err
		}
		e, err = t.coerce(e, et, vt)
		if err != nil {
			return "", err
		}
		return fmt.Sprintf("let %s : %s := %s", id.Name, vt.lean(), e), nil
	default:
		// op=
		vt, ok := t.vars[id.Name]
		if !ok {
			return "", fmt.Errorf("assignment to unknown variable %s", id.Name)
		}
		var op token.Token
		switch s.Tok {
		case token.ADD_ASSIGN:
			op = token.ADD
		case token.SUB_ASSIGN:
			op = token.SUB
		case token.MUL_ASSIGN:
			op = token.MUL
		case token.QUO_ASSIGN:
			op = token.QUO
		case token.REM_ASSIGN:
			op = token.REM
		case token.AND_ASSIGN:
			op = token.AND
		case token.OR_ASSIGN:
			op = token.OR
		case token.XOR_ASSIGN:
			op = token.XOR
		case token.SHL_ASSIGN:
			op = token.SHL
		case token.SHR_ASSIGN:
			op = token.SHR
		case token.AND_NOT_ASSIGN:
			op = token.AND_NOT
		default:
			return "", fmt.Errorf("unsupported assignment operator %s", s.Tok)
		}
		e, et, err := t.binary(id.Name, vt, op, s.Rhs[0])
		if err != nil {
			return "", err
		}
		e, err = t.coerce(e, et, vt)
		if err != nil {
			return "", err
		}
		return fmt.Sprintf("let %s : %s := %s", id.Name, vt.lean(), e), nil
	}
}

func (t *ftr) coerce(e string, from, to ty) (string, error) {
	if from.bool != to.bool {
		return "", fmt.Errorf("bool/int mismatch for %s", e)
	}
	if from.bool {
		return e, nil
	}
	if from.w == 0 {
		// untyped constant literal (decimal string, possibly negative)
		if to.w == 0 {
			return e, nil
		}
		if strings.HasPrefix(e, "-") {
			return fmt.Sprintf("(BitVec.ofInt %d (%s))", to.w, e), nil
		}
		return fmt.Sprintf("%s#%d", e, to.w), nil
	}
	if to.w == 0 || (from.w == to.w) {
		return e, nil
	}
	return "", fmt.Errorf("implicit width change %d -> %d for %s", from.w, to.w, e)
}

func (t *ftr) convert(e string, from, to ty) string {
	if from.w == 0 {
		s, _ := t.coerce(e, from, to)
		return s
	}
	if from.w == to.w {
		return e
	}
	if from.signed && to.w > from.w {
		return fmt.Sprintf("(BitVec.signExtend %d %s)", to.w, e)
	}
	return fmt.Sprintf("(BitVec.setWidth %d %s)", to.w, e)
}

func (t *ftr) expr(e ast.Expr, hint ty) (string, ty, error) {
	// constants first (the type checker folds package constants, iota, etc.)
	if tv, ok := t.info.Types[e]; ok && tv.Value != nil {
		switch tv.Value.Kind() {
		case constant.Int:
			ct, ok := fromGoType(tv.Type)
			if !ok {
				ct = ty{}
			}
			lit := tv.Value.ExactString()
			if ct.w == 0 {
				return lit, ct, nil
			}
			s, err := t.coerce(lit, ty{}, ct)
			return s, ct, err
		case constant.Bool:
			return fmt.Sprint(constant.BoolVal(tv.Value)), ty{bool: true}, nil
		}
	}
	if name, ok := t.spec.Subst[exprText(t.fset, e)]; ok {
		vt, ok := t.vars[name]
		if !ok {
			return "", ty{}, fmt.Errorf("subst target %s is not a parameter", name)
		}
		return name, vt, nil
	}
	switch x := e.(type) {
	case *ast.ParenExpr:
		s, st, err := t.expr(x.X, hint)
		return "(" + s + ")", st, err
	case *ast.Ident:
		if x.Name == "true" || x.Name == "false" {
			return x.Name, ty{bool: true}, nil
		}
		if vt, ok := t.vars[x.Name]; ok {
			return x.Name, vt, nil
		}
		return "", ty{}, fmt.Errorf("unknown identifier %s", x.Name)
	case *ast.BasicLit:
		if x.Kind == token.INT {
			v := constant.MakeFromLiteral(x.Value, token.INT, 0)
			return v.ExactString(), ty{}, nil
		}
		return "", ty{}, fmt.Errorf("unsupported literal %s", x.Value)
	case *ast.UnaryExpr:
		s, st, err := t.expr(x.X, hint)
		if err != nil {
			return "", ty{}, err
		}
		switch x.Op {
		case token.NOT:
			return "(!" + s + ")", st, nil
		case token.XOR:
			if st.w == 0 {
				st = hint
				s, _ = t.coerce(s, ty{}, hint)
			}
			return "(~~~" + s + ")", st, nil
		case token.SUB:
			if st.w == 0 {
				return "-" + s, st, nil
			}
			return "(-" + s + ")", st, nil
		}
		return "", ty{}, fmt.Errorf("unsupported unary %s", x.Op)
	case *ast.BinaryExpr:
		l, lt, err := t.expr(x.X, hint)
		if err != nil {
			return "", ty{}, err
		}
		return t.binary(l, lt, x.Op, x.Y)
	case *ast.CallExpr:
		// type conversion
		if len(x.Args) == 1 {
			var target ty
			ok := false
			if tv, has := t.info.Types[x.Fun]; has && tv.IsType() {
				target, ok = fromGoType(tv.Type)
			}
			if !ok {
				if id, isId := x.Fun.(*ast.Ident); isId {
					switch id.Name {
					case "uint8", "byte":
						target, ok = ty{w: 8}, true
					case "uint16":
						target, ok = ty{w: 16}, true
					case "uint32":
						target, ok = ty{w: 32}, true
					case "uint64", "uint":
						target, ok = ty{w: 64}, true
					case "int32":
						target, ok = ty{w: 32, signed: true}, true
					case "int64", "int":
						target, ok = ty{w: 64, signed: true}, true
					}
				}
			}
			if ok && !target.bool {
				a, at, err := t.expr(x.Args[0], target)
				if err != nil {
					return "", ty{}, err
				}
				if at.bool {
					return "", ty{}, fmt.Errorf("conversion of bool")
				}
				return t.convert(a, at, target), target, nil
			}
		}
		if s, st, hit, err := t.endianRead(x); hit {
			return s, st, err
		}
		return "", ty{}, fmt.Errorf("unsupported call %s", exprText(t.fset, x))
	}
	return "", ty{}, fmt.Errorf("unsupported expression %s", exprText(t.fset, e))
}

func (t *ftr) binary(l string, lt ty, op token.Token, ye ast.Expr) (string, ty, error) {
	if op == token.SHL || op == token.SHR {
		r, rt, err := t.expr(ye, ty{w: 64})
		if err != nil {
			return "", ty{}, err
		}
		amt := r
		if rt.w != 0 {
			amt = fmt.Sprintf("(%s).toNat", r)
		}
		if lt.w == 0 {
			return "", ty{}, fmt.Errorf("shift of untyped constant")
		}
		if op == token.SHL {
			return fmt.Sprintf("(%s <<< (%s : Nat))", l, amt), lt, nil
		}
		if lt.signed {
			return fmt.Sprintf("(BitVec.sshiftRight %s (%s : Nat))", l, amt), lt, nil
		}
		return fmt.Sprintf("(%s >>> (%s : Nat))", l, amt), lt, nil
	}
	r, rt, err := t.expr(ye, lt)
	if err != nil {
		return "", ty{}, err
	}
	if op == token.LAND || op == token.LOR {
		if !lt.bool || !rt.bool {
			return "", ty{}, fmt.Errorf("logical operator on non-bool")
		}
		o := "&&"
		if op == token.LOR {
			o = "||"
		}
		return fmt.Sprintf("(%s %s %s)", l, o, r), ty{bool: true}, nil
	}
	// unify integer types
	ut := lt
	if lt.bool != rt.bool {
		return "", ty{}, fmt.Errorf("bool/int mismatch in binary %s", op)
	}
	if !lt.bool {
		switch {
		case lt.w == 0 && rt.w == 0:
			return "", ty{}, fmt.Errorf("constant expression not folded")
		case lt.w == 0:
			ut = rt
			l, _ = t.coerce(l, lt, rt)
		case rt.w == 0:
			r, _ = t.coerce(r, rt, lt)
		case lt.w != rt.w:
			return "", ty{}, fmt.Errorf("width mismatch %d vs %d", lt.w, rt.w)
		}
	}
	switch op {
	case token.EQL:
		return fmt.Sprintf("(%s == %s)", l, r), ty{bool: true}, nil
	case token.NEQ:
		return fmt.Sprintf("(%s != %s)", l, r), ty{bool: true}, nil
	}
	if lt.bool {
		return "", ty{}, fmt.Errorf("unsupported bool operator %s", op)
	}
	cmp := func(u, s string) (string, ty, error) {
		if ut.signed {
			return fmt.Sprintf("(%s)", fmt.Sprintf(s, l, r)), ty{bool: true}, nil
		}
		return fmt.Sprintf("(%s)", fmt.Sprintf(u, l, r)), ty{bool: true}, nil
	}
	switch op {
	case token.LSS:
		return cmp("BitVec.ult %s %s", "BitVec.slt %s %s")
	case token.LEQ:
		return cmp("BitVec.ule %s %s", "BitVec.sle %s %s")
	case token.GTR:
		return cmp("BitVec.ult %[2]s %[1]s", "BitVec.slt %[2]s %[1]s")
	case token.GEQ:
		return cmp("BitVec.ule %[2]s %[1]s", "BitVec.sle %[2]s %[1]s")
	case token.ADD:
		return fmt.Sprintf("(%s + %s)", l, r), ut, nil
	case token.SUB:
		return fmt.Sprintf("(%s - %s)", l, r), ut, nil
	case token.MUL:
		return fmt.Sprintf("(%s * %s)", l, r), ut, nil
	case token.QUO:
		if ut.signed {
			return fmt.Sprintf("(BitVec.sdiv %s %s)", l, r), ut, nil
		}
		return fmt.Sprintf("(%s / %s)", l, r), ut, nil
	case token.REM:
		if ut.signed {
			return fmt.Sprintf("(BitVec.srem %s %s)", l, r), ut, nil
		}
		return fmt.Sprintf("(%s %% %s)", l, r), ut, nil
	case token.AND:
		return fmt.Sprintf("(%s &&& %s)", l, r), ut, nil
	case token.OR:
		return fmt.Sprintf("(%s ||| %s)", l, r), ut, nil
	case token.XOR:
		return fmt.Sprintf("(%s ^^^ %s)", l, r), ut, nil
	case token.AND_NOT:
		return fmt.Sprintf("(%s &&& ~~~%s)", l, r), ut, nil
	}
	return "", ty{}, fmt.Errorf("unsupported operator %s", op)
}
