// Command translator regenerates the Lean files under lean/Nebula/Gen from the current working tree
// of the nebula repository, and extracts structural facts (facts.json).
//
// It is deliberately small: package-level constants, a short list of straight-line integer/boolean
// functions translated expression by expression to BitVec operations, and structural facts about
// call ordering / lock bracketing. Everything else in the models is hand written and tied to the
// code by the differential correspondence harness.
//
// usage: translator -repo /repo -spec spec.json -out lean/Nebula/Gen -facts facts.json
package main

import (
	"encoding/json"
	"flag"
	"fmt"
	"go/ast"
	"go/constant"
	"go/importer"
	"go/parser"
	"go/token"
	"go/types"
	"os"
	"path/filepath"
	"sort"
	"strings"
)

type ConstSpec struct {
	Module string   `json:"module"` // Lean module (file) under Nebula/Gen
	Dir    string   `json:"dir"`    // package directory relative to the repo root
	Prefix string   `json:"prefix"` // Lean namespace component
	Files  []string `json:"files"`  // optional: restrict to these files
	NoStd  bool     `json:"nostd"`  // optional: do not load standard-library export data (imports become empty packages; enough for iota / literal constants, and avoids one `go list -export` per import)
	// optional: emit the constants declared *inside* function Func ("Name" or "Recv.Name") instead of the
	// package-level ones (e.g. `const maxIPv6ExtHeaders = 8` in a function body)
	Func        string `json:"func"`
	LocalConsts bool   `json:"localconsts"`
	// optional: import paths (third-party, e.g. golang.org/x/net/ipv4) whose *constants* are needed to
	// evaluate this package's constants. They are located in <repo>/vendor or the module cache (version
	// from <repo>/go.mod; `go list` as a last resort), their files selected for linux/amd64 by go/build,
	// and type-checked from source with the same permissive importer (see resolve.go).
	ResolveImports []string `json:"resolve_imports"`
}

// SwitchSpec extracts the constant case lists of a `switch <Tag>` statement inside a function as a Lean
// table `def <Lean> : List (List Nat)` (one inner list per non-default clause, in source order).
type SwitchSpec struct {
	Module string `json:"module"`
	Dir    string `json:"dir"`
	File   string `json:"file"`  // optional: restrict to this file
	Func   string `json:"func"`  // "Name" or "Recv.Name"
	Tag    string `json:"tag"`   // source text of the switch tag expression, e.g. "nextHeader"
	Index  int    `json:"index"` // which of the matching switch statements, in source order (default 0)
	Lean   string `json:"lean"`
}

type FuncSpec struct {
	Module string            `json:"module"`
	Dir    string            `json:"dir"`
	File   string            `json:"file"`
	Func   string            `json:"func"` // "Name" or "Recv.Name"
	Lean   string            `json:"lean"`
	Params []ParamSpec       `json:"params"` // lean parameters in order
	Subst  map[string]string `json:"subst"`  // Go expression text -> lean param name
	Ret    string            `json:"ret"`    // u8,u16,u32,u64,i64,bool
	// opt-in extensions (a spec that does not use them is translated exactly as before):
	Skip    []string `json:"skip"`    // local variables whose defining/assigning statements are dropped (non-integer helpers such as byte slices; every integer use of them must be covered by `subst` or be a parameter of the same name)
	RetVar  string   `json:"retvar"`  // translate the leading statements only, up to and including the first assignment to this variable, and return it
	RetElem *int     `json:"retelem"` // the function returns (the address of) a composite literal: return its i-th element
	// opt-in extensions for arithmetic ties of functions that store into memory (see ties.go); a spec that uses none
	// of them is translated exactly as before:
	RetStore   string   `json:"retstore"`   // source text of a non-identifier assignment target (`h.Version`, `b[0]`, `b.bits[word]`): translate the leading statements up to the first store to it and return the stored value; stores to other memory and call statements before it are dropped. `x[k]` (k a literal) is also matched inside `binary.{Big,Little}Endian.PutUintN(x[lo:hi], v)`
	SkipGuards bool     `json:"skipguards"` // drop `if c { …; return … }` statements without else (early exits): the definition is the value computed when they are passed
	SkipStores bool     `json:"skipstores"` // (implied by retstore) drop statements that only store to memory the translation does not model (non-identifier targets), call a function for its effect, or branch over such statements
	InIf       string   `json:"inif"`       // translate the body of the first `if` statement (or `for cond {}` loop: one iteration) whose condition has this source text as if it were the function body
	RetCond    bool     `json:"retcond"`    // with inif: return that condition itself (ret must be bool)
	OnlyFiles  []string `json:"only_files"` // parse and type-check only these files of the directory (taken whatever their build tags say: needed where the crude build-tag filter hides the file, e.g. `!e2e_testing` in package udp)
	At         string   `json:"at"`         // start at the first statement (source order, any nesting depth, case clauses included) whose source text starts with this prefix; the rest of its statement list follows. Variables written before being declared on this path must be parameters
	StopAt     string   `json:"stopat"`     // with retvar: on reaching a statement whose source text starts with this prefix, return the variable's current value (instead of returning at an assignment to it)
}

type ParamSpec struct {
	Name string `json:"name"`
	Type string `json:"type"`
}

type FactSpec struct {
	ID   string `json:"id"`
	Dir  string `json:"dir"`
	File string `json:"file"`
	Func string `json:"func"`
	Kind string `json:"kind"` // "calls": ordered list of selector calls inside the function
}

type Spec struct {
	Consts []ConstSpec `json:"consts"`
	Funcs  []FuncSpec  `json:"funcs"`
	Facts  []FactSpec  `json:"facts"`
	// optional (added for the pkt engines): switch case tables
	Switches []SwitchSpec `json:"switches"`
}

func main() {
	repo := flag.String("repo", "/repo", "repository root")
	specPath := flag.String("spec", "spec.json", "spec file")
	out := flag.String("out", "", "output directory for Lean files")
	factsOut := flag.String("facts", "", "output file for facts.json")
	flag.Parse()

	raw, err := os.ReadFile(*specPath)
	must(err)
	var spec Spec
	must(json.Unmarshal(raw, &spec))

	must(os.MkdirAll(*out, 0o755))

	// ---- one Lean module per spec "module": constants first, then translated functions
	mods := map[string]*strings.Builder{}
	var order []string
	get := func(m string) *strings.Builder {
		if b, ok := mods[m]; ok {
			return b
		}
		b := &strings.Builder{}
		b.WriteString("/- GENERATED by /verif/translator from the nebula working tree. Do not edit. -/\n")
		b.WriteString("namespace Nebula.Gen\n\n")
		mods[m] = b
		order = append(order, m)
		return b
	}
	for _, cs := range spec.Consts {
		emitConsts(get(cs.Module), *repo, cs)
	}
	for _, ss := range spec.Switches {
		emitSwitch(get(ss.Module), *repo, ss)
	}
	for _, fs := range spec.Funcs {
		fb := get(fs.Module)
		src, err := translateFunc(*repo, fs)
		if err != nil {
			// An untranslatable function is a broken tie, made visible to Lean as a missing definition.
			fmt.Fprintf(fb, "-- UNTRANSLATABLE %s: %v\n\n", fs.Lean, err)
			fmt.Fprintf(os.Stderr, "translator: %s: %v\n", fs.Lean, err)
			continue
		}
		fb.WriteString(src)
		fb.WriteString("\n")
	}
	for _, m := range order {
		b := mods[m]
		b.WriteString("end Nebula.Gen\n")
		path := filepath.Join(*out, m+".lean")
		// keep mtimes stable when nothing changed, so that lake does not rebuild dependents
		if old, err := os.ReadFile(path); err == nil && string(old) == b.String() {
			continue
		}
		must(os.WriteFile(path, []byte(b.String()), 0o644))
	}

	// ---- facts
	facts := map[string]any{}
	for _, f := range spec.Facts {
		v, err := extractFact(*repo, f)
		if err != nil {
			facts[f.ID] = map[string]any{"error": err.Error()}
		} else {
			facts[f.ID] = v
		}
	}
	if *factsOut != "" {
		b, _ := json.MarshalIndent(facts, "", " ")
		must(os.WriteFile(*factsOut, b, 0o644))
	}
}

func must(err error) {
	if err != nil {
		fmt.Fprintln(os.Stderr, "translator:", err)
		os.Exit(2)
	}
}

// ---------------------------------------------------------------------------------------------
// constants

type fakeImporter struct {
	def  types.Importer
	pkgs map[string]*types.Package
	// packages to be type-checked from their real source (ConstSpec.ResolveImports); nil for everyone else
	resolve map[string]bool
	repo    string
}

func (fi *fakeImporter) Import(path string) (*types.Package, error) {
	if p, ok := fi.pkgs[path]; ok {
		return p, nil
	}
	if fi.resolve[path] {
		if p, err := fi.resolveFromSource(path); err == nil {
			fi.pkgs[path] = p
			return p, nil
		} else {
			fmt.Fprintf(os.Stderr, "translator: resolve_imports %s: %v (falling back to an empty package)\n", path, err)
		}
	}
	// Standard library packages come from export data / source; anything else is an empty package
	// (errors about missing members are ignored: only constants that can be evaluated are emitted).
	if fi.def != nil && !strings.Contains(path, ".") {
		if p, err := fi.def.Import(path); err == nil {
			fi.pkgs[path] = p
			return p, nil
		}
	}
	name := path[strings.LastIndex(path, "/")+1:]
	p := types.NewPackage(path, name)
	p.MarkComplete()
	fi.pkgs[path] = p
	return p, nil
}

func parseDir(repo, dir string, only []string) (*token.FileSet, []*ast.File, error) {
	fset := token.NewFileSet()
	ents, err := os.ReadDir(filepath.Join(repo, dir))
	if err != nil {
		return nil, nil, err
	}
	var files []*ast.File
	for _, e := range ents {
		n := e.Name()
		if e.IsDir() || !strings.HasSuffix(n, ".go") || strings.HasSuffix(n, "_test.go") {
			continue
		}
		if len(only) > 0 {
			ok := false
			for _, o := range only {
				if o == n {
					ok = true
				}
			}
			if !ok {
				continue
			}
		} else {
			// skip other platforms
			skip := false
			for _, suf := range []string{"_windows", "_darwin", "_freebsd", "_openbsd", "_netbsd", "_android", "_ios", "_bsd", "_arm64", "_generic", "_tester"} {
				if strings.HasSuffix(strings.TrimSuffix(n, ".go"), suf) {
					skip = true
				}
			}
			if skip {
				continue
			}
		}
		f, err := parser.ParseFile(fset, filepath.Join(repo, dir, n), nil, parser.ParseComments)
		if err != nil {
			return nil, nil, err
		}
		// honour //go:build lines mentioning verif / e2e_testing / other OSes in a crude way
		// (files named explicitly in the spec are always taken: the crude test below also rejects
		// `!e2e_testing`, which would hide every linux-only file of package udp)
		if len(only) == 0 && hasExcludedBuildTag(f) {
			continue
		}
		files = append(files, f)
	}
	return fset, files, nil
}

func hasExcludedBuildTag(f *ast.File) bool {
	for _, cg := range f.Comments {
		if cg.Pos() > f.Package {
			break
		}
		for _, c := range cg.List {
			if strings.HasPrefix(c.Text, "//go:build") {
				t := c.Text
				if strings.Contains(t, "verif") || strings.Contains(t, "e2e_testing") || strings.Contains(t, "ignore") {
					return true
				}
				if (strings.Contains(t, "windows") || strings.Contains(t, "darwin") || strings.Contains(t, "bsd") || strings.Contains(t, "fips140v1.0")) && !strings.Contains(t, "!") && !strings.Contains(t, "linux") {
					return true
				}
				if strings.Contains(t, "!linux") || strings.Contains(t, "!amd64") {
					return true
				}
			}
		}
	}
	return false
}

func leanIdent(s string) string {
	return strings.ReplaceAll(s, ".", "_")
}

func emitConsts(b *strings.Builder, repo string, cs ConstSpec) {
	fset, files, err := parseDir(repo, cs.Dir, cs.Files)
	if err != nil {
		fmt.Fprintf(b, "-- ERROR reading %s: %v\n", cs.Dir, err)
		return
	}
	var def types.Importer
	if !cs.NoStd {
		def = importer.Default()
	}
	fi := &fakeImporter{def: def, pkgs: map[string]*types.Package{}}
	if len(cs.ResolveImports) > 0 {
		fi.repo = repo
		fi.resolve = map[string]bool{}
		for _, p := range cs.ResolveImports {
			fi.resolve[p] = true
		}
	}
	conf := types.Config{
		Importer: fi,
		Error:    func(error) {},
	}
	info := &types.Info{Defs: map[*ast.Ident]types.Object{}}
	pkg, _ := conf.Check(cs.Dir, fset, files, info)
	if pkg == nil {
		fmt.Fprintf(b, "-- ERROR type-checking %s\n", cs.Dir)
		return
	}
	if cs.LocalConsts {
		emitLocalConsts(b, fset, files, info, cs)
		return
	}
	scope := pkg.Scope()
	names := scope.Names()
	sort.Strings(names)
	fmt.Fprintf(b, "-- package %s\n", cs.Dir)
	for _, n := range names {
		c, ok := scope.Lookup(n).(*types.Const)
		if !ok || n == "_" {
			continue
		}
		emitConst(b, cs.Prefix, n, c)
	}
	b.WriteString("\n")
}

func emitConst(b *strings.Builder, prefix, n string, c *types.Const) {
	v := c.Val()
	name := leanIdent(prefix + "." + n)
	switch v.Kind() {
	case constant.Int:
		s := v.ExactString()
		if strings.HasPrefix(s, "-") {
			fmt.Fprintf(b, "def %s : Int := %s\n", name, s)
		} else {
			fmt.Fprintf(b, "def %s : Nat := %s\n", name, s)
		}
	case constant.Bool:
		fmt.Fprintf(b, "def %s : Bool := %v\n", name, constant.BoolVal(v))
	case constant.String:
		fmt.Fprintf(b, "def %s : String := %s\n", name, leanString(constant.StringVal(v)))
	}
}

func leanString(s string) string {
	var b strings.Builder
	b.WriteByte('"')
	for _, r := range s {
		switch {
		case r == '"':
			b.WriteString("\\\"")
		case r == '\\':
			b.WriteString("\\\\")
		case r == '\n':
			b.WriteString("\\n")
		case r == '\t':
			b.WriteString("\\t")
		case r < 0x20 || r == 0x7f:
			fmt.Fprintf(&b, "\\x%02x", r)
		default:
			b.WriteRune(r)
		}
	}
	b.WriteByte('"')
	return b.String()
}
