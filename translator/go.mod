module verif/translator

go 1.26.0
