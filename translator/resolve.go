package main

// Extensions added for the pkt engines (all opt-in through new spec fields; a spec that does not use
// them is translated exactly as before):
//
//   - ConstSpec.LocalConsts / Func : constants declared inside a function body
//   - ConstSpec.ResolveImports     : third-party packages whose constants are needed, type-checked from source
//   - Spec.Switches                : constant case lists of a switch statement as a Lean table
//
// (named results of translated functions are handled in funcs.go)

import (
	"fmt"
	"go/ast"
	"go/build"
	"go/constant"
	"go/parser"
	"go/token"
	"go/types"
	"os"
	"os/exec"
	"path/filepath"
	"sort"
	"strings"
)

// findFunc returns the declaration of "Name" or "Recv.Name".
func findFunc(fset *token.FileSet, files []*ast.File, fn string) *ast.FuncDecl {
	recv, name := "", fn
	if i := strings.Index(fn, "."); i >= 0 {
		recv, name = fn[:i], fn[i+1:]
	}
	for _, f := range files {
		for _, d := range f.Decls {
			x, ok := d.(*ast.FuncDecl)
			if !ok || x.Name.Name != name || x.Body == nil {
				continue
			}
			r := ""
			if x.Recv != nil && len(x.Recv.List) > 0 {
				r = strings.TrimPrefix(exprText(fset, x.Recv.List[0].Type), "*")
				if i := strings.Index(r, "["); i >= 0 {
					r = r[:i]
				}
			}
			if r == recv {
				return x
			}
		}
	}
	return nil
}

// emitLocalConsts writes the constants declared inside the body of cs.Func (at any nesting depth,
// function literals excluded), sorted by name.
func emitLocalConsts(b *strings.Builder, fset *token.FileSet, files []*ast.File, info *types.Info, cs ConstSpec) {
	fd := findFunc(fset, files, cs.Func)
	if fd == nil {
		fmt.Fprintf(b, "-- ERROR function %s not found in %s\n\n", cs.Func, cs.Dir)
		fmt.Fprintf(os.Stderr, "translator: localconsts: function %s not found in %s\n", cs.Func, cs.Dir)
		return
	}
	found := map[string]*types.Const{}
	ast.Inspect(fd.Body, func(n ast.Node) bool {
		switch x := n.(type) {
		case *ast.FuncLit:
			return false
		case *ast.GenDecl:
			if x.Tok != token.CONST {
				return true
			}
			for _, sp := range x.Specs {
				for _, id := range sp.(*ast.ValueSpec).Names {
					if c, ok := info.Defs[id].(*types.Const); ok && id.Name != "_" {
						if _, dup := found[id.Name]; !dup {
							found[id.Name] = c
						}
					}
				}
			}
		}
		return true
	})
	names := make([]string, 0, len(found))
	for n := range found {
		names = append(names, n)
	}
	sort.Strings(names)
	fmt.Fprintf(b, "-- constants local to %s (package %s)\n", cs.Func, cs.Dir)
	for _, n := range names {
		emitConst(b, cs.Prefix, n, found[n])
	}
	b.WriteString("\n")
}

// emitSwitch writes the case table of one switch statement.
func emitSwitch(b *strings.Builder, repo string, ss SwitchSpec) {
	fail := func(format string, a ...any) {
		msg := fmt.Sprintf(format, a...)
		fmt.Fprintf(b, "-- UNTRANSLATABLE %s: %s\n\n", ss.Lean, msg)
		fmt.Fprintf(os.Stderr, "translator: %s: %s\n", ss.Lean, msg)
	}
	var only []string
	if ss.File != "" {
		only = []string{ss.File}
	}
	fset, files, err := parseDir(repo, ss.Dir, only)
	if err != nil {
		fail("%v", err)
		return
	}
	conf := types.Config{
		Importer: &fakeImporter{pkgs: map[string]*types.Package{}},
		Error:    func(error) {},
	}
	info := &types.Info{Types: map[ast.Expr]types.TypeAndValue{}}
	conf.Check(ss.Dir, fset, files, info)
	fd := findFunc(fset, files, ss.Func)
	if fd == nil {
		fail("function %s not found in %s", ss.Func, ss.Dir)
		return
	}
	var matches []*ast.SwitchStmt
	ast.Inspect(fd.Body, func(n ast.Node) bool {
		if sw, ok := n.(*ast.SwitchStmt); ok && sw.Tag != nil && exprText(fset, sw.Tag) == ss.Tag {
			matches = append(matches, sw)
		}
		return true
	})
	if ss.Index >= len(matches) {
		fail("switch %s #%d not found in %s (%d matching)", ss.Tag, ss.Index, ss.Func, len(matches))
		return
	}
	var rows []string
	for _, c := range matches[ss.Index].Body.List {
		cc := c.(*ast.CaseClause)
		if cc.List == nil {
			continue // default
		}
		var vals []string
		for _, e := range cc.List {
			tv, ok := info.Types[e]
			if !ok || tv.Value == nil || tv.Value.Kind() != constant.Int || constant.Sign(tv.Value) < 0 {
				fail("case expression %s is not a non-negative integer constant", exprText(fset, e))
				return
			}
			vals = append(vals, tv.Value.ExactString())
		}
		rows = append(rows, "["+strings.Join(vals, ", ")+"]")
	}
	fmt.Fprintf(b, "/-- case lists of `switch %s` #%d in `%s` (%s), in source order, default clause omitted -/\n", ss.Tag, ss.Index, ss.Func, ss.Dir)
	fmt.Fprintf(b, "def %s : List (List Nat) := [%s]\n\n", ss.Lean, strings.Join(rows, ", "))
}

// ---------------------------------------------------------------------------------------------
// third-party imports from source

// modCacheEscape applies the module cache's case escaping (upper-case letter -> '!' + lower-case).
func modCacheEscape(s string) string {
	var b strings.Builder
	for _, r := range s {
		if r >= 'A' && r <= 'Z' {
			b.WriteByte('!')
			b.WriteRune(r + ('a' - 'A'))
		} else {
			b.WriteRune(r)
		}
	}
	return b.String()
}

// goModRequires parses the `require` directives of a go.mod (module path -> version).
func goModRequires(path string) map[string]string {
	out := map[string]string{}
	raw, err := os.ReadFile(path)
	if err != nil {
		return out
	}
	inBlock := false
	for _, line := range strings.Split(string(raw), "\n") {
		if i := strings.Index(line, "//"); i >= 0 {
			line = line[:i]
		}
		f := strings.Fields(line)
		switch {
		case len(f) >= 2 && f[0] == "require" && f[1] == "(":
			inBlock = true
		case inBlock && len(f) >= 1 && f[0] == ")":
			inBlock = false
		case inBlock && len(f) >= 2:
			out[f[0]] = f[1]
		case len(f) >= 3 && f[0] == "require":
			out[f[1]] = f[2]
		}
	}
	return out
}

// findPkgDir locates the source directory of an import path as the repository would build it.
func findPkgDir(repo, path string) (string, error) {
	isDir := func(d string) bool {
		st, err := os.Stat(d)
		return err == nil && st.IsDir()
	}
	if d := filepath.Join(repo, "vendor", filepath.FromSlash(path)); isDir(d) {
		return d, nil
	}
	// module cache, version from go.mod (longest module path that is a prefix of the import path)
	best, ver := "", ""
	for m, v := range goModRequires(filepath.Join(repo, "go.mod")) {
		if (path == m || strings.HasPrefix(path, m+"/")) && len(m) > len(best) {
			best, ver = m, v
		}
	}
	if best != "" {
		var caches []string
		if c := os.Getenv("GOMODCACHE"); c != "" {
			caches = append(caches, c)
		}
		if gp := os.Getenv("GOPATH"); gp != "" {
			caches = append(caches, filepath.Join(filepath.SplitList(gp)[0], "pkg", "mod"))
		}
		if h, err := os.UserHomeDir(); err == nil {
			caches = append(caches, filepath.Join(h, "go", "pkg", "mod"))
		}
		for _, c := range caches {
			d := filepath.Join(c, filepath.FromSlash(modCacheEscape(best))+"@"+ver, filepath.FromSlash(strings.TrimPrefix(path, best)))
			if isDir(d) {
				return d, nil
			}
		}
	}
	// last resort: ask the go command (offline; one process)
	cmd := exec.Command("go", "list", "-f", "{{.Dir}}", path)
	cmd.Dir = repo
	cmd.Env = append(os.Environ(), "GOFLAGS=-mod=mod", "GOPROXY=off")
	out, err := cmd.Output()
	if d := strings.TrimSpace(string(out)); err == nil && isDir(d) {
		return d, nil
	}
	return "", fmt.Errorf("package directory not found (vendor, module cache, go list)")
}

// resolveFromSource type-checks the non-test files of an imported package that go/build selects for
// linux/amd64 (without cgo), with the same permissive importer: enough to evaluate its constants.
func (fi *fakeImporter) resolveFromSource(path string) (*types.Package, error) {
	dir, err := findPkgDir(fi.repo, path)
	if err != nil {
		return nil, err
	}
	ctx := build.Default
	ctx.GOOS, ctx.GOARCH, ctx.CgoEnabled = "linux", "amd64", false
	ents, err := os.ReadDir(dir)
	if err != nil {
		return nil, err
	}
	fset := token.NewFileSet()
	var files []*ast.File
	for _, e := range ents {
		n := e.Name()
		if e.IsDir() || !strings.HasSuffix(n, ".go") || strings.HasSuffix(n, "_test.go") {
			continue
		}
		if ok, err := ctx.MatchFile(dir, n); err != nil || !ok {
			continue
		}
		f, err := parser.ParseFile(fset, filepath.Join(dir, n), nil, parser.SkipObjectResolution)
		if err != nil {
			return nil, err
		}
		files = append(files, f)
	}
	if len(files) == 0 {
		return nil, fmt.Errorf("no Go files for linux/amd64 in %s", dir)
	}
	// mark as in progress so that an import cycle through the permissive importer terminates
	placeholder := types.NewPackage(path, files[0].Name.Name)
	fi.pkgs[path] = placeholder
	conf := types.Config{Importer: fi, Error: func(error) {}, IgnoreFuncBodies: true}
	pkg, _ := conf.Check(path, fset, files, nil)
	delete(fi.pkgs, path)
	if pkg == nil {
		return nil, fmt.Errorf("type-checking %s failed", dir)
	}
	return pkg, nil
}
